(* Lemmas about the abstract file system: prefixes, subtree exchange, tree-shape invariant. *)
From stdpp Require Import gmap list.
From Coq Require Import NArith Lia.
From RopeVerif.Lib Require Import Text.
From RopeVerif.C10 Require Import FsModel.

(* ------------------------------------------------------------------------------ strip / prefix *)
Lemma strip_spec p k r : strip p k = Some r <-> k = p ++ r.
Proof.
  revert k; induction p as [|x p IH]; intros k; cbn.
  - split; congruence.
  - destruct k as [|y k]; [split; discriminate|].
    destruct (N.eqb_spec x y) as [->|Hne].
    + rewrite IH. split; [intros ->; reflexivity|intros H; injection H; auto].
    + split; [discriminate|intros H; injection H; congruence].
Qed.

Lemma strip_app p r : strip p (p ++ r) = Some r.
Proof. apply strip_spec; reflexivity. Qed.

Lemma strip_None p k : strip p k = None <-> forall r, k <> p ++ r.
Proof.
  split.
  - intros H r Hk. apply strip_spec in Hk. congruence.
  - intros H. destruct (strip p k) as [r|] eqn:E; [|reflexivity].
    apply strip_spec in E. destruct (H r E).
Qed.

Lemma is_prefix_spec p k : is_prefix p k = true <-> exists r, k = p ++ r.
Proof.
  unfold is_prefix. destruct (strip p k) as [r|] eqn:E.
  - apply strip_spec in E. split; eauto.
  - split; [discriminate|]. intros [r Hr]. apply strip_spec in Hr. congruence.
Qed.

Lemma is_prefix_false p k : is_prefix p k = false <-> forall r, k <> p ++ r.
Proof.
  unfold is_prefix. destruct (strip p k) as [r|] eqn:E.
  - apply strip_spec in E. split; [discriminate|]. intros H. destruct (H r E).
  - split; [|reflexivity]. intros _. apply strip_None; exact E.
Qed.

Lemma is_prefix_refl p : is_prefix p p = true.
Proof. apply is_prefix_spec. exists []. rewrite app_nil_r; reflexivity. Qed.

Lemma is_prefix_app p r : is_prefix p (p ++ r) = true.
Proof. apply is_prefix_spec; eauto. Qed.

Lemma is_prefix_trans p q k : is_prefix p q = true -> is_prefix q k = true -> is_prefix p k = true.
Proof.
  rewrite !is_prefix_spec. intros [r ->] [r' ->]. exists (r ++ r'). rewrite app_assoc; reflexivity.
Qed.

Lemma is_prefix_nil k : is_prefix [] k = true.
Proof. reflexivity. Qed.

(* two prefixes of one path are comparable *)
Lemma prefix_comparable p q k :
  is_prefix p k = true -> is_prefix q k = true -> is_prefix p q = true \/ is_prefix q p = true.
Proof.
  rewrite !is_prefix_spec. intros [r1 ->] [r2 H].
  apply app_eq_app in H. destruct H as [l [[-> _]|[-> _]]]; eauto.
Qed.

Lemma is_prefix_antisym p q : is_prefix p q = true -> is_prefix q p = true -> p = q.
Proof.
  rewrite !is_prefix_spec. intros [r ->] [r' H].
  rewrite <- app_assoc in H. rewrite <- (app_nil_r p) in H at 1.
  apply app_inv_head in H. symmetry in H. apply app_eq_nil in H. destruct H as [-> _].
  rewrite app_nil_r; reflexivity.
Qed.

Lemma text_eqb_true (a b : list N) : text_eqb a b = true <-> a = b.
Proof. apply text_eqb_eq. Qed.

Lemma text_eqb_false (a b : list N) : text_eqb a b = false <-> a <> b.
Proof. destruct (text_eqb_spec a b); split; congruence. Qed.

(* ------------------------------------------------------------------------------------- parent *)
Lemma parent_snoc p x : parent (p ++ [x]) = p.
Proof. unfold parent. apply removelast_last. Qed.

Lemma parent_split p : p <> [] -> exists x, p = parent p ++ [x].
Proof. intros H. exists (List.last p 0%N). unfold parent. apply app_removelast_last; exact H. Qed.

Lemma parent_app p r : r <> [] -> parent (p ++ r) = p ++ parent r.
Proof. intros H. unfold parent. apply removelast_app; exact H. Qed.

Lemma is_prefix_parent p : is_prefix (parent p) p = true.
Proof.
  destruct p as [|x p]; [reflexivity|].
  destruct (parent_split (x :: p)) as [y Hy]; [discriminate|].
  rewrite Hy at 2. apply is_prefix_app.
Qed.

(* a proper descendant of q has its parent below (or equal to) q *)
Lemma is_prefix_parent_of q k : is_prefix q k = true -> k <> q -> is_prefix q (parent k) = true.
Proof.
  rewrite !is_prefix_spec. intros [r ->] Hne.
  destruct r as [|x r]; [rewrite app_nil_r in Hne; congruence|].
  exists (parent (x :: r)). apply parent_app; discriminate.
Qed.

Lemma parent_neq p : p <> [] -> parent p <> p.
Proof.
  intros H E. destruct (parent_split p H) as [x Hx]. rewrite E in Hx.
  rewrite <- (app_nil_r p) in Hx at 1. apply app_inv_head in Hx. discriminate.
Qed.

(* -------------------------------------------------------------------------------------- swapf *)
Lemma nested_false p q : nested p q = false -> is_prefix p q = false /\ is_prefix q p = false.
Proof. unfold nested. apply orb_false_elim. Qed.

Lemma nested_sym p q : nested p q = nested q p.
Proof. unfold nested. apply orb_comm. Qed.

Lemma swapf_under_p p q r : nested p q = false -> swapf p q (p ++ r) = q ++ r.
Proof. intros H. unfold swapf. rewrite H, strip_app. reflexivity. Qed.

Lemma strip_disjoint p q r : nested p q = false -> strip p (q ++ r) = None.
Proof.
  intros H. apply nested_false in H. destruct H as [H1 H2].
  apply strip_None. intros r' E.
  destruct (prefix_comparable p q (q ++ r)) as [C|C]; try congruence.
  - apply is_prefix_spec; eauto.
  - apply is_prefix_app.
Qed.

Lemma swapf_under_q p q r : nested p q = false -> swapf p q (q ++ r) = p ++ r.
Proof.
  intros H. unfold swapf. rewrite H, (strip_disjoint p q r H), strip_app. reflexivity.
Qed.

Lemma swapf_other p q k :
  is_prefix p k = false -> is_prefix q k = false -> swapf p q k = k.
Proof.
  unfold swapf, is_prefix. destruct (nested p q); [reflexivity|].
  destruct (strip p k); [discriminate|]. destruct (strip q k); [discriminate|]. reflexivity.
Qed.

Lemma swapf_cases p q k :
  nested p q = false ->
  (exists r, k = p ++ r /\ swapf p q k = q ++ r) \/
  (exists r, k = q ++ r /\ swapf p q k = p ++ r) \/
  (is_prefix p k = false /\ is_prefix q k = false /\ swapf p q k = k).
Proof.
  intros H. destruct (is_prefix p k) eqn:Ep.
  - apply is_prefix_spec in Ep. destruct Ep as [r ->]. left. exists r. split; [reflexivity|].
    apply swapf_under_p; exact H.
  - destruct (is_prefix q k) eqn:Eq.
    + apply is_prefix_spec in Eq. destruct Eq as [r ->]. right; left. exists r. split; [reflexivity|].
      apply swapf_under_q; exact H.
    + right; right. split; [reflexivity|]. split; [reflexivity|]. apply swapf_other; assumption.
Qed.

Lemma swapf_invol p q k : swapf p q (swapf p q k) = k.
Proof.
  destruct (nested p q) eqn:H; [unfold swapf; rewrite H; reflexivity|].
  destruct (swapf_cases p q k H) as [[r [-> ->]]|[[r [-> ->]]|[H1 [H2 ->]]]].
  - apply swapf_under_q; exact H.
  - apply swapf_under_p; exact H.
  - apply swapf_other; assumption.
Qed.

Global Instance swapf_inj p q : Inj (=) (=) (swapf p q).
Proof. intros a b H. rewrite <- (swapf_invol p q a), H. apply swapf_invol. Qed.

Lemma swapf_sym p q k : swapf p q k = swapf q p k.
Proof.
  destruct (nested p q) eqn:H.
  - unfold swapf. rewrite H. rewrite nested_sym in H. rewrite H. reflexivity.
  - assert (H' := H). rewrite nested_sym in H'.
    destruct (swapf_cases p q k H) as [[r [-> ->]]|[[r [-> ->]]|[H1 [H2 ->]]]].
    + symmetry. apply swapf_under_q; exact H'.
    + symmetry. apply swapf_under_p; exact H'.
    + symmetry. apply swapf_other; assumption.
Qed.

Lemma lookup_move_tree (p q : list N) (m : fs) (k : list N) : move_tree p q m !! k = m !! swapf p q k.
Proof.
  unfold move_tree. rewrite <- (swapf_invol p q k) at 1. apply lookup_kmap. apply swapf_inj.
Qed.

Lemma move_tree_invol (p q : list N) (m : fs) : move_tree p q (move_tree p q m) = m.
Proof. apply map_eq. intros k. rewrite !lookup_move_tree, swapf_invol. reflexivity. Qed.

Lemma move_tree_sym (p q : list N) (m : fs) : move_tree p q m = move_tree q p m.
Proof. apply map_eq. intros k. rewrite !lookup_move_tree, swapf_sym. reflexivity. Qed.

(* ---------------------------------------------------------------------------- exists / is_dir *)
Lemma is_dir_exists (m : fs) p : is_dir m p = true -> exists_b m p = true.
Proof.
  unfold is_dir, exists_b. destruct p; [reflexivity|]. destruct (m !! _) as [[|]|]; congruence.
Qed.

Lemma exists_b_false (m : fs) p : exists_b m p = false -> p <> [] /\ m !! p = None.
Proof.
  unfold exists_b. destruct p; [discriminate|]. destruct (m !! _); [discriminate|]. split; [discriminate|reflexivity].
Qed.

Lemma exists_b_lookup (m : fs) p n : m !! p = Some n -> exists_b m p = true.
Proof. intros H. unfold exists_b. destruct p; [reflexivity|]. rewrite H. reflexivity. Qed.

Lemma is_dir_lookup (m : fs) p : p <> [] -> is_dir m p = true -> m !! p = Some Dir.
Proof.
  unfold is_dir. destruct p; [congruence|]. intros _. destruct (m !! _) as [[|]|]; congruence.
Qed.

Lemma is_dir_ext (m m' : fs) p : m' !! p = m !! p -> is_dir m' p = is_dir m p.
Proof. intros H. unfold is_dir. rewrite H. reflexivity. Qed.

(* ------------------------------------------------------------------------------- tree shape *)
Lemma wf_fsb_sound (m : fs) : wf_fsb m = true -> wf_fs m.
Proof.
  unfold wf_fsb, wf_fs. rewrite forallb_forall. intros H p n Hp.
  apply elem_of_map_to_list in Hp. apply elem_of_list_In in Hp.
  specialize (H _ Hp). cbn in H. apply andb_true_iff in H. destruct H as [H1 H2].
  split; [|exact H2]. destruct p; [discriminate|discriminate].
Qed.

Lemma wf_fs_empty : wf_fs ∅.
Proof. intros p n H. rewrite lookup_empty in H. discriminate. Qed.

(* below a missing path nothing exists *)
Lemma wf_no_orphans (m : fs) p :
  wf_fs m -> p <> [] -> m !! p = None -> forall k, is_prefix p k = true -> m !! k = None.
Proof.
  intros Hwf Hp Hnone k Hk. apply is_prefix_spec in Hk. destruct Hk as [r ->].
  induction r as [|x r IH] using rev_ind.
  - rewrite app_nil_r. exact Hnone.
  - destruct (m !! (p ++ r ++ [x])) as [n|] eqn:E; [|reflexivity].
    destruct (Hwf _ _ E) as [_ Hd]. rewrite app_assoc, parent_snoc in Hd.
    apply is_dir_lookup in Hd; [congruence|].
    destruct p; [congruence|discriminate].
Qed.

(* below a file nothing exists *)
Lemma wf_file_leaf (m : fs) p c :
  wf_fs m -> m !! p = Some (File c) -> forall k, is_prefix p k = true -> k <> p -> m !! k = None.
Proof.
  intros Hwf Hp k Hk Hne. apply is_prefix_spec in Hk. destruct Hk as [r ->].
  assert (Hp0 : p <> []) by (destruct (Hwf _ _ Hp); assumption).
  induction r as [|x r IH] using rev_ind.
  - rewrite app_nil_r in Hne. congruence.
  - destruct (m !! (p ++ r ++ [x])) as [n|] eqn:E; [|reflexivity].
    destruct (Hwf _ _ E) as [_ Hd]. rewrite app_assoc, parent_snoc in Hd.
    destruct r as [|y r] using rev_ind.
    + rewrite app_nil_r in Hd. apply is_dir_lookup in Hd; congruence.
    + clear IHr. assert (Hn : m !! (p ++ r ++ [y]) = None).
      { apply IH. intros E'. rewrite <- (app_nil_r p) in E' at 2. apply app_inv_head in E'.
        destruct r; discriminate. }
      apply is_dir_lookup in Hd; [congruence|]. destruct p; [congruence|discriminate].
Qed.

Lemma has_children_false (m : fs) p :
  has_children m p = false <-> forall k, is_prefix p k = true -> k <> p -> m !! k = None.
Proof.
  unfold has_children. split.
  - intros H k Hk Hne. destruct (m !! k) as [n|] eqn:E; [|reflexivity].
    apply elem_of_map_to_list in E. apply elem_of_list_In in E.
    assert (Hex : existsb (fun kv => is_prefix p (fst kv) && negb (text_eqb p (fst kv))) (map_to_list m) = true).
    { apply existsb_exists. exists (k, n). split; [exact E|]. cbn. rewrite Hk. cbn.
      apply negb_true_iff. apply text_eqb_false. congruence. }
    congruence.
  - intros H. destruct (existsb _ _) eqn:E; [|reflexivity].
    apply existsb_exists in E. destruct E as [[k n] [Hin Hc]]. cbn in Hc.
    apply andb_true_iff in Hc. destruct Hc as [Hk Hne]. apply negb_true_iff, text_eqb_false in Hne.
    apply elem_of_list_In, elem_of_map_to_list in Hin.
    rewrite (H k Hk) in Hin; [discriminate|congruence].
Qed.

(* inserting a node: allowed anywhere below an existing folder, unless a folder is replaced by a file *)
Lemma wf_fs_insert (m : fs) p n :
  wf_fs m -> p <> [] -> is_dir m (parent p) = true ->
  (m !! p = Some Dir -> n = Dir) ->
  wf_fs (<[p := n]> m).
Proof.
  intros Hwf Hp Hd Hkeep k nk Hk.
  assert (Hdir : forall j, is_dir m j = true -> is_dir (<[p := n]> m) j = true).
  { intros j Hj. unfold is_dir in *. destruct j as [|y j]; [reflexivity|].
    destruct (decide (p = y :: j)) as [->|Hne].
    - rewrite lookup_insert. destruct (m !! (y :: j)) as [[|]|] eqn:E; try discriminate.
      rewrite (Hkeep eq_refl). reflexivity.
    - rewrite lookup_insert_ne by exact Hne. exact Hj. }
  destruct (decide (p = k)) as [->|Hne].
  - split; [exact Hp|]. apply Hdir; exact Hd.
  - rewrite lookup_insert_ne in Hk by exact Hne. destruct (Hwf _ _ Hk) as [H1 H2].
    split; [exact H1|]. apply Hdir; exact H2.
Qed.

Lemma remove_tree_lookup (p : list N) (m : fs) (k : list N) :
  remove_tree p m !! k = if is_prefix p k then None else m !! k.
Proof.
  unfold remove_tree. destruct (is_prefix p k) eqn:E.
  - apply map_filter_lookup_None. right. intros n _. cbn. congruence.
  - destruct (m !! k) as [n|] eqn:Ek.
    + apply map_filter_lookup_Some. split; [exact Ek|exact E].
    + apply map_filter_lookup_None. left; exact Ek.
Qed.

Lemma wf_fs_remove_tree (m : fs) p : wf_fs m -> p <> [] -> wf_fs (remove_tree p m).
Proof.
  intros Hwf Hp k n Hk. rewrite remove_tree_lookup in Hk.
  destruct (is_prefix p k) eqn:E; [discriminate|].
  destruct (Hwf _ _ Hk) as [H1 H2]. split; [exact H1|].
  rewrite (is_dir_ext m); [exact H2|]. rewrite remove_tree_lookup.
  destruct (is_prefix p (parent k)) eqn:E'; [|reflexivity].
  rewrite (is_prefix_trans p (parent k) k E' (is_prefix_parent k)) in E. discriminate.
Qed.

Lemma remove_tree_fresh (m : fs) p n :
  wf_fs m -> p <> [] -> m !! p = None -> remove_tree p (<[p := n]> m) = m.
Proof.
  intros Hwf Hp Hnone. apply map_eq. intros k. rewrite remove_tree_lookup.
  destruct (is_prefix p k) eqn:E.
  - symmetry. eapply wf_no_orphans; eauto.
  - apply lookup_insert_ne. intros ->. rewrite is_prefix_refl in E. discriminate.
Qed.

Lemma remove_tree_childless (m : fs) p :
  has_children m p = false -> remove_tree p m = delete p m.
Proof.
  intros H. apply map_eq. intros k. rewrite remove_tree_lookup.
  destruct (decide (k = p)) as [->|Hne].
  - rewrite is_prefix_refl, lookup_delete. reflexivity.
  - rewrite lookup_delete_ne by congruence.
    destruct (is_prefix p k) eqn:E; [|reflexivity].
    symmetry. apply (proj1 (has_children_false m p) H); assumption.
Qed.

(* deleting a node that has nothing below it *)
Lemma wf_fs_delete (m : fs) p :
  wf_fs m -> (forall k, is_prefix p k = true -> k <> p -> m !! k = None) -> wf_fs (delete p m).
Proof.
  intros Hwf Hch k n Hk.
  destruct (decide (k = p)) as [->|Hne]; [rewrite lookup_delete in Hk; discriminate|].
  rewrite lookup_delete_ne in Hk by congruence.
  destruct (Hwf _ _ Hk) as [H1 H2]. split; [exact H1|].
  rewrite (is_dir_ext m); [exact H2|]. apply lookup_delete_ne.
  intros E. rewrite (Hch k) in Hk; [discriminate| |exact Hne].
  rewrite E. apply is_prefix_parent.
Qed.

(* ---------------------------------------------------------------------------------- moves *)
(* what a compensable move needs (cf. Change.simple_move) *)
Definition movable (p q : path) (m : fs) : Prop :=
  p <> [] /\ q <> [] /\ is_Some (m !! p) /\ m !! q = None /\ is_dir m (parent q) = true
  /\ is_prefix p q = false.

Lemma movable_not_nested (m : fs) p q : wf_fs m -> movable p q m -> nested p q = false.
Proof.
  intros Hwf (Hp & Hq & [n Hn] & Hnone & Hd & Hpq). unfold nested. rewrite Hpq. cbn.
  destruct (is_prefix q p) eqn:E; [|reflexivity].
  rewrite (wf_no_orphans m q Hwf Hq Hnone p E) in Hn. discriminate.
Qed.

Lemma move_lookup_src (m : fs) p q : nested p q = false -> move_tree p q m !! q = m !! p.
Proof.
  intros H. rewrite lookup_move_tree.
  pose proof (swapf_under_q p q [] H) as E. rewrite !app_nil_r in E. rewrite E. reflexivity.
Qed.

Lemma move_lookup_dst (m : fs) p q : nested p q = false -> move_tree p q m !! p = m !! q.
Proof.
  intros H. rewrite lookup_move_tree.
  pose proof (swapf_under_p p q [] H) as E. rewrite !app_nil_r in E. rewrite E. reflexivity.
Qed.

(* a path that is neither below p nor below q keeps its node *)
Lemma move_lookup_other (m : fs) p q k :
  is_prefix p k = false -> is_prefix q k = false -> move_tree p q m !! k = m !! k.
Proof. intros H1 H2. rewrite lookup_move_tree, swapf_other by assumption. reflexivity. Qed.

Lemma parent_not_below (p k : path) : k <> [] -> is_prefix k (parent k) = false.
Proof.
  intros Hk. destruct (is_prefix k (parent k)) eqn:E; [|reflexivity].
  pose proof (is_prefix_antisym _ _ E (is_prefix_parent k)) as H.
  symmetry in H. destruct (parent_neq k Hk H).
Qed.

Lemma wf_fs_move_tree (m : fs) p q : wf_fs m -> movable p q m -> wf_fs (move_tree p q m).
Proof.
  intros Hwf Hmv. pose proof (movable_not_nested m p q Hwf Hmv) as Hnn.
  destruct Hmv as (Hp & Hq & [n Hn] & Hnone & Hd & Hpq).
  assert (Hqp : is_prefix q p = false) by (apply nested_false in Hnn; tauto).
  intros k nk Hk. rewrite lookup_move_tree in Hk.
  destruct (swapf_cases p q k Hnn) as [[r [-> Hs]]|[[r [-> Hs]]|[H1 [H2 Hs]]]]; rewrite Hs in Hk.
  - (* k below p in the new tree: it comes from below q in the old one, where nothing exists *)
    rewrite (wf_no_orphans m q Hwf Hq Hnone (q ++ r) (is_prefix_app q r)) in Hk. discriminate.
  - (* k = q ++ r comes from p ++ r *)
    split; [destruct q; [congruence|discriminate]|].
    destruct r as [|x r] using rev_ind.
    + rewrite app_nil_r. rewrite (is_dir_ext m); [exact Hd|].
      apply move_lookup_other.
      * destruct (is_prefix p (parent q)) eqn:E; [|reflexivity].
        rewrite (is_prefix_trans _ _ _ E (is_prefix_parent q)) in Hpq. discriminate.
      * apply parent_not_below; [exact []|exact Hq].
    + clear IHr. rewrite app_assoc, parent_snoc.
      destruct (Hwf _ _ Hk) as [_ Hd']. rewrite app_assoc, parent_snoc in Hd'.
      unfold is_dir. destruct (q ++ r) eqn:Eqr; [reflexivity|]. rewrite <- Eqr.
      rewrite lookup_move_tree, swapf_under_q by exact Hnn.
      apply is_dir_lookup in Hd'; [rewrite Hd'; reflexivity|].
      destruct p; [congruence|discriminate].
  - (* k untouched *)
    destruct (Hwf _ _ Hk) as [Hk0 Hd']. split; [exact Hk0|].
    rewrite (is_dir_ext m); [exact Hd'|]. apply move_lookup_other.
    + destruct (is_prefix p (parent k)) eqn:E; [|reflexivity].
      rewrite (is_prefix_trans _ _ _ E (is_prefix_parent k)) in H1. discriminate.
    + destruct (is_prefix q (parent k)) eqn:E; [|reflexivity].
      rewrite (is_prefix_trans _ _ _ E (is_prefix_parent k)) in H2. discriminate.
Qed.

(* after the move, the opposite move is possible *)
Lemma movable_back (m : fs) p q : wf_fs m -> movable p q m -> movable q p (move_tree p q m).
Proof.
  intros Hwf Hmv. pose proof (movable_not_nested m p q Hwf Hmv) as Hnn.
  destruct Hmv as (Hp & Hq & [n Hn] & Hnone & Hd & Hpq).
  assert (Hqp : is_prefix q p = false) by (apply nested_false in Hnn; tauto).
  repeat split; try assumption.
  - rewrite move_lookup_src by exact Hnn. eauto.
  - rewrite move_lookup_dst by exact Hnn. exact Hnone.
  - destruct (Hwf _ _ Hn) as [_ Hdp]. rewrite (is_dir_ext m); [exact Hdp|].
    apply move_lookup_other.
    + apply parent_not_below; [exact []|exact Hp].
    + destruct (is_prefix q (parent p)) eqn:E; [|reflexivity].
      rewrite (is_prefix_trans _ _ _ E (is_prefix_parent p)) in Hqp. discriminate.
Qed.
