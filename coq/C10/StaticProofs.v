(* The static scan is sound: if [rscan] certifies a change on a tree, no schedule of faults and
   stops can make the forward phase perform an irreversible sub-change. *)
From stdpp Require Import gmap list.
From Coq Require Import NArith Lia.
From RopeVerif.Lib Require Import Text.
From RopeVerif.C10 Require Import FsModel FsProofs Change ChangeProofs HistoryProofs Static.

Fixpoint rgo (f : nat) (d : dir) (l : list change) (m : fs) : bool * option fs :=
  match l with
  | [] => (true, Some m)
  | c :: rest =>
      match rscan f d c m with
      | (true, Some m') => rgo f d rest m'
      | r => r
      end
  end.

Lemma rscan_CS f d t cs m : rscan (S f) d (CS t cs) m = rgo f d (order d cs) m.
Proof.
  cbn [rscan]. generalize (order d cs). intros l. revert m.
  induction l as [|c l IH]; intros m; cbn [rgo]; [reflexivity|].
  destruct (rscan f d c m) as [[|] [m'|]]; try reflexivity. apply IH.
Qed.

Lemma rscan_leaf f d c m : is_leaf c ->
  rscan (S f) d c m =
  match body quiet d c m with
  | Ok m' _ _ => if leaf_rev d c m then (true, Some m') else (false, None)
  | Err _ _ x => (refusal_ok x, None)
  end.
Proof. destruct c; cbn; tauto. Qed.

(* a body that succeeds under some schedule succeeds identically without schedule *)
Lemma lift_prim_quiet m c w k r m1 k1 c1 :
  lift m c w (prim k r) = Ok m1 k1 c1 -> lift m c w (prim quiet r) = Ok m1 quiet c1.
Proof.
  intros H. apply lift_ok in H. destruct H as [H ->]. apply prim_inl in H. destruct H as [-> _].
  rewrite prim_quiet by reflexivity. reflexivity.
Qed.

Lemma body_ok_quiet k d c m m1 k1 c1 :
  body k d c m = Ok m1 k1 c1 -> body quiet d c m = Ok m1 quiet c1.
Proof.
  destruct c as [p new [o|]|p q f|p f|p f|t cs], d; cbn [body]; intros H;
    try discriminate; try (eapply lift_prim_quiet; eauto; fail).
  - destruct (prim_read k (p_read p m)) as [[o k']|[k' y]] eqn:E1; [|discriminate].
    apply prim_read_inl in E1. destruct E1 as [-> _]. rewrite prim_read_quiet by reflexivity.
    eapply lift_prim_quiet; eauto.
  - destruct (exists_b m p); [discriminate|]. destruct (negb (exists_b m (parent p))); [discriminate|].
    eapply lift_prim_quiet; eauto.
Qed.

Lemma leaf_scan v k d c m r :
  match body quiet d c m with
  | Ok m' _ _ => if leaf_rev d c m then (true, Some m') else (false, None)
  | Err _ _ x => (refusal_ok x, None)
  end = (true, r) ->
  irrev k = false ->
  irrev (res_k (leaf v true k d c m)) = false /\
  (forall m1 k1 c1, leaf v true k d c m = Ok m1 k1 c1 -> r = Some m1).
Proof.
  intros Hs Hk. unfold leaf. cbn [andb]. destruct (stopped k); [split; [exact Hk|discriminate]|].
  pose proof (body_sched (notify k) d c m) as (_ & _ & Hb & _). rewrite notify_irrev in Hb.
  destruct (body (notify k) d c m) as [m' k2 c'|m' k2 x] eqn:Eb; cbn [res_k] in *.
  - rewrite (body_ok_quiet _ _ _ _ _ _ _ Eb) in Hs.
    destruct (leaf_rev d c m); [|discriminate]. inversion Hs; subst r. cbn [negb].
    destruct (fin_chk v && stopped k2); cbn [res_k].
    + split; [congruence|discriminate].
    + split; [rewrite notify_irrev; congruence|]. intros m1 k1 c1 H; inversion H; reflexivity.
  - split; [congruence|discriminate].
Qed.

Definition RS (f : nat) : Prop :=
  forall v k d c m r,
    rscan f d c m = (true, r) -> irrev k = false ->
    irrev (res_k (run v f true k d c m)) = false /\
    (forall m1 k1 c1, run v f true k d c m = Ok m1 k1 c1 -> r = Some m1).

Lemma loop_scan v f d (IH : RS f) l : forall m k done r,
  rgo f d l m = (true, r) -> irrev k = false ->
  irrev (res_k (loop v f true d l m k done)) = false /\
  (forall m1 k1 done1, loop v f true d l m k done = Ok m1 k1 done1 -> r = Some m1).
Proof.
  induction l as [|c l IHl]; intros m k done r Hs Hk; cbn [loop rgo] in *.
  - inversion Hs; subst. split; [exact Hk|]. intros m1 k1 d1 H; inversion H; reflexivity.
  - destruct (rscan f d c m) as [b rc] eqn:Ec.
    assert (Hb : b = true).
    { destruct b; [reflexivity|]. destruct rc; inversion Hs. }
    subst b. destruct (IH v k d c m rc Ec Hk) as [Hi Hok].
    destruct (run v f true k d c m) as [m' k' c'|m' k' x] eqn:Er; cbn [res_k] in *.
    + rewrite (Hok _ _ _ eq_refl) in Hs. apply IHl; assumption.
    + pose proof (back_irrev v f d (run_nojs_irrev v f) (if rb_rev v then done else rev done) m' k') as Hbk.
      destruct (back v f d (if rb_rev v then done else rev done) m' k') as [[mb kb] y]. cbn [res_k fst snd] in *.
      split; [congruence|discriminate].
Qed.

Theorem rscan_sound f : RS f.
Proof.
  induction f as [|f IH]; intros v k d c m r Hs Hk; [discriminate|].
  destruct c as [p new old|p q b|p b|p b|t cs].
  1-4: rewrite rscan_leaf in Hs by exact I; rewrite run_leaf by exact I; apply leaf_scan; assumption.
  rewrite rscan_CS in Hs. rewrite run_CS.
  destruct (loop_scan v f d IH (order d cs) m k [] r Hs Hk) as [Hi Hok].
  destruct (loop v f true d (order d cs) m k []) as [m' k' done|m' k' x]; cbn [res_k] in *.
  - split; [exact Hi|]. intros m1 k1 c1 H; inversion H; subst. eapply Hok; reflexivity.
  - split; [exact Hi|discriminate].
Qed.

(* ----------------------------------------------------------------------- static corollaries *)
Lemma scan_fst f d c m : fst (rscan f d c m) = true -> exists r, rscan f d c m = (true, r).
Proof. destruct (rscan f d c m) as [b r]. cbn. intros ->. eauto. Qed.

Theorem reversible_cs_irrev v f c m k :
  reversible_cs f m c = true -> irrev k = false -> irrev (res_k (run v f true k Do c m)) = false.
Proof.
  intros H Hk. apply scan_fst in H. destruct H as [r Hr].
  exact (proj1 (rscan_sound f v k Do c m r Hr Hk)).
Qed.

Theorem history_do_atomic_static f c s k s' k' x :
  wf_fs (h_fs s) -> reversible_cs f (h_fs s) c = true -> irrev k = false ->
  history_do repaired f c s k = HErr s' k' x ->
  single_failure k x ->
  s' = s /\ clean x = true.
Proof.
  intros Hwf Hs Hk H Hsf. eapply history_do_atomic; eauto.
  pose proof (reversible_cs_irrev repaired f c (h_fs s) (notify k) Hs) as Hi.
  rewrite notify_irrev in Hi. specialize (Hi Hk).
  unfold history_do in H.
  destruct (run repaired f true (notify k) Do c (h_fs s)) as [m' k1 c'|m' k1 x1]; [discriminate|].
  inversion H; subst. exact Hi.
Qed.

Theorem history_undo_atomic_static f s k s' k' x c0 rest :
  wf_fs (h_fs s) -> h_undo s = c0 :: rest ->
  reversible_undo f (h_fs s) (List.last rest c0) = true -> irrev k = false ->
  history_undo repaired f s k = HErr s' k' x ->
  single_failure k x ->
  s' = s /\ clean x = true.
Proof.
  intros Hwf Hu Hs Hk H Hsf. eapply history_undo_atomic; eauto.
  apply scan_fst in Hs. destruct Hs as [r Hr].
  pose proof (proj1 (rscan_sound f repaired (notify k) Undo _ _ r Hr (eq_trans (notify_irrev k) Hk))) as Hi.
  unfold history_undo in H. rewrite Hu in H.
  destruct (run repaired f true (notify k) Undo (List.last rest c0) (h_fs s)) as [m' k1 c'|m' k1 x1]; [discriminate|].
  inversion H; subst. exact Hi.
Qed.

Theorem history_redo_atomic_static f s k s' k' x c0 rest :
  wf_fs (h_fs s) -> h_redo s = c0 :: rest ->
  reversible_cs f (h_fs s) (List.last rest c0) = true -> irrev k = false ->
  history_redo repaired f s k = HErr s' k' x ->
  single_failure k x ->
  s' = s /\ clean x = true.
Proof.
  intros Hwf Hu Hs Hk H Hsf. eapply history_redo_atomic; eauto.
  pose proof (reversible_cs_irrev repaired f _ (h_fs s) (notify k) Hs) as Hi.
  rewrite notify_irrev in Hi. specialize (Hi Hk).
  unfold history_redo in H. rewrite Hu in H.
  destruct (run repaired f true (notify k) Do (List.last rest c0) (h_fs s)) as [m' k1 c'|m' k1 x1]; [discriminate|].
  inversion H; subst. exact Hi.
Qed.

(* non-vacuity: the nested dependent change set of HistoryProofs.do_atomic_example (folder, file in
   it, edit, move into the folder, move of the folder) is certified statically *)
Lemma static_example :
  reversible_cs 6 (h_fs w_nest_s) w_nest_c = true /\ static_ok w_nest_c = false /\
  exists s' k' x, history_do repaired 6 w_nest_c w_nest_s w_nest_k = HErr s' k' x /\ single_failure w_nest_k x.
Proof.
  split; [vm_compute; reflexivity|]. split; [reflexivity|].
  eexists. eexists. eexists. split; [vm_compute; reflexivity|right; reflexivity].
Qed.

(* a set that is refused part-way (two edits, then the creation of an existing path) is certified
   too: the refusal is a natural failure covered by the theorem *)
Lemma static_refusal_example :
  reversible_cs 4 (h_fs w_order_s) w_order_c = true /\
  exists k' x, history_do repaired 4 w_order_c w_order_s quiet = HErr w_order_s k' x.
Proof.
  split; [vm_compute; reflexivity|].
  destruct rollback_order_repaired as (s' & k' & x & H & _ & ->). eauto.
Qed.

(* the scan rejects what the theorem cannot cover *)
Lemma static_rejects_removal : reversible_cs 4 (h_fs w_stop_s) w_rm_c = false.
Proof. vm_compute; reflexivity. Qed.
