(* Extension of the change model by two further failure points of a sub-change (C10 deepening).
   Nothing of Change.v is modified; [orun] is Change.run over an extended schedule and coincides with
   it when the extension is switched off (ObserverProofs.orun_plain).

   1. Resource observers.  _ResourceOperations.write_file / move / create / remove notify every
      project observer (module cache, automatic static analysis, user observers) AFTER the primitive
      has run and BEFORE finished_job.  An observer callback that raises makes the sub-change fail
      after its effect; ChangeSet.do has not appended it to [done].  [obs]: Some n = the (n+1)-th
      observer notification from now raises (class [OObs]); notifications happen once per successful
      primitive, in the forward phase and in the rollback phase alike.

   2. Partial effect of a failing primitive.  The atomicity theorems assume that a primitive that
      raises has done nothing.  [prim_atomic] names that assumption: when it is false, the injected
      fault of a WRITE hits after open(path, "wb") has truncated (or created) the file, which is what
      FileSystemCommands.write does when the device fills up. *)
From stdpp Require Import gmap list.
From Coq Require Import NArith.
From RopeVerif.Lib Require Import Text.
From RopeVerif.C10 Require Import FsModel Change.

Record osched := OS { ok : sched; obs : option nat; prim_atomic : bool }.

Definition with_ok (k : osched) (k' : sched) : osched := OS k' (obs k) (prim_atomic k).

(* the extension is switched off *)
Definition plain (k : osched) : Prop := obs k = None /\ prim_atomic k = true.

Definition otick (k : osched) : bool * osched :=
  match obs k with
  | Some O => (true, OS (ok k) None (prim_atomic k))
  | Some (S n) => (false, OS (ok k) (Some n) (prim_atomic k))
  | None => (false, k)
  end.

Inductive oerr := OE (c : ecls) | OW (c : ecls) | OObs | ODuring (y x : oerr).

Fixpoint emb (x : err) : oerr :=
  match x with
  | E c => OE c
  | W c => OW c
  | During y x => ODuring (emb y) (emb x)
  end.

Inductive ores (A : Type) := OOk (m : fs) (k : osched) (a : A) | OErr (m : fs) (k : osched) (x : oerr).
Arguments OOk {A}. Arguments OErr {A}.

(* the file that the write primitive of this leaf opens, if the pending fault hits exactly that
   write (for a fresh ChangeContents.do the read comes first) *)
Definition write_target (k : sched) (d : dir) (c : change) (m : fs) : option (list N) :=
  match c, d with
  | CC p _ None, Do =>
      match flt k, p_read p m with Some 1, Some _ => Some p | _, _ => None end
  | CC p _ (Some _), _ =>
      match flt k with Some O => Some p | _ => None end
  | _, _ => None
  end.

Definition truncated (p : list N) (m : fs) : fs :=
  match p_write p [] m with POk m' => m' | _ => m end.

Definition obody (k : osched) (d : dir) (c : change) (m : fs) : ores change :=
  match body (ok k) d c m with
  | Ok m' k' c' => OOk m' (with_ok k k') c'
  | Err m' k' x =>
      let m'' :=
        if prim_atomic k then m'
        else match x, write_target (ok k) d c m with
             | E Fault, Some p => truncated p m'
             | _, _ => m'
             end in
      OErr m'' (with_ok k k') (emb x)
  end.

Definition oleaf (v : variant) (js : bool) (k : osched) (d : dir) (c : change) (m : fs) : ores change :=
  if js && stopped (ok k) then OErr m k (OE Interrupted)
  else
    let k1 := if js then with_ok k (notify (ok k)) else k in
    match obody k1 d c m with
    | OErr m' k' x => OErr m' k' x
    | OOk m' k2 c' =>
        let k3 := if js && negb (leaf_rev d c m) then with_ok k2 (set_irrev (ok k2)) else k2 in
        let '(fire, k4) := otick k3 in                       (* observers are informed *)
        if fire then OErr m' k4 OObs
        else if js && fin_chk v && stopped (ok k4) then OErr m' k4 (OE Interrupted)
        else OOk m' (if js then with_ok k4 (notify (ok k4)) else k4) c'
    end.

Section orun.
Variable v : variant.

Fixpoint orun (fuel : nat) (js : bool) (k : osched) (d : dir) (c : change) (m : fs) : ores change :=
  match fuel with
  | O => OErr m k (OE OutOfFuel)
  | S f =>
    match c with
    | CS t cs =>
        let fix loop (l : list change) (m : fs) (k : osched) (done : list change) : ores (list change) :=
          match l with
          | [] => OOk m k done
          | c :: rest =>
              match orun f js k d c m with
              | OOk m' k' c' => loop rest m' k' (c' :: done)
              | OErr m' k' x =>
                  let fix back (l : list change) (m : fs) (k : osched) : fs * osched * option oerr :=
                    match l with
                    | [] => (m, k, None)
                    | c :: rest =>
                        match orun f false k (opp d) c m with
                        | OOk m2 k2 _ => back rest m2 k2
                        | OErr m2 k2 y => (m2, k2, Some y)
                        end
                    end in
                  let '(mb, kb, y) := back (if rb_rev v then done else rev done) m' k' in
                  OErr mb kb (match y with None => x | Some y => ODuring y x end)
              end
          end in
        match loop (order d cs) m k [] with
        | OOk m' k' done => OOk m' k' (CS t (match d with Do => rev done | Undo => done end))
        | OErr m' k' x => OErr m' k' x
        end
    | _ => oleaf v js k d c m
    end
  end.
End orun.

Inductive ohres := OHOk (s : hist) (k : osched) | OHErr (s : hist) (k : osched) (x : oerr).

Definition onotify (k : osched) : osched := with_ok k (notify (ok k)).

Definition ohistory_do (v : variant) (fuel : nat) (c : change) (s : hist) (k : osched) : ohres :=
  match orun v fuel true (onotify k) Do c (h_fs s) with
  | OOk m' k' c' =>
      OHOk (Hist m' (if interesting c' then trim (h_limit s) (h_undo s ++ [c']) else h_undo s)
                 [] (h_limit s)) k'
  | OErr m' k' x => OHErr (set_fs s m') k' x
  end.

Definition ohistory_undo (v : variant) (fuel : nat) (s : hist) (k : osched) : ohres :=
  match h_undo s with
  | [] => OHErr s k (OE HistEmpty)
  | c0 :: rest =>
      let c := List.last rest c0 in
      match orun v fuel true (onotify k) Undo c (h_fs s) with
      | OOk m' k' _ => OHOk (Hist m' (removelast (h_undo s)) (h_redo s ++ [c]) (h_limit s)) k'
      | OErr m' k' x => OHErr (set_fs s m') k' x
      end
  end.

Definition ohistory_redo (v : variant) (fuel : nat) (s : hist) (k : osched) : ohres :=
  match h_redo s with
  | [] => OHErr s k (OE HistEmpty)
  | c0 :: rest =>
      let c := List.last rest c0 in
      match orun v fuel true (onotify k) Do c (h_fs s) with
      | OOk m' k' c' => OHOk (Hist m' (h_undo s ++ [c']) (removelast (h_redo s)) (h_limit s)) k'
      | OErr m' k' x => OHErr (set_fs s m') k' x
      end
  end.

Definition ois_fault (x : oerr) : bool :=
  match x with OE Fault | OW Fault => true | _ => false end.

Definition oclean (x : oerr) : bool := match x with ODuring _ _ => false | _ => true end.

(* images of plain results *)
Definition embr {A} (k : osched) (r : res A) : ores A :=
  match r with
  | Ok m k' a => OOk m (with_ok k k') a
  | Err m k' x => OErr m (with_ok k k') (emb x)
  end.

Definition embh (k : osched) (r : hres) : ohres :=
  match r with
  | HOk s k' => OHOk s (with_ok k k')
  | HErr s k' x => OHErr s (with_ok k k') (emb x)
  end.
