(* The extended model coincides with Change.run when the extension is off; the atomicity theorems
   transfer to observer-free runs with atomic primitives; refutations when either is switched on. *)
From stdpp Require Import gmap list.
From Coq Require Import NArith Lia.
From RopeVerif.Lib Require Import Text.
From RopeVerif.C10 Require Import FsModel FsProofs Change ChangeProofs HistoryProofs Observer.

Lemma with_ok_ok k a : ok (with_ok k a) = a.
Proof. reflexivity. Qed.

Lemma with_ok_twice k a b : with_ok (with_ok k a) b = with_ok k b.
Proof. reflexivity. Qed.

Lemma with_ok_same k : with_ok k (ok k) = k.
Proof. destruct k; reflexivity. Qed.

Lemma plain_with_ok k a : plain k -> plain (with_ok k a).
Proof. intros [H1 H2]. split; assumption. Qed.

Lemma otick_plain k : plain k -> otick k = (false, k).
Proof. intros [H _]. unfold otick. rewrite H. reflexivity. Qed.

Lemma obody_plain k d c m : plain k -> obody k d c m = embr k (body (ok k) d c m).
Proof.
  intros [_ H]. unfold obody. rewrite H. destruct (body (ok k) d c m); reflexivity.
Qed.

Lemma oleaf_plain v js k d c m : plain k -> oleaf v js k d c m = embr k (leaf v js (ok k) d c m).
Proof.
  intros Hp. unfold oleaf, leaf. destruct (js && stopped (ok k)); [cbn [embr emb]; rewrite with_ok_same; reflexivity|].
  assert (Hk1 : (if js then with_ok k (notify (ok k)) else k) = with_ok k (if js then notify (ok k) else ok k)).
  { destruct js; [reflexivity|symmetry; apply with_ok_same]. }
  rewrite Hk1. rewrite obody_plain by (apply plain_with_ok; exact Hp). rewrite with_ok_ok.
  destruct (body (if js then notify (ok k) else ok k) d c m) as [m' k2 c'|m' k2 x]; cbn [embr]; rewrite ?with_ok_twice.
  - destruct (js && negb (leaf_rev d c m));
      rewrite otick_plain by (repeat apply plain_with_ok; exact Hp); cbn [ok with_ok];
      (destruct (js && fin_chk v && stopped _); [reflexivity|]; cbn [embr]; destruct js; reflexivity).
  - reflexivity.
Qed.

(* ------------------------------------------------------------------------------- unfolding *)
Fixpoint oback (v : variant) (f : nat) (d : dir) (l : list change) (m : fs) (k : osched)
  : fs * osched * option oerr :=
  match l with
  | [] => (m, k, None)
  | c :: rest =>
      match orun v f false k (opp d) c m with
      | OOk m2 k2 _ => oback v f d rest m2 k2
      | OErr m2 k2 y => (m2, k2, Some y)
      end
  end.

Fixpoint oloop (v : variant) (f : nat) (js : bool) (d : dir) (l : list change) (m : fs) (k : osched)
  (done : list change) : ores (list change) :=
  match l with
  | [] => OOk m k done
  | c :: rest =>
      match orun v f js k d c m with
      | OOk m' k' c' => oloop v f js d rest m' k' (c' :: done)
      | OErr m' k' x =>
          let '(mb, kb, y) := oback v f d (if rb_rev v then done else rev done) m' k' in
          OErr mb kb (match y with None => x | Some y => ODuring y x end)
      end
  end.

Lemma orun_CS v f js k d t cs m :
  orun v (S f) js k d (CS t cs) m =
  match oloop v f js d (order d cs) m k [] with
  | OOk m' k' done => OOk m' k' (CS t (match d with Do => rev done | Undo => done end))
  | OErr m' k' x => OErr m' k' x
  end.
Proof.
  cbn [orun].
  match goal with |- match ?g ?ll m k [] with _ => _ end = _ =>
    assert (H : forall l0 m0 k0 done0, g l0 m0 k0 done0 = oloop v f js d l0 m0 k0 done0) end.
  { clear. induction l0 as [|c rest IH]; intros m0 k0 done0; cbn [oloop]; [reflexivity|].
    destruct (orun v f js k0 d c m0) as [m' k' c'|m' k' x]; [apply IH|].
    match goal with |- (let '(_, _) := ?b _ m' k' in _) = _ =>
      assert (Hb : forall l1 m1 k1, b l1 m1 k1 = oback v f d l1 m1 k1) end.
    { clear. induction l1 as [|c rest IH]; intros m1 k1; cbn [oback]; [reflexivity|].
      destruct (orun v f false k1 (opp d) c m1); [apply IH|reflexivity]. }
    rewrite Hb. reflexivity. }
  rewrite H. reflexivity.
Qed.

Lemma orun_leaf v f js k d c m : is_leaf c -> orun v (S f) js k d c m = oleaf v js k d c m.
Proof. destruct c; cbn; tauto. Qed.

(* ----------------------------------------------------- the extension switched off = Change.run *)
Definition PLAIN (v : variant) (f : nat) : Prop :=
  forall js k d c m, plain k -> orun v f js k d c m = embr k (run v f js (ok k) d c m).

Lemma oback_plain v f d (IH : PLAIN v f) l : forall m k, plain k ->
  oback v f d l m k =
  (let '(mb, kb, y) := back v f d l m (ok k) in (mb, with_ok k kb, option_map emb y)).
Proof.
  induction l as [|c l IHl]; intros m k Hp; cbn [oback back]; [rewrite with_ok_same; reflexivity|].
  rewrite (IH false k (opp d) c m Hp).
  destruct (run v f false (ok k) (opp d) c m) as [m2 k2 c2|m2 k2 y]; cbn [embr].
  - rewrite IHl by (apply plain_with_ok; exact Hp). rewrite with_ok_ok.
    destruct (back v f d l m2 k2) as [[mb kb] y]. reflexivity.
  - reflexivity.
Qed.

Lemma oloop_plain v f js d (IH : PLAIN v f) l : forall m k done, plain k ->
  oloop v f js d l m k done = embr k (loop v f js d l m (ok k) done).
Proof.
  induction l as [|c l IHl]; intros m k done Hp; cbn [oloop loop]; [cbn [embr]; rewrite with_ok_same; reflexivity|].
  rewrite (IH js k d c m Hp).
  destruct (run v f js (ok k) d c m) as [m' k' c'|m' k' x]; cbn [embr].
  - rewrite IHl by (apply plain_with_ok; exact Hp). rewrite with_ok_ok.
    destruct (loop v f js d l m' k' (c' :: done)); reflexivity.
  - rewrite (oback_plain v f d IH) by (apply plain_with_ok; exact Hp). rewrite with_ok_ok.
    destruct (back v f d (if rb_rev v then done else rev done) m' k') as [[mb kb] [y|]]; reflexivity.
Qed.

Theorem orun_plain v f : PLAIN v f.
Proof.
  induction f as [|f IH]; intros js k d c m Hp.
  - cbn. rewrite with_ok_same. reflexivity.
  - destruct c as [p new old|p q b|p b|p b|t cs];
      try (rewrite orun_leaf, run_leaf by exact I; apply oleaf_plain; exact Hp).
    rewrite orun_CS, run_CS, (oloop_plain v f js d IH) by exact Hp.
    destruct (loop v f js d (order d cs) m (ok k) []); reflexivity.
Qed.

Lemma plain_onotify k : plain k -> plain (onotify k).
Proof. apply plain_with_ok. Qed.

Theorem ohistory_do_plain v f c s k :
  plain k -> ohistory_do v f c s k = embh k (history_do v f c s (ok k)).
Proof.
  intros Hp. unfold ohistory_do, history_do.
  rewrite (orun_plain v f true (onotify k) Do c (h_fs s) (plain_onotify k Hp)). cbn [onotify ok with_ok].
  destruct (run v f true (notify (ok k)) Do c (h_fs s)); reflexivity.
Qed.

Theorem ohistory_undo_plain v f s k :
  plain k -> ohistory_undo v f s k = embh k (history_undo v f s (ok k)).
Proof.
  intros Hp. unfold ohistory_undo, history_undo.
  destruct (h_undo s) as [|c0 rest]; [cbn [embh emb]; rewrite with_ok_same; reflexivity|].
  rewrite (orun_plain v f true (onotify k) Undo _ (h_fs s) (plain_onotify k Hp)). cbn [onotify ok with_ok].
  destruct (run v f true (notify (ok k)) Undo (List.last rest c0) (h_fs s)); reflexivity.
Qed.

Theorem ohistory_redo_plain v f s k :
  plain k -> ohistory_redo v f s k = embh k (history_redo v f s (ok k)).
Proof.
  intros Hp. unfold ohistory_redo, history_redo.
  destruct (h_redo s) as [|c0 rest]; [cbn [embh emb]; rewrite with_ok_same; reflexivity|].
  rewrite (orun_plain v f true (onotify k) Do _ (h_fs s) (plain_onotify k Hp)). cbn [onotify ok with_ok].
  destruct (run v f true (notify (ok k)) Do (List.last rest c0) (h_fs s)); reflexivity.
Qed.

(* ------------------------------------------ atomicity for observer-free runs, atomic primitives *)
Lemma ois_fault_emb x : ois_fault (emb x) = is_fault x.
Proof. destruct x as [c|c|y x]; try destruct c; reflexivity. Qed.

Lemma oclean_emb x : oclean (emb x) = clean x.
Proof. destruct x; reflexivity. Qed.

Definition osingle_failure (k : osched) (x : oerr) : Prop := flt (ok k) = None \/ ois_fault x = true.

Theorem ohistory_do_atomic f c s k s' k' x :
  plain k -> wf_fs (h_fs s) ->
  ohistory_do repaired f c s k = OHErr s' k' x ->
  irrev (ok k') = false -> osingle_failure k x ->
  s' = s /\ oclean x = true.
Proof.
  intros Hp Hwf H Hirr Hsf. rewrite (ohistory_do_plain _ _ _ _ _ Hp) in H.
  destruct (history_do repaired f c s (ok k)) as [s1 k1|s1 k1 x1] eqn:Eh; [discriminate|].
  cbn [embh] in H. inversion H; subst s' k' x. cbn [ok with_ok] in Hirr. rewrite oclean_emb.
  eapply history_do_atomic; eauto. destruct Hsf as [Hn|Hf]; [left; exact Hn|right; rewrite <- ois_fault_emb; exact Hf].
Qed.

Theorem ohistory_undo_atomic f s k s' k' x :
  plain k -> wf_fs (h_fs s) ->
  ohistory_undo repaired f s k = OHErr s' k' x ->
  irrev (ok k') = false -> osingle_failure k x ->
  s' = s /\ oclean x = true.
Proof.
  intros Hp Hwf H Hirr Hsf. rewrite (ohistory_undo_plain _ _ _ _ Hp) in H.
  destruct (history_undo repaired f s (ok k)) as [s1 k1|s1 k1 x1] eqn:Eh; [discriminate|].
  cbn [embh] in H. inversion H; subst s' k' x. cbn [ok with_ok] in Hirr. rewrite oclean_emb.
  eapply history_undo_atomic; eauto. destruct Hsf as [Hn|Hf]; [left; exact Hn|right; rewrite <- ois_fault_emb; exact Hf].
Qed.

(* whatever fails, and wherever: the undo and redo lists are those before the call *)
Theorem ohistory_lists_unchanged v f c s k s' k' x :
  (ohistory_do v f c s k = OHErr s' k' x \/ ohistory_undo v f s k = OHErr s' k' x
   \/ ohistory_redo v f s k = OHErr s' k' x) ->
  h_undo s' = h_undo s /\ h_redo s' = h_redo s /\ h_limit s' = h_limit s.
Proof.
  intros [H|[H|H]].
  - unfold ohistory_do in H. destruct (orun v f true (onotify k) Do c (h_fs s)); [discriminate|].
    inversion H; subst. auto.
  - unfold ohistory_undo in H. destruct (h_undo s) as [|c0 rest] eqn:Eu; [inversion H; subst; auto|].
    destruct (orun v f true (onotify k) Undo (List.last rest c0) (h_fs s)); [discriminate|].
    inversion H; subst. cbn. auto.
  - unfold ohistory_redo in H. destruct (h_redo s) as [|c0 rest] eqn:Eu; [inversion H; subst; auto|].
    destruct (orun v f true (onotify k) Do (List.last rest c0) (h_fs s)); [discriminate|].
    inversion H; subst. cbn. auto.
Qed.

(* ------------------------------------------------------------------------------ refutations *)
(* the open finding's witness: [edit c.py; edit a], the observers informed of the first write raise *)
Definition ppy : list N := [3%N].
Definition cX1 : list N := [120%N; 32%N; 61%N; 32%N; 49%N; 10%N].
Definition cX2 : list N := [120%N; 32%N; 61%N; 32%N; 50%N; 10%N].
Definition w_obs_s : hist := st [(pa, File cA); (ppy, File cX1)].
Definition w_obs_c : change := CS 1 [CC ppy cX2 None; CC pa cC None].
Definition w_obs_k : osched := OS quiet (Some 0) true.

Lemma observer_failure_refuted :
  exists f c s k s' k' x,
    wf_fs (h_fs s) /\ prim_atomic k = true /\ flt (ok k) = None /\
    ohistory_do repaired f c s k = OHErr s' k' x /\ x = OObs /\
    irrev (ok k') = false /\ h_fs s' <> h_fs s.
Proof.
  exists 4, w_obs_c, w_obs_s, w_obs_k. eexists. eexists. eexists.
  split; [apply wf_fsb_sound; vm_compute; reflexivity|].
  split; [reflexivity|]. split; [reflexivity|].
  split; [vm_compute; reflexivity|]. split; [reflexivity|]. split; [reflexivity|].
  intros Heq. apply (f_equal (fun m : fs => m !! ppy)) in Heq. vm_compute in Heq. discriminate.
Qed.

(* the same input without observer failure succeeds; with the failure at the second notification the
   first edit is rolled back and only the second stays *)
Lemma observer_failure_second :
  exists s' k',
    ohistory_do repaired 4 w_obs_c w_obs_s (OS quiet (Some 1) true) = OHErr s' k' OObs /\
    h_fs s' !! ppy = Some (File cX1) /\ h_fs s' !! pa = Some (File cC).
Proof. eexists. eexists. split; [vm_compute; reflexivity|]. split; vm_compute; reflexivity. Qed.

(* a write that fails after truncating the file: the sub-change is not in [done] *)
Definition w_part_k : osched := OS (Sched (Some 1) None false false) None false.

Lemma partial_write_refuted :
  exists f c s k s' k' x,
    wf_fs (h_fs s) /\ obs k = None /\ prim_atomic k = false /\
    ohistory_do repaired f c s k = OHErr s' k' x /\ osingle_failure k x /\
    irrev (ok k') = false /\ h_fs s' <> h_fs s.
Proof.
  exists 4, (CS 1 [CC pa cC None]), w_order_s, w_part_k. eexists. eexists. eexists.
  split; [apply wf_fsb_sound; vm_compute; reflexivity|].
  split; [reflexivity|]. split; [reflexivity|].
  split; [vm_compute; reflexivity|]. split; [right; reflexivity|]. split; [reflexivity|].
  intros Heq. apply (f_equal (fun m : fs => m !! pa)) in Heq. vm_compute in Heq. discriminate.
Qed.

(* non-vacuity of the observer-free theorem: the nested witness, extension off *)
Lemma observer_free_example :
  exists s' k' x,
    plain (OS w_nest_k None true) /\ wf_fs (h_fs w_nest_s) /\
    ohistory_do repaired 6 w_nest_c w_nest_s (OS w_nest_k None true) = OHErr s' k' x /\
    irrev (ok k') = false /\ osingle_failure (OS w_nest_k None true) x.
Proof.
  eexists. eexists. eexists. split; [split; reflexivity|].
  split; [apply wf_fsb_sound; vm_compute; reflexivity|].
  split; [vm_compute; reflexivity|]. split; [reflexivity|right; reflexivity].
Qed.
