(* Proofs about the change model: a done leaf can be compensated exactly (when [leaf_rev] holds), a
   failing leaf has no effect (repaired variant), and from these, by induction on the nesting fuel,
   that a failing ChangeSet.do / undo with reversed rollback restores the tree. *)
From stdpp Require Import gmap list.
From Coq Require Import NArith Lia.
From RopeVerif.Lib Require Import Text.
From RopeVerif.C10 Require Import FsModel FsProofs Change.

(* ------------------------------------------------------------------------------- schedules *)
Definition res_k {A} (r : res A) : sched := match r with Ok _ k _ => k | Err _ k _ => k end.

Lemma set_flt_same k : set_flt k (flt k) = k.
Proof. destruct k; reflexivity. Qed.

Lemma tick_quiet k : flt k = None -> tick k = (false, k).
Proof. unfold tick. intros ->. reflexivity. Qed.

Lemma tick_shape k : exists f', snd (tick k) = set_flt k f' /\ (flt k = None -> f' = None)
                                /\ (fst (tick k) = true -> f' = None).
Proof.
  unfold tick. destruct (flt k) as [[|n]|] eqn:E; cbn.
  - exists None. auto.
  - exists (Some n). split; [reflexivity|]. split; [discriminate|discriminate].
  - exists None. split; [rewrite <- E; symmetry; apply set_flt_same|]. auto.
Qed.

(* a schedule that differs from k at most in the fault countdown *)
Definition flt_only (k k' : sched) : Prop :=
  stp k' = stp k /\ stopped k' = stopped k /\ irrev k' = irrev k /\ (flt k = None -> k' = k).

Lemma flt_only_refl k : flt_only k k.
Proof. repeat split; auto. Qed.

Lemma flt_only_trans k1 k2 k3 : flt_only k1 k2 -> flt_only k2 k3 -> flt_only k1 k3.
Proof.
  intros (a1 & b1 & c1 & d1) (a2 & b2 & c2 & d2). repeat split; try congruence.
  intros H. rewrite <- (d1 H). apply d2. rewrite (d1 H). exact H.
Qed.

Lemma flt_only_tick k : flt_only k (snd (tick k)).
Proof.
  destruct (tick_shape k) as (f' & E & Hn & _). rewrite E. repeat split; try (destruct k; reflexivity).
  intros H. rewrite (Hn H), <- H. apply set_flt_same.
Qed.

Lemma prim_inl k r m' k' : prim k r = inl (m', k') -> r = POk m' /\ k' = snd (tick k).
Proof.
  unfold prim. destruct (tick k) as [fire k1]. cbn. destruct fire; [discriminate|].
  destruct r; try discriminate. intros H; inversion H; auto.
Qed.

Lemma prim_inr k r k' x : prim k r = inr (k', x) ->
  k' = snd (tick k) /\ ((x = Fault /\ fst (tick k) = true) \/ (x <> Fault /\ fst (tick k) = false)).
Proof.
  unfold prim. destruct (tick k) as [fire k1]. cbn. destruct fire.
  - intros H; inversion H; auto.
  - destruct r; try discriminate; intros H; inversion H; split; auto; right; split; auto; discriminate.
Qed.

Lemma prim_quiet k m' : flt k = None -> prim k (POk m') = inl (m', k).
Proof. intros H. unfold prim. rewrite (tick_quiet k H). reflexivity. Qed.

Lemma prim_read_inl k r o k' : prim_read k r = inl (o, k') -> r = Some o /\ k' = snd (tick k).
Proof.
  unfold prim_read. destruct (tick k) as [fire k1]. cbn. destruct fire; [discriminate|].
  destruct r; try discriminate. intros H; inversion H; auto.
Qed.

Lemma prim_read_inr k r k' x : prim_read k r = inr (k', x) ->
  k' = snd (tick k) /\ ((x = Fault /\ fst (tick k) = true) \/ (x <> Fault /\ fst (tick k) = false)).
Proof.
  unfold prim_read. destruct (tick k) as [fire k1]. cbn. destruct fire.
  - intros H; inversion H; auto.
  - destruct r; try discriminate; intros H; inversion H; split; auto; right; split; auto; discriminate.
Qed.

Lemma prim_read_quiet k o : flt k = None -> prim_read k (Some o) = inl (o, k).
Proof. intros H. unfold prim_read. rewrite (tick_quiet k H). reflexivity. Qed.

Lemma fired_flt k : fst (tick k) = true -> flt (snd (tick k)) = None.
Proof. unfold tick. destruct (flt k) as [[|n]|]; cbn; try discriminate. destruct k; reflexivity. Qed.

(* ------------------------------------------------------------------------------------ lift *)
Lemma lift_ok m c w r m1 k1 c1 : lift m c w r = Ok m1 k1 c1 -> r = inl (m1, k1) /\ c1 = c.
Proof. unfold lift. destruct r as [[m' k']|[k' x]]; intros H; inversion H; auto. Qed.

Lemma lift_err m c w r m1 k1 x :
  lift m c w r = Err m1 k1 x -> m1 = m /\ exists y, r = inr (k1, y) /\ x = (if w then W y else E y).
Proof. unfold lift. destruct r as [[m' k']|[k' y]]; intros H; inversion H; eauto. Qed.

(* -------------------------------------------------------------------------- body: schedules *)
Lemma lift_prim_sched m c w k r : flt_only k (res_k (lift m c w (prim k r))).
Proof.
  destruct (prim k r) as [[m' k']|[k' x]] eqn:E; cbn [lift res_k].
  - apply prim_inl in E. destruct E as [_ ->]. apply flt_only_tick.
  - apply prim_inr in E. destruct E as [-> _]. apply flt_only_tick.
Qed.

Lemma body_sched k d c m : flt_only k (res_k (body k d c m)).
Proof.
  destruct c as [p new [o|]|p q f|p f|p f|t cs], d; cbn [body];
    try apply flt_only_refl; try apply lift_prim_sched.
  - (* CC fresh do: read then write *)
    destruct (prim_read k (p_read p m)) as [[o k1]|[k1 x]] eqn:E1; cbn [res_k].
    + apply prim_read_inl in E1. destruct E1 as [_ ->].
      eapply flt_only_trans; [apply flt_only_tick|apply lift_prim_sched].
    + apply prim_read_inr in E1. destruct E1 as [-> _]. apply flt_only_tick.
  - (* CR do *)
    destruct (exists_b m p); [apply flt_only_refl|]. destruct (negb (exists_b m (parent p))); [apply flt_only_refl|].
    apply lift_prim_sched.
Qed.

(* a failing body has no effect; a reported fault means the countdown is exhausted *)
Lemma lift_prim_err m c (w : bool) k r m1 k1 x :
  lift m c w (prim k r) = Err m1 k1 x ->
  m1 = m /\ clean x = true /\ (is_fault x = true -> flt k1 = None).
Proof.
  intros H. apply lift_err in H. destruct H as [-> [y [Hr ->]]].
  split; [reflexivity|]. split; [destruct w; reflexivity|]. intros Hf.
  apply prim_inr in Hr. destruct Hr as [-> [[-> Hfire]|[Hne _]]].
  - apply fired_flt; exact Hfire.
  - destruct w, y; cbn in Hf; congruence.
Qed.

Lemma body_err k d c m m1 k1 x :
  body k d c m = Err m1 k1 x ->
  m1 = m /\ clean x = true /\ (is_fault x = true -> flt k1 = None).
Proof.
  destruct c as [p new [o|]|p q f|p f|p f|t cs], d; cbn [body]; intros H;
    try (apply lift_prim_err in H; exact H);
    try (inversion H; subst; split; [reflexivity|split; [reflexivity|discriminate]]).
  - destruct (prim_read k (p_read p m)) as [[o k']|[k' y]] eqn:E1.
    + apply lift_prim_err in H; exact H.
    + inversion H; subst. split; [reflexivity|]. split; [reflexivity|]. intros Hf.
      apply prim_read_inr in E1. destruct E1 as [-> [[-> Hfire]|[Hne _]]].
      * apply fired_flt; exact Hfire.
      * destruct y; cbn in Hf; congruence.
  - destruct (exists_b m p); [inversion H; subst; split; [reflexivity|split; [reflexivity|discriminate]]|].
    destruct (negb (exists_b m (parent p))); [inversion H; subst; split; [reflexivity|split; [reflexivity|discriminate]]|].
    apply lift_prim_err in H; exact H.
Qed.

(* -------------------------------------------------------------------- body: exact inverses *)
Lemma simple_move_movable (m : fs) p q : simple_move p q m = true -> movable p q m.
Proof.
  unfold simple_move, movable. rewrite !andb_true_iff, !negb_true_iff.
  intros [[[[[Hp Hq] Hs] He] Hd] Hpq].
  split; [destruct p; [discriminate|discriminate]|].
  split; [destruct q; [discriminate|discriminate]|].
  split; [destruct (m !! p); [eauto|discriminate]|].
  split; [apply exists_b_false in He; tauto|]. auto.
Qed.

Lemma p_move_simple (m : fs) p q : movable p q m -> p_move p q m = POk (move_tree p q m).
Proof.
  intros (Hp & Hq & [n Hn] & Hnone & Hd & Hpq). unfold p_move.
  destruct p as [|x p]; [congruence|]. rewrite Hn.
  assert (Hdq : is_dir m q = false).
  { unfold is_dir. destruct q; [congruence|]. rewrite Hnone. reflexivity. }
  rewrite Hdq. cbn [andb].
  assert (Hne : text_eqb (x :: p) q = false) by (apply text_eqb_false; intros Heq; rewrite Heq in Hn; congruence).
  rewrite Hne, Hpq, Hnone, Hd. reflexivity.
Qed.

Lemma body_inverse k d c m m1 k1 c1 :
  wf_fs m -> body k d c m = Ok m1 k1 c1 -> leaf_rev d c m = true ->
  wf_fs m1 /\ forall k0, flt k0 = None -> exists c2, body k0 (opp d) c1 m1 = Ok m k0 c2.
Proof.
  intros Hwf H Hrev.
  destruct c as [p new old|p q f|p f|p f|t cs]; destruct d; cbn [leaf_rev] in Hrev; try discriminate.
  - (* ChangeContents.do *)
    destruct (m !! p) as [[o|]|] eqn:Ep; try discriminate.
    destruct (Hwf _ _ Ep) as [Hp0 Hdp].
    assert (Hw : forall c, p_write p c m = POk (<[p := File c]> m)).
    { intros c. unfold p_write. destruct p; [congruence|]. rewrite Ep. reflexivity. }
    assert (Hm1 : m1 = <[p := File new]> m /\ c1 = CC p new (Some o)).
    { destruct old as [o'|]; cbn [body] in H.
      - apply text_eqb_true in Hrev. subst o'. apply lift_ok in H. destruct H as [H ->].
        apply prim_inl in H. destruct H as [H _]. rewrite Hw in H. inversion H; auto.
      - destruct (prim_read k (p_read p m)) as [[o2 k']|[k' y]] eqn:E1; [|discriminate].
        apply prim_read_inl in E1. destruct E1 as [E1 _]. unfold p_read in E1. rewrite Ep in E1.
        inversion E1; subst o2. apply lift_ok in H. destruct H as [H ->].
        apply prim_inl in H. destruct H as [H _]. rewrite Hw in H. inversion H; auto. }
    destruct Hm1 as [-> ->]. split.
    + apply wf_fs_insert; auto. rewrite Ep. discriminate.
    + intros k0 Hk0. exists (CC p new (Some o)). cbn [opp body].
      unfold p_write. destruct p; [congruence|]. rewrite lookup_insert.
      rewrite prim_quiet by exact Hk0. cbn [lift]. rewrite insert_insert, (insert_id _ _ _ Ep). reflexivity.
  - (* ChangeContents.undo *)
    destruct (m !! p) as [[x|]|] eqn:Ep; try discriminate. apply text_eqb_true in Hrev. subst x.
    destruct (Hwf _ _ Ep) as [Hp0 Hdp].
    destruct old as [o|]; cbn [body] in H; [|discriminate].
    apply lift_ok in H. destruct H as [H ->]. apply prim_inl in H. destruct H as [H _].
    unfold p_write in H. destruct p as [|x p]; [congruence|]. rewrite Ep in H. inversion H; subst m1. split.
    + apply wf_fs_insert; auto. rewrite Ep. discriminate.
    + intros k0 Hk0. exists (CC (x :: p) new (Some o)). cbn [opp body].
      unfold p_write. rewrite lookup_insert. rewrite prim_quiet by exact Hk0. cbn [lift].
      rewrite insert_insert, (insert_id _ _ _ Ep). reflexivity.
  - (* MoveResource.do *)
    apply simple_move_movable in Hrev. cbn [body] in H. apply lift_ok in H. destruct H as [H ->].
    apply prim_inl in H. destruct H as [H _]. rewrite (p_move_simple _ _ _ Hrev) in H. inversion H; subst m1.
    split; [apply wf_fs_move_tree; assumption|].
    intros k0 Hk0. exists (MV p q f). cbn [opp body].
    rewrite (p_move_simple _ _ _ (movable_back _ _ _ Hwf Hrev)), prim_quiet by exact Hk0. cbn [lift].
    rewrite (move_tree_sym q p), move_tree_invol. reflexivity.
  - (* MoveResource.undo *)
    apply simple_move_movable in Hrev. cbn [body] in H. apply lift_ok in H. destruct H as [H ->].
    apply prim_inl in H. destruct H as [H _]. rewrite (p_move_simple _ _ _ Hrev) in H. inversion H; subst m1.
    split; [apply wf_fs_move_tree; assumption|].
    intros k0 Hk0. exists (MV p q f). cbn [opp body].
    rewrite (p_move_simple _ _ _ (movable_back _ _ _ Hwf Hrev)), prim_quiet by exact Hk0. cbn [lift].
    rewrite (move_tree_sym p q), move_tree_invol. reflexivity.
  - (* CreateResource.do *)
    cbn [body] in H. destruct (exists_b m p) eqn:Ee; [discriminate|].
    destruct (negb (exists_b m (parent p))) eqn:Epar; [discriminate|].
    apply exists_b_false in Ee. destruct Ee as [Hp0 Hnone].
    apply lift_ok in H. destruct H as [H ->]. apply prim_inl in H. destruct H as [H _].
    unfold p_create in H. destruct p as [|x p]; [congruence|]. rewrite Hnone in H.
    destruct (is_dir m (parent (x :: p))) eqn:Hd; [|discriminate]. inversion H; subst m1. split.
    + apply wf_fs_insert; auto. rewrite Hnone. discriminate.
    + intros k0 Hk0. exists (CR (x :: p) f). cbn [opp body]. unfold p_remove. rewrite lookup_insert.
      destruct f.
      * rewrite remove_tree_fresh, prim_quiet by assumption. reflexivity.
      * rewrite (delete_insert _ _ _ Hnone), prim_quiet by assumption. reflexivity.
  - (* CreateResource.undo: the resource is still as created *)
    cbn [body] in H. apply lift_ok in H. destruct H as [H ->]. apply prim_inl in H. destruct H as [H _].
    unfold p_remove in H. destruct (m !! p) as [[c|]|] eqn:Ep; try discriminate.
    + apply andb_true_iff in Hrev. destruct Hrev as [Hf Hc]. apply negb_true_iff in Hf. subst f.
      destruct c; [|discriminate]. destruct (Hwf _ _ Ep) as [Hp0 Hdp].
      destruct p as [|x p]; [congruence|]. inversion H; subst m1.
      assert (Hleaf := wf_file_leaf m (x :: p) [] Hwf Ep). split.
      * apply wf_fs_delete; assumption.
      * intros k0 Hk0. exists (CR (x :: p) false). cbn [opp body].
        assert (E1 : exists_b (delete (x :: p) m) (x :: p) = false) by (cbn; rewrite lookup_delete; reflexivity).
        rewrite E1.
        assert (E2 : is_dir (delete (x :: p) m) (parent (x :: p)) = true).
        { rewrite (is_dir_ext m); [exact Hdp|]. apply lookup_delete_ne. intros E. symmetry in E.
          revert E. apply parent_neq. discriminate. }
        rewrite (is_dir_exists _ _ E2). cbn [negb]. unfold p_create. rewrite lookup_delete, E2.
        rewrite prim_quiet by exact Hk0. cbn [lift]. rewrite insert_delete by exact Ep. reflexivity.
    + apply andb_true_iff in Hrev. destruct Hrev as [Hf Hc]. subst f. apply negb_true_iff in Hc.
      destruct (Hwf _ _ Ep) as [Hp0 Hdp].
      destruct p as [|x p]; [congruence|]. inversion H; subst m1.
      rewrite (remove_tree_childless _ _ Hc).
      assert (Hleaf := proj1 (has_children_false m (x :: p)) Hc). split.
      * apply wf_fs_delete; assumption.
      * intros k0 Hk0. exists (CR (x :: p) true). cbn [opp body].
        assert (E1 : exists_b (delete (x :: p) m) (x :: p) = false) by (cbn; rewrite lookup_delete; reflexivity).
        rewrite E1.
        assert (E2 : is_dir (delete (x :: p) m) (parent (x :: p)) = true).
        { rewrite (is_dir_ext m); [exact Hdp|]. apply lookup_delete_ne. intros E. symmetry in E.
          revert E. apply parent_neq. discriminate. }
        rewrite (is_dir_exists _ _ E2). cbn [negb]. unfold p_create. rewrite lookup_delete, E2.
        rewrite prim_quiet by exact Hk0. cbn [lift]. rewrite insert_delete by exact Ep. reflexivity.
Qed.

(* ------------------------------------------------------------------------------------ leaves *)
Definition is_leaf (c : change) : Prop := match c with CS _ _ => False | _ => True end.

Lemma body_ok_leaf k d c m m1 k1 c1 : body k d c m = Ok m1 k1 c1 -> is_leaf c1.
Proof.
  destruct c as [p new [o|]|p q f|p f|p f|t cs], d; cbn [body]; intros H;
    try discriminate; try (apply lift_ok in H; destruct H as [_ ->]; exact I).
  - destruct (prim_read k (p_read p m)) as [[o k']|[k' y]]; [|discriminate].
    apply lift_ok in H; destruct H as [_ ->]; exact I.
  - destruct (exists_b m p); [discriminate|]. destruct (negb (exists_b m (parent p))); [discriminate|].
    apply lift_ok in H; destruct H as [_ ->]; exact I.
Qed.

Lemma leaf_nojs v k d c m : leaf v false k d c m = body k d c m.
Proof. unfold leaf. cbn [andb]. destruct (body k d c m); reflexivity. Qed.

Lemma notify_flt k : flt (notify k) = flt k.
Proof. unfold notify. destruct (stp k) as [[|n]|]; reflexivity. Qed.

Lemma notify_irrev k : irrev (notify k) = irrev k.
Proof. unfold notify. destruct (stp k) as [[|n]|]; reflexivity. Qed.

(* how a schedule can evolve: the ghost flag is sticky, an absent fault stays absent *)
Definition mono (k k' : sched) : Prop :=
  (irrev k' = false -> irrev k = false) /\ (flt k = None -> flt k' = None).

Lemma mono_refl k : mono k k.
Proof. split; auto. Qed.

Lemma mono_trans k1 k2 k3 : mono k1 k2 -> mono k2 k3 -> mono k1 k3.
Proof. intros [a1 b1] [a2 b2]. split; auto. Qed.

Lemma flt_only_mono k k' : flt_only k k' -> mono k k'.
Proof. intros (a & b & c & d). split; [congruence|]. intros H. rewrite (d H). exact H. Qed.

Lemma mono_notify k : mono k (notify k).
Proof. split; [rewrite notify_irrev; auto|rewrite notify_flt; auto]. Qed.

Lemma leaf_sched v js k d c m :
  mono k (res_k (leaf v js k d c m)) /\ (js = false -> flt k = None -> res_k (leaf v js k d c m) = k).
Proof.
  destruct js.
  - split; [|discriminate]. unfold leaf. cbn [andb]. destruct (stopped k); [apply mono_refl|].
    pose proof (body_sched (notify k) d c m) as Hb.
    destruct (body (notify k) d c m) as [m' k2 c'|m' k2 x]; cbn [res_k] in *.
    + assert (Hk3 : mono k2 (if negb (leaf_rev d c m) then set_irrev k2 else k2)).
      { destruct (negb (leaf_rev d c m)); [|apply mono_refl]. split; [discriminate|auto]. }
      eapply mono_trans; [apply mono_notify|]. eapply mono_trans; [apply flt_only_mono; exact Hb|].
      eapply mono_trans; [exact Hk3|].
      destruct (fin_chk v && stopped _); cbn [res_k]; [apply mono_refl|apply mono_notify].
    + eapply mono_trans; [apply mono_notify|apply flt_only_mono; exact Hb].
  - rewrite leaf_nojs. pose proof (body_sched k d c m) as Hb. split; [apply flt_only_mono; exact Hb|].
    intros _ H. destruct Hb as (_ & _ & _ & Hq). auto.
Qed.

Lemma leaf_inverse k d c m m1 k1 c1 :
  wf_fs m -> leaf repaired true k d c m = Ok m1 k1 c1 -> irrev k1 = false ->
  wf_fs m1 /\ is_leaf c1 /\
  forall k0, flt k0 = None -> exists c2, leaf repaired false k0 (opp d) c1 m1 = Ok m k0 c2.
Proof.
  intros Hwf H Hirr. unfold leaf in H. cbn [andb fin_chk repaired] in H.
  destruct (stopped k); [discriminate|].
  destruct (body (notify k) d c m) as [m' k2 c'|m' k2 x] eqn:Eb; [|discriminate].
  cbn [andb] in H. inversion H; subst m' c'. clear H.
  destruct (leaf_rev d c m) eqn:Hrev.
  - destruct (body_inverse _ _ _ _ _ _ _ Hwf Eb Hrev) as [Hwf1 Hinv].
    split; [exact Hwf1|]. split; [eapply body_ok_leaf; eauto|].
    intros k0 Hk0. rewrite leaf_nojs. apply Hinv; exact Hk0.
  - exfalso. subst k1. cbn [negb] in Hirr. rewrite notify_irrev in Hirr. discriminate.
Qed.

Lemma leaf_atom js k d c m m1 k1 x :
  leaf repaired js k d c m = Err m1 k1 x ->
  m1 = m /\ clean x = true /\ (single_failure k x -> flt k1 = None).
Proof.
  unfold leaf. cbn [fin_chk repaired]. destruct (js && stopped k) eqn:Es.
  - intros H; inversion H; subst. split; [reflexivity|]. split; [reflexivity|].
    intros [Hn|Hf]; [exact Hn|discriminate].
  - pose proof (body_sched (if js then notify k else k) d c m) as Hb.
    destruct (body (if js then notify k else k) d c m) as [m' k2 c'|m' k2 y] eqn:Eb.
    + rewrite andb_false_r. cbn [andb]. discriminate.
    + intros H; inversion H; subst. apply body_err in Eb. destruct Eb as [-> [Hc Hf]].
      split; [reflexivity|]. split; [exact Hc|]. intros [Hn|Hx]; [|auto].
      cbn [res_k] in Hb. destruct Hb as (_ & _ & _ & Hq).
      assert (Hn' : flt (if js then notify k else k) = None) by (destruct js; [rewrite notify_flt|]; exact Hn).
      rewrite (Hq Hn'). exact Hn'.
Qed.

(* ----------------------------------------------------------------- unfolding ChangeSet.do/undo *)
Fixpoint back (v : variant) (f : nat) (d : dir) (l : list change) (m : fs) (k : sched)
  : fs * sched * option err :=
  match l with
  | [] => (m, k, None)
  | c :: rest =>
      match run v f false k (opp d) c m with
      | Ok m2 k2 _ => back v f d rest m2 k2
      | Err m2 k2 y => (m2, k2, Some y)
      end
  end.

Fixpoint loop (v : variant) (f : nat) (js : bool) (d : dir) (l : list change) (m : fs) (k : sched)
  (done : list change) : res (list change) :=
  match l with
  | [] => Ok m k done
  | c :: rest =>
      match run v f js k d c m with
      | Ok m' k' c' => loop v f js d rest m' k' (c' :: done)
      | Err m' k' x =>
          let '(mb, kb, y) := back v f d (if rb_rev v then done else rev done) m' k' in
          Err mb kb (match y with None => x | Some y => During y x end)
      end
  end.

Lemma run_CS v f js k d t cs m :
  run v (S f) js k d (CS t cs) m =
  match loop v f js d (order d cs) m k [] with
  | Ok m' k' done => Ok m' k' (CS t (match d with Do => rev done | Undo => done end))
  | Err m' k' x => Err m' k' x
  end.
Proof.
  cbn [run].
  match goal with |- match ?g ?ll m k [] with _ => _ end = _ =>
    assert (H : forall l0 m0 k0 done0, g l0 m0 k0 done0 = loop v f js d l0 m0 k0 done0) end.
  { clear. induction l0 as [|c rest IH]; intros m0 k0 done0; cbn [loop]; [reflexivity|].
    destruct (run v f js k0 d c m0) as [m' k' c'|m' k' x]; [apply IH|].
    match goal with |- (let '(_, _) := ?b _ m' k' in _) = _ =>
      assert (Hb : forall l1 m1 k1, b l1 m1 k1 = back v f d l1 m1 k1) end.
    { clear. induction l1 as [|c rest IH]; intros m1 k1; cbn [back]; [reflexivity|].
      destruct (run v f false k1 (opp d) c m1); [apply IH|reflexivity]. }
    rewrite Hb. reflexivity. }
  rewrite H. reflexivity.
Qed.

Lemma run_leaf v f js k d c m : is_leaf c -> run v (S f) js k d c m = leaf v js k d c m.
Proof. destruct c; cbn; tauto. Qed.

(* ----------------------------------------------------------------- schedules through a run *)
Definition SCHED (v : variant) (f : nat) : Prop :=
  forall js k d c m,
    mono k (res_k (run v f js k d c m)) /\
    (js = false -> flt k = None -> res_k (run v f js k d c m) = k).

Lemma back_sched v f d (IH : SCHED v f) l : forall m k,
  mono k (snd (fst (back v f d l m k))) /\ (flt k = None -> snd (fst (back v f d l m k)) = k).
Proof.
  induction l as [|c l IHl]; intros m k; cbn [back]; [split; [apply mono_refl|reflexivity]|].
  destruct (IH false k (opp d) c m) as [Hm Hq].
  destruct (run v f false k (opp d) c m) as [m2 k2 c2|m2 k2 y]; cbn [res_k fst snd] in *.
  - destruct (IHl m2 k2) as [Hm' Hq']. split; [eapply mono_trans; eauto|].
    intros Hn. rewrite (Hq eq_refl Hn) in *. auto.
  - split; [exact Hm|auto].
Qed.

Lemma loop_sched v f js d (IH : SCHED v f) l : forall m k done,
  mono k (res_k (loop v f js d l m k done)) /\
  (js = false -> flt k = None -> res_k (loop v f js d l m k done) = k).
Proof.
  induction l as [|c l IHl]; intros m k done; cbn [loop]; [split; [apply mono_refl|reflexivity]|].
  destruct (IH js k d c m) as [Hm Hq].
  destruct (run v f js k d c m) as [m' k' c'|m' k' x]; cbn [res_k] in *.
  - destruct (IHl m' k' (c' :: done)) as [Hm' Hq']. split; [eapply mono_trans; eauto|].
    intros Hj Hn. rewrite (Hq Hj Hn) in *. auto.
  - destruct (back_sched v f d IH (if rb_rev v then done else rev done) m' k') as [Hb Hbq].
    destruct (back v f d (if rb_rev v then done else rev done) m' k') as [[mb kb] y]. cbn [res_k fst snd] in *.
    split; [eapply mono_trans; eauto|]. intros Hj Hn. rewrite (Hq Hj Hn) in *. auto.
Qed.

Lemma run_sched v f : SCHED v f.
Proof.
  induction f as [|f IH]; intros js k d c m.
  - cbn. split; [apply mono_refl|reflexivity].
  - destruct c as [p new old|p q b|p b|p b|t cs]; try (rewrite run_leaf by exact I; apply leaf_sched).
    rewrite run_CS. destruct (loop_sched v f js d IH (order d cs) m k []) as [Hm Hq].
    destruct (loop v f js d (order d cs) m k []); cbn [res_k] in *; auto.
Qed.

(* ------------------------------------------------------------------ exact compensation chains *)
(* running the opposite direction over [l] (null job set, no pending fault) leads from m1 to m0 *)
Fixpoint reverts (f : nat) (d : dir) (l : list change) (m1 m0 : fs) : Prop :=
  match l with
  | [] => m1 = m0
  | c :: rest =>
      exists m', (forall k0, flt k0 = None ->
                    exists c2, run repaired f false k0 (opp d) c m1 = Ok m' k0 c2)
                 /\ reverts f d rest m' m0
  end.

Lemma back_reverts f d l : forall m1 m0 k0,
  reverts f d l m1 m0 -> flt k0 = None -> back repaired f d l m1 k0 = (m0, k0, None).
Proof.
  induction l as [|c l IH]; intros m1 m0 k0 Hr Hk; cbn [back reverts] in *.
  - subst. reflexivity.
  - destruct Hr as [m' [Hc Hrest]]. destruct (Hc k0 Hk) as [c2 ->]. apply IH; assumption.
Qed.

Lemma loop_reverts f d l : forall m1 m0 k0 acc,
  reverts f d l m1 m0 -> flt k0 = None ->
  exists done, loop repaired f false (opp d) l m1 k0 acc = Ok m0 k0 done.
Proof.
  induction l as [|c l IH]; intros m1 m0 k0 acc Hr Hk; cbn [loop reverts] in *.
  - subst. eauto.
  - destruct Hr as [m' [Hc Hrest]]. destruct (Hc k0 Hk) as [c2 ->]. apply IH; assumption.
Qed.

(* ------------------------------------------------------ a done change can be undone exactly *)
Definition INV (f : nat) : Prop :=
  forall k d c m m1 k1 c1,
    wf_fs m -> run repaired f true k d c m = Ok m1 k1 c1 -> irrev k1 = false ->
    wf_fs m1 /\ forall k0, flt k0 = None -> exists c2, run repaired f false k0 (opp d) c1 m1 = Ok m k0 c2.

Lemma loop_inv f d (IH : INV f) l : forall m k done m1 k1 done1 m0,
  wf_fs m -> reverts f d done m m0 ->
  loop repaired f true d l m k done = Ok m1 k1 done1 -> irrev k1 = false ->
  wf_fs m1 /\ reverts f d done1 m1 m0.
Proof.
  induction l as [|c l IHl]; intros m k done m1 k1 done1 m0 Hwf Hr H Hirr; cbn [loop] in H.
  - inversion H; subst. auto.
  - destruct (run repaired f true k d c m) as [m' k' c'|m' k' x] eqn:Ec.
    + assert (Hirr' : irrev k' = false).
      { destruct (loop_sched repaired f true d (run_sched repaired f) l m' k' (c' :: done)) as [[Hm _] _].
        rewrite H in Hm. cbn [res_k] in Hm. auto. }
      destruct (IH _ _ _ _ _ _ _ Hwf Ec Hirr') as [Hwf' Hinv].
      eapply IHl; [exact Hwf'| |exact H|exact Hirr].
      cbn [reverts]. exists m. split; [exact Hinv|exact Hr].
    + destruct (back repaired f d _ m' k') as [[mb kb] y]. discriminate.
Qed.

Theorem inv_all f : INV f.
Proof.
  induction f as [|f IH]; intros k d c m m1 k1 c1 Hwf H Hirr; [discriminate|].
  destruct c as [p new old|p q b|p b|p b|t cs].
  1-4: rewrite run_leaf in H by exact I;
       destruct (leaf_inverse _ _ _ _ _ _ _ Hwf H Hirr) as [Hwf1 [Hl Hinv]];
       (split; [exact Hwf1|]); intros k0 Hk0; rewrite run_leaf by exact Hl; apply Hinv; exact Hk0.
  rewrite run_CS in H.
  destruct (loop repaired f true d (order d cs) m k []) as [m' k' done|m' k' x] eqn:El; [|discriminate].
  inversion H; subst m' k' c1; clear H.
  assert (Hr0 : reverts f d [] m m) by reflexivity.
  destruct (loop_inv f d IH _ _ _ _ _ _ _ m Hwf Hr0 El Hirr) as [Hwf1 Hr].
  split; [exact Hwf1|]. intros k0 Hk0. rewrite run_CS.
  assert (Ho : order (opp d) (match d with Do => rev done | Undo => done end) = done).
  { destruct d; cbn [opp order]; [apply rev_involutive|reflexivity]. }
  rewrite Ho. destruct (loop_reverts f d done m1 m k0 [] Hr Hk0) as [done2 ->]. eauto.
Qed.

(* ------------------------------------------------------------------------ failure atomicity *)
Definition ATOM (f : nat) : Prop :=
  forall k d c m m1 k1 x,
    wf_fs m -> run repaired f true k d c m = Err m1 k1 x -> irrev k1 = false -> single_failure k x ->
    m1 = m /\ flt k1 = None /\ clean x = true.

Lemma single_failure_next k k' x : mono k k' -> single_failure k x -> single_failure k' x.
Proof. intros [_ Hm] [Hn|Hf]; [left; auto|right; exact Hf]. Qed.

Lemma loop_atom f d (IHa : ATOM f) l : forall m k done m1 k1 x m0,
  wf_fs m -> reverts f d done m m0 ->
  loop repaired f true d l m k done = Err m1 k1 x -> irrev k1 = false -> single_failure k x ->
  m1 = m0 /\ flt k1 = None /\ clean x = true.
Proof.
  induction l as [|c l IHl]; intros m k done m1 k1 x m0 Hwf Hr H Hirr Hsf; cbn [loop] in H; [discriminate|].
  destruct (run repaired f true k d c m) as [m' k' c'|m' k' x'] eqn:Ec.
  - pose proof (run_sched repaired f true k d c m) as [Hmono _]. rewrite Ec in Hmono. cbn [res_k] in Hmono.
    assert (Hirr' : irrev k' = false).
    { destruct (loop_sched repaired f true d (run_sched repaired f) l m' k' (c' :: done)) as [[Hm _] _].
      rewrite H in Hm. cbn [res_k] in Hm. auto. }
    destruct (inv_all f _ _ _ _ _ _ _ Hwf Ec Hirr') as [Hwf' Hinv].
    eapply IHl; [exact Hwf'| |exact H|exact Hirr|eapply single_failure_next; eauto].
    cbn [reverts]. exists m. split; [exact Hinv|exact Hr].
  - cbn [rb_rev repaired] in H.
    pose proof (back_sched repaired f d (run_sched repaired f) done m' k') as [[Hbm _] _].
    destruct (back repaired f d done m' k') as [[mb kb] y] eqn:Eb. cbn [fst snd] in Hbm.
    inversion H; subst mb kb. clear H.
    assert (Hsf' : single_failure k x').
    { destruct Hsf as [Hn|Hf]; [left; exact Hn|]. right. destruct y; [subst x; discriminate|subst x; exact Hf]. }
    destruct (IHa _ _ _ _ _ _ _ Hwf Ec (Hbm Hirr) Hsf') as [-> [Hk' Hc]].
    rewrite (back_reverts f d done m m0 k' Hr Hk') in Eb. inversion Eb; subst. auto.
Qed.

Theorem atom_all f : ATOM f.
Proof.
  induction f as [|f IH]; intros k d c m m1 k1 x Hwf H Hirr Hsf.
  - cbn in H. inversion H; subst. split; [reflexivity|]. split; [|reflexivity].
    destruct Hsf as [Hn|Hf]; [exact Hn|discriminate].
  - destruct c as [p new old|p q b|p b|p b|t cs].
    1-4: rewrite run_leaf in H by exact I; destruct (leaf_atom _ _ _ _ _ _ _ _ H) as [-> [Hc Hf]]; auto.
    rewrite run_CS in H.
    destruct (loop repaired f true d (order d cs) m k []) as [m' k' done|m' k' x'] eqn:El; [discriminate|].
    inversion H; subst m' k' x'; clear H.
    eapply (loop_atom f d IH); eauto. reflexivity.
Qed.
