(* Correspondence runner for C10.  One case = the state of a real rope project before one call of
   History.do / undo / redo (tree snapshot and history lists abstracted to model terms by the
   harness), the fault / stop schedule of that call, and what was observed after it.  The model is
   evaluated here (vm_compute) under a given [variant]; the comparison happens here. *)
From stdpp Require Import gmap list.
From Coq Require Import NArith.
From RopeVerif.Lib Require Import Text.
From RopeVerif.C10 Require Import FsModel Change Static Observer.

Definition opt_eqb {A} (eqb : A -> A -> bool) (a b : option A) : bool :=
  match a, b with Some x, Some y => eqb x y | None, None => true | _, _ => false end.

Fixpoint change_eqb (a b : change) {struct a} : bool :=
  match a, b with
  | CC p n o, CC p' n' o' => text_eqb p p' && text_eqb n n' && opt_eqb text_eqb o o'
  | MV p q f, MV p' q' f' => text_eqb p p' && text_eqb q q' && Bool.eqb f f'
  | CR p f, CR p' f' => text_eqb p p' && Bool.eqb f f'
  | RM p f, RM p' f' => text_eqb p p' && Bool.eqb f f'
  | CS t l, CS t' l' =>
      N.eqb t t' &&
      (fix go (l l' : list change) {struct l} : bool :=
         match l, l' with
         | [], [] => true
         | x :: r, y :: r' => change_eqb x y && go r r'
         | _, _ => false
         end) l l'
  | _, _ => false
  end.

Fixpoint changes_eqb (l l' : list change) : bool :=
  match l, l' with
  | [], [] => true
  | x :: r, y :: r' => change_eqb x y && changes_eqb r r'
  | _, _ => false
  end.

(* the observed tree (distinct paths) equals the map *)
Definition tree_eqb (m : fs) (t : list (path * node)) : bool :=
  Nat.eqb (length (map_to_list m)) (length t)
  && forallb (fun kv => match m !! fst kv with Some n => node_eqb n (snd kv) | None => false end) t.

Definition ecode (c : ecls) : N :=
  match c with
  | Fault => 1 | OsErr => 2 | Exists => 3 | NoParent => 4 | NotDone => 5 | Interrupted => 6
  | NotImpl => 7 | HistEmpty => 8 | OutOfFuel => 30 | Unmodelled => 31
  end%N.

(* the Python exception chain (exc, exc.__context__, ...) as class codes; 20 = RopeError(OSError) *)
Fixpoint eflat (x : err) : list N :=
  match x with
  | E c => [ecode c]
  | W c => [20%N; ecode c]
  | During y x => eflat y ++ eflat x
  end.

(* several OSErrors chained inside one primitive (shutil.move's fallbacks) count as one *)
Fixpoint squash (l : list N) : list N :=
  match l with
  | a :: ((b :: _) as r) => if N.eqb a 2 && N.eqb b 2 then squash r else a :: squash r
  | _ => l
  end.

Definition artefact (x : err) : bool :=
  existsb (fun c => N.eqb c 30 || N.eqb c 31) (eflat x).

Record case := {
  c_tree : list (path * node);     (* project tree before the call *)
  c_undo : list change;            (* history.undo_list before the call, oldest first *)
  c_redo : list change;
  c_limit : nat;                   (* history.max_undos *)
  c_op : N;                        (* 0 = do c_change, 1 = undo(), 2 = redo() *)
  c_change : change;
  c_flt : option nat;              (* index of the counted primitive call that raises *)
  c_stp : option nat;              (* index of the observer notification that calls stop() *)
  o_raised : bool;
  o_err : list N;                  (* exception chain *)
  o_tree : list (path * node);     (* after the call *)
  o_undo : list change;
  o_redo : list change;
  o_calls : nat;                   (* counted primitive calls made (compared when c_flt = None) *)
  o_irrev : option bool            (* harness's own reversibility verdict on the forward phase *)
}.

Definition fuel : nat := 12.
Definition big : nat := 4000.

Definition exec (v : variant) (c : case) : hres :=
  let s := Hist (list_to_map (c_tree c)) (c_undo c) (c_redo c) (c_limit c) in
  let k := Sched (match c_flt c with Some n => Some n | None => Some big end) (c_stp c) false false in
  if N.eqb (c_op c) 0 then history_do v fuel (c_change c) s k
  else if N.eqb (c_op c) 1 then history_undo v fuel s k
  else history_redo v fuel s k.

Definition bit (b : bool) (w : N) : N := if b then w else 0%N.

(* report word of one case under variant v:
     1 raised/err chain differs   2 tree differs   4 undo list differs   8 redo list differs
     16 number of primitive calls differs   32 reversibility verdict differs
     64 model: the call raised    128 model: state after = state before (tree and lists)
     256 model: irrev flag        512 model: single failure (no fault, or the fault is the reported error)
     1024 model: error not replaced by a rollback error   2048 model artefact (out of fuel / unmodelled)
     4096 initial tree is well-formed *)
Definition report1 (v : variant) (c : case) : N :=
  let m0 : fs := list_to_map (c_tree c) in
  let r := exec v c in
  let '(raised, s', k', chain, x) :=
    match r with
    | HOk s' k' => (false, s', k', [], None)
    | HErr s' k' x => (true, s', k', squash (eflat x), Some x)
    end in
  let same := tree_eqb (h_fs s') (c_tree c) && changes_eqb (h_undo s') (c_undo c)
              && changes_eqb (h_redo s') (c_redo c) in
  let art := match x with Some x => artefact x | None => false end in
  let calls := match flt k' with Some r => big - r | None => 0 end in
  (bit (negb (Bool.eqb raised (o_raised c) && text_eqb chain (squash (o_err c)))) 1
   + bit (negb (tree_eqb (h_fs s') (o_tree c))) 2
   + bit (negb (changes_eqb (h_undo s') (o_undo c))) 4
   + bit (negb (changes_eqb (h_redo s') (o_redo c))) 8
   + bit (match c_flt c with None => negb (Nat.eqb calls (o_calls c)) | Some _ => false end) 16
   + bit (match o_irrev c with Some b => negb (Bool.eqb b (irrev k')) | None => false end) 32
   + bit raised 64
   + bit same 128
   + bit (irrev k') 256
   + bit (match x with
          | Some x => match c_flt c with None => true | Some _ => is_fault x end
          | None => true end) 512
   + bit (match x with Some x => clean x | None => true end) 1024
   + bit art 2048
   + bit (wf_fsb m0) 4096)%N.

Definition report (v : variant) (cs : list case) : list N := map (report1 v) cs.

Definition v_ft : variant := as_found.              (* forward rollback, finish check  *)
Definition v_ff : variant := Variant false false.   (* forward rollback, no finish check *)
Definition v_tt : variant := Variant true true.     (* reversed rollback, finish check *)
Definition v_tf : variant := repaired.              (* reversed rollback, no finish check *)

(* ---------------------------------------------------------------- static certificate (Static.v) *)
(* 1 = the change about to be done / undone / redone is certified by the static scan on the tree
   before the call *)
Definition static1 (c : case) : N :=
  let m0 : fs := list_to_map (c_tree c) in
  let lastof (l : list change) := match l with [] => None | c0 :: rest => Some (List.last rest c0) end in
  if N.eqb (c_op c) 0 then bit (reversible_cs fuel m0 (c_change c)) 1
  else if N.eqb (c_op c) 1
       then match lastof (c_undo c) with Some ch => bit (reversible_undo fuel m0 ch) 1 | None => 0%N end
       else match lastof (c_redo c) with Some ch => bit (reversible_cs fuel m0 ch) 1 | None => 0%N end.

Definition sreport (cs : list case) : list N := map static1 cs.

(* ------------------------------------------------- extended schedule (Observer.v): observer
   failures and truncating writes.  Same report word as [report1]; exception class 9 = the observer
   callback raised. *)
Fixpoint oeflat (x : oerr) : list N :=
  match x with
  | OE c => [ecode c]
  | OW c => [20%N; ecode c]
  | OObs => [9%N]
  | ODuring y x => oeflat y ++ oeflat x
  end.

Record ocase := {
  oc_base : case;
  oc_obs : option nat;        (* index of the observer notification that raises *)
  oc_atomic : bool            (* false: the injected fault of a write hits after the truncation *)
}.

Definition oexec (v : variant) (oc : ocase) : ohres :=
  let c := oc_base oc in
  let s := Hist (list_to_map (c_tree c)) (c_undo c) (c_redo c) (c_limit c) in
  let k := OS (Sched (match c_flt c with Some n => Some n | None => Some big end) (c_stp c) false false)
              (oc_obs oc) (oc_atomic oc) in
  if N.eqb (c_op c) 0 then ohistory_do v fuel (c_change c) s k
  else if N.eqb (c_op c) 1 then ohistory_undo v fuel s k
  else ohistory_redo v fuel s k.

Definition oreport1 (v : variant) (oc : ocase) : N :=
  let c := oc_base oc in
  let m0 : fs := list_to_map (c_tree c) in
  let r := oexec v oc in
  let '(raised, s', k', chain, x) :=
    match r with
    | OHOk s' k' => (false, s', k', [], None)
    | OHErr s' k' x => (true, s', k', squash (oeflat x), Some x)
    end in
  let same := tree_eqb (h_fs s') (c_tree c) && changes_eqb (h_undo s') (c_undo c)
              && changes_eqb (h_redo s') (c_redo c) in
  let art := existsb (fun c => N.eqb c 30 || N.eqb c 31) chain in
  let calls := match flt (ok k') with Some r => big - r | None => 0 end in
  (bit (negb (Bool.eqb raised (o_raised c) && text_eqb chain (squash (o_err c)))) 1
   + bit (negb (tree_eqb (h_fs s') (o_tree c))) 2
   + bit (negb (changes_eqb (h_undo s') (o_undo c))) 4
   + bit (negb (changes_eqb (h_redo s') (o_redo c))) 8
   + bit (match c_flt c with None => negb (Nat.eqb calls (o_calls c)) | Some _ => false end) 16
   + bit (match o_irrev c with Some b => negb (Bool.eqb b (irrev (ok k'))) | None => false end) 32
   + bit raised 64
   + bit same 128
   + bit (irrev (ok k')) 256
   + bit (match x with Some x => oclean x | None => true end) 1024
   + bit art 2048
   + bit (wf_fsb m0) 4096)%N.

Definition oreport (v : variant) (cs : list ocase) : list N := map (oreport1 v) cs.
