(* Abstract file system shared by the change/history properties (C10, and later C09, C11, C13).

   A project tree is a finite map from resource paths to nodes.  A path is the list of the segments
   of rope's resource path ("a/b" = [a; b]); the project root is [] and is NOT stored in the map (it
   always exists and is a folder).  Files carry their bytes.  Because [fs] is std++'s [gmap],
   "the tree is exactly as before" is Leibniz equality of maps.

   The primitives mirror rope.base.fscommands.FileSystemCommands (open(.., "wb"), os.mkdir,
   shutil.move, os.remove / shutil.rmtree) on a POSIX file system, quirks included:
     - write creates a missing file when the parent folder exists;
     - move onto an existing folder moves INTO it; move of a file onto an existing file overwrites it;
     - remove of a folder removes the whole subtree.
   Modelled, not verified: a primitive that raises has no partial effect.  One behaviour is declared
   out of the model ([PUnmodelled]): shutil.move of a folder to a destination whose parent folder is
   missing (shutil falls back to copytree + rmtree and creates the missing ancestors), and any
   operation on the project root itself.

   Every primitive is called through [prim], which consults the fault schedule: a countdown of
   primitive calls after which ONE injected fault (an OSError raised instead of performing the
   call) fires.  The schedule is threaded beside the map and never stored in it. *)
From stdpp Require Import gmap list.
From Coq Require Import NArith Lia.
From RopeVerif.Lib Require Import Text.

Notation path := (list N) (only parsing).
Notation content := (list N) (only parsing).

Inductive node := File (c : content) | Dir.
Notation fs := (gmap path node).

Definition node_eqb (a b : node) : bool :=
  match a, b with
  | File c, File c' => text_eqb c c'
  | Dir, Dir => true
  | _, _ => false
  end.

(* ------------------------------------------------------------------------------------ paths *)
(* [strip p k = Some r] iff [k = p ++ r] *)
Fixpoint strip (p k : path) : option path :=
  match p, k with
  | [], _ => Some k
  | x :: p', y :: k' => if N.eqb x y then strip p' k' else None
  | _ :: _, [] => None
  end.

(* rope: Folder.contains is "proper prefix"; [is_prefix] is reflexive ("k is p or lies below p") *)
Definition is_prefix (p k : path) : bool :=
  match strip p k with Some _ => true | None => false end.

Definition parent (p : path) : path := removelast p.

Definition nonroot (p : path) : bool := match p with [] => false | _ => true end.

(* os.path.exists / os.path.isdir on a project path *)
Definition exists_b (m : fs) (p : path) : bool :=
  match p with
  | [] => true
  | _ => match m !! p with Some _ => true | None => false end
  end.

Definition is_dir (m : fs) (p : path) : bool :=
  match p with
  | [] => true
  | _ => match m !! p with Some Dir => true | _ => false end
  end.

(* the map describes a tree: the root is not a key, the parent of every key is a folder *)
Definition wf_fs (m : fs) : Prop :=
  forall p n, m !! p = Some n -> p <> [] /\ is_dir m (parent p) = true.

Definition wf_fsb (m : fs) : bool :=
  forallb (fun kv => nonroot (fst kv) && is_dir m (parent (fst kv))) (map_to_list m).

(* some key lies strictly below p *)
Definition has_children (m : fs) (p : path) : bool :=
  existsb (fun kv => is_prefix p (fst kv) && negb (text_eqb p (fst kv))) (map_to_list m).

(* ------------------------------------------------------------------------- subtree operations *)
Definition remove_tree (p : path) (m : fs) : fs :=
  filter (fun kv => is_prefix p (fst kv) = false) m.

(* exchange the subtrees at p and q (identity when one path lies below the other); an involution,
   hence injective, which is what std++'s [kmap] lemmas need.  Moving p to a free location q is
   [kmap (swapf p q)]. *)
Definition nested (p q : path) : bool := is_prefix p q || is_prefix q p.

Definition swapf (p q k : path) : path :=
  if nested p q then k
  else match strip p k with
       | Some r => q ++ r
       | None => match strip q k with
                 | Some r => p ++ r
                 | None => k
                 end
       end.

Definition move_tree (p q : path) (m : fs) : fs := kmap (swapf p q) m.

(* ------------------------------------------------------------ natural behaviour of primitives *)
Inductive pres := POk (m : fs) | PErr | PUnmodelled.

(* FileSystemCommands.read *)
Definition p_read (p : path) (m : fs) : option content :=
  match m !! p with Some (File c) => Some c | _ => None end.

(* FileSystemCommands.write: open(path, "wb") *)
Definition p_write (p : path) (c : content) (m : fs) : pres :=
  match p with
  | [] => PErr
  | _ => match m !! p with
         | Some (File _) => POk (<[p := File c]> m)
         | Some Dir => PErr
         | None => if is_dir m (parent p) then POk (<[p := File c]> m) else PErr
         end
  end.

(* FileSystemCommands.create_file: open(path, "w").close();  create_folder: os.mkdir *)
Definition p_create (isdir : bool) (p : path) (m : fs) : pres :=
  match p with
  | [] => PErr
  | _ => match m !! p with
         | Some (File _) => if isdir then PErr else POk (<[p := File []]> m)
         | Some Dir => PErr
         | None => if is_dir m (parent p)
                   then POk (<[p := if isdir then Dir else File []]> m)
                   else PErr
         end
  end.

(* FileSystemCommands.remove: os.remove for a file, shutil.rmtree otherwise *)
Definition p_remove (p : path) (m : fs) : pres :=
  match p with
  | [] => PUnmodelled
  | _ => match m !! p with
         | None => PErr
         | Some (File _) => POk (delete p m)
         | Some Dir => POk (remove_tree p m)
         end
  end.

(* FileSystemCommands.move: shutil.move(src, dst) *)
Definition p_move (p q : path) (m : fs) : pres :=
  match p with
  | [] => PUnmodelled
  | _ =>
    match m !! p with
    | None => PErr                                            (* FileNotFoundError *)
    | Some n =>
        let into := is_dir m q in                             (* existing folder: move inside it *)
        let q' := if into then q ++ [List.last p 0%N] else q in
        if text_eqb p q then POk m                            (* same file: os.rename(p, p) *)
        else if into && exists_b m q' then PErr               (* shutil.Error: already exists *)
        else if is_prefix p q' then PErr                      (* into itself / below a file *)
        else match m !! q' with
             | Some (File _) =>
                 match n with
                 | File c => POk (<[q' := File c]> (delete p m))   (* os.rename overwrites *)
                 | Dir => PErr
                 end
             | Some Dir => PErr
             | None =>
                 if is_dir m (parent q') then POk (move_tree p q' m)
                 else match n with File _ => PErr | Dir => PUnmodelled end
             end
    end
  end.

(* ----------------------------------------------------------------- schedules and error classes *)
(* [flt]: Some n = the (n+1)-th primitive call from now raises the injected fault (once).
   [stp]: Some n = TaskHandle.stop() is called during the (n+1)-th observer notification from now.
   [stopped]: TaskHandle.is_stopped().
   [irrev]: ghost flag, never read by the model's control flow: some sub-change performed in the
   forward phase of this call cannot be compensated exactly (see Change.leaf_rev). *)
Record sched := Sched { flt : option nat; stp : option nat; stopped : bool; irrev : bool }.

Definition quiet : sched := Sched None None false false.

Definition set_flt (k : sched) (f : option nat) : sched := Sched f (stp k) (stopped k) (irrev k).
Definition set_irrev (k : sched) : sched := Sched (flt k) (stp k) (stopped k) true.

Definition tick (k : sched) : bool * sched :=
  match flt k with
  | Some O => (true, set_flt k None)
  | Some (S n) => (false, set_flt k (Some n))
  | None => (false, k)
  end.

(* TaskHandle._inform_observers with the harness's observer *)
Definition notify (k : sched) : sched :=
  match stp k with
  | Some O => Sched (flt k) None true (irrev k)
  | Some (S n) => Sched (flt k) (Some n) (stopped k) (irrev k)
  | None => k
  end.

Inductive ecls :=
| Fault            (* the injected OSError *)
| OsErr            (* an OSError raised by the operating system (missing file, is a directory, ...) *)
| Exists           (* RopeError: resource already exists *)
| NoParent         (* ResourceNotFoundError: parent folder does not exist *)
| NotDone          (* HistoryError: undoing a change that is not performed yet *)
| Interrupted      (* InterruptedTaskError *)
| NotImpl          (* NotImplementedError: RemoveResource.undo *)
| HistEmpty        (* HistoryError: undo/redo list is empty *)
| OutOfFuel        (* model artefact: recursion bound hit; excluded in statements *)
| Unmodelled.      (* model artefact: behaviour declared out of the model *)

(* [W c]: RopeError raised from an OSError of class c (_create_resource);
   [During y x]: y was raised by the rollback loop while handling x (Python: y.__context__ is x) *)
Inductive err := E (c : ecls) | W (c : ecls) | During (y x : err).

Definition prim (k : sched) (r : pres) : (fs * sched) + (sched * ecls) :=
  let '(fire, k') := tick k in
  if fire then inr (k', Fault)
  else match r with
       | POk m' => inl (m', k')
       | PErr => inr (k', OsErr)
       | PUnmodelled => inr (k', Unmodelled)
       end.

Definition prim_read (k : sched) (r : option content) : (content * sched) + (sched * ecls) :=
  let '(fire, k') := tick k in
  if fire then inr (k', Fault)
  else match r with
       | Some c => inl (c, k')
       | None => inr (k', OsErr)
       end.
