(* A STATIC sufficient condition for the run-time side condition [irrev k' = false] of the C10
   atomicity theorems: [rscan] walks the change tree once, from the initial tree, without faults and
   without stops, and checks that every leaf is exactly reversible in the tree in which it would be
   executed (Change.leaf_rev: a ChangeContents finds an existing file whose contents are the recorded
   old contents, or records them itself; a move goes from an existing resource to a free location in
   an existing folder; a creation targets a free path; no RemoveResource).  A leaf that the code
   refuses in that tree (the creation of an existing path, an edit of a missing file ...) ends the
   scan successfully: nothing after it is ever executed, under any schedule.  A leaf whose behaviour
   the model declares outside itself ([Unmodelled]: shutil's copytree fallback, the project root) is
   not certified.

   [rscan f d c m = (ok, r)]: ok = every leaf reached is reversible; r = Some m' if the whole change
   completes in the fault-free run (m' the tree after it), None if it is refused part-way.
   [f] is the nesting fuel of Change.run (the same value must be used; too little fuel gives false). *)
From stdpp Require Import gmap list.
From Coq Require Import NArith.
From RopeVerif.Lib Require Import Text.
From RopeVerif.C10 Require Import FsModel Change.

(* a refusal of the code, as opposed to a behaviour the model declares outside itself *)
Definition refusal_ok (x : err) : bool :=
  match x with E Unmodelled | E OutOfFuel => false | _ => true end.

Fixpoint rscan (f : nat) (d : dir) (c : change) (m : fs) : bool * option fs :=
  match f with
  | O => (false, None)
  | S f =>
    match c with
    | CS _ cs =>
        (fix go (l : list change) (m : fs) : bool * option fs :=
           match l with
           | [] => (true, Some m)
           | c :: rest =>
               match rscan f d c m with
               | (true, Some m') => go rest m'
               | r => r
               end
           end) (order d cs) m
    | _ =>
        match body quiet d c m with
        | Ok m' _ _ => if leaf_rev d c m then (true, Some m') else (false, None)
        | Err _ _ x => (refusal_ok x, None)
        end
    end
  end.

(* the condition for History.do / redo of c on tree m, and for History.undo of c *)
Definition reversible_cs (f : nat) (m : fs) (c : change) : bool := fst (rscan f Do c m).
Definition reversible_undo (f : nat) (m : fs) (c : change) : bool := fst (rscan f Undo c m).
