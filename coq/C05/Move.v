(* C05 — modules as import tables + dotted references; Python's and rope's view of what a reference
   means; the client rewriting of MoveModule (rope/refactor/move.py), Rename of a module
   (rope/refactor/rename.py) and ModuleToPackage (rope/refactor/topackage.py) on that abstraction.
   Definitions only. *)
From Coq Require Import List NArith Bool Arith.
From RopeVerif.C05 Require Import Layout.
Import ListNotations.

Definition STAR : N := 1%N.          (* the name "*" of  from m import *  *)

(* ---------------------------------------------------------------- modules *)

Inductive istmt :=
| INormal (names : list (dotted * option N))                    (* import a.b [as x], ... *)
| IFrom (level : nat) (modn : dotted) (names : list (N * option N))   (* from [..]m import n [as k], ... *)
| IEmpty.                                                       (* importinfo.EmptyImport *)

Record pymod := {
  m_folder : path;          (* the module is  m_folder/m_name.py  *)
  m_name : N;
  m_imports : list istmt;   (* top-level import statements, in order *)
  m_refs : list dotted      (* dotted primaries used in the body, in order *)
}.

Definition m_res (m : pymod) : res := RPy (m_folder m) (m_name m).

(* the world: a layout and the global names each Python file defines *)
Record world := {
  w_l : layout;
  w_g : list (res * list N)
}.

Inductive obj :=
| OMod (r : res)            (* a module (RPy) or package (RDir) *)
| OGlob (r : res) (n : N).  (* global n defined in module r (canonical resource) *)

Definition dotted_eqb (a b : dotted) : bool := path_eqb a b.

Definition obj_eqb (a b : obj) : bool :=
  match a, b with
  | OMod r, OMod s => res_eqb r s
  | OGlob r n, OGlob s m => res_eqb r s && N.eqb n m
  | _, _ => false
  end.

Definition opt_eqb {A} (eqb : A -> A -> bool) (a b : option A) : bool :=
  match a, b with Some x, Some y => eqb x y | None, None => true | _, _ => false end.

Definition init_file (r : res) : res :=
  match r with RDir p => RPy p INIT | _ => r end.

Fixpoint assoc_res {B} (r : res) (t : list (res * B)) : option B :=
  match t with
  | [] => None
  | (k, v) :: t' => if res_eqb k r then Some v else assoc_res r t'
  end.

Definition globals_of (w : world) (r : res) : list N :=
  match assoc_res (init_file r) (w_g w) with Some g => g | None => [] end.

Definition memN (x : N) (xs : list N) : bool := existsb (N.eqb x) xs.

(* attribute n of module object r; [chk] says whether a submodule is available as an attribute
   (Python: only once it has been imported; rope: always) *)
Definition mod_attr (w : world) (chk : res -> bool) (r : res) (n : N) : option obj :=
  if memN n (globals_of w r) then Some (OGlob r n)
  else match r with
       | RDir p =>
           match find_in_folder (w_l w) p [n] with
           | Some c => if chk c then Some (OMod c) else None
           | None => None
           end
       | RPy _ _ => None
       end.

(* absolute import of a dotted module name, from a module in [folder].
   rope = true : Project.find_module(name, folder)      rope = false : Python with sys.path = [root] *)
Definition abs_import (rope : bool) (l : layout) (folder : path) (d : dotted) : option res :=
  if rope then find_module_from l folder d else find_in_folder l [] d.

(* the module named by  from <level dots><modn>  *)
Definition from_module (rope : bool) (l : layout) (folder : path) (level : nat) (modn : dotted) : option res :=
  match level with
  | O => abs_import rope l folder modn
  | S k =>
      if rope then find_relative_module l modn folder level
      else if Nat.ltb k (length folder)            (* beyond the top-level package: ImportError *)
           then find_relative_module l modn folder level
           else None
  end.

Notation env := (list (N * option obj)).   (* Some o = bound to o ; None = bound, but unresolvable *)

Definition bind_normal (rope : bool) (w : world) (folder : path) (na : dotted * option N) : env :=
  let (d, al) := na in
  match al with
  | Some x => [(x, option_map OMod (abs_import rope (w_l w) folder d))]
  | None =>
      match d with
      | [] => []
      | h :: _ =>
          if rope then [(h, option_map OMod (abs_import rope (w_l w) folder [h]))]
          else match abs_import rope (w_l w) folder d with
               | Some _ => [(h, option_map OMod (abs_import rope (w_l w) folder [h]))]
               | None => [(h, None)]
               end
      end
  end.

Definition bind_from (rope : bool) (w : world) (folder : path) (level : nat) (modn : dotted)
           (names : list (N * option N)) : env :=
  let base := from_module rope (w_l w) folder level modn in
  flat_map (fun na : N * option N =>
              let (n, al) := na in
              if N.eqb n STAR then
                match base with
                | Some r => map (fun g => (g, Some (OGlob r g))) (globals_of w r)
                | None => [(STAR, None)]
                end
              else [(match al with Some x => x | None => n end,
                     match base with Some r => mod_attr w (fun _ => true) r n | None => None end)])
           names.

Definition bind_stmt (rope : bool) (w : world) (folder : path) (s : istmt) : env :=
  match s with
  | INormal names => flat_map (bind_normal rope w folder) names
  | IFrom level modn names => bind_from rope w folder level modn names
  | IEmpty => []
  end.

Definition env_of (rope : bool) (w : world) (folder : path) (imps : list istmt) : env :=
  flat_map (bind_stmt rope w folder) imps.

(* the last binding of a name wins *)
Fixpoint lookup_env (x : N) (e : env) : option (option obj) :=
  match e with
  | [] => None
  | (y, o) :: e' =>
      match lookup_env x e' with
      | Some r => Some r
      | None => if N.eqb x y then Some o else None
      end
  end.

(* modules imported (hence present as attributes of their packages) by the import statements *)
Fixpoint prefixes_from {A} (acc : list A) (d : list A) : list (list A) :=
  match d with
  | [] => []
  | x :: d' => (acc ++ [x]) :: prefixes_from (acc ++ [x]) d'
  end.
Definition prefixes {A} (d : list A) : list (list A) := prefixes_from [] d.

Definition opt_list {A} (o : option A) : list A := match o with Some x => [x] | None => [] end.

Definition loaded_stmt (w : world) (folder : path) (s : istmt) : list res :=
  match s with
  | INormal names =>
      flat_map (fun na : dotted * option N =>
                  flat_map (fun pre => opt_list (find_in_folder (w_l w) [] pre)) (prefixes (fst na))) names
  | IFrom level modn names =>
      let base := from_module false (w_l w) folder level modn in
      (match level with
       | O => flat_map (fun pre => opt_list (find_in_folder (w_l w) [] pre)) (prefixes modn)
       | S k => flat_map (fun pre => opt_list (find_in_folder (w_l w) (up k folder) pre)) (prefixes modn)
       end)
      ++ match base with
         | Some (RDir p) =>
             flat_map (fun na : N * option N =>
                         if memN (fst na) (globals_of w (RDir p)) then []
                         else opt_list (find_in_folder (w_l w) p [fst na])) names
         | _ => []
         end
  | IEmpty => []
  end.

(* the packages the module itself lives in are imported before it *)
Definition loaded (w : world) (m : pymod) : list res :=
  flat_map (fun pre => opt_list (find_in_folder (w_l w) [] pre)) (prefixes (m_folder m))
  ++ flat_map (loaded_stmt w (m_folder m)) (m_imports m).

Definition step_attr (w : world) (chk : res -> bool) (o : option obj) (n : N) : option obj :=
  match o with
  | Some (OMod r) => mod_attr w chk r n
  | _ => None
  end.

(* value of a dotted primary in a module whose bindings are [e] *)
Definition eval_dotted (w : world) (chk : res -> bool) (self : res) (e : env) (d : dotted) : option obj :=
  match d with
  | [] => None
  | h :: t =>
      let start :=
        match lookup_env h e with
        | Some o => o
        | None => if memN h (globals_of w self) then Some (OGlob (canon self) h) else None
        end in
      fold_left (step_attr w chk) t start
  end.

(* rope's view (pyobjects: every child of a package is an attribute) *)
Definition rope_eval (w : world) (m : pymod) (imps : list istmt) (d : dotted) : option obj :=
  eval_dotted w (fun _ => true) (m_res m) (env_of true w (m_folder m) imps) d.

(* Python's view.  A module whose imports fail has no meaning at all. *)
Definition env_ok (e : env) : bool := forallb (fun b : N * option obj => is_some (snd b)) e.

Definition imports_ok (w : world) (m : pymod) : bool :=
  env_ok (env_of false w (m_folder m) (m_imports m)).

Definition resolve_ref (w : world) (m : pymod) (d : dotted) : option obj :=
  if imports_ok w m then
    eval_dotted w (fun c => mem c (loaded w m)) (m_res m)
                (env_of false w (m_folder m) (m_imports m)) d
  else None.

(* ---------------------------------------------------------------- moving resources *)

Fixpoint strip_prefix (pre q : path) : option path :=
  match pre, q with
  | [], _ => Some q
  | x :: pre', y :: q' => if N.eqb x y then strip_prefix pre' q' else None
  | _ :: _, [] => None
  end.

Definition rebase (old new q : path) : path :=
  match strip_prefix old q with Some rest => new ++ rest | None => q end.

(* what is moved: a module file p/b.py or a package folder p/b ; always to dest/b[.py] *)
Definition src_parent (src : res) : path := res_parent src.
Definition src_name (src : res) : N := match src with RDir p => last_name p | RPy _ n => n end.

Definition move_res (src : res) (dest : path) (r : res) : res :=
  match src with
  | RPy p b => if res_eqb r (RPy p b) then RPy dest b else r
  | RDir q =>
      match r with
      | RDir x => RDir (rebase q (dest ++ [last_name q]) x)
      | RPy x n => RPy (rebase q (dest ++ [last_name q]) x) n
      end
  end.

Definition move_obj (f : res -> res) (o : obj) : obj :=
  match o with OMod r => OMod (f r) | OGlob r n => OGlob (f r) n end.

Definition map_world (f : res -> res) (w : world) : world :=
  {| w_l := map f (w_l w); w_g := map (fun kv : res * list N => (f (fst kv), snd kv)) (w_g w) |}.

Definition move_world (src : res) (dest : path) (w : world) : world := map_world (move_res src dest) w.

Definition move_pymod_loc (src : res) (dest : path) (m : pymod) : pymod :=
  match move_res src dest (m_res m) with
  | RPy p n => {| m_folder := p; m_name := n; m_imports := m_imports m; m_refs := m_refs m |}
  | RDir _ => m
  end.

(* ---------------------------------------------------------------- importutils pieces *)

Definition stmt_is_empty (s : istmt) : bool :=
  match s with
  | INormal [] => true
  | IFrom _ _ [] => true
  | IEmpty => true
  | _ => false
  end.

(* get_changed_source + re-parse: empty import statements disappear *)
Definition reparse (imps : list istmt) : list istmt := filter (fun s => negb (stmt_is_empty s)) imps.

Definition is_star (names : list (N * option N)) : bool :=
  match names with (n, _) :: _ => N.eqb n STAR | [] => false end.

Definition optN_eqb (a b : option N) : bool := opt_eqb N.eqb a b.

Definition pairN_eqb (a b : N * option N) : bool := N.eqb (fst a) (fst b) && optN_eqb (snd a) (snd b).
Definition pairD_eqb (a b : dotted * option N) : bool := dotted_eqb (fst a) (fst b) && optN_eqb (snd a) (snd b).

Fixpoint list_eqb {A} (eqb : A -> A -> bool) (a b : list A) : bool :=
  match a, b with
  | [], [] => true
  | x :: a', y :: b' => eqb x y && list_eqb eqb a' b'
  | _, _ => false
  end.

(* "x.y".startswith("x" + ".") on segment lists *)
Definition proper_prefix (a b : dotted) : bool :=
  match strip_prefix a b with Some (_ :: _) => true | _ => false end.

Definition covered_by_star (names : list (N * option N)) : bool :=
  forallb (fun na : N * option N => match snd na with None => true | Some _ => false end) names.

(* actions.AddingVisitor for one new import: result = Some s' when the existing statement s absorbs it *)
Definition adding_visit (s new : istmt) : option istmt :=
  match s, new with
  | INormal e, INormal n =>
      match e, n with
      | [(ed, None)], [(nd, None)] =>
          if proper_prefix nd ed then Some s
          else if proper_prefix ed nd then Some new
          else if list_eqb pairD_eqb e n then Some s else None
      | _, _ => if list_eqb pairD_eqb e n then Some s else None
      end
  | IFrom el em en, IFrom nl nm nn =>
      if dotted_eqb em nm && Nat.eqb el nl then
        (* a star import only absorbs what it binds: un-aliased names (actions._covered_by_star; every
           identifier of the model is public) *)
        if is_star en then (if covered_by_star nn then Some s else None)
        else if is_star nn then (if covered_by_star en then Some new else None)
        else Some (IFrom el em (en ++ filter (fun p => negb (existsb (pairN_eqb p) en)) nn))
      else None
  | _, _ => None
  end.

(* ModuleImports.add_import *)
Fixpoint add_import (imps : list istmt) (new : istmt) : list istmt :=
  match imps with
  | [] => [new]
  | s :: r =>
      match adding_visit s new with
      | Some s' => s' :: r
      | None => s :: add_import r new
      end
  end.

(* ---------------------------------------------------------------- MoveModule *)

Inductive outcome (A : Type) :=
| Crash            (* the implementation raises (AttributeError on a None folder) *)
| NoFuel           (* model artefact, excluded in every statement *)
| Done (x : A).
Arguments Crash {A}. Arguments NoFuel {A}. Arguments Done {A} x.

(* Which of two behaviours the code under test implements (the harness detects it by probing):
     v_relctx   = false : as found — _change_import_statements looks from-imports up with ImportContext(project, None):
                          relative from-imports are invisible to it, or raise AttributeError
                = true  : the import context carries the importing module's folder
     v_rootfrom = false : as found — _change_import_statements is skipped when the destination is a source root
                = true  : it always runs; a module that becomes top-level is re-imported with  import b [as x]  *)
Record variant := { v_relctx : bool; v_rootfrom : bool; v_case3abs : bool }.
(* v_case3abs = false : Case 3 keeps the level of the old from-statement with the (absolute) new module name
              = true  : Case 3 writes an absolute from-import (proposed_fixes/C05-case3-absolute-level.diff) *)
Definition as_found : variant := {| v_relctx := false; v_rootfrom := false; v_case3abs := false |}.

Section MoveModule.
  Variable V : variant.
  Variable w : world.
  Variable src : res.        (* canonical: RPy p b  or  RDir (p ++ [b]) *)
  Variable dest : path.
  Let l := w_l w.
  Let b := src_name src.
  Let destname := modname l (RDir dest).
  Definition new_name : dotted := destname ++ [b].

  (* FromImport.get_imported_resource(ImportContext(project, None)) *)
  Definition imported_resource_nofolder (level : nat) (modn : dotted) : outcome (option res) :=
    match level with
    | O => Done (find_module l modn)
    | S O => match modn with [] => Done None | _ => Crash end
    | _ => Crash
    end.

  (* ... or FromImport.get_imported_resource(ImportContext(project, folder of the importing module)) *)
  Definition imported_resource (folder : path) (level : nat) (modn : dotted) : outcome (option res) :=
    if v_relctx V then Done (from_module true l folder level modn)
    else imported_resource_nofolder level modn.

  (* the import that replaces  from pkg import b [as x]  *)
  Definition moved_from_import (al : option N) : istmt :=
    match destname with
    | [] => INormal [([b], al)]
    | _ => IFrom 0 destname [(b, al)]
    end.

  Definition res_opt_is (o : option res) (r : res) : bool :=
    match o with Some x => res_eqb x r | None => false end.

  (* one iteration of the loop of _change_import_statements on statement number i *)
  Definition change_stmt (folder : path) (imps : list istmt) (i : nat) : outcome (list istmt) :=
    match nth_error imps i with
    | Some (IFrom level modn names) =>
        if negb (existsb (fun na : N * option N => N.eqb (fst na) b) names) then Done imps
        else
          match imported_resource folder level modn with
          | Crash => Crash
          | NoFuel => NoFuel
          | Done ir =>
              (* Case 2: the moving module is from-imported from its package.  The statement is
                 overwritten after the add_import calls (which may have merged into it). *)
              let '(imps2, stmt2') :=
                if res_opt_is ir (RDir (src_parent src)) then
                  let imps_added :=
                    fold_left (fun acc (na : N * option N) =>
                                 if N.eqb (fst na) b
                                 then add_import acc (moved_from_import (snd na))
                                 else acc) names imps in
                  let kept := filter (fun na : N * option N => negb (N.eqb (fst na) b)) names in
                  let st := match kept with [] => IEmpty | _ => IFrom level modn kept end in
                  (imps_added, st)
                else (imps, IFrom level modn names) in
              (* Case 3: names are imported from the moving module *)
              let stmt3 :=
                match stmt2' with
                | IFrom lv mn nms =>
                    if negb (stmt_is_empty stmt2') && res_opt_is ir src
                    then IFrom (if v_case3abs V then 0 else lv) new_name nms else stmt2'
                | s => s
                end in
              Done (firstn i imps2 ++ [stmt3] ++ skipn (S i) imps2)
          end
    | _ => Done imps
    end.

  (* for import_stmt in module_imports.imports — the list may grow while it is iterated *)
  Fixpoint change_loop (folder : path) (fuel : nat) (imps : list istmt) (i : nat) : outcome (list istmt) :=
    match fuel with
    | O => NoFuel
    | S k =>
        if Nat.leb (length imps) i then Done imps
        else match change_stmt folder imps i with
             | Done imps' => change_loop folder k imps' (S i)
             | o => o
             end
    end.

  Definition change_import_statements (folder : path) (imps : list istmt) : outcome (list istmt) :=
    change_loop folder (2 * length imps + 2) imps 0.

  (* position (1-based) of the word b in a dotted primary whose prefix up to it means the moving module *)
  Fixpoint occ_scan (ev : dotted -> bool) (pre : dotted) (d : dotted) : option nat :=
    match d with
    | [] => None
    | x :: d' =>
        if N.eqb x b && ev (pre ++ [x]) then Some (S (length pre))
        else occ_scan ev (pre ++ [x]) d'
    end.
  Definition occ_index (ev : dotted -> bool) (d : dotted) : option nat := occ_scan ev [] d.

  Definition is_moving_res (o : option res) : bool := res_opt_is o src.
  Definition is_moving_obj (o : option obj) : bool :=
    match o with Some (OMod r) => res_eqb r src | _ => false end.

  Definition occ_abs (folder : path) (d : dotted) : option nat :=
    occ_index (fun pre => is_moving_res (abs_import true l folder pre)) d.
  (* worder: with three or more leading dots the primary of the module part is cut after two dots and
     is_from_statement_module fails: such a module part is never an occurrence *)
  Definition occ_from (folder : path) (level : nat) (d : dotted) : option nat :=
    if Nat.leb 3 level then None
    else occ_index (fun pre => is_moving_res (from_module true l folder level pre)) d.
  Definition occ_ref (m : pymod) (imps : list istmt) (d : dotted) : option nat :=
    occ_index (fun pre => is_moving_obj (rope_eval w m imps pre)) d.

  (* evaluate.ScopeNameFinder.get_primary_and_pyname_at: the module of an aliased  import a.b as x  and the
     module part of a from statement are looked up as modules; an unaliased  import a.b  is evaluated as the
     expression a.b in the module's namespace; a name after  from .. import  is looked up in the module's
     namespace under its alias (or itself) *)
  Definition occ_normal (m : pymod) (imps : list istmt) (na : dotted * option N) : option nat :=
    match snd na with
    | Some _ => occ_abs (m_folder m) (fst na)
    | None => occ_ref m imps (fst na)
    end.

  Definition from_name_occurs (m : pymod) (imps : list istmt) (na : N * option N) : bool :=
    N.eqb (fst na) b
    && is_moving_obj (rope_eval w m imps [match snd na with Some x => x | None => fst na end]).

  Definition replace_primary (i : nat) (d : dotted) : dotted := new_name ++ skipn i d.

  (* _MoveTools.rename_in_module(new_name, imports=True) with replace_primary=True:
     names after  from .. import  are fixed primaries and are skipped *)
  Definition rename_stmt (m : pymod) (imps : list istmt) (s : istmt) : istmt :=
    match s with
    | INormal names =>
        INormal (map (fun na : dotted * option N =>
                        match occ_normal m imps na with
                        | Some i => (replace_primary i (fst na), snd na)
                        | None => na
                        end) names)
    | IFrom level modn names =>
        match occ_from (m_folder m) level modn with
        | Some i => IFrom 0 (replace_primary i modn) names
        | None => s
        end
    | IEmpty => IEmpty
    end.

  Definition rename_ref (m : pymod) (imps : list istmt) (d : dotted) : dotted :=
    match occ_ref m imps d with
    | Some i => replace_primary i d
    | None => d
    end.

  Definition stmt_occurs (m : pymod) (imps : list istmt) (s : istmt) : bool :=
    match s with
    | INormal names => existsb (fun na => is_some (occ_normal m imps na)) names
    | IFrom level modn names =>
        is_some (occ_from (m_folder m) level modn) || existsb (from_name_occurs m imps) names
    | IEmpty => false
    end.

  (* _MoveTools.occurs_in_module *)
  Definition occurs_in_module (imports : bool) (m : pymod) (imps : list istmt) (refs : list dotted) : bool :=
    (imports && existsb (stmt_occurs m imps) imps)
    || existsb (fun d => is_some (occ_ref m imps d)) refs.

  (* names a star import would bring (FromImport.get_imported_primaries): attributes of the module *)
  Definition child_names (p : path) : list N :=
    flat_map (fun r => match r with
                       | RDir q => if is_child_of p q then [last_name q] else []
                       | RPy q n => if path_eqb q p && negb (N.eqb n INIT) then [n] else []
                       end) l.
  Definition attr_names (r : res) : list N :=
    globals_of w r ++ match r with RDir p => child_names p | _ => [] end.

  (* _MoveTools.remove_old_imports: drop imported names that are spelled b and mean the moving module *)
  Definition remove_old_imports (m : pymod) (imps : list istmt) : list istmt :=
    let e := env_of true w (m_folder m) imps in
    let b_is_moving :=
      match lookup_env b e with
      | Some o => is_moving_obj o
      | None => false
      end in
    let can_select (x : N) := negb (N.eqb x b && b_is_moving) in
    map (fun s =>
           match s with
           | INormal names =>
               INormal (filter (fun na : dotted * option N =>
                                  match snd na with
                                  | Some x => can_select x
                                  | None => match fst na with [x] => can_select x | _ => true end
                                  end) names)
           | IFrom level modn names =>
               if is_star names then
                 match from_module true l (m_folder m) level modn with
                 | Some r => if existsb can_select (attr_names r) then s else IFrom level modn []
                 | None => s
                 end
               else IFrom level modn
                          (filter (fun na : N * option N =>
                                     can_select (match snd na with Some x => x | None => fst na end)) names)
           | IEmpty => IEmpty
           end) imps.

  (* MoveModule._change_occurrences_in_module for a module that is not the moving one.
     Result: new imports and references (equal to the old ones when nothing is to be changed). *)
  Definition change_occurrences (m : pymod) : outcome pymod :=
    if negb (occurs_in_module true m (m_imports m) (m_refs m)) then Done m
    else
      match (match destname with
             | [] => if v_rootfrom V then change_import_statements (m_folder m) (m_imports m)
                     else Done (m_imports m)
             | _ => change_import_statements (m_folder m) (m_imports m)
             end) with
      | Crash => Crash
      | NoFuel => NoFuel
      | Done imps1 =>
          let imps1 := reparse imps1 in
          let imps2 := map (rename_stmt m imps1) imps1 in
          let refs2 := map (rename_ref m imps1) (m_refs m) in
          let should_import := occurs_in_module false m imps1 (m_refs m) in
          let imps3 := reparse (remove_old_imports m imps2) in
          let imps4 := if should_import then add_import imps3 (INormal [(new_name, None)]) else imps3 in
          Done {| m_folder := m_folder m; m_name := m_name m; m_imports := imps4; m_refs := refs2 |}
      end.
End MoveModule.

(* ---------------------------------------------------------------- relatives_to_absolutes *)

Definition rta_stmt (l : layout) (folder : path) (s : istmt) : istmt :=
  match s with
  | INormal names =>
      INormal (map (fun na : dotted * option N =>
                      match find_module_from l folder (fst na) with
                      | Some r => (modname l r, snd na)
                      | None => na
                      end) names)
  | IFrom level modn names =>
      match from_module true l folder level modn with
      | Some r => let a := modname l r in
                  if dotted_eqb modn a && Nat.eqb level 0 then s else IFrom 0 a names
      | None => s
      end
  | IEmpty => IEmpty
  end.

(* names imported without alias whose absolute spelling differs (Python 2 style implicit relative
   imports): their uses are renamed too *)
Definition rta_renames (l : layout) (folder : path) (imps : list istmt) : list (dotted * dotted) :=
  flat_map (fun s => match s with
                     | INormal names =>
                         flat_map (fun na : dotted * option N =>
                                     match snd na, find_module_from l folder (fst na) with
                                     | None, Some r =>
                                         if dotted_eqb (modname l r) (fst na) then [] else [(fst na, modname l r)]
                                     | _, _ => []
                                     end) names
                     | _ => []
                     end) imps.

Fixpoint apply_renames (rs : list (dotted * dotted)) (d : dotted) : dotted :=
  match rs with
  | [] => d
  | (o, n) :: rs' =>
      match strip_prefix o d with
      | Some rest => apply_renames rs' (n ++ rest)
      | None => apply_renames rs' d
      end
  end.

Definition relatives_to_absolutes (w : world) (m : pymod) : pymod :=
  let l := w_l w in
  {| m_folder := m_folder m; m_name := m_name m;
     m_imports := map (rta_stmt l (m_folder m)) (m_imports m);
     m_refs := map (apply_renames (rta_renames l (m_folder m) (m_imports m))) (m_refs m) |}.

(* MoveModule._change_moving_module (the moving module is a file) *)
Definition change_moving_module (V : variant) (w : world) (src : res) (dest : path) (m : pymod) : outcome pymod :=
  change_occurrences V w src dest (relatives_to_absolutes w m).

(* what MoveModule does to module m of the project (before the file itself is moved) *)
Definition move_module_text (V : variant) (w : world) (src : res) (dest : path) (m : pymod) : outcome pymod :=
  if res_eqb (m_res m) src then change_moving_module V w src dest m
  else change_occurrences V w src dest m.

(* ---------------------------------------------------------------- Rename of a module / package *)

Section RenameModule.
  Variable w : world.
  Variable src : res.
  Variable newn : N.
  Let l := w_l w.
  Let b := src_name src.

  Definition set_nth (i : nat) (x : N) (d : dotted) : dotted :=
    firstn (pred i) d ++ [x] ++ skipn i d.

  Definition ren_stmt (m : pymod) (s : istmt) : istmt :=
    match s with
    | INormal names =>
        INormal (map (fun na : dotted * option N =>
                        match occ_normal w src m (m_imports m) na with
                        | Some i => (set_nth i newn (fst na), snd na)
                        | None => na
                        end) names)
    | IFrom level modn names =>
        let modn' := match occ_from w src (m_folder m) level modn with
                     | Some i => set_nth i newn modn
                     | None => modn
                     end in
        IFrom level modn'
              (map (fun na : N * option N =>
                      if from_name_occurs w src m (m_imports m) na then (newn, snd na) else na) names)
    | IEmpty => IEmpty
    end.

  Definition ren_ref (m : pymod) (d : dotted) : dotted :=
    match occ_ref w src m (m_imports m) d with
    | Some i => set_nth i newn d
    | None => d
    end.

  Definition rename_module_text (m : pymod) : pymod :=
    {| m_folder := m_folder m; m_name := m_name m;
       m_imports := map (ren_stmt m) (m_imports m);
       m_refs := map (ren_ref m) (m_refs m) |}.

  (* Rename._rename_module: MoveResource to parent/new_name[.py] *)
  Definition rename_res (r : res) : res :=
    match src with
    | RPy p n => if res_eqb r (RPy p n) then RPy p newn else r
    | RDir q =>
        match r with
        | RDir x => RDir (rebase q (parent q ++ [newn]) x)
        | RPy x n => RPy (rebase q (parent q ++ [newn]) x) n
        end
    end.
End RenameModule.

(* ---------------------------------------------------------------- ModuleToPackage *)

(* m.py -> m/__init__.py (CreateFolder + MoveResource); relatives_to_absolutes in m *)
Definition to_package_res (src : res) (r : res) : res :=
  match src with
  | RPy p n => if res_eqb r (RPy p n) then RPy (p ++ [n]) INIT else r
  | _ => r
  end.

Definition to_package_world (src : res) (w : world) : world :=
  match src with
  | RPy p n =>
      let w' := map_world (to_package_res src) w in
      {| w_l := RDir (p ++ [n]) :: w_l w'; w_g := w_g w' |}
  | _ => w
  end.

Definition to_package_text (w : world) (src : res) (m : pymod) : pymod :=
  if res_eqb (m_res m) src then relatives_to_absolutes w m else m.

(* objects after ModuleToPackage: module p/n.py is now the package p/n *)
Definition to_package_obj_res (src : res) (r : res) : res :=
  match src with
  | RPy p n => if res_eqb r (RPy p n) then RDir (p ++ [n]) else r
  | _ => r
  end.
