(* MoveModule of a module file p/b.py to the project root, for the variant of the code in which
   _change_import_statements also runs when the destination has no module name (v_rootfrom = true):
   from p import b [as x]  becomes  import b [as x]  and keeps reaching the moved module. *)
From Coq Require Import List NArith Bool Arith Lia.
From RopeVerif.C05 Require Import Layout LayoutProofs Move Domain MoveProofs.
Import ListNotations.

Lemma change_occurrences_steps_root V w src m imps0 imps1 imps2 refs2 si imps3 :
  v_rootfrom V = true ->
  occurs_in_module w src true m (m_imports m) (m_refs m) = true ->
  change_import_statements V w src [] (m_folder m) (m_imports m) = Done imps0 ->
  reparse imps0 = imps1 ->
  map (rename_stmt w src [] m imps1) imps1 = imps2 ->
  map (rename_ref w src [] m imps1) (m_refs m) = refs2 ->
  occurs_in_module w src false m imps1 (m_refs m) = si ->
  reparse (remove_old_imports w src m imps2) = imps3 ->
  change_occurrences V w src [] m =
  Done {| m_folder := m_folder m; m_name := m_name m;
          m_imports := if si then add_import imps3 (INormal [(new_name w src [], None)]) else imps3;
          m_refs := refs2 |}.
Proof.
  intros Hv H1 H3 H4 H5 H6 H7 H8. unfold change_occurrences. rewrite H1. cbn [negb].
  change (modname (w_l w) (RDir [])) with (@nil N). rewrite Hv, H3, H4, H5, H6, H7, H8. reflexivity.
Qed.

Section RootMove.
  Variable V : variant.
  Variable w : world.
  Variable p : path.
  Variable b : N.
  Hypothesis Hv : v_rootfrom V = true.
  Hypothesis Hlegal : legal_move_root w p b = true.

  Let l := w_l w.
  Let src := RPy p b.
  Let new := RPy [] b.
  Let rho := move_res src [].
  Let w' := move_world src [] w.
  Let l' := w_l w'.

  Lemma Q_wf : wf_layout l = true.
  Proof. unfold legal_move_root in Hlegal. split_andb. assumption. Qed.
  Lemma Q_root : single_root l = true.
  Proof. unfold legal_move_root in Hlegal. split_andb. assumption. Qed.
  Lemma Q_src : has_py l p b = true.
  Proof. unfold legal_move_root in Hlegal. split_andb. assumption. Qed.
  Lemma Q_bS : N.eqb b STAR = false.
  Proof. unfold legal_move_root in Hlegal. split_andb. apply negb_true_iff. assumption. Qed.
  Lemma Q_nodir : is_dir l (p ++ [b]) = false.
  Proof. unfold legal_move_root in Hlegal. split_andb. apply negb_true_iff. assumption. Qed.
  Lemma Q_dp : is_dir l p = true.
  Proof. unfold legal_move_root in Hlegal. split_andb. assumption. Qed.
  Lemma Q_pne : p <> [].
  Proof. unfold legal_move_root in Hlegal. split_andb. destruct p; [discriminate|discriminate]. Qed.
  Lemma Q_col1 : is_dir l [b] = false.
  Proof. unfold legal_move_root in Hlegal. split_andb. apply negb_true_iff. assumption. Qed.
  Lemma Q_col2 : has_py l [] b = false.
  Proof. unfold legal_move_root in Hlegal. split_andb. apply negb_true_iff. assumption. Qed.
  Lemma Q_g : assoc_res (RPy [] b) (w_g w) = None.
  Proof.
    unfold legal_move_root in Hlegal. split_andb.
    match goal with H : negb (is_some _) = true |- _ => destruct (assoc_res (RPy [] b) (w_g w)); [discriminate|reflexivity] end.
  Qed.
  Lemma Q_sh1 : no_global_shadow w [] (p ++ [b]) = true.
  Proof. unfold legal_move_root in Hlegal. split_andb. assumption. Qed.

  Lemma new_ne_src : new <> src.
  Proof. unfold new, src. intro E. apply Q_pne. injection E as E1. symmetry. exact E1. Qed.

  Lemma q_rho_src : rho src = new.
  Proof. unfold rho, move_res, src. rewrite res_eqb_refl. reflexivity. Qed.

  (* --- look-ups before *)
  Lemma q_find_module_eq d : find_module l d = find_in_folder l [] d.
  Proof. apply find_module_single_root. apply Q_root. Qed.

  Lemma q_find_p : find_in_folder l [] p = Some (RDir p).
  Proof. apply (find_dir l [] p); [apply Q_wf|apply Q_pne|apply Q_dp]. Qed.

  Lemma q_dir_prefix_p i : is_dir l (firstn i p) = true.
  Proof. apply (wf_dir_prefix l (firstn i p) (skipn i p)); [apply Q_wf|]. rewrite firstn_skipn. apply Q_dp. Qed.

  Lemma q_abs_found F d r : find_in_folder l [] d = Some r -> abs_import true l F d = Some r.
  Proof. intro H. unfold abs_import, find_module_from. rewrite q_find_module_eq, H. reflexivity. Qed.

  Lemma q_abs_prefix_p F i : 0 < i <= length p -> abs_import true l F (firstn i p) = Some (RDir (firstn i p)).
  Proof.
    intro Hi. apply q_abs_found. apply (find_dir l [] (firstn i p)); [apply Q_wf| |apply q_dir_prefix_p].
    destruct p; cbn in *; [lia|]. destruct i; [lia|discriminate].
  Qed.

  Lemma q_abs_b_none F : fallback_root_ok l F b = true -> abs_import true l F [b] = None.
  Proof.
    intro H. unfold abs_import, find_module_from. rewrite q_find_module_eq, find_single. cbn [app].
    rewrite Q_col1, Q_col2. unfold fallback_root_ok in H. destruct F as [|f F'].
    - rewrite find_single. cbn [app]. rewrite Q_col1, Q_col2. reflexivity.
    - apply andb_true_iff in H as [H1 H2]. apply negb_true_iff in H1. apply negb_true_iff in H2.
      rewrite find_single, H1, H2. reflexivity.
  Qed.

  Lemma q_occ_scan_skip ev q : forall pre d,
    (forall i, 0 < i <= length q -> ev (pre ++ firstn i q) = false) ->
    occ_scan src ev pre (q ++ d) = occ_scan src ev (pre ++ q) d.
  Proof.
    induction q as [|x q IH]; intros pre d H.
    - rewrite app_nil_r. reflexivity.
    - cbn [app occ_scan]. pose proof (H 1 ltac:(cbn; lia)) as H1. cbn [firstn] in H1. rewrite H1, andb_false_r.
      rewrite IH. { rewrite <- app_assoc. reflexivity. }
      intros i Hi. rewrite <- app_assoc. apply (H (S i)). cbn. lia.
  Qed.

  Lemma q_occ_from_p F : occ_from w src F 0 p = None.
  Proof.
    unfold occ_from. cbn [Nat.leb]. unfold occ_index. rewrite <- (app_nil_r p). rewrite q_occ_scan_skip; [reflexivity|].
    intros i Hi. cbn [app from_module]. fold l. rewrite q_abs_prefix_p by exact Hi. reflexivity.
  Qed.

  Lemma q_attr_p_b chk : chk src = true -> mod_attr w chk (RDir p) b = Some (OMod src).
  Proof.
    intros Hc. unfold mod_attr. rewrite (shadow_last w p b Q_pne Q_sh1).
    fold l. rewrite find_single. rewrite Q_nodir, Q_src. fold src. rewrite Hc. reflexivity.
  Qed.

  (* --- the layout after the move *)
  Lemma q_has_py_new : has_py l' [] b = true.
  Proof.
    pose proof Q_src as H. unfold has_py in *. apply mem_In in H. apply mem_In.
    unfold l', w', move_world, map_world. cbn [w_l]. apply in_map_iff. exists src. split; [apply q_rho_src|exact H].
  Qed.

  Lemma q_find_new : find_in_folder l' [] [b] = Some new.
  Proof.
    rewrite find_single. cbn [app].
    assert (E : is_dir l' [b] = is_dir l [b]) by (unfold l', w', src; apply is_dir_move).
    rewrite E, Q_col1, q_has_py_new. reflexivity.
  Qed.

  Lemma q_assoc_new : assoc_res new (w_g w') = assoc_res src (w_g w).
  Proof.
    pose proof Q_g as Hg. unfold w', move_world, map_world. cbn [w_g].
    induction (w_g w) as [|[k v] g IH]; [reflexivity|].
    cbn [map assoc_res fst snd] in *. fold new in Hg.
    destruct (res_eqb k new) eqn:E1; [discriminate|].
    unfold move_res at 1. unfold src at 1 2. destruct (res_eqb k (RPy p b)) eqn:E2.
    - assert (E3 : res_eqb k src = true) by exact E2. fold new. rewrite res_eqb_refl, E3. reflexivity.
    - assert (E3 : res_eqb k src = false) by exact E2. rewrite E1, E3. apply IH. exact Hg.
  Qed.

  Lemma q_globals_new : globals_of w' new = globals_of w src.
  Proof. unfold globals_of. cbn [init_file new src]. fold new src. rewrite q_assoc_new. reflexivity. Qed.

  (* --- the rewriting *)
  Lemma q_moved_from_import al : moved_from_import w src [] al = INormal [([b], al)].
  Proof. reflexivity. Qed.

  Lemma q_imported_p F : imported_resource V w F 0 p = Done (Some (RDir p)).
  Proof.
    unfold imported_resource. destruct (v_relctx V).
    - cbn [from_module]. fold l. rewrite (q_abs_found F p _ q_find_p). reflexivity.
    - cbn [imported_resource_nofolder]. fold l. rewrite q_find_module_eq, q_find_p. reflexivity.
  Qed.

  Lemma co_root_from_pkg F name xo refs :
    fallback_root_ok l F b = true ->
    match xo with Some y => N.eqb y b = false | None => True end ->
    (forall r, In r refs -> r = [or_name xo b] \/ exists g, r = [or_name xo b; g]) ->
    change_occurrences V w src [] (client_of p b F name (StFromPkg xo) refs) =
    Done {| m_folder := F; m_name := name; m_imports := [INormal [([b], xo)]]; m_refs := refs |}.
  Proof.
    intros Hfb Hxo Hrefs.
    set (y := or_name xo b) in *.
    set (m := client_of p b F name (StFromPkg xo) refs).
    assert (Henv0 : env_of true w F [IFrom 0 p [(b, xo)]] = [(y, Some (OMod src))]).
    { unfold env_of. cbn [flat_map bind_stmt bind_from app from_module]. fold l.
      rewrite (q_abs_found F p _ q_find_p). rewrite Q_bS. rewrite q_attr_p_b by auto. reflexivity. }
    assert (Henv1 : env_of true w F [INormal [([b], xo)]] = [(y, None)]).
    { unfold env_of. cbn [flat_map bind_stmt bind_normal app]. fold l.
      rewrite (q_abs_b_none F Hfb). destruct xo; reflexivity. }
    assert (Hyn : forall t, is_moving_obj src (rope_eval w m [INormal [([b], xo)]] (y :: t)) = false).
    { intro t. unfold rope_eval. cbn [m_folder m client_of]. rewrite Henv1. unfold eval_dotted.
      cbn [lookup_env]. rewrite N.eqb_refl.
      assert (E : fold_left (step_attr w (fun _ => true)) t None = None) by (induction t; [reflexivity|assumption]).
      rewrite E. reflexivity. }
    assert (Hev : forall r, In r refs -> occ_ref w src m [INormal [([b], xo)]] r = None).
    { intros r Hr. unfold occ_ref, occ_index.
      destruct (Hrefs r Hr) as [->|[g ->]]; cbn [occ_scan app]; rewrite (Hyn []), andb_false_r; [reflexivity|].
      rewrite (Hyn [g]), andb_false_r. reflexivity. }
    rewrite (change_occurrences_steps_root V w src m
               [IEmpty; INormal [([b], xo)]] [INormal [([b], xo)]]
               [INormal [([b], xo)]] refs false [INormal [([b], xo)]] Hv).
    - reflexivity.
    - unfold occurs_in_module. cbn [m m_imports client_of style_imports existsb stmt_occurs m_folder andb].
      rewrite q_occ_from_p. cbn [is_some orb]. unfold from_name_occurs. cbn [fst snd src_name src].
      rewrite N.eqb_refl. unfold rope_eval. cbn [m_folder m client_of]. rewrite Henv0. unfold eval_dotted.
      change (match xo with Some x => x | None => b end) with y.
      cbn [lookup_env fold_left]. rewrite N.eqb_refl. cbn [is_moving_obj]. rewrite res_eqb_refl. reflexivity.
    - unfold change_import_statements. cbn [m m_folder m_imports client_of style_imports length Nat.mul Nat.add].
      cbn [change_loop length Nat.leb].
      assert (S0 : change_stmt V w src [] F [IFrom 0 p [(b, xo)]] 0 = Done [IEmpty; INormal [([b], xo)]]).
      { unfold change_stmt. cbn [nth_error existsb fst src_name src]. rewrite N.eqb_refl. cbn [orb negb].
        rewrite (q_imported_p F).
        cbn [res_opt_is src_parent res_parent src]. rewrite res_eqb_refl.
        cbn [fold_left fst snd filter]. rewrite !N.eqb_refl. rewrite q_moved_from_import. cbn [negb].
        cbn [add_import adding_visit firstn skipn app]. reflexivity. }
      rewrite S0. cbn [length Nat.leb].
      assert (S1 : change_stmt V w src [] F [IEmpty; INormal [([b], xo)]] 1 = Done [IEmpty; INormal [([b], xo)]])
        by reflexivity.
      rewrite S1. reflexivity.
    - reflexivity.
    - cbn [map rename_stmt]. unfold occ_normal. cbn [snd fst].
      destruct xo as [x|].
      + unfold occ_abs, occ_index. cbn [occ_scan app src_name src m_folder m client_of]. fold l.
        rewrite (q_abs_b_none F Hfb). rewrite andb_false_r. reflexivity.
      + unfold occ_ref, occ_index. cbn [occ_scan app]. fold m. change b with y at 3.
        rewrite (Hyn []), andb_false_r. reflexivity.
    - cbn [m_refs m client_of]. rewrite <- (map_id refs) at 2. apply map_ext_in. intros r Hr.
      unfold rename_ref. rewrite (Hev r Hr). reflexivity.
    - unfold occurs_in_module. cbn [andb orb m_refs m client_of].
      apply not_true_is_false. intro H. apply existsb_exists in H as [r [Hr1 Hr2]].
      rewrite (Hev r Hr1) in Hr2. discriminate.
    - unfold remove_old_imports. cbn [map m_folder m client_of]. rewrite Henv1.
      cbn [lookup_env src_name src].
      assert (Hb : match (if N.eqb b y then Some (@None obj) else None) with
                   | Some o => is_moving_obj src o | None => false end = false)
        by (destruct (N.eqb b y); reflexivity).
      rewrite Hb. cbn [filter snd fst].
      destruct xo; rewrite ?andb_false_r; cbn [negb reparse filter stmt_is_empty]; reflexivity.
  Qed.

  (* --- Python's view *)
  Lemma q_envB F xo : env_of false w F [IFrom 0 p [(b, xo)]] = [(or_name xo b, Some (OMod src))].
  Proof.
    unfold env_of. cbn [flat_map bind_stmt bind_from app from_module abs_import]. fold l.
    rewrite q_find_p, Q_bS, q_attr_p_b by auto. reflexivity.
  Qed.

  Lemma q_envA F xo : env_of false w' F [INormal [([b], xo)]] = [(or_name xo b, Some (OMod new))].
  Proof.
    unfold env_of. cbn [flat_map bind_stmt bind_normal app abs_import]. fold l'.
    rewrite q_find_new. destruct xo; reflexivity.
  Qed.

  Theorem move_to_root_client F name xo refs :
    fallback_root_ok l F b = true ->
    match xo with Some y => N.eqb y b = false | None => True end ->
    forallb (ref_ok w p b (StFromPkg xo)) refs = true ->
    let m := client_of p b F name (StFromPkg xo) refs in
    exists m', change_occurrences V w src [] m = Done m'
               /\ m_folder m' = F /\ m_name m' = name /\ m_refs m' = refs
               /\ forall r o, In r refs -> resolve_ref w m r = Some o ->
                              resolve_ref w' m' r = Some (move_obj rho o).
  Proof.
    intros Hfb Hxo Hrefs m. rewrite forallb_forall in Hrefs.
    assert (Hshape : forall r, In r refs -> r = [or_name xo b] \/ exists g, r = [or_name xo b; g]).
    { intros r Hr. specialize (Hrefs r Hr). unfold ref_ok in Hrefs. cbn [style_base] in Hrefs.
      apply orb_true_iff in Hrefs as [H|H].
      - left. apply dotted_eqb_eq. exact H.
      - right. apply existsb_exists in H as [g [_ Hg]]. exists g. apply dotted_eqb_eq. exact Hg. }
    eexists. split; [apply co_root_from_pkg; auto|].
    split; [reflexivity|]. split; [reflexivity|]. split; [reflexivity|].
    intros r o Hr Ho.
    set (m' := {| m_folder := F; m_name := name; m_imports := [INormal [([b], xo)]]; m_refs := refs |}).
    pose proof (q_envB F xo) as HB. pose proof (q_envA F xo) as HA.
    destruct (Hshape r Hr) as [->|[g ->]].
    - rewrite (resolve_single w m _ _ HB) in Ho. inversion Ho; subst o.
      rewrite (resolve_single w' m' _ _ HA). cbn [move_obj]. rewrite q_rho_src. reflexivity.
    - rewrite (resolve_single_attr w m _ src g HB) in Ho.
      rewrite (resolve_single_attr w' m' _ new g HA).
      unfold src in Ho. rewrite mod_attr_py in Ho. unfold new. rewrite mod_attr_py.
      fold new src. fold src in Ho. rewrite q_globals_new.
      destruct (memN g (globals_of w src)); [|discriminate].
      inversion Ho; subst o. cbn [move_obj]. rewrite q_rho_src. reflexivity.
  Qed.

  Theorem move_to_root_all_import F name xo refs m' :
    fallback_root_ok l F b = true ->
    match xo with Some y => N.eqb y b = false | None => True end ->
    forallb (ref_ok w p b (StFromPkg xo)) refs = true ->
    change_occurrences V w src [] (client_of p b F name (StFromPkg xo) refs) = Done m' ->
    imports_ok w' m' = true.
  Proof.
    intros Hfb Hxo Hrefs Hco. rewrite forallb_forall in Hrefs.
    rewrite co_root_from_pkg in Hco; auto.
    - inversion Hco; subst m'. unfold imports_ok. cbn [m_folder m_imports]. rewrite q_envA. reflexivity.
    - intros r Hr. specialize (Hrefs r Hr). unfold ref_ok in Hrefs. cbn [style_base] in Hrefs.
      apply orb_true_iff in Hrefs as [H|H].
      + left. apply dotted_eqb_eq. exact H.
      + right. apply existsb_exists in H as [g [_ Hg]]. exists g. apply dotted_eqb_eq. exact Hg.
  Qed.
End RootMove.

Theorem move_to_root_domain V w p b m :
  root_domain V w (RPy p b) m = true ->
  exists m', move_module_text V w (RPy p b) [] m = Done m'
             /\ m_folder m' = m_folder m /\ m_name m' = m_name m /\ m_refs m' = m_refs m
             /\ forall r o, In r (m_refs m) -> resolve_ref w m r = Some o ->
                  resolve_ref (move_world (RPy p b) [] w) m' r = Some (move_obj (move_res (RPy p b) []) o).
Proof.
  unfold root_domain. intro H.
  apply andb_true_iff in H as [H Hst]. apply andb_true_iff in H as [H Hfb].
  apply andb_true_iff in H as [H Hne]. apply andb_true_iff in H as [Hv Hlegal]. apply negb_true_iff in Hne.
  destruct (style_of p b m) as [[|x|xo|g k| |xr|g k]|] eqn:Est; try discriminate.
  apply andb_true_iff in Hst as [Hst Himps]. apply andb_true_iff in Hst as [Hxo Hrefs].
  apply (list_eqb_eq istmt_eqb istmt_eqb_eq) in Himps.
  assert (Em : m = client_of p b (m_folder m) (m_name m) (StFromPkg xo) (m_refs m)).
  { destruct m as [f n i r]. cbn in *. subst i. reflexivity. }
  assert (Hxo' : match xo with Some y => N.eqb y b = false | None => True end).
  { destruct xo; [apply negb_true_iff; exact Hxo|exact I]. }
  unfold move_module_text. rewrite Hne.
  destruct (move_to_root_client V w p b Hv Hlegal (m_folder m) (m_name m) xo (m_refs m) Hfb Hxo' Hrefs)
    as [m' [H1 [H2 [H3 [H4 H5]]]]].
  exists m'. rewrite Em at 1. split; [exact H1|]. split; [exact H2|]. split; [exact H3|]. split; [exact H4|].
  intros r o Hr Ho. apply H5; [exact Hr|]. rewrite <- Em. exact Ho.
Qed.

Theorem move_to_root_all_import_domain V w p b m m' :
  root_domain V w (RPy p b) m = true ->
  move_module_text V w (RPy p b) [] m = Done m' ->
  imports_ok (move_world (RPy p b) [] w) m' = true.
Proof.
  unfold root_domain. intros H Hco.
  apply andb_true_iff in H as [H Hst]. apply andb_true_iff in H as [H Hfb].
  apply andb_true_iff in H as [H Hne]. apply andb_true_iff in H as [Hv Hlegal]. apply negb_true_iff in Hne.
  destruct (style_of p b m) as [[|x|xo|g k| |xr|g k]|] eqn:Est; try discriminate.
  apply andb_true_iff in Hst as [Hst Himps]. apply andb_true_iff in Hst as [Hxo Hrefs].
  apply (list_eqb_eq istmt_eqb istmt_eqb_eq) in Himps.
  assert (Em : m = client_of p b (m_folder m) (m_name m) (StFromPkg xo) (m_refs m)).
  { destruct m as [f n i r]. cbn in *. subst i. reflexivity. }
  assert (Hxo' : match xo with Some y => N.eqb y b = false | None => True end).
  { destruct xo; [apply negb_true_iff; exact Hxo|exact I]. }
  unfold move_module_text in Hco. rewrite Hne in Hco. rewrite Em in Hco.
  exact (move_to_root_all_import V w p b Hv Hlegal (m_folder m) (m_name m) xo (m_refs m) m' Hfb Hxo' Hrefs Hco).
Qed.
