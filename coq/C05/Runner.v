(* Correspondence runner for C05: the harness writes the inputs together with what rope produced and
   what CPython observed; every comparison is computed here by vm_compute. *)
From Coq Require Import List NArith Bool Arith.
From RopeVerif.C05 Require Import Layout Move Domain.
Import ListNotations.

(* ------------------------------------------------------------ layout cases *)
Record lquery := {
  q_res : res;
  q_modname : dotted;              (* libutils.modname(resource) *)
  q_find : option res              (* project.find_module(that name) *)
}.

Record lcase := {
  lc_layout : layout;
  lc_sources : list path;                                   (* project.get_source_folders() *)
  lc_queries : list lquery;                                 (* one per resource *)
  lc_finds : list (dotted * path * option res);             (* find_module(name, folder) on arbitrary names *)
  lc_rels : list (dotted * path * nat * option res);        (* find_relative_module(name, folder, level) *)
  lc_spec : list (res * bool)   (* CPython: importlib finds this resource under its modname with sys.path = source folders *)
}.

Definition res_opt_eqb := opt_eqb res_eqb.

Definition in_inverse_domain (l : layout) (r : res) : bool :=
  wf_layout l && in_layout l r && no_shadowing l r.

(* CPython gives regular packages and modules precedence over folders without __init__.py; rope does not *)
Definition py_comparable (l : layout) (r : res) : bool :=
  match r with RDir p => is_pkg l p | RPy _ _ => true end
  && forallb (fun pre =>
                forallb (fun s' => negb (is_some (find_in_folder l s' pre)))
                        (before (modname_src l r) (source_folders l)))
             (prefixes (modname l r)).

(* codes: 1 source folders, 2 modname, 3 find_module(modname), 4 find_module, 5 find_relative_module,
   6 theorem C05_modname_inverse contradicted by the implementation's answers,
   7 CPython disagrees with the inverse inside the theorem's domain *)
Definition run_lcase (c : lcase) : N :=
  let l := lc_layout c in
  if negb (list_eqb path_eqb (source_folders l) (lc_sources c)) then 1%N
  else if negb (forallb (fun q => dotted_eqb (modname l (q_res q)) (q_modname q)) (lc_queries c)) then 2%N
  else if negb (forallb (fun q => res_opt_eqb (find_module l (q_modname q)) (q_find q)) (lc_queries c)) then 3%N
  else if negb (forallb (fun t : dotted * path * option res =>
                           let '(d, f, r) := t in res_opt_eqb (find_module_from l f d) r) (lc_finds c)) then 4%N
  else if negb (forallb (fun t : dotted * path * nat * option res =>
                           let '(d, f, k, r) := t in res_opt_eqb (find_relative_module l d f k) r) (lc_rels c)) then 5%N
  else if negb (forallb (fun q => negb (in_inverse_domain l (q_res q))
                                  || res_opt_eqb (q_find q) (Some (canon (q_res q)))) (lc_queries c)) then 6%N
  else if negb (forallb (fun t : res * bool => negb (in_inverse_domain l (fst t) && py_comparable l (fst t)) || snd t)
                        (lc_spec c)) then 7%N
  else 0%N.

Definition count_inverse_domain (c : lcase) : N :=
  N.of_nat (length (filter (fun q => in_inverse_domain (lc_layout c) (q_res q)) (lc_queries c))).

(* ------------------------------------------------------------ refactoring cases *)
Inductive op :=
| OpMove (src : res) (dest : path)
| OpRename (src : res) (newn : N)
| OpToPackage (src : res).

Record rcase := {
  c_variant : variant;                   (* which behaviour the code under test shows on the harness' probes *)
  c_world : world;                       (* the project before *)
  c_op : op;
  c_layout_after : layout;               (* the tree after project.do(changes) *)
  c_mod : pymod;                         (* one module of the project, before *)
  c_out : option pymod;                  (* the same module after (parsed from rope's text); None: rope raised *)
  c_py_before : list (option obj);       (* CPython: what each reference is, before (None: fails) *)
  c_py_after : list (option obj);        (* CPython, after, for the references of rope's output *)
  c_hs_after : list (option obj)         (* the harness' resolver on rope's output text *)
}.

Definition obj_opt_eqb := opt_eqb obj_eqb.

Definition pairNo_eqb (a b : N * option N) := pairN_eqb a b.

Definition pymod_eqb (a b : pymod) : bool :=
  path_eqb (m_folder a) (m_folder b) && N.eqb (m_name a) (m_name b)
  && list_eqb istmt_eqb (m_imports a) (m_imports b)
  && list_eqb dotted_eqb (m_refs a) (m_refs b).

Definition subset_res (a b : layout) : bool := forallb (fun r => mem r b) a.
Definition layout_same (a b : layout) : bool := subset_res a b && subset_res b a.

Definition model_out (c : rcase) : outcome pymod :=
  match c_op c with
  | OpMove src dest =>
      match move_module_text (c_variant c) (c_world c) src dest (c_mod c) with
      | Done m => Done (move_pymod_loc src dest m)
      | o => o
      end
  | OpRename src newn =>
      let m := rename_module_text (c_world c) src newn (c_mod c) in
      Done (match rename_res src newn (m_res m) with
            | RPy p n => {| m_folder := p; m_name := n; m_imports := m_imports m; m_refs := m_refs m |}
            | RDir _ => m
            end)
  | OpToPackage src =>
      let m := to_package_text (c_world c) src (c_mod c) in
      Done (match to_package_res src (m_res m) with
            | RPy p n => {| m_folder := p; m_name := n; m_imports := m_imports m; m_refs := m_refs m |}
            | RDir _ => m
            end)
  end.

Definition world_after (c : rcase) : world :=
  match c_op c with
  | OpMove src dest =>
      match c_out c with
      | None => c_world c                     (* rope raised: nothing was performed *)
      | Some _ => move_world src dest (c_world c)
      end
  | OpRename src newn => map_world (rename_res src newn) (c_world c)
  | OpToPackage src => to_package_world src (c_world c)
  end.

Definition obj_after (c : rcase) (o : obj) : obj :=
  match c_op c with
  | OpMove src dest => move_obj (move_res src dest) o
  | OpRename src newn => move_obj (rename_res src newn) o
  | OpToPackage src => move_obj (to_package_obj_res src) o
  end.

Definition in_domain (c : rcase) : bool :=
  match c_op c with
  | OpMove src dest =>
      move_domain (c_variant c) (c_world c) src dest (c_mod c)
      || match dest with [] => root_domain (c_variant c) (c_world c) src (c_mod c) | _ => false end
      || bystander_domain (c_world c) src dest (c_mod c)
  | OpRename src newn => rename_domain (c_world c) src newn (c_mod c)
  | OpToPackage src => to_package_domain (c_world c) src (c_mod c)
  end.

Fixpoint zip_all {A B} (f : A -> B -> bool) (a : list A) (b : list B) : bool :=
  match a, b with
  | [], [] => true
  | x :: a', y :: b' => f x y && zip_all f a' b'
  | _, _ => false
  end.

(* CPython's observations end at the first failing reference: compare what was observed *)
Fixpoint zip_pre {A B} (f : A -> B -> bool) (a : list A) (b : list B) : bool :=
  match a, b with
  | _, [] => true
  | x :: a', y :: b' => f x y && zip_pre f a' b'
  | [], _ :: _ => false
  end.

(* resolve_ref counts a submodule as loaded only when the module's own import statements load it; CPython
   also sees what the modules it imports have loaded.  Python's observation p must therefore satisfy:
   strict = Some o -> p = Some o ;  loose = None -> p = None ;  otherwise p is None or the loose value. *)
Definition resolve_loose (w : world) (m : pymod) (d : dotted) : option obj :=
  if imports_ok w m then
    eval_dotted w (fun _ => true) (m_res m) (env_of false w (m_folder m) (m_imports m)) d
  else None.

Definition py_agrees (w : world) (m : pymod) (d : dotted) (p : option obj) : bool :=
  match resolve_ref w m d, resolve_loose w m d with
  | Some o, _ => obj_opt_eqb p (Some o)
  | None, None => obj_opt_eqb p None
  | None, Some o => obj_opt_eqb p None || obj_opt_eqb p (Some o)
  end.

(* codes: 1 rope's new text differs from the model's (or one raises and the other does not)
          2 tree after differs from the model's   3 Python before differs from resolve_ref
          4 Python after differs from resolve_ref on rope's output
          5 the harness' resolver differs from resolve_ref on rope's output
          6 inside the theorem's domain, yet a reference does not reach the moved object (model)
          7 inside the theorem's domain, yet CPython says a reference does not reach the moved object
          8 inside the theorem's domain, yet an import statement of the rewritten module is stale (C05_all_import) *)
Definition run_rcase (c : rcase) : N :=
  let w := c_world c in
  let w' := world_after c in
  let mo := model_out c in
  let agree :=
    match mo, c_out c with
    | Done m, Some m' => pymod_eqb m m'
    | Crash, None => true
    | _, _ => false
    end in
  if negb agree then 1%N
  else if negb (layout_same (w_l w') (c_layout_after c)) then 2%N
  else if negb (zip_pre (py_agrees w (c_mod c)) (m_refs (c_mod c)) (c_py_before c)) then 3%N
  else
    match c_out c with
    | None => 0%N
    | Some m' =>
        let after := map (resolve_ref w' m') (m_refs m') in
        if negb (zip_pre (py_agrees w' m') (m_refs m') (c_py_after c)) then 4%N
        else if negb (zip_all obj_opt_eqb after (c_hs_after c)) then 5%N
        else if in_domain c then
          let before := map (resolve_ref w (c_mod c)) (m_refs (c_mod c)) in
          let expect := map (option_map (obj_after c)) before in
          if negb (zip_all (fun e a => match e with Some _ => obj_opt_eqb e a | None => true end) expect after)
          then 6%N
          else if negb (zip_pre (fun e a => match e with Some _ => obj_opt_eqb e a | None => true end)
                                expect (c_py_after c))
          then 7%N
          else if imports_ok w (c_mod c) && negb (imports_ok w' m') then 8%N
          else 0%N
        else 0%N
    end.

(* does the spec, applied to rope's own output, say that some reference no longer reaches its object (or that
   the module no longer imports)?  A failure observed by CPython is attributed to a known finding only when
   this prediction holds and rope's output is the model's. *)
Definition predicts_break (c : rcase) : bool :=
  match c_out c with
  | None => false
  | Some m' =>
      let w := c_world c in
      let w' := world_after c in
      let before := map (resolve_ref w (c_mod c)) (m_refs (c_mod c)) in
      let after := map (resolve_ref w' m') (m_refs m') in
      negb (Nat.eqb (length before) (length after))
      || existsb (fun pr : option obj * option obj =>
                    match fst pr with
                    | Some o => negb (obj_opt_eqb (snd pr) (Some (obj_after c o)))
                    | None => false
                    end) (combine before after)
      || (imports_ok w (c_mod c) && negb (imports_ok w' m'))
  end.
Definition predictions (cs : list rcase) : list N := map (fun c => if predicts_break c then 1%N else 0%N) cs.

Fixpoint mismatches_from {A} (run : A -> N) (i : N) (cs : list A) : list (N * N) :=
  match cs with
  | [] => []
  | c :: r =>
      let code := run c in
      if N.eqb code 0 then mismatches_from run (N.succ i) r else (i, code) :: mismatches_from run (N.succ i) r
  end.
Definition mismatches (cs : list rcase) : list (N * N) := mismatches_from run_rcase 0 cs.
Definition lmismatches (cs : list lcase) : list (N * N) := mismatches_from run_lcase 0 cs.

Definition count_domain (cs : list rcase) : N := N.of_nat (length (filter in_domain cs)).
Definition count_linverse (cs : list lcase) : N := fold_right N.add 0%N (map count_inverse_domain cs).
