(* Side conditions (boolean) and client shapes of the C05 reference theorems.  Definitions only. *)
From Coq Require Import List NArith Bool Arith.
From RopeVerif.C05 Require Import Layout Move.
Import ListNotations.

(* ---------------------------------------------------------------- legal moves of a module file *)

(* init files of the packages along a dotted path do not define the next segment as a global
   (otherwise  a.b  means that global, for Python as well as for rope) *)
Fixpoint no_global_shadow (w : world) (pre : path) (d : dotted) : bool :=
  match d with
  | [] => true
  | n :: d' =>
      (match pre with [] => true | _ => negb (memN n (globals_of w (RDir pre))) end)
      && no_global_shadow w (pre ++ [n]) d'
  end.

Definition single_root (l : layout) : bool := list_eqb path_eqb (source_folders l) [[]].

(* moving module p/b.py into the package folder dest *)
Definition legal_move (w : world) (p : path) (b : N) (dest : path) : bool :=
  let l := w_l w in
  wf_layout l && single_root l
  && has_py l p b && negb (N.eqb b INIT) && negb (N.eqb b STAR)
  && negb (is_dir l (p ++ [b]))                                 (* no folder shadows the module *)
  && is_dir l p && is_dir l dest
  && match dest with [] => false | _ => true end                (* the project root: see C05_move_to_root_refuted *)
  && negb (path_eqb dest p)
  && negb (is_dir l (dest ++ [b])) && negb (has_py l dest b)     (* nothing of that name at the destination *)
  && dotted_eqb (modname l (RDir dest)) dest                    (* dest is reachable as a package from the root *)
  && negb (is_some (assoc_res (RPy dest b) (w_g w)))            (* the table of globals is about existing files *)
  && no_global_shadow w [] (p ++ [b]) && no_global_shadow w [] (dest ++ [b]).

(* ---------------------------------------------------------------- client import styles *)

Inductive style :=
| StImport                              (* import p.b *)
| StImportAs (x : N)                    (* import p.b as x *)
| StFromPkg (x : option N)              (* from p import b [as x] *)
| StFromMod (g : N) (k : option N)      (* from p.b import g [as k] *)
| StStar                                (* from p.b import * *)
| StRelPkg (x : option N)               (* from . import b [as x]   (client in package p) *)
| StRelMod (g : N) (k : option N).      (* from .b import g [as k]  (client in package p) *)

Definition style_imports (p : path) (b : N) (st : style) : list istmt :=
  match st with
  | StImport => [INormal [(p ++ [b], None)]]
  | StImportAs x => [INormal [(p ++ [b], Some x)]]
  | StFromPkg x => [IFrom 0 p [(b, x)]]
  | StFromMod g k => [IFrom 0 (p ++ [b]) [(g, k)]]
  | StStar => [IFrom 0 (p ++ [b]) [(STAR, None)]]
  | StRelPkg x => [IFrom 1 [] [(b, x)]]
  | StRelMod g k => [IFrom 1 [b] [(g, k)]]
  end.

Definition or_name (k : option N) (g : N) : N := match k with Some x => x | None => g end.

(* how the client can spell the module, if the style binds it *)
Definition style_base (p : path) (b : N) (st : style) : option dotted :=
  match st with
  | StImport => Some (p ++ [b])
  | StImportAs x => Some [x]
  | StFromPkg x => Some [or_name x b]
  | StRelPkg x => Some [or_name x b]
  | _ => None
  end.

(* the references the theorem speaks about: the module itself and its globals through the bound name;
   the imported global; any global brought by the star import *)
Definition ref_ok (w : world) (p : path) (b : N) (st : style) (r : dotted) : bool :=
  match style_base p b st with
  | Some base =>
      dotted_eqb r base
      || existsb (fun g => dotted_eqb r (base ++ [g])) (globals_of w (RPy p b))
  | None =>
      match st with
      | StFromMod g k | StRelMod g k => dotted_eqb r [or_name k g]
      | StStar => existsb (fun g => dotted_eqb r [g]) (globals_of w (RPy p b))
      | _ => false
      end
  end.

(* the folder of an absolute-import client must not make rope's Python-2 style implicit relative look-up
   (find_module(name, folder)) succeed for the new module name *)
Definition fallback_ok (l : layout) (folder : path) (dest : path) : bool :=
  match folder, dest with
  | [], _ => true
  | _, c :: _ => negb (is_dir l (folder ++ [c]))
  | _, [] => true
  end.

Definition style_side (V : variant) (w : world) (p : path) (b : N) (dest : path) (folder : path) (st : style) : bool :=
  let l := w_l w in
  fallback_ok l folder dest
  && match st with
     | StImport => true
     | StImportAs x => negb (N.eqb x b)
     | StFromPkg x => match p with [] => false | _ => true end
     | StFromMod g k => negb (N.eqb g b) && negb (N.eqb g STAR)
     | StStar => true
     | StRelPkg x => path_eqb folder p && match p with [] => false | _ => true end
                     (* the aliased form is only handled once the import context knows the folder *)
                     && match x with None => true | Some y => v_relctx V && negb (N.eqb y b) end
     | StRelMod g k => path_eqb folder p && match p with [] => false | _ => true end
                       && negb (N.eqb g b) && negb (N.eqb g STAR)
     end.

Definition client_of (p : path) (b : N) (folder : path) (name : N) (st : style) (refs : list dotted) : pymod :=
  {| m_folder := folder; m_name := name; m_imports := style_imports p b st; m_refs := refs |}.

(* recognise the style of a one-statement client *)
Definition style_of (p : path) (b : N) (m : pymod) : option style :=
  match m_imports m with
  | [INormal [(d, None)]] => if dotted_eqb d (p ++ [b]) then Some StImport else None
  | [INormal [(d, Some x)]] => if dotted_eqb d (p ++ [b]) then Some (StImportAs x) else None
  | [IFrom 0 d [(n, k)]] =>
      if dotted_eqb d p && N.eqb n b then Some (StFromPkg k)
      else if dotted_eqb d (p ++ [b]) then (if N.eqb n STAR then match k with None => Some StStar | _ => None end
                                            else Some (StFromMod n k))
      else None
  | [IFrom 1 [] [(n, k)]] => if N.eqb n b then Some (StRelPkg k) else None
  | [IFrom 1 [n'] [(g, k)]] => if N.eqb n' b then Some (StRelMod g k) else None
  | _ => None
  end.

Definition istmt_eqb (a b : istmt) : bool :=
  match a, b with
  | INormal x, INormal y => list_eqb pairD_eqb x y
  | IFrom k m x, IFrom k' m' y => Nat.eqb k k' && dotted_eqb m m' && list_eqb pairN_eqb x y
  | IEmpty, IEmpty => true
  | _, _ => false
  end.

(* domain of C05_move_module_refs, evaluated by the runner on every generated case *)
Definition move_domain (V : variant) (w : world) (src : res) (dest : path) (m : pymod) : bool :=
  match src with
  | RPy p b =>
      legal_move w p b dest
      && negb (res_eqb (m_res m) src)
      && match globals_of w (m_res m) with [] => true | _ => false end
      && match style_of p b m with
         | Some st => style_side V w p b dest (m_folder m) st && forallb (ref_ok w p b st) (m_refs m)
                      && list_eqb istmt_eqb (m_imports m) (style_imports p b st)
         | None => false
         end
  | RDir _ => false
  end.

(* ---------------------------------------------------------------- moving a module file to the project root *)

Definition legal_move_root (w : world) (p : path) (b : N) : bool :=
  let l := w_l w in
  wf_layout l && single_root l
  && has_py l p b && negb (N.eqb b INIT) && negb (N.eqb b STAR)
  && negb (is_dir l (p ++ [b])) && is_dir l p
  && match p with [] => false | _ => true end
  && negb (is_dir l [b]) && negb (has_py l [] b)
  && negb (is_some (assoc_res (RPy [] b) (w_g w)))
  && no_global_shadow w [] (p ++ [b]).

(* the client's folder must not make rope's implicit relative look-up of the new top-level name succeed *)
Definition fallback_root_ok (l : layout) (folder : path) (b : N) : bool :=
  match folder with
  | [] => true
  | _ => negb (is_dir l (folder ++ [b])) && negb (has_py l folder b)
  end.

(* domain of C05_move_to_root_refs: from p import b [as x]  clients, once _change_import_statements also
   runs for a destination without a module name *)
Definition root_domain (V : variant) (w : world) (src : res) (m : pymod) : bool :=
  match src with
  | RPy p b =>
      v_rootfrom V && legal_move_root w p b
      && negb (res_eqb (m_res m) src)
      && fallback_root_ok (w_l w) (m_folder m) b
      && match style_of p b m with
         | Some (StFromPkg xo) =>
             match xo with Some y => negb (N.eqb y b) | None => true end
             && forallb (ref_ok w p b (StFromPkg xo)) (m_refs m)
             && list_eqb istmt_eqb (m_imports m) (style_imports p b (StFromPkg xo))
         | _ => false
         end
  | RDir _ => false
  end.

(* ---------------------------------------------------------------- by-standers of MoveModule *)

(* the project without the moving file *)
Definition hide_world (src : res) (w : world) : world :=
  {| w_l := filter (fun r => negb (res_eqb r src)) (w_l w); w_g := w_g w |}.

(* A module with ANY import statements and references that rope leaves alone (no occurrence of the mover) and
   whose references mean the same with the moving file taken out of the project: nothing it says goes through
   the mover.  (Python's meaning; checked by evaluation on every generated case.) *)
Definition bystander_domain (w : world) (src : res) (dest : path) (m : pymod) : bool :=
  match src with
  | RPy p b =>
      let l := w_l w in
      wf_layout l && has_py l p b && negb (N.eqb b INIT)
      && negb (has_py l dest b) && negb (is_some (assoc_res (RPy dest b) (w_g w)))
      && negb (occurs_in_module w src true m (m_imports m) (m_refs m))
      && negb (res_eqb (m_res m) src) && negb (res_eqb (m_res m) (RPy dest b))
      && is_dir l (m_folder m) && mem (m_res m) l
      && forallb (fun r => opt_eqb obj_eqb (resolve_ref w m r) (resolve_ref (hide_world src w) m r)) (m_refs m)
  | RDir _ => false
  end.

(* ---------------------------------------------------------------- ModuleToPackage *)

(* turning module p/b.py into the package p/b/ : the module exists, no folder p/b yet *)
Definition to_package_legal (w : world) (p : path) (b : N) : bool :=
  let l := w_l w in
  wf_layout l && has_py l p b && negb (N.eqb b INIT) && negb (is_dir l (p ++ [b]))
  && negb (is_some (assoc_res (RPy (p ++ [b]) INIT) (w_g w))).

(* every module other than the converted one (whatever it imports) *)
Definition to_package_domain (w : world) (src : res) (m : pymod) : bool :=
  match src with
  | RPy p b =>
      to_package_legal w p b && negb (res_eqb (m_res m) src) && negb (res_eqb (m_res m) (RPy (p ++ [b]) INIT))
      && is_dir (w_l w) (m_folder m)
  | RDir _ => false
  end.

(* ---------------------------------------------------------------- Rename of a module file *)

Definition rename_legal (w : world) (p : path) (b : N) (nb : N) : bool :=
  let l := w_l w in
  wf_layout l && single_root l
  && has_py l p b && negb (N.eqb b INIT) && negb (N.eqb b STAR)
  && negb (N.eqb nb INIT) && negb (N.eqb nb STAR) && negb (N.eqb nb b)
  && negb (is_dir l (p ++ [b])) && is_dir l p
  && negb (is_dir l (p ++ [nb])) && negb (has_py l p nb)        (* the new name is free *)
  && negb (is_some (assoc_res (RPy p nb) (w_g w)))
  && no_global_shadow w [] (p ++ [b]) && no_global_shadow w [] (p ++ [nb]).

Definition rename_style_side (p : path) (b : N) (folder : path) (st : style) : bool :=
  match st with
  | StImport => true
  | StImportAs x => negb (N.eqb x b)
  | StFromPkg x => match p with [] => false | _ => true end
                   && match x with Some y => negb (N.eqb y b) | None => true end
  | StFromMod g k => negb (N.eqb g b) && negb (N.eqb g STAR)
  | StStar => true
  | StRelPkg x => path_eqb folder p && match p with [] => false | _ => true end
                  && match x with None => true | Some _ => false end
  | StRelMod g k => path_eqb folder p && match p with [] => false | _ => true end
                    && negb (N.eqb g b) && negb (N.eqb g STAR)
  end.

Definition rename_domain (w : world) (src : res) (newn : N) (m : pymod) : bool :=
  match src with
  | RPy p b =>
      rename_legal w p b newn
      && negb (res_eqb (m_res m) src)
      && match style_of p b m with
         | Some st => rename_style_side p b (m_folder m) st && forallb (ref_ok w p b st) (m_refs m)
                      && list_eqb istmt_eqb (m_imports m) (style_imports p b st)
         | None => false
         end
  | RDir _ => false
  end.
