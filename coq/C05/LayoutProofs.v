(* Proofs about module naming: find_module inverts modname. *)
From Coq Require Import List NArith Bool Arith Lia.
From RopeVerif.C05 Require Import Layout.
Import ListNotations.

Lemma path_eqb_eq a b : path_eqb a b = true <-> a = b.
Proof.
  revert b; induction a as [|x a IH]; intros [|y b]; cbn; split; intro H; try congruence; try discriminate.
  - apply andb_true_iff in H as [H1 H2]. apply N.eqb_eq in H1. apply IH in H2. congruence.
  - inversion H; subst. rewrite N.eqb_refl. cbn. apply IH. reflexivity.
Qed.

Lemma path_eqb_refl a : path_eqb a a = true.
Proof. apply path_eqb_eq. reflexivity. Qed.

Lemma path_eqb_neq a b : path_eqb a b = false <-> a <> b.
Proof.
  split; intro H.
  - intro E. apply path_eqb_eq in E. congruence.
  - destruct (path_eqb a b) eqn:E; [|reflexivity]. apply path_eqb_eq in E. contradiction.
Qed.

Lemma res_eqb_eq a b : res_eqb a b = true <-> a = b.
Proof.
  destruct a as [p|p n], b as [q|q m]; cbn; split; intro H; try congruence; try discriminate.
  - apply path_eqb_eq in H. congruence.
  - inversion H. apply path_eqb_refl.
  - apply andb_true_iff in H as [H1 H2]. apply path_eqb_eq in H1. apply N.eqb_eq in H2. congruence.
  - inversion H; subst. rewrite path_eqb_refl, N.eqb_refl. reflexivity.
Qed.

Lemma res_eqb_refl a : res_eqb a a = true.
Proof. apply res_eqb_eq. reflexivity. Qed.

Lemma mem_In r l : mem r l = true <-> In r l.
Proof.
  unfold mem. rewrite existsb_exists. split.
  - intros [x [Hin He]]. apply res_eqb_eq in He. subst. exact Hin.
  - intro H. exists r. split; [exact H|apply res_eqb_refl].
Qed.

Lemma parent_app p x : parent (p ++ [x]) = p.
Proof. unfold parent. apply removelast_last. Qed.

Lemma last_name_app p x : last_name (p ++ [x]) = x.
Proof. unfold last_name. apply last_last. Qed.

Lemma parent_last p : p <> [] -> parent p ++ [last_name p] = p.
Proof. intro H. unfold parent, last_name. symmetry. apply app_removelast_last. exact H. Qed.

Lemma wf_dir_parent l q x : wf_layout l = true -> is_dir l (q ++ [x]) = true -> is_dir l q = true.
Proof.
  intros Hwf H. unfold is_dir in H.
  destruct (q ++ [x]) eqn:E; [destruct q; discriminate|]. rewrite <- E in H.
  apply mem_In in H. unfold wf_layout in Hwf. rewrite forallb_forall in Hwf.
  specialize (Hwf _ H). apply andb_true_iff in Hwf as [Hp _]. cbn [res_parent] in Hp.
  rewrite parent_app in Hp. exact Hp.
Qed.

Lemma wf_dir_prefix l q s : wf_layout l = true -> is_dir l (q ++ s) = true -> is_dir l q = true.
Proof.
  intros Hwf. induction s as [|x s IH] using rev_ind; intro H.
  - rewrite app_nil_r in H. exact H.
  - rewrite app_assoc in H. apply wf_dir_parent in H; auto.
Qed.

Lemma wf_res_parent l r : wf_layout l = true -> In r l -> is_dir l (res_parent r) = true.
Proof.
  intros Hwf Hin. unfold wf_layout in Hwf. rewrite forallb_forall in Hwf.
  specialize (Hwf _ Hin). apply andb_true_iff in Hwf as [Hp _]. exact Hp.
Qed.

(* climb stops at a prefix of the folder and prepends exactly the segments below it *)
Lemma climb_spec l rp acc d s :
  climb l rp acc = (d, s) -> exists mid, rev rp = s ++ mid /\ d = mid ++ acc.
Proof.
  revert acc. induction rp as [|n rp IH]; intros acc H.
  - cbn in H. inversion H; subst. exists []. split; reflexivity.
  - cbn [climb] in H. destruct (is_pkg l (rev (n :: rp))) eqn:E.
    + apply IH in H as [mid [H1 H2]]. exists (mid ++ [n]). split.
      * cbn [rev]. rewrite H1. rewrite app_assoc. reflexivity.
      * subst d. rewrite <- app_assoc. reflexivity.
    + inversion H; subst. exists []. split; [rewrite app_nil_r; reflexivity|reflexivity].
Qed.

(* walking down through existing folders *)
Lemma find_cons l f n d' :
  d' <> [] ->
  find_in_folder l f (n :: d') = if is_dir l (f ++ [n]) then find_in_folder l (f ++ [n]) d' else None.
Proof. destruct d'; [congruence|reflexivity]. Qed.

Lemma find_walk l s mid acc :
  acc <> [] ->
  (forall k, 0 < k <= length mid -> is_dir l (s ++ firstn k mid) = true) ->
  find_in_folder l s (mid ++ acc) = find_in_folder l (s ++ mid) acc.
Proof.
  revert s. induction mid as [|x mid IH]; intros s Hacc Hd.
  - rewrite app_nil_r. reflexivity.
  - cbn [app]. rewrite find_cons.
    2:{ destruct mid; [exact Hacc|discriminate]. }
    assert (H1 : is_dir l (s ++ [x]) = true).
    { specialize (Hd 1). cbn in Hd. apply Hd. lia. }
    rewrite H1. rewrite IH; auto.
    + rewrite <- app_assoc. reflexivity.
    + intros k Hk. specialize (Hd (S k)). cbn [firstn] in Hd. rewrite <- app_assoc. cbn. apply Hd.
      cbn. lia.
Qed.

Lemma dirs_along l s mid : wf_layout l = true -> is_dir l (s ++ mid) = true ->
  forall k, 0 < k <= length mid -> is_dir l (s ++ firstn k mid) = true.
Proof.
  intros Hwf H k Hk. rewrite <- (firstn_skipn k mid) in H. rewrite app_assoc in H.
  apply wf_dir_prefix in H; auto.
Qed.

Lemma first_some_before {B} (f : path -> option B) s xs y :
  In s xs -> (forall s', In s' (before s xs) -> f s' = None) -> f s = Some y -> first_some f xs = Some y.
Proof.
  induction xs as [|x xs IH]; intros Hin Hb Hs; [destruct Hin|].
  cbn [first_some]. cbn [before] in Hb. destruct (path_eqb x s) eqn:E.
  - apply path_eqb_eq in E. subst. rewrite Hs. reflexivity.
  - destruct Hin as [->|Hin]; [rewrite path_eqb_refl in E; discriminate|].
    rewrite (Hb x (or_introl eq_refl)). apply IH; auto. intros s' Hs'. apply Hb. right. exact Hs'.
Qed.

(* the look-up from the naming root *)
Lemma find_from_src l r :
  wf_layout l = true -> in_layout l r = true ->
  match r with
  | RPy p n => N.eqb n INIT || negb (is_dir l (p ++ [n]))
  | RDir _ => true
  end = true ->
  match r with RPy [] n => negb (N.eqb n INIT) | _ => true end = true ->
  find_in_folder l (modname_src l r) (modname l r) = Some (canon r).
Proof.
  intros Hwf Hin Hsh Hroot. unfold modname, modname_src.
  assert (Hgen : forall folder n target,
             is_dir l folder = true ->
             find_in_folder l folder [n] = Some target ->
             forall d s, climb l (rev folder) [n] = (d, s) -> find_in_folder l s d = Some target).
  { intros folder n target Hdir Hf d s Hc. apply climb_spec in Hc as [mid [H1 H2]].
    rewrite rev_involutive in H1. subst d. rewrite find_walk; [|discriminate|].
    - rewrite <- H1. exact Hf.
    - apply dirs_along; auto. rewrite <- H1. exact Hdir. }
  destruct r as [p|p n].
  - (* folder *)
    destruct p as [|x p]; [cbn in Hin; discriminate|].
    cbn [modname_full canon]. remember (x :: p) as q eqn:Eq.
    assert (Hq : q <> []) by (subst; discriminate).
    assert (Hm : In (RDir q) l). { apply mem_In. subst q. exact Hin. }
    destruct (climb l (rev (parent q)) [last_name q]) as [d s] eqn:Hc. cbn [fst snd].
    apply (Hgen (parent q) (last_name q)); auto.
    + apply (wf_res_parent l (RDir q)); auto.
    + cbn [find_in_folder]. rewrite parent_last; auto.
      assert (is_dir l q = true) as ->; [|reflexivity].
      unfold is_dir. destruct q; [congruence|]. apply mem_In. exact Hm.
  - cbn [modname_full canon]. assert (Hm : In (RPy p n) l) by (apply mem_In; exact Hin).
    destruct (N.eqb n INIT) eqn:En.
    + (* p/__init__.py : the package *)
      destruct p as [|x p]; [cbn in Hroot; discriminate|].
      remember (x :: p) as q eqn:Eq. assert (Hq : q <> []) by (subst; discriminate).
      assert (Hdq : is_dir l q = true) by (apply (wf_res_parent l (RPy q n)); auto).
      destruct (climb l (rev (parent q)) [last_name q]) as [d s] eqn:Hc. cbn [fst snd].
      apply (Hgen (parent q) (last_name q)); auto.
      * rewrite <- (parent_last q Hq) in Hdq. apply wf_dir_parent in Hdq; auto.
      * cbn [find_in_folder]. rewrite parent_last; auto. rewrite Hdq. reflexivity.
    + destruct (climb l (rev p) [n]) as [d s] eqn:Hc. cbn [fst snd].
      apply (Hgen p n); auto.
      * apply (wf_res_parent l (RPy p n)); auto.
      * cbn [find_in_folder]. cbn [orb] in Hsh. apply negb_true_iff in Hsh. rewrite Hsh.
        unfold has_py. cbn [in_layout] in Hin. rewrite Hin. reflexivity.
Qed.

Theorem modname_inverse l r :
  wf_layout l = true -> in_layout l r = true -> no_shadowing l r = true ->
  find_module l (modname l r) = Some (canon r).
Proof.
  intros Hwf Hin Hns. unfold no_shadowing in Hns.
  apply andb_true_iff in Hns as [Hns Hroot]. apply andb_true_iff in Hns as [Hns Hsib].
  apply andb_true_iff in Hns as [Hsrc Hbef].
  unfold find_module. apply existsb_exists in Hsrc as [s [Hs1 Hs2]]. apply path_eqb_eq in Hs2. subst s.
  eapply first_some_before; eauto.
  - intros s' Hs'. rewrite forallb_forall in Hbef. specialize (Hbef _ Hs').
    destruct (find_in_folder l s' (modname l r)); [discriminate|reflexivity].
  - apply find_from_src; auto.
Qed.

(* relative variant: a module named by its last segment is found from its own folder, at every level *)
Lemma up_app k p s : length s = k -> up k (p ++ s) = p.
Proof.
  revert p s. induction k as [|k IH]; intros p s Hl.
  - destruct s; [|discriminate]. rewrite app_nil_r. reflexivity.
  - cbn [up]. destruct s as [|x s] using rev_ind; [discriminate|].
    rewrite app_assoc, parent_app. apply IH. rewrite app_length in Hl. cbn in Hl. lia.
Qed.

Theorem relative_inverse l r below :
  wf_layout l = true -> in_layout l r = true ->
  match r with
  | RPy p n => negb (N.eqb n INIT) && negb (is_dir l (p ++ [n]))
  | RDir _ => true
  end = true ->
  let folder := res_parent r in
  let n := match r with RDir p => last_name p | RPy _ n => n end in
  find_relative_module l [n] (folder ++ below) (S (length below)) = Some r.
Proof.
  intros Hwf Hin Hsh folder n. unfold find_relative_module. cbn [pred].
  rewrite up_app by reflexivity. cbn [find_in_folder]. subst folder n.
  destruct r as [p|p n]; cbn [res_parent].
  - destruct p as [|x p]; [cbn in Hin; discriminate|]. remember (x :: p) as q.
    assert (Hq : q <> []) by (subst; discriminate). rewrite parent_last; auto.
    assert (is_dir l q = true) as ->; [|reflexivity].
    unfold is_dir. destruct q; [congruence|]. exact Hin.
  - apply andb_true_iff in Hsh as [_ H2]. apply negb_true_iff in H2. rewrite H2.
    unfold has_py. cbn in Hin. rewrite Hin. reflexivity.
Qed.
