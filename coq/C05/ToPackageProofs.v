(* ModuleToPackage: m.py -> m/__init__.py.  No other module is rewritten; this file proves that every
   reference of every other module (any imports, any references) still reaches the same object. *)
From Coq Require Import List NArith Bool Arith Lia.
From RopeVerif.C05 Require Import Layout LayoutProofs Move Domain MoveProofs.
Import ListNotations.

Lemma env_ok_app a c : env_ok (a ++ c) = env_ok a && env_ok c.
Proof. unfold env_ok. apply forallb_app. Qed.

Lemma lookup_env_map (f : obj -> obj) x e :
  lookup_env x (map (fun b : N * option obj => (fst b, option_map f (snd b))) e)
  = option_map (option_map f) (lookup_env x e).
Proof.
  induction e as [|[y o] e IH]; [reflexivity|].
  cbn [map lookup_env fst snd]. rewrite IH. destruct (lookup_env x e); [reflexivity|].
  cbn [option_map]. destruct (N.eqb x y); reflexivity.
Qed.

Section ToPackage.
  Variable w : world.
  Variable p : path.
  Variable b : N.
  Hypothesis Hlegal : to_package_legal w p b = true.

  Let l := w_l w.
  Let src := RPy p b.
  Let q := p ++ [b].
  Let w2 := to_package_world src w.
  Let l2 := w_l w2.
  Let tr := to_package_obj_res src.        (* objects: the module becomes the package *)
  Let tf := to_package_res src.            (* files: p/b.py becomes p/b/__init__.py *)

  Lemma T_wf : wf_layout l = true.
  Proof. unfold to_package_legal in Hlegal. split_andb. assumption. Qed.
  Lemma T_src : has_py l p b = true.
  Proof. unfold to_package_legal in Hlegal. split_andb. assumption. Qed.
  Lemma T_bI : N.eqb b INIT = false.
  Proof. unfold to_package_legal in Hlegal. split_andb. apply negb_true_iff. assumption. Qed.
  Lemma T_nodir : is_dir l q = false.
  Proof. unfold to_package_legal in Hlegal. split_andb. apply negb_true_iff. assumption. Qed.
  Lemma T_g : assoc_res (RPy q INIT) (w_g w) = None.
  Proof.
    unfold to_package_legal in Hlegal. split_andb.
    match goal with H : negb (is_some _) = true |- _ =>
      unfold q; destruct (assoc_res (RPy (p ++ [b]) INIT) (w_g w)); [discriminate|reflexivity] end.
  Qed.

  Lemma l2_eq : l2 = RDir q :: map tf l.
  Proof. reflexivity. Qed.

  Lemma tf_dir x : tf (RDir x) = RDir x.
  Proof. reflexivity. Qed.

  (* nothing lives under q before *)
  Lemma nothing_under_q s : s <> [] -> is_dir l (q ++ s) = false.
  Proof.
    intro Hs. destruct (is_dir l (q ++ s)) eqn:E; [|reflexivity].
    apply (wf_dir_prefix l q s T_wf) in E. rewrite T_nodir in E. discriminate.
  Qed.

  Lemma no_py_under_q n : has_py l q n = false.
  Proof.
    destruct (has_py l q n) eqn:E; [|reflexivity]. unfold has_py in E. apply mem_In in E.
    pose proof (wf_res_parent l (RPy q n) T_wf E) as H. cbn [res_parent] in H. rewrite T_nodir in H. discriminate.
  Qed.

  Lemma is_dir_l2 x : is_dir l x = true -> is_dir l2 x = true.
  Proof.
    unfold is_dir. destruct x as [|x0 x']; [reflexivity|]. intro H. apply mem_In in H. apply mem_In.
    rewrite l2_eq. right. apply in_map_iff. exists (RDir (x0 :: x')). split; [reflexivity|exact H].
  Qed.

  Lemma is_dir_l2_q : is_dir l2 q = true.
  Proof.
    unfold is_dir. destruct q eqn:E; [reflexivity|]. rewrite <- E. apply mem_In. rewrite l2_eq. left. reflexivity.
  Qed.

  Lemma is_dir_l2_false x : is_dir l x = false -> x <> q -> is_dir l2 x = false.
  Proof.
    intros H Hq. destruct (is_dir l2 x) eqn:E; [|reflexivity]. exfalso.
    unfold is_dir in *. destruct x as [|x0 x']; [discriminate|].
    apply mem_In in E. rewrite l2_eq in E. destruct E as [E|E].
    - inversion E. congruence.
    - apply in_map_iff in E as [r [H1 H2]]. unfold tf, to_package_res, src in H1.
      destruct (res_eqb r (RPy p b)); [discriminate|]. subst r. apply mem_In in H2. fold l in H2. congruence.
  Qed.

  Lemma has_py_l2 f n : has_py l f n = true -> RPy f n <> src -> has_py l2 f n = true.
  Proof.
    intros H Hs. unfold has_py in *. apply mem_In in H. apply mem_In. rewrite l2_eq. right.
    apply in_map_iff. exists (RPy f n). split; [|exact H].
    unfold tf, to_package_res, src. rewrite res_eqb_neq by exact Hs. reflexivity.
  Qed.

  (* T1: look-ups commute with the conversion *)
  Lemma find_l2 d : forall f r, find_in_folder l f d = Some r -> find_in_folder l2 f d = Some (tr r).
  Proof.
    induction d as [|n d IH]; intros f r H; [discriminate|].
    destruct d as [|n2 d].
    - rewrite find_single in H. rewrite find_single.
      destruct (is_dir l (f ++ [n])) eqn:Ed.
      + inversion H; subst r. rewrite (is_dir_l2 _ Ed). reflexivity.
      + destruct (has_py l f n) eqn:Ep; [|discriminate]. inversion H; subst r.
        destruct (res_eqb (RPy f n) src) eqn:Es.
        * apply res_eqb_eq in Es. unfold src in Es. inversion Es; subst f n.
          fold q. rewrite is_dir_l2_q. unfold tr, to_package_obj_res, src. rewrite res_eqb_refl. reflexivity.
        * assert (Hne : RPy f n <> src) by (intro E; rewrite E, res_eqb_refl in Es; discriminate).
          assert (Hq : f ++ [n] <> q).
          { intro E. unfold q in E. apply app_inj_tail in E as [-> ->]. apply Hne. reflexivity. }
          rewrite (is_dir_l2_false _ Ed Hq), (has_py_l2 _ _ Ep Hne).
          unfold tr, to_package_obj_res, src. unfold src in Es. rewrite Es. reflexivity.
    - rewrite find_cons in H by discriminate. rewrite find_cons by discriminate.
      destruct (is_dir l (f ++ [n])) eqn:Ed; [|discriminate]. rewrite (is_dir_l2 _ Ed). apply IH. exact H.
  Qed.

  Lemma find_dir_is_dir d : forall f x, find_in_folder l f d = Some (RDir x) -> is_dir l x = true.
  Proof.
    induction d as [|n d IH]; intros f x H; [discriminate|].
    destruct d as [|n2 d].
    - rewrite find_single in H. destruct (is_dir l (f ++ [n])) eqn:Ed.
      + inversion H; subst. exact Ed.
      + destruct (has_py l f n); discriminate.
    - rewrite find_cons in H by discriminate. destruct (is_dir l (f ++ [n])); [|discriminate]. eapply IH; eauto.
  Qed.

  (* T2: globals *)
  Lemma assoc_w2 r : r <> RPy q INIT -> assoc_res (tf r) (w_g w2) = assoc_res r (w_g w).
  Proof.
    intro Hr. pose proof T_g as Hg. unfold w2, to_package_world, src, map_world. cbn [w_g].
    induction (w_g w) as [|[k v] g IH]; [reflexivity|].
    cbn [map assoc_res fst snd] in *.
    destruct (res_eqb k (RPy q INIT)) eqn:Ek; [discriminate|].
    assert (E : res_eqb (to_package_res (RPy p b) k) (tf r) = res_eqb k r).
    { unfold tf, src, to_package_res.
      destruct (res_eqb k (RPy p b)) eqn:E1, (res_eqb r (RPy p b)) eqn:E2.
      - apply res_eqb_eq in E1. apply res_eqb_eq in E2. subst. rewrite !res_eqb_refl. reflexivity.
      - apply res_eqb_eq in E1. subst k. rewrite (res_eqb_sym (RPy p b) r), E2.
        apply res_eqb_neq. intro E. apply Hr. symmetry. exact E.
      - apply res_eqb_eq in E2. subst r. rewrite E1. fold q. exact Ek.
      - reflexivity. }
    rewrite E. destruct (res_eqb k r); [reflexivity|]. apply IH. exact Hg.
  Qed.

  Lemma globals_w2 r : init_file r <> RPy q INIT -> r <> RDir q ->
    globals_of w2 (tr r) = globals_of w r.
  Proof.
    intros H1 H2. unfold globals_of.
    assert (E : init_file (tr r) = tf (init_file r)).
    { unfold tr, tf, to_package_obj_res, to_package_res, src. destruct r as [x|x n]; cbn [init_file res_eqb].
      - rewrite (N.eqb_sym INIT b), T_bI, andb_false_r. reflexivity.
      - destruct (path_eqb x p && N.eqb n b); reflexivity. }
    rewrite E, assoc_w2 by exact H1. reflexivity.
  Qed.

  Lemma globals_w2_dir x : is_dir l x = true -> globals_of w2 (RDir x) = globals_of w (RDir x).
  Proof.
    intro H. change (RDir x) with (tr (RDir x)) at 1. apply globals_w2.
    - cbn [init_file]. intro E. inversion E as [E1]. rewrite E1, T_nodir in H. discriminate.
    - intro E. inversion E as [E1]. rewrite E1, T_nodir in H. discriminate.
  Qed.

  Lemma globals_w2_src : globals_of w2 (RDir q) = globals_of w src.
  Proof.
    assert (E : tr src = RDir q) by (unfold tr, to_package_obj_res, src; rewrite res_eqb_refl; reflexivity).
    rewrite <- E. apply globals_w2.
    - cbn [init_file src]. intro H. inversion H as [[H1 H2]]. pose proof T_bI as Hb.
      rewrite H2, N.eqb_refl in Hb. discriminate.
    - discriminate.
  Qed.

  Definition tro (o : obj) : obj := move_obj tr o.

  (* T3: attributes *)
  Lemma mod_attr_w2 chk chk2 r n o :
    (forall c, chk c = true -> chk2 (tr c) = true) ->
    (match r with RDir x => is_dir l x = true | RPy f n0 => has_py l f n0 = true end) ->
    mod_attr w chk r n = Some o -> mod_attr w2 chk2 (tr r) n = Some (tro o).
  Proof.
    intros Hc Hin H. unfold mod_attr in H.
    destruct r as [x|f n0].
    - change (tr (RDir x)) with (RDir x). unfold mod_attr. rewrite (globals_w2_dir x Hin).
      destruct (memN n (globals_of w (RDir x))); [inversion H; subst o; reflexivity|].
      fold l in H. destruct (find_in_folder l x [n]) as [c|] eqn:Ef; [|discriminate].
      destruct (chk c) eqn:Ec; [|discriminate]. inversion H; subst o.
      fold l2. rewrite (find_l2 _ _ _ Ef), (Hc c Ec). reflexivity.
    - destruct (memN n (globals_of w (RPy f n0))) eqn:Eg; [|discriminate]. inversion H; subst o.
      destruct (res_eqb (RPy f n0) src) eqn:Es.
      + apply res_eqb_eq in Es. rewrite Es in *. 
        assert (E : tr src = RDir q) by (unfold tr, to_package_obj_res, src; rewrite res_eqb_refl; reflexivity).
        rewrite E. unfold mod_attr. rewrite globals_w2_src, Eg. unfold tro. cbn [move_obj]. rewrite E. reflexivity.
      + assert (E : tr (RPy f n0) = RPy f n0) by (unfold tr, to_package_obj_res, src; unfold src in Es; rewrite Es; reflexivity).
        rewrite E. unfold mod_attr.
        assert (Eg2 : globals_of w2 (RPy f n0) = globals_of w (RPy f n0)).
        { rewrite <- E at 1. apply globals_w2; [|discriminate].
          cbn [init_file]. intro H0. inversion H0 as [[E1 E2]]. rewrite E1, no_py_under_q in Hin. discriminate. }
        rewrite Eg2, Eg. unfold tro. cbn [move_obj]. rewrite E. reflexivity.
  Qed.

  (* resources that exist before *)
  Definition res_in (r : res) : Prop :=
    match r with RDir x => is_dir l x = true | RPy f n => has_py l f n = true end.
  Definition obj_in (o : obj) : Prop := match o with OMod r => res_in r | OGlob _ _ => True end.

  Lemma find_in d : forall f r, find_in_folder l f d = Some r -> res_in r.
  Proof.
    induction d as [|n d IH]; intros f r H; [discriminate|].
    destruct d as [|n2 d].
    - rewrite find_single in H. destruct (is_dir l (f ++ [n])) eqn:Ed.
      + inversion H; subst. exact Ed.
      + destruct (has_py l f n) eqn:Ep; [|discriminate]. inversion H; subst. exact Ep.
    - rewrite find_cons in H by discriminate. destruct (is_dir l (f ++ [n])); [|discriminate]. eapply IH; eauto.
  Qed.

  Lemma up_dir k f : is_dir l f = true -> is_dir l (up k f) = true.
  Proof.
    revert f. induction k as [|k IH]; intros f H; [exact H|]. cbn [up]. apply IH.
    destruct f as [|x f] using rev_ind; [exact H|]. rewrite parent_app.
    apply (wf_dir_parent l f x T_wf H).
  Qed.

  Lemma from_module_in folder level modn r :
    is_dir l folder = true -> from_module false l folder level modn = Some r -> res_in r.
  Proof.
    intros Hf H. destruct level as [|k]; cbn [from_module abs_import] in H.
    - eapply find_in; eauto.
    - destruct (Nat.ltb k (length folder)); [|discriminate]. unfold find_relative_module in H. cbn [pred] in H.
      destruct modn.
      + inversion H; subst. cbn [res_in]. apply up_dir. exact Hf.
      + eapply find_in; eauto.
  Qed.

  Lemma from_module_w2 folder level modn r :
    from_module false l folder level modn = Some r -> from_module false l2 folder level modn = Some (tr r).
  Proof.
    intro H. destruct level as [|k]; cbn [from_module abs_import] in *.
    - apply find_l2. exact H.
    - destruct (Nat.ltb k (length folder)); [|discriminate]. unfold find_relative_module in *. cbn [pred] in *.
      destruct modn.
      + inversion H; subst. reflexivity.
      + apply find_l2. exact H.
  Qed.

  Lemma mod_attr_in chk r n o : res_in r -> mod_attr w chk r n = Some o -> obj_in o.
  Proof.
    intros Hr H. unfold mod_attr in H. destruct (memN n (globals_of w r)); [inversion H; subst; exact I|].
    destruct r as [x|f n0]; [|discriminate]. fold l in H.
    destruct (find_in_folder l x [n]) as [c|] eqn:Ef; [|discriminate]. destruct (chk c); [|discriminate].
    inversion H; subst. cbn [obj_in]. eapply find_in; eauto.
  Qed.

  Definition tb (bd : N * option obj) : N * option obj := (fst bd, option_map tro (snd bd)).
  Definition env_in (e : list (N * option obj)) : Prop := forall x o, In (x, Some o) e -> obj_in o.

  Lemma env_in_app a c : env_in a -> env_in c -> env_in (a ++ c).
  Proof. intros Ha Hc x o H. apply in_app_or in H as [H|H]; eauto. Qed.

  Lemma bind_normal_sim folder na :
    env_ok (bind_normal false w folder na) = true ->
    bind_normal false w2 folder na = map tb (bind_normal false w folder na)
    /\ env_in (bind_normal false w folder na).
  Proof.
    destruct na as [d al]. unfold bind_normal. intro H.
    destruct al as [x|].
    - unfold abs_import in H |- *. change (w_l w) with l in H |- *. change (w_l w2) with l2.
      destruct (find_in_folder l [] d) as [r|] eqn:E; [|discriminate].
      rewrite (find_l2 _ _ _ E). split; [reflexivity|].
      intros y o [Hy|[]]. inversion Hy; subst. cbn [obj_in]. eapply find_in; eauto.
    - destruct d as [|h t]; [split; [reflexivity|intros ? ? []]|].
      unfold abs_import in H |- *. change (w_l w) with l in H |- *. change (w_l w2) with l2.
      destruct (find_in_folder l [] (h :: t)) as [r|] eqn:E; [|discriminate].
      rewrite (find_l2 _ _ _ E).
      destruct (find_in_folder l [] [h]) as [r0|] eqn:E0; [|discriminate].
      rewrite (find_l2 _ _ _ E0). split; [reflexivity|].
      intros y o [Hy|[]]. inversion Hy; subst. cbn [obj_in]. eapply find_in; eauto.
  Qed.

  Lemma globals_w2_in r : res_in r -> globals_of w2 (tr r) = globals_of w r.
  Proof.
    intro Hr. apply globals_w2.
    - destruct r as [x|f n]; cbn [init_file res_in] in *.
      + intro E. inversion E as [E1]. rewrite E1, T_nodir in Hr. discriminate.
      + intro E. inversion E as [[E1 E2]]. rewrite E1, no_py_under_q in Hr. discriminate.
    - intro E. rewrite E in Hr. cbn [res_in] in Hr. rewrite T_nodir in Hr. discriminate.
  Qed.

  Lemma bind_from_sim folder level modn names :
    is_dir l folder = true ->
    env_ok (bind_from false w folder level modn names) = true ->
    bind_from false w2 folder level modn names = map tb (bind_from false w folder level modn names)
    /\ env_in (bind_from false w folder level modn names).
  Proof.
    intros Hf. unfold bind_from. change (w_l w) with l. change (w_l w2) with l2.
    destruct (from_module false l folder level modn) as [r|] eqn:Eb.
    - rewrite (from_module_w2 _ _ _ _ Eb). pose proof (from_module_in _ _ _ _ Hf Eb) as Hr.
      induction names as [|[n al] names IH]; intro H; [split; [reflexivity|intros ? ? []]|].
      cbn [flat_map] in *. rewrite env_ok_app in H. apply andb_true_iff in H as [H1 H2].
      destruct (IH H2) as [IH1 IH2]. rewrite IH1, map_app. split.
      + f_equal. destruct (N.eqb n STAR).
        * rewrite (globals_w2_in r Hr), map_map. apply map_ext. intro g. reflexivity.
        * destruct (mod_attr w (fun _ => true) r n) as [o|] eqn:Ea; [|discriminate].
          rewrite (mod_attr_w2 (fun _ => true) (fun _ => true) r n o); auto.
      + apply env_in_app; [|exact IH2]. destruct (N.eqb n STAR).
        * intros y o Hy. apply in_map_iff in Hy as [g [Hg _]]. inversion Hg; subst. exact I.
        * intros y o [Hy|[]]. inversion Hy as [[Hy1 Hy2]]. eapply mod_attr_in; eauto.
    - induction names as [|[n al] names IH]; intro H; [split; [reflexivity|intros ? ? []]|].
      cbn [flat_map] in H. rewrite env_ok_app in H. apply andb_true_iff in H as [H1 _].
      destruct (N.eqb n STAR); discriminate.
  Qed.

  Lemma bind_stmt_sim folder s :
    is_dir l folder = true ->
    env_ok (bind_stmt false w folder s) = true ->
    bind_stmt false w2 folder s = map tb (bind_stmt false w folder s) /\ env_in (bind_stmt false w folder s).
  Proof.
    intros Hf. destruct s as [names|level modn names|]; cbn [bind_stmt].
    - induction names as [|na names IH]; intro H; [split; [reflexivity|intros ? ? []]|].
      cbn [flat_map] in *. rewrite env_ok_app in H. apply andb_true_iff in H as [H1 H2].
      destruct (bind_normal_sim folder na H1) as [A1 A2]. destruct (IH H2) as [B1 B2].
      rewrite A1, B1, map_app. split; [reflexivity|apply env_in_app; assumption].
    - apply bind_from_sim. exact Hf.
    - intros _. split; [reflexivity|intros ? ? []].
  Qed.

  Lemma env_sim folder imps :
    is_dir l folder = true ->
    env_ok (env_of false w folder imps) = true ->
    env_of false w2 folder imps = map tb (env_of false w folder imps) /\ env_in (env_of false w folder imps).
  Proof.
    intros Hf. unfold env_of. induction imps as [|s imps IH]; intro H; [split; [reflexivity|intros ? ? []]|].
    cbn [flat_map] in *. rewrite env_ok_app in H. apply andb_true_iff in H as [H1 H2].
    destruct (bind_stmt_sim folder s Hf H1) as [A1 A2]. destruct (IH H2) as [B1 B2].
    rewrite A1, B1, map_app. split; [reflexivity|apply env_in_app; assumption].
  Qed.

  Lemma env_ok_map e : env_ok e = true -> env_ok (map tb e) = true.
  Proof.
    unfold env_ok. rewrite !forallb_forall. intros H x Hx. apply in_map_iff in Hx as [y [<- Hy]].
    specialize (H y Hy). destruct y as [k [o|]]; [reflexivity|discriminate].
  Qed.

  (* T4: what is loaded stays loaded *)
  Lemma In_find_w2 f ps c :
    In c (flat_map (fun pre => opt_list (find_in_folder l f pre)) ps) ->
    In (tr c) (flat_map (fun pre => opt_list (find_in_folder l2 f pre)) ps).
  Proof.
    intro H. apply in_flat_map in H as [pre [H1 H2]]. apply in_flat_map. exists pre. split; [exact H1|].
    destruct (find_in_folder l f pre) as [r|] eqn:E; [|destruct H2].
    destruct H2 as [<-|[]]. rewrite (find_l2 _ _ _ E). left. reflexivity.
  Qed.

  Lemma loaded_stmt_w2 folder s c :
    is_dir l folder = true ->
    In c (loaded_stmt w folder s) -> In (tr c) (loaded_stmt w2 folder s).
  Proof.
    intros Hf H. destruct s as [names|level modn names|]; cbn [loaded_stmt] in *; [| |destruct H].
    - apply in_flat_map in H as [na [H1 H2]]. apply in_flat_map. exists na. split; [exact H1|].
      apply In_find_w2. exact H2.
    - change (w_l w) with l in H. change (w_l w2) with l2.
      apply in_app_or in H as [H|H]; apply in_or_app.
      + left. destruct level; apply In_find_w2; exact H.
      + right. destruct (from_module false l folder level modn) as [r|] eqn:Eb; [|destruct H].
        rewrite (from_module_w2 _ _ _ _ Eb). destruct r as [pp|? ?]; [|destruct H].
        change (tr (RDir pp)) with (RDir pp).
        pose proof (from_module_in _ _ _ _ Hf Eb) as Hr. cbn [res_in] in Hr.
        apply in_flat_map in H as [na [H1 H2]]. apply in_flat_map. exists na. split; [exact H1|].
        rewrite (globals_w2_dir pp Hr). destruct (memN (fst na) (globals_of w (RDir pp))); [destruct H2|].
        destruct (find_in_folder l pp [fst na]) as [r|] eqn:E; [|destruct H2].
        destruct H2 as [<-|[]]. rewrite (find_l2 _ _ _ E). left. reflexivity.
  Qed.

  Lemma loaded_w2 m c :
    is_dir l (m_folder m) = true -> mem c (loaded w m) = true -> mem (tr c) (loaded w2 m) = true.
  Proof.
    intros Hf H. apply mem_In in H. apply mem_In. unfold loaded in *.
    apply in_app_or in H as [H|H]; apply in_or_app.
    - left. apply In_find_w2. exact H.
    - right. apply in_flat_map in H as [s [H1 H2]]. apply in_flat_map. exists s. split; [exact H1|].
      apply loaded_stmt_w2; assumption.
  Qed.

  (* evaluation *)
  Lemma fold_none (wx : world) chk t : fold_left (step_attr wx chk) t None = None.
  Proof. induction t; [reflexivity|exact IHt]. Qed.

  Lemma fold_sim chk chk2 t : forall o0 o,
    (forall c, chk c = true -> chk2 (tr c) = true) ->
    obj_in o0 ->
    fold_left (step_attr w chk) t (Some o0) = Some o ->
    fold_left (step_attr w2 chk2) t (Some (tro o0)) = Some (tro o).
  Proof.
    induction t as [|n t IH]; intros o0 o Hc Hin H.
    - cbn in *. inversion H; subst. reflexivity.
    - cbn [fold_left] in *. destruct o0 as [r|r g]; cbn [step_attr tro move_obj] in *.
      + destruct (mod_attr w chk r n) as [o1|] eqn:Ea; [|rewrite fold_none in H; discriminate].
        rewrite (mod_attr_w2 chk chk2 r n o1 Hc); [|destruct r; exact Hin|exact Ea].
        apply IH; auto. eapply mod_attr_in; eauto.
      + rewrite fold_none in H. discriminate.
  Qed.

  Lemma lookup_env_In x e o : lookup_env x e = Some o -> exists y, In (y, o) e.
  Proof.
    induction e as [|[y o'] e IH]; [discriminate|]. cbn [lookup_env].
    destruct (lookup_env x e) as [r|] eqn:E.
    - intro H. inversion H; subst. destruct (IH eq_refl) as [y' Hy]. exists y'. right. exact Hy.
    - destruct (N.eqb x y); [|discriminate]. intro H. inversion H; subst. exists y. left. reflexivity.
  Qed.

  Theorem to_package_refs m r o :
    is_dir l (m_folder m) = true ->
    m_res m <> src -> m_res m <> RPy q INIT ->
    resolve_ref w m r = Some o -> resolve_ref w2 m r = Some (tro o).
  Proof.
    intros Hf Hs Hq H. unfold resolve_ref in *.
    destruct (imports_ok w m) eqn:Eok; [|discriminate]. unfold imports_ok in Eok.
    destruct (env_sim (m_folder m) (m_imports m) Hf Eok) as [E1 E2].
    unfold imports_ok. rewrite E1, (env_ok_map _ Eok).
    destruct r as [|h t]; [discriminate|]. unfold eval_dotted in *.
    rewrite (lookup_env_map tro).
    assert (Hc : forall c, mem c (loaded w m) = true -> mem (tr c) (loaded w2 m) = true)
      by (intros c; apply loaded_w2; exact Hf).
    destruct (lookup_env h (env_of false w (m_folder m) (m_imports m))) as [oo|] eqn:El.
    - cbn [option_map]. destruct oo as [o0|]; [|rewrite fold_none in H; discriminate].
      cbn [option_map]. destruct (lookup_env_In _ _ _ El) as [y Hy].
      exact (fold_sim _ _ t o0 o Hc (E2 y o0 Hy) H).
    - cbn [option_map].
      assert (Eg : globals_of w2 (m_res m) = globals_of w (m_res m)).
      { unfold globals_of.
        assert (Ei : init_file (m_res m) = m_res m) by reflexivity. rewrite Ei.
        assert (Et : tf (m_res m) = m_res m).
        { unfold tf, to_package_res, src. unfold src in Hs. rewrite res_eqb_neq by exact Hs. reflexivity. }
        rewrite <- Et at 1. rewrite assoc_w2 by exact Hq. reflexivity. }
      rewrite Eg. destruct (memN h (globals_of w (m_res m))); [|rewrite fold_none in H; discriminate].
      assert (Ec : tro (OGlob (canon (m_res m)) h) = OGlob (canon (m_res m)) h).
      { unfold tro. cbn [move_obj]. f_equal. unfold tr, to_package_obj_res, src.
        assert (En : res_eqb (canon (m_res m)) (RPy p b) = false).
        { apply res_eqb_neq. unfold m_res, canon. destruct (N.eqb (m_name m) INIT) eqn:En; [discriminate|].
          exact Hs. }
        rewrite En. reflexivity. }
      rewrite <- Ec. exact (fold_sim _ _ t (OGlob (canon (m_res m)) h) o Hc I H).
  Qed.
End ToPackage.

Theorem to_package_domain_thm w p b m r o :
  to_package_domain w (RPy p b) m = true ->
  resolve_ref w (to_package_text w (RPy p b) m) r = Some o ->
  resolve_ref (to_package_world (RPy p b) w) (to_package_text w (RPy p b) m) r
  = Some (move_obj (to_package_obj_res (RPy p b)) o).
Proof.
  unfold to_package_domain. intros H.
  apply andb_true_iff in H as [H Hf].
  apply andb_true_iff in H as [H H3]. apply andb_true_iff in H as [H1 H2].
  apply negb_true_iff in H2. apply negb_true_iff in H3.
  unfold to_package_text. rewrite H2. intro Hr.
  apply (to_package_refs w p b H1 m r o Hf); auto.
  - intro E. rewrite E, res_eqb_refl in H2. discriminate.
  - intro E. rewrite E, res_eqb_refl in H3. discriminate.
Qed.
