From Coq Require Import List NArith Bool Arith.
From RopeVerif.C05 Require Import Layout Move Domain Refute.
Import ListNotations.

Lemma rel_alias_refuted :
  exists w p b dest m, legal_move w p b dest = true /\ breaks_move as_found w (RPy p b) dest m = true.
Proof. exists w1, [a_], b_, [c_], m_rel_alias. vm_compute. split; reflexivity. Qed.

Lemma to_root_refuted :
  exists w p b m, wf_layout (w_l w) = true /\ breaks_move as_found w (RPy p b) [] m = true.
Proof. exists w1, [a_], b_, m_root_alias. vm_compute. split; reflexivity. Qed.

Lemma package_name_refuted :
  exists w p b dest m, legal_move w p b dest = true /\ breaks_move as_found w (RPy p b) dest m = true
                       /\ length (m_imports m) = 1.
Proof. exists w1, [a_], b_, [c_], m_pkg_name. vm_compute. repeat split; reflexivity. Qed.

Lemma bound_twice_refuted :
  exists w p b dest m, legal_move w p b dest = true /\ breaks_move as_found w (RPy p b) dest m = true.
Proof. exists w1, [a_], b_, [c_], m_twice. vm_compute. split; reflexivity. Qed.

Lemma head_bound_refuted :
  exists w p b dest m, legal_move w p b dest = true /\ breaks_move as_found w (RPy p b) dest m = true.
Proof. exists w1, [a_], b_, [c_], m_head. vm_compute. split; reflexivity. Qed.

Lemma star_dest_refuted :
  exists w p b dest m, legal_move w p b dest = true /\ breaks_move as_found w (RPy p b) dest m = true.
Proof. exists w2, [a_], b_, [c_], m_star. vm_compute. split; reflexivity. Qed.

Lemma leaving_package_refuted :
  exists w q dest m, wf_layout (w_l w) = true /\ breaks_move as_found w (RDir q) dest m = true.
Proof. exists w3, [a_; p_], [c_], m_leaving. vm_compute. split; reflexivity. Qed.

Lemma ancestor_attr_refuted :
  exists w p b dest m, legal_move w p b dest = true /\ breaks_move as_found w (RPy p b) dest m = true.
Proof. exists w3, [a_; p_], b_, [c_], m_ancestor. vm_compute. split; reflexivity. Qed.

Lemma three_dots_refuted :
  exists w p b dest m, legal_move w p b dest = true /\ breaks_move as_found w (RPy p b) dest m = true
                       /\ breaks_rename w (RPy p b) nb_ m = true.
Proof. exists w4, [a_; q_; r_], b_, [c_], m_dots. vm_compute. repeat split; reflexivity. Qed.

Lemma rename_twice_refuted :
  exists w src newn m, wf_layout (w_l w) = true /\ breaks_rename w src newn m = true.
Proof. exists w5, (RPy [c_] t_), nb_, m_ren_twice. vm_compute. split; reflexivity. Qed.

Lemma crash_example :
  exists w p b dest m, legal_move w p b dest = true /\ move_module_text as_found w (RPy p b) dest m = Crash.
Proof. exists w1, [a_], b_, [c_], m_crash. vm_compute. split; reflexivity. Qed.

(* non-vacuity of the theorems' hypotheses *)
Lemma example_inverse :
  let l := w_l w3 in
  wf_layout l = true /\ in_layout l (RPy [a_; p_] b_) = true /\ no_shadowing l (RPy [a_; p_] b_) = true
  /\ modname l (RPy [a_; p_] b_) = [a_; p_; b_]
  /\ in_layout l (RPy [a_; p_] INIT) = true /\ no_shadowing l (RPy [a_; p_] INIT) = true
  /\ modname l (RPy [a_; p_] INIT) = [a_; p_].
Proof. vm_compute. repeat split; reflexivity. Qed.

Definition m_ex_import := mk [] [INormal [([a_; p_; b_], None)]] [[a_; p_; b_; f_]; [a_; p_; b_]].
Definition m_ex_rel := mk [a_; p_] [IFrom 1 [] [(b_, None)]] [[b_; f_]; [b_]].
Definition m_ex_from := mk [c_] [IFrom 0 [a_; p_] [(b_, Some x_)]] [[x_; f_]].

Lemma example_move_domain :
  move_domain as_found w3 (RPy [a_; p_] b_) [c_] m_ex_import = true
  /\ move_domain as_found w3 (RPy [a_; p_] b_) [c_] m_ex_rel = true
  /\ move_domain as_found w3 (RPy [a_; p_] b_) [c_] m_ex_from = true
  /\ resolve_ref w3 m_ex_import [a_; p_; b_; f_] = Some (OGlob (RPy [a_; p_] b_) f_)
  /\ resolve_ref w3 m_ex_rel [b_; f_] = Some (OGlob (RPy [a_; p_] b_) f_)
  /\ resolve_ref w3 m_ex_from [x_; f_] = Some (OGlob (RPy [a_; p_] b_) f_).
Proof. vm_compute. repeat split; reflexivity. Qed.

Lemma example_to_package :
  to_package_domain w3 (RPy [a_; p_] b_) m_ex_import = true
  /\ to_package_domain w3 (RPy [a_; p_] b_) m_ex_rel = true
  /\ resolve_ref (to_package_world (RPy [a_; p_] b_) w3) m_ex_rel [b_; f_] = Some (OGlob (RDir [a_; p_; b_]) f_).
Proof. vm_compute. repeat split; reflexivity. Qed.

Lemma example_rename :
  rename_domain w3 (RPy [a_; p_] b_) nb_ m_ex_import = true
  /\ rename_domain w3 (RPy [a_; p_] b_) nb_ m_ex_rel = true
  /\ rename_domain w3 (RPy [a_; p_] b_) nb_ m_ex_from = true.
Proof. vm_compute. repeat split; reflexivity. Qed.

(* the two witnesses that the repairs address are no longer witnesses under the repaired variant,
   and fall inside the domains of the extended theorems *)
Definition m_ex_root := mk [c_] [IFrom 0 [a_] [(b_, Some x_)]] [[x_; f_]; [x_]].

Lemma repaired_examples :
  breaks_move repaired w1 (RPy [a_] b_) [c_] m_rel_alias = false
  /\ move_domain repaired w1 (RPy [a_] b_) [c_] m_rel_alias = true
  /\ move_domain as_found w1 (RPy [a_] b_) [c_] m_rel_alias = false
  /\ breaks_move repaired w1 (RPy [a_] b_) [] m_root_alias = false
  /\ root_domain repaired w1 (RPy [a_] b_) m_root_alias = true
  /\ root_domain repaired w1 (RPy [a_] b_) m_ex_root = true
  /\ move_module_text repaired w1 (RPy [a_] b_) [c_] m_crash
     = Done (mk [a_; p_] [IFrom 0 [c_] [(b_, None)]] [[b_; f_]]).
Proof. vm_compute. repeat split; reflexivity. Qed.

Lemma example_all_import :
  imports_ok w3 m_ex_import = true /\ imports_ok w3 m_ex_rel = true /\ imports_ok w3 m_ex_from = true
  /\ move_domain repaired w3 (RPy [a_; p_] b_) [c_] m_ex_rel = true.
Proof. vm_compute. repeat split; reflexivity. Qed.

(* a by-stander with two import statements (plus the package __init__ of a/p as a module of the layout) *)
Definition w3k : world := {| w_l := RPy [c_] k_ :: w_l w3; w_g := w_g w3 |}.
Definition m_by := mk [c_] [INormal [([a_; q_], None)]; IFrom 0 [a_] [(q_, Some x_)]] [[a_; q_; r_]; [x_; r_]; [x_]].

Lemma example_bystander :
  bystander_domain w3k (RPy [a_; p_] b_) [c_] m_by = true
  /\ bystander_domain w3k (RPy [a_; p_] b_) [] m_by = true
  /\ resolve_ref w3k m_by [x_; r_] = Some (OGlob (RPy [a_] q_) r_)
  /\ length (m_imports m_by) = 2.
Proof. vm_compute. repeat split; reflexivity. Qed.

(* Case 3 under the repaired variant (0b4a7b3): from .b import b  in c/k.py, package c/b moved into d *)
Definition w6 : world :=
  {| w_l := [RDir [c_]; RPy [c_] INIT; RDir [c_; b_]; RPy [c_; b_] INIT; RPy [c_; b_] b_; RDir [a_]; RPy [a_] INIT];
     w_g := [(RPy [c_; b_] b_, [f_])] |}.
Definition m_case3 := mk [c_] [IFrom 1 [b_] [(b_, None)]] [[b_; f_]].

Lemma case3_examples :
  breaks_move repaired w6 (RDir [c_; b_]) [a_] m_case3 = false
  /\ breaks_move {| v_relctx := true; v_rootfrom := true; v_case3abs := false |} w6 (RDir [c_; b_]) [a_] m_case3 = true
  /\ move_module_text repaired w6 (RDir [c_; b_]) [a_] m_case3
     = Done (mk [c_] [IFrom 0 [a_; b_] [(b_, None)]] [[b_; f_]]).
Proof. vm_compute. repeat split; reflexivity. Qed.
