(* A generic simulation: two worlds and a map of resources such that look-ups and globals commute.  Every
   module (any import statements, any references) that means something in the first world means the mapped
   thing in the second.  Instantiated for ModuleToPackage-like arguments and for by-standers of MoveModule. *)
From Coq Require Import List NArith Bool Arith Lia.
From RopeVerif.C05 Require Import Layout LayoutProofs Move Domain MoveProofs.
Import ListNotations.

Lemma sim_env_ok_app a c : env_ok (a ++ c) = env_ok a && env_ok c.
Proof. unfold env_ok. apply forallb_app. Qed.

Lemma sim_lookup_env_map (f : obj -> obj) x e :
  lookup_env x (map (fun b : N * option obj => (fst b, option_map f (snd b))) e)
  = option_map (option_map f) (lookup_env x e).
Proof.
  induction e as [|[y o] e IH]; [reflexivity|].
  cbn [map lookup_env fst snd]. rewrite IH. destruct (lookup_env x e); [reflexivity|].
  cbn [option_map]. destruct (N.eqb x y); reflexivity.
Qed.

Section Sim.
  Variable w w2 : world.
  Variable tr : res -> res.
  Let l := w_l w.
  Let l2 := w_l w2.

  Definition res_in (r : res) : Prop :=
    match r with RDir x => is_dir l x = true | RPy f n => has_py l f n = true end.

  Hypothesis S_wf : wf_layout l = true.
  Hypothesis S_find : forall d f r, find_in_folder l f d = Some r -> find_in_folder l2 f d = Some (tr r).
  Hypothesis S_glob : forall r, res_in r -> globals_of w2 (tr r) = globals_of w r.
  Hypothesis S_dir : forall x, tr (RDir x) = RDir x.

  Definition tro (o : obj) : obj := move_obj tr o.
  Definition obj_in (o : obj) : Prop := match o with OMod r => res_in r | OGlob r _ => res_in r end.

  Lemma S_glob_dir x : is_dir l x = true -> globals_of w2 (RDir x) = globals_of w (RDir x).
  Proof. intro H. rewrite <- (S_dir x) at 1. apply S_glob. exact H. Qed.

  Lemma mod_attr_w2 chk chk2 r n o :
    (forall c, chk c = true -> chk2 (tr c) = true) ->
    res_in r ->
    mod_attr w chk r n = Some o -> mod_attr w2 chk2 (tr r) n = Some (tro o).
  Proof.
    intros Hc Hin H. unfold mod_attr in H.
    destruct (memN n (globals_of w r)) eqn:Eg.
    - inversion H; subst o. unfold mod_attr. rewrite (S_glob r Hin), Eg. reflexivity.
    - destruct r as [x|f n0]; [|discriminate]. fold l in H.
      destruct (find_in_folder l x [n]) as [c|] eqn:Ef; [|discriminate].
      destruct (chk c) eqn:Ec; [|discriminate]. inversion H; subst o.
      rewrite S_dir. unfold mod_attr. rewrite (S_glob_dir x Hin), Eg.
      fold l2. rewrite (S_find _ _ _ Ef), (Hc c Ec). reflexivity.
  Qed.


  Lemma find_in d : forall f r, find_in_folder l f d = Some r -> res_in r.
  Proof.
    induction d as [|n d IH]; intros f r H; [discriminate|].
    destruct d as [|n2 d].
    - rewrite find_single in H. destruct (is_dir l (f ++ [n])) eqn:Ed.
      + inversion H; subst. exact Ed.
      + destruct (has_py l f n) eqn:Ep; [|discriminate]. inversion H; subst. exact Ep.
    - rewrite find_cons in H by discriminate. destruct (is_dir l (f ++ [n])); [|discriminate]. eapply IH; eauto.
  Qed.

  Lemma up_dir k f : is_dir l f = true -> is_dir l (up k f) = true.
  Proof.
    revert f. induction k as [|k IH]; intros f H; [exact H|]. cbn [up]. apply IH.
    destruct f as [|x f] using rev_ind; [exact H|]. rewrite parent_app.
    apply (wf_dir_parent l f x S_wf H).
  Qed.

  Lemma from_module_in folder level modn r :
    is_dir l folder = true -> from_module false l folder level modn = Some r -> res_in r.
  Proof.
    intros Hf H. destruct level as [|k]; cbn [from_module abs_import] in H.
    - eapply find_in; eauto.
    - destruct (Nat.ltb k (length folder)); [|discriminate]. unfold find_relative_module in H. cbn [pred] in H.
      destruct modn.
      + inversion H; subst. cbn [res_in]. apply up_dir. exact Hf.
      + eapply find_in; eauto.
  Qed.

  Lemma from_module_w2 folder level modn r :
    from_module false l folder level modn = Some r -> from_module false l2 folder level modn = Some (tr r).
  Proof.
    intro H. destruct level as [|k]; cbn [from_module abs_import] in *.
    - apply S_find. exact H.
    - destruct (Nat.ltb k (length folder)); [|discriminate]. unfold find_relative_module in *. cbn [pred] in *.
      destruct modn.
      + inversion H; subst. rewrite S_dir. reflexivity.
      + apply S_find. exact H.
  Qed.

  Lemma mod_attr_in chk r n o : res_in r -> mod_attr w chk r n = Some o -> obj_in o.
  Proof.
    intros Hr H. unfold mod_attr in H. destruct (memN n (globals_of w r)); [inversion H; subst; exact Hr|].
    destruct r as [x|f n0]; [|discriminate]. fold l in H.
    destruct (find_in_folder l x [n]) as [c|] eqn:Ef; [|discriminate]. destruct (chk c); [|discriminate].
    inversion H; subst. cbn [obj_in]. eapply find_in; eauto.
  Qed.

  Definition tb (bd : N * option obj) : N * option obj := (fst bd, option_map tro (snd bd)).
  Definition env_in (e : list (N * option obj)) : Prop := forall x o, In (x, Some o) e -> obj_in o.

  Lemma env_in_app a c : env_in a -> env_in c -> env_in (a ++ c).
  Proof. intros Ha Hc x o H. apply in_app_or in H as [H|H]; eauto. Qed.

  Lemma bind_normal_sim folder na :
    env_ok (bind_normal false w folder na) = true ->
    bind_normal false w2 folder na = map tb (bind_normal false w folder na)
    /\ env_in (bind_normal false w folder na).
  Proof.
    destruct na as [d al]. unfold bind_normal. intro H.
    destruct al as [x|].
    - unfold abs_import in H |- *. change (w_l w) with l in H |- *. change (w_l w2) with l2.
      destruct (find_in_folder l [] d) as [r|] eqn:E; [|discriminate].
      rewrite (S_find _ _ _ E). split; [reflexivity|].
      intros y o [Hy|[]]. inversion Hy; subst. cbn [obj_in]. eapply find_in; eauto.
    - destruct d as [|h t]; [split; [reflexivity|intros ? ? []]|].
      unfold abs_import in H |- *. change (w_l w) with l in H |- *. change (w_l w2) with l2.
      destruct (find_in_folder l [] (h :: t)) as [r|] eqn:E; [|discriminate].
      rewrite (S_find _ _ _ E).
      destruct (find_in_folder l [] [h]) as [r0|] eqn:E0; [|discriminate].
      rewrite (S_find _ _ _ E0). split; [reflexivity|].
      intros y o [Hy|[]]. inversion Hy; subst. cbn [obj_in]. eapply find_in; eauto.
  Qed.


  Lemma bind_from_sim folder level modn names :
    is_dir l folder = true ->
    env_ok (bind_from false w folder level modn names) = true ->
    bind_from false w2 folder level modn names = map tb (bind_from false w folder level modn names)
    /\ env_in (bind_from false w folder level modn names).
  Proof.
    intros Hf. unfold bind_from. change (w_l w) with l. change (w_l w2) with l2.
    destruct (from_module false l folder level modn) as [r|] eqn:Eb.
    - rewrite (from_module_w2 _ _ _ _ Eb). pose proof (from_module_in _ _ _ _ Hf Eb) as Hr.
      induction names as [|[n al] names IH]; intro H; [split; [reflexivity|intros ? ? []]|].
      cbn [flat_map] in *. rewrite sim_env_ok_app in H. apply andb_true_iff in H as [H1 H2].
      destruct (IH H2) as [IH1 IH2]. rewrite IH1, map_app. split.
      + f_equal. destruct (N.eqb n STAR).
        * rewrite (S_glob r Hr), map_map. apply map_ext. intro g. reflexivity.
        * destruct (mod_attr w (fun _ => true) r n) as [o|] eqn:Ea; [|discriminate].
          rewrite (mod_attr_w2 (fun _ => true) (fun _ => true) r n o); auto.
      + apply env_in_app; [|exact IH2]. destruct (N.eqb n STAR).
        * intros y o Hy. apply in_map_iff in Hy as [g [Hg _]]. inversion Hg; subst. exact Hr.
        * intros y o [Hy|[]]. inversion Hy as [[Hy1 Hy2]]. eapply mod_attr_in; eauto.
    - induction names as [|[n al] names IH]; intro H; [split; [reflexivity|intros ? ? []]|].
      cbn [flat_map] in H. rewrite sim_env_ok_app in H. apply andb_true_iff in H as [H1 _].
      destruct (N.eqb n STAR); discriminate.
  Qed.

  Lemma bind_stmt_sim folder s :
    is_dir l folder = true ->
    env_ok (bind_stmt false w folder s) = true ->
    bind_stmt false w2 folder s = map tb (bind_stmt false w folder s) /\ env_in (bind_stmt false w folder s).
  Proof.
    intros Hf. destruct s as [names|level modn names|]; cbn [bind_stmt].
    - induction names as [|na names IH]; intro H; [split; [reflexivity|intros ? ? []]|].
      cbn [flat_map] in *. rewrite sim_env_ok_app in H. apply andb_true_iff in H as [H1 H2].
      destruct (bind_normal_sim folder na H1) as [A1 A2]. destruct (IH H2) as [B1 B2].
      rewrite A1, B1, map_app. split; [reflexivity|apply env_in_app; assumption].
    - apply bind_from_sim. exact Hf.
    - intros _. split; [reflexivity|intros ? ? []].
  Qed.

  Lemma env_sim folder imps :
    is_dir l folder = true ->
    env_ok (env_of false w folder imps) = true ->
    env_of false w2 folder imps = map tb (env_of false w folder imps) /\ env_in (env_of false w folder imps).
  Proof.
    intros Hf. unfold env_of. induction imps as [|s imps IH]; intro H; [split; [reflexivity|intros ? ? []]|].
    cbn [flat_map] in *. rewrite sim_env_ok_app in H. apply andb_true_iff in H as [H1 H2].
    destruct (bind_stmt_sim folder s Hf H1) as [A1 A2]. destruct (IH H2) as [B1 B2].
    rewrite A1, B1, map_app. split; [reflexivity|apply env_in_app; assumption].
  Qed.

  Lemma env_ok_map e : env_ok e = true -> env_ok (map tb e) = true.
  Proof.
    unfold env_ok. rewrite !forallb_forall. intros H x Hx. apply in_map_iff in Hx as [y [<- Hy]].
    specialize (H y Hy). destruct y as [k [o|]]; [reflexivity|discriminate].
  Qed.

  (* T4: what is loaded stays loaded *)
  Lemma In_find_w2 f ps c :
    In c (flat_map (fun pre => opt_list (find_in_folder l f pre)) ps) ->
    In (tr c) (flat_map (fun pre => opt_list (find_in_folder l2 f pre)) ps).
  Proof.
    intro H. apply in_flat_map in H as [pre [H1 H2]]. apply in_flat_map. exists pre. split; [exact H1|].
    destruct (find_in_folder l f pre) as [r|] eqn:E; [|destruct H2].
    destruct H2 as [<-|[]]. rewrite (S_find _ _ _ E). left. reflexivity.
  Qed.

  Lemma loaded_stmt_w2 folder s c :
    is_dir l folder = true ->
    In c (loaded_stmt w folder s) -> In (tr c) (loaded_stmt w2 folder s).
  Proof.
    intros Hf H. destruct s as [names|level modn names|]; cbn [loaded_stmt] in *; [| |destruct H].
    - apply in_flat_map in H as [na [H1 H2]]. apply in_flat_map. exists na. split; [exact H1|].
      apply In_find_w2. exact H2.
    - change (w_l w) with l in H. change (w_l w2) with l2.
      apply in_app_or in H as [H|H]; apply in_or_app.
      + left. destruct level; apply In_find_w2; exact H.
      + right. destruct (from_module false l folder level modn) as [r|] eqn:Eb; [|destruct H].
        rewrite (from_module_w2 _ _ _ _ Eb). destruct r as [pp|? ?]; [|destruct H].
        rewrite S_dir.
        pose proof (from_module_in _ _ _ _ Hf Eb) as Hr. cbn [res_in] in Hr.
        apply in_flat_map in H as [na [H1 H2]]. apply in_flat_map. exists na. split; [exact H1|].
        rewrite (S_glob_dir pp Hr). destruct (memN (fst na) (globals_of w (RDir pp))); [destruct H2|].
        destruct (find_in_folder l pp [fst na]) as [r|] eqn:E; [|destruct H2].
        destruct H2 as [<-|[]]. rewrite (S_find _ _ _ E). left. reflexivity.
  Qed.

  Lemma loaded_w2 m c :
    is_dir l (m_folder m) = true -> mem c (loaded w m) = true -> mem (tr c) (loaded w2 m) = true.
  Proof.
    intros Hf H. apply mem_In in H. apply mem_In. unfold loaded in *.
    apply in_app_or in H as [H|H]; apply in_or_app.
    - left. apply In_find_w2. exact H.
    - right. apply in_flat_map in H as [s [H1 H2]]. apply in_flat_map. exists s. split; [exact H1|].
      apply loaded_stmt_w2; assumption.
  Qed.

  (* evaluation *)
  Lemma fold_none (wx : world) chk t : fold_left (step_attr wx chk) t None = None.
  Proof. induction t; [reflexivity|exact IHt]. Qed.

  Lemma fold_sim chk chk2 t : forall o0 o,
    (forall c, chk c = true -> chk2 (tr c) = true) ->
    obj_in o0 ->
    fold_left (step_attr w chk) t (Some o0) = Some o ->
    fold_left (step_attr w2 chk2) t (Some (tro o0)) = Some (tro o).
  Proof.
    induction t as [|n t IH]; intros o0 o Hc Hin H.
    - cbn in *. inversion H; subst. reflexivity.
    - cbn [fold_left] in *. destruct o0 as [r|r g]; cbn [step_attr tro move_obj] in *.
      + destruct (mod_attr w chk r n) as [o1|] eqn:Ea; [|rewrite fold_none in H; discriminate].
        rewrite (mod_attr_w2 chk chk2 r n o1 Hc); [|exact Hin|exact Ea].
        apply IH; auto. eapply mod_attr_in; eauto.
      + rewrite fold_none in H. discriminate.
  Qed.

  Lemma fold_in chk t : forall o0 o,
    obj_in o0 -> fold_left (step_attr w chk) t (Some o0) = Some o -> obj_in o.
  Proof.
    induction t as [|n t IH]; intros o0 o Hin H.
    - cbn in H. inversion H; subst. exact Hin.
    - cbn [fold_left] in H. destruct o0 as [r|r g]; cbn [step_attr] in H.
      + destruct (mod_attr w chk r n) as [o1|] eqn:Ea; [|rewrite fold_none in H; discriminate].
        apply (IH o1 o); [eapply mod_attr_in; eauto|exact H].
      + rewrite fold_none in H. discriminate.
  Qed.

  Lemma lookup_env_In x e o : lookup_env x e = Some o -> exists y, In (y, o) e.
  Proof.
    induction e as [|[y o'] e IH]; [discriminate|]. cbn [lookup_env].
    destruct (lookup_env x e) as [r|] eqn:E.
    - intro H. inversion H; subst. destruct (IH eq_refl) as [y' Hy]. exists y'. right. exact Hy.
    - destruct (N.eqb x y); [|discriminate]. intro H. inversion H; subst. exists y. left. reflexivity.
  Qed.

  Theorem sim_refs m r o :
    is_dir l (m_folder m) = true ->
    globals_of w2 (m_res m) = globals_of w (m_res m) ->
    tr (canon (m_res m)) = canon (m_res m) ->
    res_in (canon (m_res m)) ->
    resolve_ref w m r = Some o -> resolve_ref w2 m r = Some (tro o) /\ obj_in o.
  Proof.
    intros Hf Eg Ec Hself H. unfold resolve_ref in *.
    destruct (imports_ok w m) eqn:Eok; [|discriminate]. unfold imports_ok in Eok.
    destruct (env_sim (m_folder m) (m_imports m) Hf Eok) as [E1 E2].
    unfold imports_ok. rewrite E1, (env_ok_map _ Eok).
    destruct r as [|h t]; [discriminate|]. unfold eval_dotted in *.
    unfold tb. rewrite (sim_lookup_env_map tro).
    assert (Hc : forall c, mem c (loaded w m) = true -> mem (tr c) (loaded w2 m) = true)
      by (intros c; apply loaded_w2; exact Hf).
    destruct (lookup_env h (env_of false w (m_folder m) (m_imports m))) as [oo|] eqn:El.
    - cbn [option_map]. destruct oo as [o0|]; [|rewrite fold_none in H; discriminate].
      cbn [option_map]. destruct (lookup_env_In _ _ _ El) as [y Hy].
      split; [exact (fold_sim _ _ t o0 o Hc (E2 y o0 Hy) H)|exact (fold_in _ t o0 o (E2 y o0 Hy) H)].
    - cbn [option_map]. rewrite Eg.
      destruct (memN h (globals_of w (m_res m))); [|rewrite fold_none in H; discriminate].
      assert (Ec' : tro (OGlob (canon (m_res m)) h) = OGlob (canon (m_res m)) h).
      { unfold tro. cbn [move_obj]. rewrite Ec. reflexivity. }
      rewrite <- Ec'. split; [exact (fold_sim _ _ t (OGlob (canon (m_res m)) h) o Hc Hself H)|exact (fold_in _ t (OGlob (canon (m_res m)) h) o Hself H)].
  Qed.
End Sim.
