(* By-standers of MoveModule: a module (any number of import statements, any references) in which rope finds no
   occurrence of the moving module and whose references do not go through it is left unchanged and keeps the
   meaning of every reference. *)
From Coq Require Import List NArith Bool Arith Lia.
From RopeVerif.C05 Require Import Layout LayoutProofs Move Domain MoveProofs SimProofs.
Import ListNotations.

Lemma obj_eqb_eq a c : obj_eqb a c = true -> a = c.
Proof.
  destruct a, c; cbn; try discriminate; intro H.
  - apply res_eqb_eq in H. congruence.
  - apply andb_true_iff in H as [H1 H2]. apply res_eqb_eq in H1. apply N.eqb_eq in H2. congruence.
Qed.

Lemma opt_obj_eqb_eq a c : opt_eqb obj_eqb a c = true -> a = c.
Proof. destruct a, c; cbn; try discriminate; try reflexivity. intro H. apply obj_eqb_eq in H. congruence. Qed.

Section Bystander.
  Variable V : variant.
  Variable w : world.
  Variable p : list N.
  Variable b : N.
  Variable D : list N.
  Let l := w_l w.
  Let src := RPy p b.
  Let new := RPy D b.
  Let wh := hide_world src w.
  Let lh := w_l wh.
  Let w' := move_world src D w.
  Let l' := w_l w'.

  Hypothesis Hwf : wf_layout l = true.
  Hypothesis HbI : N.eqb b INIT = false.
  Hypothesis Hcol : has_py l D b = false.

  Lemma mem_hide r : mem r lh = negb (res_eqb r src) && mem r l.
  Proof.
    destruct (mem r lh) eqn:E.
    - apply mem_In in E. unfold lh, wh, hide_world in E. cbn [w_l] in E. apply filter_In in E as [E1 E2].
      symmetry. apply andb_true_iff. split.
      + exact E2.
      + apply mem_In. exact E1.
    - symmetry. apply not_true_is_false. intro H. apply andb_true_iff in H as [H1 H2].
      assert (In r (w_l wh)).
      { unfold wh, hide_world. cbn [w_l]. apply filter_In. split; [apply mem_In; exact H2|exact H1]. }
      apply mem_In in H. fold lh in H. congruence.
  Qed.

  Lemma is_dir_hide x : is_dir lh x = is_dir l x.
  Proof. unfold is_dir. destruct x; [reflexivity|]. rewrite mem_hide. reflexivity. Qed.

  Lemma has_py_hide f n : has_py lh f n = true -> RPy f n <> src /\ has_py l f n = true.
  Proof.
    unfold has_py. rewrite mem_hide. intro H. apply andb_true_iff in H as [H1 H2]. split; [|exact H2].
    intro E. rewrite E, res_eqb_refl in H1. discriminate.
  Qed.

  Lemma wf_hide : wf_layout lh = true.
  Proof.
    unfold wf_layout in *. rewrite forallb_forall in *. intros r Hr.
    assert (Hin : In r l).
    { unfold lh, wh, hide_world in Hr. cbn [w_l] in Hr. apply filter_In in Hr as [Hr _]. exact Hr. }
    specialize (Hwf r Hin). rewrite is_dir_hide. exact Hwf.
  Qed.

  Lemma has_py_moved f n : RPy f n <> src -> has_py l f n = true -> has_py l' f n = true.
  Proof.
    intros Hne H. unfold has_py in *. apply mem_In in H. apply mem_In.
    unfold l', w', move_world, map_world. cbn [w_l]. apply in_map_iff. exists (RPy f n). split; [|exact H].
    unfold move_res, src. rewrite res_eqb_neq by exact Hne. reflexivity.
  Qed.

  Lemma find_hide_moved d : forall f r, find_in_folder lh f d = Some r -> find_in_folder l' f d = Some r.
  Proof.
    induction d as [|n d IH]; intros f r H; [discriminate|].
    destruct d as [|n2 d].
    - rewrite find_single in H. rewrite find_single.
      unfold l', w', src. rewrite is_dir_move. fold l. rewrite is_dir_hide in H.
      destruct (is_dir l (f ++ [n])); [exact H|].
      destruct (has_py lh f n) eqn:Ep; [|discriminate]. inversion H; subst r.
      destruct (has_py_hide _ _ Ep) as [H1 H2]. fold src w' l'. rewrite (has_py_moved _ _ H1 H2). reflexivity.
    - rewrite find_cons in H by discriminate. rewrite find_cons by discriminate.
      unfold l', w', src. rewrite is_dir_move. fold l. rewrite is_dir_hide in H.
      destruct (is_dir l (f ++ [n])); [|discriminate]. fold src w' l'. apply IH. exact H.
  Qed.

  Lemma globals_hide_moved r :
    res_in wh r -> globals_of w' r = globals_of wh r.
  Proof.
    intro Hr. unfold globals_of. change (w_g wh) with (w_g w). unfold w', src.
    rewrite assoc_move_other; [reflexivity| |].
    - destruct r as [x|f n]; cbn [init_file].
      + intro E. inversion E as [[E1 E2]]. rewrite <- E2, N.eqb_refl in HbI. discriminate.
      + cbn [res_in] in Hr. fold lh in Hr. destruct (has_py_hide _ _ Hr) as [H1 _]. exact H1.
    - destruct r as [x|f n]; cbn [init_file].
      + intro E. inversion E as [[E1 E2]]. rewrite <- E2, N.eqb_refl in HbI. discriminate.
      + cbn [res_in] in Hr. fold lh in Hr. destruct (has_py_hide _ _ Hr) as [_ H2].
        intro E. inversion E as [[E1 E2]]. rewrite E1, E2 in H2. fold l in H2. rewrite Hcol in H2. discriminate.
  Qed.

  Lemma move_obj_id o : move_obj (fun r : res => r) o = o.
  Proof. destruct o; reflexivity. Qed.

  Theorem bystander_refs m r o :
    is_dir l (m_folder m) = true -> mem (m_res m) l = true ->
    m_res m <> src -> m_res m <> new ->
    resolve_ref wh m r = Some o ->
    resolve_ref w' m r = Some (move_obj (move_res src D) o).
  Proof.
    intros Hf Hmem Hs Hn H.
    assert (Eg : globals_of w' (m_res m) = globals_of wh (m_res m)).
    { unfold globals_of. change (w_g wh) with (w_g w). change (init_file (m_res m)) with (m_res m).
      unfold w', src. rewrite assoc_move_other by assumption. reflexivity. }
    assert (Hself : res_in wh (canon (m_res m))).
    { unfold m_res, canon in *. destruct (N.eqb (m_name m) INIT).
      - cbn [res_in]. fold lh. rewrite is_dir_hide. exact Hf.
      - cbn [res_in]. fold lh. unfold has_py. rewrite mem_hide. rewrite Hmem, andb_true_r.
        apply negb_true_iff. apply res_eqb_neq. exact Hs. }
    assert (Hfh : is_dir (w_l wh) (m_folder m) = true) by (fold lh; rewrite is_dir_hide; exact Hf).
    destruct (sim_refs wh w' (fun r => r) wf_hide find_hide_moved globals_hide_moved (fun x => eq_refl)
                m r o Hfh Eg eq_refl Hself H) as [H1 H2].
    unfold tro in H1. rewrite move_obj_id in H1. rewrite H1. f_equal.
    assert (Hne : forall ro, res_in wh ro -> move_res src D ro = ro).
    { intros ro Hro. unfold move_res, src. rewrite res_eqb_neq; [reflexivity|].
      destruct ro as [x|f n]; [discriminate|]. cbn [res_in] in Hro. fold lh in Hro.
      destruct (has_py_hide _ _ Hro) as [H3 _]. exact H3. }
    destruct o as [ro|ro g]; cbn [move_obj obj_in] in *; rewrite (Hne ro H2); reflexivity.
  Qed.
End Bystander.

Theorem bystander_domain_thm V w p b D m :
  bystander_domain w (RPy p b) D m = true ->
  move_module_text V w (RPy p b) D m = Done m
  /\ forall r o, In r (m_refs m) -> resolve_ref w m r = Some o ->
       resolve_ref (move_world (RPy p b) D w) m r = Some (move_obj (move_res (RPy p b) D) o).
Proof.
  unfold bystander_domain. intro H.
  apply andb_true_iff in H as [H Hrefs]. apply andb_true_iff in H as [H Hmem]. apply andb_true_iff in H as [H Hf].
  apply andb_true_iff in H as [H Hn]. apply andb_true_iff in H as [H Hs]. apply andb_true_iff in H as [H Hocc].
  apply andb_true_iff in H as [H Hg]. apply andb_true_iff in H as [H Hcol]. apply andb_true_iff in H as [H HbI].
  apply andb_true_iff in H as [Hwf Hsrc].
  apply negb_true_iff in Hn, Hs, HbI, Hcol.
  split.
  - unfold move_module_text. rewrite Hs. unfold change_occurrences. rewrite Hocc. reflexivity.
  - intros r o Hr Ho. rewrite forallb_forall in Hrefs. specialize (Hrefs r Hr). apply opt_obj_eqb_eq in Hrefs.
    rewrite Ho in Hrefs. symmetry in Hrefs.
    apply (bystander_refs w p b D Hwf HbI Hcol m r o Hf Hmem); auto.
    + intro E. rewrite E, res_eqb_refl in Hs. discriminate.
    + intro E. rewrite E, res_eqb_refl in Hn. discriminate.
Qed.
