(* C05 — project layouts and module naming: rope/base/libutils.py modname,
   rope/base/project.py find_module / find_relative_module / _find_module_in_folder,
   rope/base/pycore.py _find_source_folders.  Definitions only. *)
From Coq Require Import List NArith Bool Arith.
Import ListNotations.

(* A folder is the list of its path segments from the project root (root = []).
   A resource is a folder or a Python file  p/n.py ; the file name "__init__" is the reserved identifier 0.
   Files that are not *.py play no role in the anchored code and are not part of a layout. *)
Notation ident := N (only parsing).
Notation path := (list N) (only parsing).
Notation dotted := (list N) (only parsing).

Definition INIT : N := 0%N.

Inductive res :=
| RDir (p : path)
| RPy (p : path) (n : N).

Notation layout := (list res) (only parsing).

Fixpoint path_eqb (a b : path) : bool :=
  match a, b with
  | [], [] => true
  | x :: a', y :: b' => N.eqb x y && path_eqb a' b'
  | _, _ => false
  end.

Definition res_eqb (a b : res) : bool :=
  match a, b with
  | RDir p, RDir q => path_eqb p q
  | RPy p n, RPy q m => path_eqb p q && N.eqb n m
  | _, _ => false
  end.

Definition mem (r : res) (l : layout) : bool := existsb (res_eqb r) l.

(* Folder.is_folder / exists: the project root always exists *)
Definition is_dir (l : layout) (p : path) : bool :=
  match p with [] => true | _ => mem (RDir p) l end.

Definition has_py (l : layout) (p : path) (n : N) : bool := mem (RPy p n) l.

(* pycore._is_package *)
Definition is_pkg (l : layout) (p : path) : bool := has_py l p INIT.

Definition parent (p : path) : path := removelast p.
Definition last_name (p : path) : N := last p INIT.

(* libutils.modname: the loop
     while source_folder != source_folder.parent and source_folder.has_child("__init__.py"):
         module_name = source_folder.name + "." + module_name ; source_folder = source_folder.parent
   run on the reversed folder path (innermost segment first).  Returns (dotted name, folder where it stopped). *)
Fixpoint climb (l : layout) (rp : list N) (acc : dotted) : dotted * path :=
  match rp with
  | [] => (acc, [])
  | n :: rp' => if is_pkg l (rev rp) then climb l rp' (n :: acc) else (acc, rev rp)
  end.

Definition modname_full (l : layout) (r : res) : dotted * path :=
  match r with
  | RDir [] => ([], [])
  | RDir p => climb l (rev (parent p)) [last_name p]
  | RPy p n =>
      if N.eqb n INIT then
        match p with
        | [] => ([], [])
        | _ => climb l (rev (parent p)) [last_name p]
        end
      else climb l (rev p) [n]
  end.

Definition modname (l : layout) (r : res) : dotted := fst (modname_full l r).
(* the folder the dotted name is relative to (first ancestor that is not a package, or the root) *)
Definition modname_src (l : layout) (r : res) : path := snd (modname_full l r).

(* project._find_module_in_folder; the empty dotted name is not looked up *)
Fixpoint find_in_folder (l : layout) (f : path) (d : dotted) : option res :=
  match d with
  | [] => None
  | [n] =>
      if is_dir l (f ++ [n]) then Some (RDir (f ++ [n]))
      else if has_py l f n then Some (RPy f n)
      else None
  | n :: d' => if is_dir l (f ++ [n]) then find_in_folder l (f ++ [n]) d' else None
  end.

(* children of a folder, in layout order (the harness lists a layout in os.listdir order) *)
Definition is_child_of (p q : path) : bool :=
  match q with [] => false | _ => path_eqb (parent q) p end.

Definition child_dirs (l : layout) (p : path) : list path :=
  flat_map (fun r => match r with RDir q => if is_child_of p q then [q] else [] | _ => [] end) l.

Definition has_py_file (l : layout) (p : path) : bool :=
  existsb (fun r => match r with RPy q _ => path_eqb q p | _ => false end) l.

(* pycore._find_source_folders; fuel bounds the depth of the tree (out of fuel = no folders) *)
Fixpoint find_source_folders (fuel : nat) (l : layout) (p : path) : list path :=
  match fuel with
  | O => []
  | S k =>
      if existsb (is_pkg l) (child_dirs l p) then [p]
      else (if has_py_file l p then [p] else [])
           ++ flat_map (find_source_folders k l) (child_dirs l p)
  end.

Definition source_folders (l : layout) : list path := find_source_folders (S (length l)) l [].

Fixpoint first_some {A B} (f : A -> option B) (xs : list A) : option B :=
  match xs with
  | [] => None
  | x :: r => match f x with Some y => Some y | None => first_some f r end
  end.

(* Project.find_module(modname, folder): project source folders, then (python path: outside the model),
   then the importing module's folder *)
Definition find_module (l : layout) (d : dotted) : option res :=
  first_some (fun s => find_in_folder l s d) (source_folders l).

Definition find_module_from (l : layout) (folder : path) (d : dotted) : option res :=
  match find_module l d with
  | Some r => Some r
  | None => find_in_folder l folder d
  end.

Fixpoint up (k : nat) (p : path) : path :=
  match k with O => p | S k' => up k' (parent p) end.

(* Project.find_relative_module(modname, folder, level) *)
Definition find_relative_module (l : layout) (d : dotted) (folder : path) (level : nat) : option res :=
  let f := up (pred level) folder in
  match d with
  | [] => Some (RDir f)
  | _ => find_in_folder l f d
  end.

(* ---- side conditions (boolean) ---- *)

Definition res_parent (r : res) : path :=
  match r with RDir p => parent p | RPy p _ => p end.

(* every resource's folder exists; no empty-named folder *)
Definition wf_layout (l : layout) : bool :=
  forallb (fun r => is_dir l (res_parent r) &&
                    match r with RDir [] => false | _ => true end) l.

Definition in_layout (l : layout) (r : res) : bool :=
  match r with RDir [] => false | _ => mem r l end.

(* what find_module answers for a resource: a package for its __init__.py *)
Definition canon (r : res) : res :=
  match r with
  | RPy p n => if N.eqb n INIT then RDir p else r
  | _ => r
  end.

Fixpoint before (s : path) (xs : list path) : list path :=
  match xs with
  | [] => []
  | x :: r => if path_eqb x s then [] else x :: before s r
  end.

Definition is_some {A} (o : option A) : bool := match o with Some _ => true | None => false end.

(* the module is reachable by its name: its naming root is a source folder, no earlier source folder
   answers the same dotted name, and a file m.py has no sibling folder m (folders win in
   _find_module_in_folder) *)
Definition no_shadowing (l : layout) (r : res) : bool :=
  let d := modname l r in
  let s := modname_src l r in
  existsb (path_eqb s) (source_folders l)
  && forallb (fun s' => negb (is_some (find_in_folder l s' d))) (before s (source_folders l))
  && match r with
     | RPy p n => N.eqb n INIT || negb (is_dir l (p ++ [n]))
     | RDir _ => true
     end
  && match r with RPy [] n => negb (N.eqb n INIT) | _ => true end.
