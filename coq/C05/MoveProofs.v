(* Proofs about MoveModule's client rewriting: for a module file moved into another package, every
   client written in one of the listed import styles still reaches the moved module and its globals. *)
From Coq Require Import List NArith Bool Arith Lia.
From RopeVerif.C05 Require Import Layout LayoutProofs Move Domain.
Import ListNotations.

(* ------------------------------------------------------------------ small facts *)
Lemma dotted_eqb_eq a b : dotted_eqb a b = true <-> a = b.
Proof. apply path_eqb_eq. Qed.

Lemma memN_In x xs : memN x xs = true <-> In x xs.
Proof.
  unfold memN. rewrite existsb_exists. split.
  - intros [y [H1 H2]]. apply N.eqb_eq in H2. subst. exact H1.
  - intro H. exists x. split; [exact H|apply N.eqb_refl].
Qed.

Lemma strip_prefix_app a s : strip_prefix a (a ++ s) = Some s.
Proof. induction a; cbn; [reflexivity|]. rewrite N.eqb_refl. exact IHa. Qed.

Lemma res_eqb_sym a b : res_eqb a b = res_eqb b a.
Proof.
  destruct (res_eqb a b) eqn:E1, (res_eqb b a) eqn:E2; try reflexivity.
  - apply res_eqb_eq in E1. subst. rewrite res_eqb_refl in E2. discriminate.
  - apply res_eqb_eq in E2. subst. rewrite res_eqb_refl in E1. discriminate.
Qed.

Lemma res_eqb_neq a b : a <> b -> res_eqb a b = false.
Proof. intro H. destruct (res_eqb a b) eqn:E; [apply res_eqb_eq in E; contradiction|reflexivity]. Qed.

Lemma find_single l f n :
  find_in_folder l f [n] =
  if is_dir l (f ++ [n]) then Some (RDir (f ++ [n])) else if has_py l f n then Some (RPy f n) else None.
Proof. reflexivity. Qed.

Lemma app_cons_not_nil {A} (q : list A) x : q ++ [x] <> [].
Proof. destruct q; discriminate. Qed.

(* a folder is found under its own path *)
Lemma find_dir l f q :
  wf_layout l = true -> q <> [] -> is_dir l (f ++ q) = true -> find_in_folder l f q = Some (RDir (f ++ q)).
Proof.
  intros Hwf. revert f. induction q as [|x q IH]; intros f Hq Hd; [congruence|].
  destruct q as [|y q].
  - rewrite find_single, Hd. reflexivity.
  - rewrite find_cons by discriminate.
    assert (H1 : is_dir l (f ++ [x]) = true).
    { apply (wf_dir_prefix l (f ++ [x]) (y :: q)); auto. rewrite <- app_assoc. exact Hd. }
    rewrite H1. rewrite IH; [|discriminate|rewrite <- app_assoc; exact Hd].
    rewrite <- app_assoc. reflexivity.
Qed.

(* a file is found under its folder's path followed by its name *)
Lemma find_py l q n : forall f,
  wf_layout l = true -> is_dir l (f ++ q) = true -> is_dir l ((f ++ q) ++ [n]) = false ->
  has_py l (f ++ q) n = true -> find_in_folder l f (q ++ [n]) = Some (RPy (f ++ q) n).
Proof.
  induction q as [|x q IH]; intros f Hwf Hd Hnd Hp.
  - cbn [app] in *. rewrite app_nil_r in *. rewrite find_single, Hnd, Hp. reflexivity.
  - cbn [app]. rewrite find_cons by apply app_cons_not_nil.
    assert (E : f ++ x :: q = (f ++ [x]) ++ q) by (rewrite <- app_assoc; reflexivity).
    rewrite E in *.
    assert (H1 : is_dir l (f ++ [x]) = true) by (apply (wf_dir_prefix l (f ++ [x]) q); auto).
    rewrite H1. apply IH; auto.
Qed.

Lemma find_prefix_dir l f q s r :
  wf_layout l = true -> q <> [] -> s <> [] ->
  find_in_folder l f (q ++ s) = Some r -> find_in_folder l f q = Some (RDir (f ++ q)).
Proof.
  intros Hwf. revert f. induction q as [|x q IH]; intros f Hq Hs Hf; [congruence|].
  cbn [app] in Hf. rewrite find_cons in Hf by (destruct q; [exact Hs|discriminate]).
  destruct (is_dir l (f ++ [x])) eqn:E; [|discriminate].
  destruct q as [|y q].
  - rewrite find_single, E. reflexivity.
  - rewrite find_cons by discriminate. rewrite E.
    rewrite (IH (f ++ [x])); auto; [|discriminate]. rewrite <- app_assoc. reflexivity.
Qed.

(* ------------------------------------------------------------------ walking attributes *)
Lemma no_global_shadow_app w pre a c :
  no_global_shadow w pre (a ++ c) = no_global_shadow w pre a && no_global_shadow w (pre ++ a) c.
Proof.
  revert pre. induction a as [|x a IH]; intro pre.
  - cbn. rewrite app_nil_r. reflexivity.
  - cbn [app no_global_shadow]. rewrite IH. rewrite <- app_assoc. cbn [app].
    rewrite andb_assoc. reflexivity.
Qed.

Lemma walk_attr w chk t : forall q r,
  q <> [] -> t <> [] ->
  no_global_shadow w q t = true ->
  find_in_folder (w_l w) q t = Some r ->
  (forall i c, 0 < i <= length t -> find_in_folder (w_l w) q (firstn i t) = Some c -> chk c = true) ->
  fold_left (step_attr w chk) t (Some (OMod (RDir q))) = Some (OMod r).
Proof.
  induction t as [|n t IH]; intros q r Hq Ht Hs Hf Hc; [congruence|].
  cbn [no_global_shadow] in Hs. destruct q as [|q0 q'] eqn:Eq; [congruence|]. rewrite <- Eq in *.
  apply andb_true_iff in Hs as [Hs1 Hs2].
  assert (Hs1' : memN n (globals_of w (RDir q)) = false).
  { rewrite Eq in Hs1 |- *. apply negb_true_iff in Hs1. exact Hs1. }
  cbn [fold_left step_attr]. unfold mod_attr at 1. rewrite Hs1'.
  destruct t as [|n2 t].
  - rewrite Hf. rewrite (Hc 1 r); [reflexivity|cbn; lia|exact Hf].
  - rewrite find_cons in Hf by discriminate.
    destruct (is_dir (w_l w) (q ++ [n])) eqn:Ed; [|discriminate].
    rewrite find_single, Ed.
    rewrite (Hc 1 (RDir (q ++ [n]))); [|cbn; lia|cbn [firstn]; rewrite find_single, Ed; reflexivity].
    apply IH; auto; [apply app_cons_not_nil|discriminate|].
    intros i c Hi Hfi. apply (Hc (S i) c); [cbn [length] in *; lia|].
    cbn [firstn]. destruct (firstn i (n2 :: t)) eqn:Ef.
    { destruct i; [lia|discriminate]. }
    rewrite find_cons by discriminate. rewrite Ed. exact Hfi.
Qed.

(* value of an absolutely spelled dotted name whose head is bound by  import h...  *)
Lemma eval_import_path w chk self e h t r :
  wf_layout (w_l w) = true ->
  lookup_env h e = Some (option_map OMod (find_in_folder (w_l w) [] [h])) ->
  find_in_folder (w_l w) [] (h :: t) = Some r ->
  no_global_shadow w [] (h :: t) = true ->
  (forall i c, 0 < i <= length t -> find_in_folder (w_l w) [h] (firstn i t) = Some c -> chk c = true) ->
  eval_dotted w chk self e (h :: t) = Some (OMod r).
Proof.
  intros Hwf Hl Hf Hs Hc. unfold eval_dotted. rewrite Hl.
  destruct t as [|n t].
  - rewrite Hf. reflexivity.
  - rewrite find_cons in Hf by discriminate. cbn [app] in Hf.
    destruct (is_dir (w_l w) [h]) eqn:Ed; [|discriminate].
    rewrite find_single. cbn [app]. rewrite Ed. cbn [option_map].
    cbn [no_global_shadow] in Hs. cbn [app andb] in Hs.
    apply walk_attr; auto; discriminate.
Qed.

Lemma fold_left_snoc {A B} (f : A -> B -> A) t x a : fold_left f (t ++ [x]) a = f (fold_left f t a) x.
Proof. rewrite fold_left_app. reflexivity. Qed.

Lemma eval_dotted_snoc w chk self e d g :
  d <> [] -> eval_dotted w chk self e (d ++ [g]) = step_attr w chk (eval_dotted w chk self e d) g.
Proof.
  destruct d as [|h t]; [congruence|]. intros _. cbn [app]. unfold eval_dotted. apply fold_left_snoc.
Qed.

Lemma In_prefixes_from {A} (acc d : list A) x :
  In x (prefixes_from acc d) <-> exists i, 0 < i <= length d /\ x = acc ++ firstn i d.
Proof.
  revert acc. induction d as [|y d IH]; intro acc; cbn [prefixes_from].
  - split; [intros []|intros [i [Hi _]]; cbn in Hi; lia].
  - cbn [In]. rewrite IH. split.
    + intros [H|[i [Hi H]]].
      * exists 1. split; [cbn; lia|]. cbn. symmetry. exact H.
      * exists (S i). split; [cbn; lia|]. cbn [firstn]. rewrite H, <- app_assoc. reflexivity.
    + intros [i [Hi H]]. destruct i as [|i]; [lia|]. destruct i as [|i].
      * left. cbn in H. symmetry. exact H.
      * right. exists (S i). split; [cbn in Hi; lia|]. cbn [firstn] in H. rewrite H, <- app_assoc. reflexivity.
Qed.

Lemma In_prefixes {A} (d : list A) x : In x (prefixes d) <-> exists i, 0 < i <= length d /\ x = firstn i d.
Proof. unfold prefixes. rewrite In_prefixes_from. cbn [app]. reflexivity. Qed.

(* what a normal import loads *)
Lemma loaded_normal w m names d al pre c :
  In (INormal names) (m_imports m) -> In (d, al) names -> In pre (prefixes d) ->
  find_in_folder (w_l w) [] pre = Some c -> mem c (loaded w m) = true.
Proof.
  intros H1 H2 H3 H4. apply mem_In. unfold loaded. apply in_or_app. right.
  apply in_flat_map. exists (INormal names). split; [exact H1|].
  cbn [loaded_stmt]. apply in_flat_map. exists (d, al). split; [exact H2|].
  cbn [fst]. apply in_flat_map. exists pre. split; [exact H3|]. rewrite H4. left. reflexivity.
Qed.

Lemma shadow_last w q n :
  q <> [] -> no_global_shadow w [] (q ++ [n]) = true -> memN n (globals_of w (RDir q)) = false.
Proof.
  intros Hq H. rewrite no_global_shadow_app in H. apply andb_true_iff in H as [_ H].
  cbn [app no_global_shadow] in H. destruct q; [congruence|]. rewrite andb_true_r in H.
  apply negb_true_iff in H. exact H.
Qed.

(* single binding environments *)
Lemma resolve_single w m x o :
  env_of false w (m_folder m) (m_imports m) = [(x, Some o)] -> resolve_ref w m [x] = Some o.
Proof.
  intro H. unfold resolve_ref, imports_ok. rewrite H. cbn [env_ok forallb snd is_some andb].
  unfold eval_dotted. cbn [lookup_env]. rewrite N.eqb_refl. reflexivity.
Qed.

Lemma resolve_single_attr w m x r g :
  env_of false w (m_folder m) (m_imports m) = [(x, Some (OMod r))] ->
  resolve_ref w m [x; g] = mod_attr w (fun c => mem c (loaded w m)) r g.
Proof.
  intro H. unfold resolve_ref, imports_ok. rewrite H. cbn [env_ok forallb snd is_some andb].
  unfold eval_dotted. cbn [lookup_env]. rewrite N.eqb_refl. reflexivity.
Qed.

Lemma mod_attr_py w chk q n g :
  mod_attr w chk (RPy q n) g = if memN g (globals_of w (RPy q n)) then Some (OGlob (RPy q n) g) else None.
Proof. reflexivity. Qed.

Lemma find_head l h t r :
  find_in_folder l [] (h :: t) = Some r -> exists r0, find_in_folder l [] [h] = Some r0.
Proof.
  destruct t as [|n t]; intro H; [eauto|].
  rewrite find_cons in H by discriminate. cbn [app] in H.
  destruct (is_dir l [h]) eqn:E; [|discriminate]. exists (RDir [h]). rewrite find_single. cbn [app]. rewrite E. reflexivity.
Qed.

Lemma shadow_prefix w a c : no_global_shadow w [] (a ++ c) = true -> no_global_shadow w [] a = true.
Proof. rewrite no_global_shadow_app. intro H. apply andb_true_iff in H as [H _]. exact H. Qed.

(* Python: a module whose only import is  import d  sees d and the globals of d *)
Lemma resolve_import_path w m d r :
  wf_layout (w_l w) = true ->
  m_imports m = [INormal [(d, None)]] ->
  find_in_folder (w_l w) [] d = Some r ->
  no_global_shadow w [] d = true ->
  resolve_ref w m d = Some (OMod r)
  /\ forall g, resolve_ref w m (d ++ [g]) = mod_attr w (fun c => mem c (loaded w m)) r g.
Proof.
  intros Hwf Hi Hf Hs.
  destruct d as [|h t]; [discriminate|].
  destruct (find_head _ h t r Hf) as [r0 Hr0].
  assert (Henv : env_of false w (m_folder m) (m_imports m) = [(h, Some (OMod r0))]).
  { rewrite Hi. unfold env_of. cbn [flat_map bind_stmt bind_normal app]. unfold abs_import. rewrite Hf, Hr0. reflexivity. }
  assert (Hok : imports_ok w m = true).
  { unfold imports_ok. rewrite Henv. reflexivity. }
  assert (Hev : eval_dotted w (fun c => mem c (loaded w m)) (m_res m)
                  (env_of false w (m_folder m) (m_imports m)) (h :: t) = Some (OMod r)).
  { apply eval_import_path; auto.
    - rewrite Henv. cbn [lookup_env]. rewrite N.eqb_refl, Hr0. reflexivity.
    - intros i c Hi' Hc.
      assert (Ed : is_dir (w_l w) [h] = true).
      { destruct t as [|n t]; [cbn in Hi'; lia|]. rewrite find_cons in Hf by discriminate. cbn [app] in Hf.
        destruct (is_dir (w_l w) [h]); [reflexivity|discriminate]. }
      apply (loaded_normal w m [(h :: t, None)] (h :: t) None (h :: firstn i t)).
      + rewrite Hi. left. reflexivity.
      + left. reflexivity.
      + apply In_prefixes. exists (S i). split; [cbn; lia|reflexivity].
      + rewrite find_cons.
        * cbn [app]. rewrite Ed. exact Hc.
        * destruct t; [cbn in Hi'; lia|]. destruct i; [lia|discriminate]. }
  split.
  - unfold resolve_ref. rewrite Hok. exact Hev.
  - intro g. unfold resolve_ref. rewrite Hok.
    change (h :: t) with ([h] ++ t). rewrite <- app_assoc. cbn [app].
    change (h :: t ++ [g]) with ((h :: t) ++ [g]). rewrite eval_dotted_snoc by discriminate.
    rewrite Hev. reflexivity.
Qed.

Ltac split_andb :=
  repeat match goal with
         | H : _ && _ = true |- _ => apply andb_true_iff in H; destruct H
         end.

Lemma find_none_last l q n : forall f,
  wf_layout l = true -> is_dir l (f ++ q) = true -> is_dir l ((f ++ q) ++ [n]) = false ->
  has_py l (f ++ q) n = false -> find_in_folder l f (q ++ [n]) = None.
Proof.
  induction q as [|x q IH]; intros f Hwf Hd Hnd Hp.
  - cbn [app] in *. rewrite app_nil_r in *. rewrite find_single, Hnd, Hp. reflexivity.
  - cbn [app]. rewrite find_cons by apply app_cons_not_nil.
    assert (E : f ++ x :: q = (f ++ [x]) ++ q) by (rewrite <- app_assoc; reflexivity).
    rewrite E in *.
    assert (H1 : is_dir l (f ++ [x]) = true) by (apply (wf_dir_prefix l (f ++ [x]) q); auto).
    rewrite H1. apply IH; auto.
Qed.

Lemma find_module_single_root l d :
  single_root l = true -> find_module l d = find_in_folder l [] d.
Proof.
  unfold single_root, find_module. intro H.
  destruct (source_folders l) as [|s [|s2 r]]; cbn in H; try discriminate.
  - destruct s; [|discriminate]. cbn. destruct (find_in_folder l [] d); reflexivity.
  - destruct s; cbn in H; discriminate.
Qed.

(* the stages of MoveModule._change_occurrences_in_module, one equation each *)
Lemma change_occurrences_steps V w src D m imps0 imps1 imps2 refs2 si imps3 :
  occurs_in_module w src true m (m_imports m) (m_refs m) = true ->
  modname (w_l w) (RDir D) <> [] ->
  change_import_statements V w src D (m_folder m) (m_imports m) = Done imps0 ->
  reparse imps0 = imps1 ->
  map (rename_stmt w src D m imps1) imps1 = imps2 ->
  map (rename_ref w src D m imps1) (m_refs m) = refs2 ->
  occurs_in_module w src false m imps1 (m_refs m) = si ->
  reparse (remove_old_imports w src m imps2) = imps3 ->
  change_occurrences V w src D m =
  Done {| m_folder := m_folder m; m_name := m_name m;
          m_imports := if si then add_import imps3 (INormal [(new_name w src D, None)]) else imps3;
          m_refs := refs2 |}.
Proof.
  intros H1 H2 H3 H4 H5 H6 H7 H8. unfold change_occurrences. rewrite H1. cbn [negb].
  destruct (modname (w_l w) (RDir D)) eqn:E; [congruence|]. rewrite H3, H4, H5, H6, H7, H8. reflexivity.
Qed.

Lemma fallback_none_gen l F D b :
  D <> [] -> fallback_ok l F D = true -> find_in_folder l [] (D ++ [b]) = None ->
  find_in_folder l F (D ++ [b]) = None.
Proof.
  unfold fallback_ok. destruct F as [|f F']; [auto|].
  destruct D as [|c D']; [congruence|]. intros _ H _.
  apply negb_true_iff in H. cbn [app]. rewrite find_cons by apply app_cons_not_nil.
  rewrite H. reflexivity.
Qed.

(* ------------------------------------------------------------------ the moved layout (module file) *)
Section ModuleMove.
  Variable V : variant.
  Variable w : world.
  Variable p : path.
  Variable b : N.
  Variable D : path.
  Hypothesis Hlegal : legal_move w p b D = true.

  Let l := w_l w.
  Let src := RPy p b.
  Let w' := move_world src D w.
  Let l' := w_l w'.

  Lemma L_wf : wf_layout l = true.
  Proof. unfold legal_move in Hlegal. split_andb. assumption. Qed.
  Lemma L_root : single_root l = true.
  Proof. unfold legal_move in Hlegal. split_andb. assumption. Qed.
  Lemma L_src : has_py l p b = true.
  Proof. unfold legal_move in Hlegal. split_andb. assumption. Qed.
  Lemma L_bI : N.eqb b INIT = false.
  Proof. unfold legal_move in Hlegal. split_andb. apply negb_true_iff. assumption. Qed.
  Lemma L_bS : N.eqb b STAR = false.
  Proof. unfold legal_move in Hlegal. split_andb. apply negb_true_iff. assumption. Qed.
  Lemma L_nodir : is_dir l (p ++ [b]) = false.
  Proof. unfold legal_move in Hlegal. split_andb. apply negb_true_iff. assumption. Qed.
  Lemma L_dp : is_dir l p = true.
  Proof. unfold legal_move in Hlegal. split_andb. assumption. Qed.
  Lemma L_dD : is_dir l D = true.
  Proof. unfold legal_move in Hlegal. split_andb. assumption. Qed.
  Lemma L_Dne : D <> [].
  Proof. unfold legal_move in Hlegal. split_andb. destruct D; [discriminate|discriminate]. Qed.
  Lemma L_Dp : D <> p.
  Proof.
    unfold legal_move in Hlegal. split_andb. intro E.
    match goal with H : negb (path_eqb D p) = true |- _ => rewrite E, path_eqb_refl in H; discriminate end.
  Qed.
  Lemma L_col1 : is_dir l (D ++ [b]) = false.
  Proof. unfold legal_move in Hlegal. split_andb. apply negb_true_iff. assumption. Qed.
  Lemma L_col2 : has_py l D b = false.
  Proof. unfold legal_move in Hlegal. split_andb. apply negb_true_iff. assumption. Qed.
  Lemma L_mn : modname l (RDir D) = D.
  Proof. unfold legal_move in Hlegal. split_andb. apply dotted_eqb_eq. assumption. Qed.
  Lemma L_g : assoc_res (RPy D b) (w_g w) = None.
  Proof.
    unfold legal_move in Hlegal. split_andb.
    match goal with H : negb (is_some _) = true |- _ => destruct (assoc_res (RPy D b) (w_g w)); [discriminate|reflexivity] end.
  Qed.
  Lemma L_sh1 : no_global_shadow w [] (p ++ [b]) = true.
  Proof. unfold legal_move in Hlegal. split_andb. assumption. Qed.
  Lemma L_sh2 : no_global_shadow w [] (D ++ [b]) = true.
  Proof. unfold legal_move in Hlegal. split_andb. assumption. Qed.

  Lemma new_name_eq : new_name w src D = D ++ [b].
  Proof. unfold new_name. cbn [src_name src]. fold l. rewrite L_mn. reflexivity. Qed.

  (* --- look-ups before the move *)
  Lemma find_root_dir q : q <> [] -> is_dir l q = true -> find_in_folder l [] q = Some (RDir q).
  Proof. intros. apply (find_dir l [] q); auto. apply L_wf. Qed.

  Lemma find_src : find_in_folder l [] (p ++ [b]) = Some src.
  Proof. apply (find_py l p b []); cbn [app]; auto using L_wf, L_dp, L_nodir, L_src. Qed.

  Lemma find_new_none : find_in_folder l [] (D ++ [b]) = None.
  Proof. apply (find_none_last l D b []); cbn [app]; auto using L_wf, L_dD, L_col1, L_col2. Qed.

  Lemma find_module_eq d : find_module l d = find_in_folder l [] d.
  Proof. apply find_module_single_root. apply L_root. Qed.

  (* --- the layout after the move *)
  Lemma move_res_dir q : move_res src D (RDir q) = RDir q.
  Proof. reflexivity. Qed.

  Lemma mem_dir_move q : mem (RDir q) l' = mem (RDir q) l.
  Proof.
    unfold l', w', move_world, map_world. cbn [w_l]. fold l.
    induction l as [|r l0 IH]; [reflexivity|].
    cbn [map mem existsb]. unfold mem in IH. rewrite IH. f_equal.
    unfold move_res, src. destruct (res_eqb r (RPy p b)) eqn:E.
    - apply res_eqb_eq in E. subst r. reflexivity.
    - reflexivity.
  Qed.

  Lemma is_dir_move q : is_dir l' q = is_dir l q.
  Proof. unfold is_dir. destruct q; [reflexivity|]. apply mem_dir_move. Qed.

  Lemma has_py_new : has_py l' D b = true.
  Proof.
    pose proof L_src as H. unfold has_py in *. apply mem_In in H. apply mem_In.
    unfold l', w', move_world, map_world. cbn [w_l]. fold l.
    apply in_map_iff. exists src. split; [|exact H].
    unfold move_res, src. rewrite res_eqb_refl. reflexivity.
  Qed.

  Lemma has_py_old : has_py l' p b = false.
  Proof.
    destruct (has_py l' p b) eqn:E; [|reflexivity]. exfalso.
    unfold has_py in E. apply mem_In in E.
    unfold l', w', move_world, map_world in E. cbn [w_l] in E. apply in_map_iff in E as [r [H1 H2]].
    unfold move_res, src in H1. destruct (res_eqb r (RPy p b)) eqn:Er.
    - inversion H1. apply L_Dp. assumption.
    - subst r. rewrite res_eqb_refl in Er. discriminate.
  Qed.

  Lemma has_py_other q n : RPy q n <> RPy p b -> RPy q n <> RPy D b -> has_py l' q n = has_py l q n.
  Proof.
    intros H1 H2. unfold has_py.
    destruct (mem (RPy q n) l) eqn:E.
    - apply mem_In in E. apply mem_In.
      unfold l', w', move_world, map_world. cbn [w_l]. apply in_map_iff. exists (RPy q n). split; [|exact E].
      unfold move_res, src. rewrite res_eqb_neq by exact H1. reflexivity.
    - destruct (mem (RPy q n) l') eqn:E'; [|reflexivity]. exfalso.
      apply mem_In in E'. unfold l', w', move_world, map_world in E'. cbn [w_l] in E'.
      apply in_map_iff in E' as [r [Hr1 Hr2]]. unfold move_res, src in Hr1.
      destruct (res_eqb r (RPy p b)).
      + apply H2. symmetry. exact Hr1.
      + subst r. apply mem_In in Hr2. fold l in Hr2. congruence.
  Qed.

  Lemma wf_move : wf_layout l' = true.
  Proof.
    pose proof L_wf as Hwf. unfold wf_layout in *. rewrite forallb_forall in *. intros r' Hin.
    unfold l', w', move_world, map_world in Hin. cbn [w_l] in Hin.
    apply in_map_iff in Hin as [r [H1 H2]]. specialize (Hwf r H2).
    apply andb_true_iff in Hwf as [Ha Hb]. unfold move_res, src in H1.
    destruct (res_eqb r (RPy p b)) eqn:E.
    - subst r'. cbn [res_parent]. rewrite is_dir_move, L_dD. reflexivity.
    - subst r'. rewrite is_dir_move. fold l. rewrite Ha. exact Hb.
  Qed.

  Lemma find_new : find_in_folder l' [] (D ++ [b]) = Some (RPy D b).
  Proof.
    apply (find_py l' D b []); cbn [app]; auto using wf_move, has_py_new.
    - rewrite is_dir_move. apply L_dD.
    - rewrite is_dir_move. apply L_col1.
  Qed.

  Lemma find_root_dir' q : q <> [] -> is_dir l q = true -> find_in_folder l' [] q = Some (RDir q).
  Proof. intros. apply (find_dir l' [] q); auto using wf_move. cbn [app]. rewrite is_dir_move. assumption. Qed.

  (* --- globals after the move *)
  Lemma assoc_move_new : assoc_res (RPy D b) (w_g w') = assoc_res (RPy p b) (w_g w).
  Proof.
    pose proof L_g as Hg. unfold w', move_world, map_world. cbn [w_g].
    induction (w_g w) as [|[k v] g IH]; [reflexivity|].
    cbn [map assoc_res fst snd] in *.
    destruct (res_eqb k (RPy D b)) eqn:E1; [discriminate|].
    unfold move_res at 1. unfold src at 1 2. destruct (res_eqb k (RPy p b)) eqn:E2.
    - rewrite res_eqb_refl. reflexivity.
    - rewrite E1. apply IH. exact Hg.
  Qed.

  Lemma assoc_move_other r : r <> RPy p b -> r <> RPy D b -> assoc_res r (w_g w') = assoc_res r (w_g w).
  Proof.
    intros H1 H2. unfold w', move_world, map_world. cbn [w_g].
    induction (w_g w) as [|[k v] g IH]; [reflexivity|].
    cbn [map assoc_res fst snd].
    unfold move_res at 1. unfold src at 1 2. destruct (res_eqb k (RPy p b)) eqn:E2.
    - apply res_eqb_eq in E2. subst k.
      rewrite (res_eqb_neq (RPy D b) r) by congruence.
      rewrite (res_eqb_neq (RPy p b) r) by congruence. exact IH.
    - destruct (res_eqb k r); [reflexivity|exact IH].
  Qed.

  Lemma globals_new : globals_of w' (RPy D b) = globals_of w (RPy p b).
  Proof. unfold globals_of. cbn [init_file]. rewrite assoc_move_new. reflexivity. Qed.

  Lemma globals_dir q : globals_of w' (RDir q) = globals_of w (RDir q).
  Proof.
    unfold globals_of. cbn [init_file]. rewrite assoc_move_other; [reflexivity| |].
    - intro E. inversion E. pose proof L_bI as H. subst. rewrite N.eqb_refl in H. discriminate.
    - intro E. inversion E. pose proof L_bI as H. subst. rewrite N.eqb_refl in H. discriminate.
  Qed.

  Lemma shadow_move pre d : no_global_shadow w' pre d = no_global_shadow w pre d.
  Proof.
    revert pre. induction d as [|n d IH]; intro pre; [reflexivity|].
    cbn [no_global_shadow]. rewrite IH. destruct pre; [reflexivity|]. rewrite globals_dir. reflexivity.
  Qed.

  (* --- what rope sees before the move *)
  Lemma dir_prefix_p i : is_dir l (firstn i p) = true.
  Proof.
    apply (wf_dir_prefix l (firstn i p) (skipn i p)); [apply L_wf|]. rewrite firstn_skipn. apply L_dp.
  Qed.

  Lemma dir_prefix_D i : is_dir l (firstn i D) = true.
  Proof.
    apply (wf_dir_prefix l (firstn i D) (skipn i D)); [apply L_wf|]. rewrite firstn_skipn. apply L_dD.
  Qed.

  Lemma abs_rope_found F d r :
    find_in_folder l [] d = Some r -> abs_import true l F d = Some r.
  Proof. intro H. unfold abs_import, find_module_from. rewrite find_module_eq, H. reflexivity. Qed.

  Lemma abs_rope_prefix_p F i : 0 < i <= length p -> abs_import true l F (firstn i p) = Some (RDir (firstn i p)).
  Proof.
    intro Hi. apply abs_rope_found. apply find_root_dir; [|apply dir_prefix_p].
    destruct p; cbn in *; [lia|]. destruct i; [lia|discriminate].
  Qed.

  Lemma abs_rope_src F : abs_import true l F (p ++ [b]) = Some src.
  Proof. apply abs_rope_found. apply find_src. Qed.

  Lemma firstn_app_le {A} i (a c : list A) : i <= length a -> firstn i (a ++ c) = firstn i a.
  Proof. intro H. rewrite firstn_app. replace (i - length a) with 0 by lia. cbn. apply app_nil_r. Qed.

  (* scanning a dotted name for the word b *)
  Lemma occ_scan_skip ev q : forall pre d,
    (forall i, 0 < i <= length q -> ev (pre ++ firstn i q) = false) ->
    occ_scan src ev pre (q ++ d) = occ_scan src ev (pre ++ q) d.
  Proof.
    induction q as [|x q IH]; intros pre d H.
    - rewrite app_nil_r. reflexivity.
    - cbn [app occ_scan]. pose proof (H 1 ltac:(cbn; lia)) as H1. cbn [firstn] in H1. rewrite H1, andb_false_r.
      rewrite IH. { rewrite <- app_assoc. reflexivity. }
      intros i Hi. rewrite <- app_assoc. apply (H (S i)). cbn. lia.
  Qed.

  Lemma occ_index_hit ev rest :
    (forall i, 0 < i <= length p -> ev (firstn i p) = false) ->
    ev (p ++ [b]) = true ->
    occ_index src ev ((p ++ [b]) ++ rest) = Some (S (length p)).
  Proof.
    intros H1 H2. unfold occ_index. rewrite <- app_assoc. rewrite occ_scan_skip by exact H1.
    cbn [app occ_scan src_name src]. rewrite N.eqb_refl, H2. reflexivity.
  Qed.

  Lemma occ_from_abs F rest : occ_from w src F 0 ((p ++ [b]) ++ rest) = Some (S (length p)).
  Proof.
    unfold occ_from. cbn [Nat.leb]. apply occ_index_hit.
    - intros i Hi. cbn [from_module]. fold l. rewrite abs_rope_prefix_p by exact Hi. reflexivity.
    - cbn [from_module]. fold l. rewrite abs_rope_src. unfold is_moving_res, res_opt_is. apply res_eqb_refl.
  Qed.

  Lemma occ_abs_hit F rest : occ_abs w src F ((p ++ [b]) ++ rest) = Some (S (length p)).
  Proof.
    unfold occ_abs. apply occ_index_hit.
    - intros i Hi. fold l. rewrite abs_rope_prefix_p by exact Hi. reflexivity.
    - fold l. rewrite abs_rope_src. unfold is_moving_res, res_opt_is. apply res_eqb_refl.
  Qed.

  Lemma skipn_app_len {A} (a c : list A) : skipn (length a) (a ++ c) = c.
  Proof. rewrite skipn_app, skipn_all, Nat.sub_diag. reflexivity. Qed.

  Lemma replace_primary_hit rest :
    replace_primary w src D (S (length p)) ((p ++ [b]) ++ rest) = (D ++ [b]) ++ rest.
  Proof.
    unfold replace_primary. rewrite new_name_eq. f_equal.
    replace (S (length p)) with (length (p ++ [b])) by (rewrite app_length; cbn; lia).
    apply skipn_app_len.
  Qed.

  Lemma occ_from_abs0 F : occ_from w src F 0 (p ++ [b]) = Some (S (length p)).
  Proof. rewrite <- (app_nil_r (p ++ [b])). apply occ_from_abs. Qed.

  Lemma replace_primary_hit0 : replace_primary w src D (S (length p)) (p ++ [b]) = D ++ [b].
  Proof. rewrite <- (app_nil_r (p ++ [b])). rewrite replace_primary_hit. apply app_nil_r. Qed.

  Lemma destname_eq : modname (w_l w) (RDir D) = D.
  Proof. apply L_mn. Qed.

  Lemma fallback_none F : fallback_ok l F D = true -> find_in_folder l F (D ++ [b]) = None.
  Proof. intro H. apply fallback_none_gen; auto using L_Dne, find_new_none. Qed.

  Lemma abs_rope_new_none F : fallback_ok l F D = true -> abs_import true l F (D ++ [b]) = None.
  Proof.
    intro H. unfold abs_import, find_module_from. rewrite find_module_eq, find_new_none.
    apply fallback_none. exact H.
  Qed.


  Lemma cis_single F st :
    change_stmt V w src D F [st] 0 = Done [st] -> change_import_statements V w src D F [st] = Done [st].
  Proof.
    intro H. unfold change_import_statements. cbn [length Nat.mul Nat.add change_loop Nat.leb].
    rewrite H. reflexivity.
  Qed.

  Lemma change_stmt_noname F level modn names :
    existsb (fun na : N * option N => N.eqb (fst na) b) names = false ->
    change_stmt V w src D F [IFrom level modn names] 0 = Done [IFrom level modn names].
  Proof. intro H. unfold change_stmt. cbn [nth_error src_name src]. rewrite H. reflexivity. Qed.

  Lemma change_stmt_normal F names :
    change_stmt V w src D F [INormal names] 0 = Done [INormal names].
  Proof. reflexivity. Qed.

  (* ---- style: from p.b import g [as k] *)
  Lemma co_from_mod F name g k refs :
    fallback_ok l F D = true -> N.eqb g b = false -> N.eqb g STAR = false ->
    (forall r, In r refs -> r = [or_name k g]) ->
    change_occurrences V w src D (client_of p b F name (StFromMod g k) refs) =
    Done {| m_folder := F; m_name := name; m_imports := [IFrom 0 (D ++ [b]) [(g, k)]]; m_refs := refs |}.
  Proof.
    intros Hfb Hgb Hgs Hrefs.
    set (m := client_of p b F name (StFromMod g k) refs).
    assert (Hev : forall imps, imps = [IFrom 0 (p ++ [b]) [(g, k)]] ->
              forall r, In r refs -> occ_ref w src m imps r = None).
    { intros imps -> r Hr. rewrite (Hrefs r Hr). unfold occ_ref, occ_index. cbn [occ_scan app].
      assert (E : is_moving_obj src (rope_eval w m [IFrom 0 (p ++ [b]) [(g, k)]] [or_name k g]) = false).
      { unfold rope_eval, eval_dotted, env_of. cbn [flat_map bind_stmt bind_from m_folder m m_res client_of app].
        cbn [from_module]. fold l. rewrite abs_rope_src. rewrite Hgs.
        change (match k with Some x => x | None => g end) with (or_name k g).
        cbn [app lookup_env fold_left]. rewrite N.eqb_refl.
        unfold mod_attr, src. destruct (memN g (globals_of w (RPy p b))); reflexivity. }
      rewrite E, andb_false_r. reflexivity. }
    rewrite (change_occurrences_steps V w src D m
               [IFrom 0 (p ++ [b]) [(g, k)]] [IFrom 0 (p ++ [b]) [(g, k)]]
               [IFrom 0 (D ++ [b]) [(g, k)]] refs false [IFrom 0 (D ++ [b]) [(g, k)]]).
    - reflexivity.
    - (* occurs *)
      unfold occurs_in_module. cbn [m m_imports client_of style_imports existsb stmt_occurs m_folder andb].
      rewrite occ_from_abs0. reflexivity.
    - rewrite destname_eq. apply L_Dne.
    - apply cis_single. apply change_stmt_noname. cbn [existsb fst]. rewrite Hgb. reflexivity.
    - reflexivity.
    - cbn [map rename_stmt m_folder m client_of]. rewrite occ_from_abs0, replace_primary_hit0. reflexivity.
    - cbn [m_refs m client_of]. rewrite <- (map_id refs) at 2. apply map_ext_in. intros r Hr.
      unfold rename_ref. rewrite (Hev _ eq_refl r Hr). reflexivity.
    - unfold occurs_in_module. cbn [andb orb m_refs m client_of].
      apply not_true_is_false. intro H. apply existsb_exists in H as [r [Hr1 Hr2]].
      rewrite (Hev _ eq_refl r Hr1) in Hr2. discriminate.
    - (* remove_old_imports *)
      unfold remove_old_imports. cbn [map m_folder m client_of].
      assert (Hst : is_star [(g, k)] = false) by (cbn [is_star]; exact Hgs). rewrite Hst.
      assert (Hb : match lookup_env (src_name src)
                           (env_of true w F [IFrom 0 (D ++ [b]) [(g, k)]]) with
                   | Some o => is_moving_obj src o | None => false end = false).
      { unfold env_of. cbn [flat_map bind_stmt bind_from app from_module]. fold l.
        rewrite abs_rope_new_none by exact Hfb. rewrite Hgs. cbn [app lookup_env].
        destruct (N.eqb (src_name src) (match k with Some x => x | None => g end)); reflexivity. }
      rewrite Hb. cbn [filter]. rewrite andb_false_r. cbn [negb reparse filter stmt_is_empty]. reflexivity.
  Qed.

  (* ---- more look-ups *)
  Lemma p_ne_find_p F : p <> [] -> abs_import true l F p = Some (RDir p).
  Proof. intro H. apply abs_rope_found. apply find_root_dir; [exact H|apply L_dp]. Qed.

  Lemma find_module_p : p <> [] -> find_module l p = Some (RDir p).
  Proof. intro H. rewrite find_module_eq. apply find_root_dir; [exact H|apply L_dp]. Qed.

  Lemma find_module_D : find_module l D = Some (RDir D).
  Proof. rewrite find_module_eq. apply find_root_dir; [apply L_Dne|apply L_dD]. Qed.

  Lemma abs_rope_D F : abs_import true l F D = Some (RDir D).
  Proof. apply abs_rope_found. apply find_root_dir; [apply L_Dne|apply L_dD]. Qed.

  Lemma attr_p_b chk : p <> [] -> chk src = true -> mod_attr w chk (RDir p) b = Some (OMod src).
  Proof.
    intros Hp Hc. unfold mod_attr. rewrite (shadow_last w p b Hp L_sh1).
    fold l. rewrite find_single. rewrite L_nodir, L_src. fold src. rewrite Hc. reflexivity.
  Qed.

  Lemma attr_D_b_old chk : mod_attr w chk (RDir D) b = None.
  Proof.
    unfold mod_attr. rewrite (shadow_last w D b L_Dne L_sh2).
    fold l. rewrite find_single. rewrite L_col1, L_col2. reflexivity.
  Qed.

  Lemma occ_scan_none ev q : forall pre,
    (forall i, 0 < i <= length q -> ev (pre ++ firstn i q) = false) -> occ_scan src ev pre q = None.
  Proof.
    intros pre H. rewrite <- (app_nil_r q). rewrite occ_scan_skip by exact H. reflexivity.
  Qed.

  Lemma occ_from_D F : occ_from w src F 0 D = None.
  Proof.
    unfold occ_from. cbn [Nat.leb]. unfold occ_index. apply occ_scan_none.
    intros i Hi. cbn [app from_module]. fold l.
    assert (E : abs_import true l F (firstn i D) = Some (RDir (firstn i D))).
    { apply abs_rope_found. apply find_root_dir; [|apply dir_prefix_D].
      pose proof L_Dne. destruct D; [congruence|]. destruct i; [lia|discriminate]. }
    rewrite E. reflexivity.
  Qed.

  Lemma occ_from_p F : occ_from w src F 0 p = None.
  Proof.
    unfold occ_from. cbn [Nat.leb]. unfold occ_index. apply occ_scan_none.
    intros i Hi. cbn [app from_module]. fold l. rewrite abs_rope_prefix_p by exact Hi. reflexivity.
  Qed.

  Lemma path_eqb_false a c : a <> c -> path_eqb a c = false.
  Proof. intro H. apply path_eqb_neq. exact H. Qed.

    Lemma D_head : exists c D', D = c :: D' /\ is_dir l [c] = true.
    Proof.
      assert (G : forall D0, D0 <> [] -> is_dir l (firstn 1 D0) = true ->
                             exists c D', D0 = c :: D' /\ is_dir l [c] = true).
      { intros [|c D'] H1 H2; [congruence|]. exists c, D'. split; [reflexivity|exact H2]. }
      apply G; [apply L_Dne|apply dir_prefix_D].
    Qed.


  (* what _change_import_statements finds for  from p import ..  and  from D import ..  (either variant) *)
  Lemma imported_p F : p <> [] -> imported_resource V w F 0 p = Done (Some (RDir p)).
  Proof.
    intro Hp. unfold imported_resource. destruct (v_relctx V).
    - cbn [from_module]. fold l. rewrite (p_ne_find_p F Hp). reflexivity.
    - cbn [imported_resource_nofolder]. fold l. rewrite (find_module_p Hp). reflexivity.
  Qed.

  Lemma imported_D F : imported_resource V w F 0 D = Done (Some (RDir D)).
  Proof.
    unfold imported_resource. destruct (v_relctx V).
    - cbn [from_module]. fold l. rewrite abs_rope_D. reflexivity.
    - cbn [imported_resource_nofolder]. fold l. rewrite find_module_D. reflexivity.
  Qed.

  Lemma moved_from_import_eq al : moved_from_import w src D al = IFrom 0 D [(b, al)].
  Proof.
    unfold moved_from_import. cbn [src_name src]. fold l. rewrite L_mn.
    destruct D_head as [c [D' [E _]]]. rewrite E. reflexivity.
  Qed.

  (* ---- style: import p.b as x *)
  Lemma co_import_as F name x refs :
    fallback_ok l F D = true -> N.eqb x b = false ->
    (forall r, In r refs -> r = [x] \/ exists g, r = [x; g]) ->
    change_occurrences V w src D (client_of p b F name (StImportAs x) refs) =
    Done {| m_folder := F; m_name := name; m_imports := [INormal [(D ++ [b], Some x)]]; m_refs := refs |}.
  Proof.
    intros Hfb Hxb Hrefs.
    set (m := client_of p b F name (StImportAs x) refs).
    assert (Henv : env_of true w F [INormal [(p ++ [b], Some x)]] = [(x, Some (OMod src))]).
    { unfold env_of. cbn [flat_map bind_stmt bind_normal app]. fold l. rewrite abs_rope_src. reflexivity. }
    assert (Hev : forall r, In r refs -> occ_ref w src m [INormal [(p ++ [b], Some x)]] r = None).
    { intros r Hr. unfold occ_ref, occ_index.
      destruct (Hrefs r Hr) as [->|[g ->]]; cbn [occ_scan app src_name src]; rewrite Hxb; cbn [andb]; [reflexivity|].
      assert (E : is_moving_obj src (rope_eval w m [INormal [(p ++ [b], Some x)]] [x; g]) = false).
      { unfold rope_eval. cbn [m_folder m client_of]. rewrite Henv. unfold eval_dotted.
        cbn [lookup_env fold_left]. rewrite N.eqb_refl. cbn [step_attr]. unfold src. rewrite mod_attr_py.
        destruct (memN g (globals_of w (RPy p b))); reflexivity. }
      rewrite E, andb_false_r. reflexivity. }
    rewrite (change_occurrences_steps V w src D m
               [INormal [(p ++ [b], Some x)]] [INormal [(p ++ [b], Some x)]]
               [INormal [(D ++ [b], Some x)]] refs false [INormal [(D ++ [b], Some x)]]).
    - reflexivity.
    - unfold occurs_in_module. cbn [m m_imports client_of style_imports existsb stmt_occurs occ_normal snd fst m_folder andb].
      rewrite <- (app_nil_r (p ++ [b])). rewrite occ_abs_hit. reflexivity.
    - rewrite destname_eq. apply L_Dne.
    - apply cis_single. apply change_stmt_normal.
    - reflexivity.
    - cbn [map rename_stmt occ_normal snd fst m_folder m client_of].
      rewrite <- (app_nil_r (p ++ [b])). rewrite occ_abs_hit, replace_primary_hit, app_nil_r. reflexivity.
    - cbn [m_refs m client_of]. rewrite <- (map_id refs) at 2. apply map_ext_in. intros r Hr.
      unfold rename_ref. rewrite (Hev r Hr). reflexivity.
    - unfold occurs_in_module. cbn [andb orb m_refs m client_of].
      apply not_true_is_false. intro H. apply existsb_exists in H as [r [Hr1 Hr2]].
      rewrite (Hev r Hr1) in Hr2. discriminate.
    - unfold remove_old_imports. cbn [map m_folder m client_of].
      assert (Hb : match lookup_env (src_name src) (env_of true w F [INormal [(D ++ [b], Some x)]]) with
                   | Some o => is_moving_obj src o | None => false end = false).
      { unfold env_of. cbn [flat_map bind_stmt bind_normal app]. fold l.
        rewrite abs_rope_new_none by exact Hfb. cbn [lookup_env option_map src_name src].
        destruct (N.eqb b x); reflexivity. }
      rewrite Hb. cbn [filter snd]. rewrite andb_false_r. cbn [negb reparse filter stmt_is_empty]. reflexivity.
  Qed.

  (* ---- style: from p import b [as x] *)
  Lemma co_from_pkg F name xo refs :
    p <> [] ->
    (forall r, In r refs -> r = [or_name xo b] \/ exists g, r = [or_name xo b; g]) ->
    change_occurrences V w src D (client_of p b F name (StFromPkg xo) refs) =
    Done {| m_folder := F; m_name := name; m_imports := [IFrom 0 D [(b, xo)]]; m_refs := refs |}.
  Proof.
    intros Hp Hrefs.
    set (y := or_name xo b) in *.
    set (m := client_of p b F name (StFromPkg xo) refs).
    assert (Henv0 : env_of true w F [IFrom 0 p [(b, xo)]] = [(y, Some (OMod src))]).
    { unfold env_of. cbn [flat_map bind_stmt bind_from app from_module]. fold l.
      rewrite (p_ne_find_p F Hp). rewrite L_bS. rewrite attr_p_b by auto. reflexivity. }
    assert (Henv1 : env_of true w F [IFrom 0 D [(b, xo)]] = [(y, None)]).
    { unfold env_of. cbn [flat_map bind_stmt bind_from app from_module]. fold l.
      rewrite abs_rope_D. rewrite L_bS. rewrite attr_D_b_old. reflexivity. }
    assert (Hev : forall r, In r refs -> occ_ref w src m [IFrom 0 D [(b, xo)]] r = None).
    { intros r Hr. unfold occ_ref, occ_index.
      assert (E1 : is_moving_obj src (rope_eval w m [IFrom 0 D [(b, xo)]] [y]) = false).
      { unfold rope_eval. cbn [m_folder m client_of]. rewrite Henv1. unfold eval_dotted.
        cbn [lookup_env fold_left]. rewrite N.eqb_refl. reflexivity. }
      destruct (Hrefs r Hr) as [->|[g ->]]; cbn [occ_scan app]; rewrite E1, andb_false_r; [reflexivity|].
      assert (E2 : is_moving_obj src (rope_eval w m [IFrom 0 D [(b, xo)]] [y; g]) = false).
      { unfold rope_eval. cbn [m_folder m client_of]. rewrite Henv1. unfold eval_dotted.
        cbn [lookup_env fold_left]. rewrite N.eqb_refl. reflexivity. }
      rewrite E2, andb_false_r. reflexivity. }
    rewrite (change_occurrences_steps V w src D m
               [IEmpty; IFrom 0 D [(b, xo)]] [IFrom 0 D [(b, xo)]]
               [IFrom 0 D [(b, xo)]] refs false [IFrom 0 D [(b, xo)]]).
    - reflexivity.
    - unfold occurs_in_module. cbn [m m_imports client_of style_imports existsb stmt_occurs m_folder andb].
      rewrite occ_from_p. cbn [is_some orb]. unfold from_name_occurs. cbn [fst snd src_name src].
      rewrite N.eqb_refl. unfold rope_eval. cbn [m_folder m client_of]. rewrite Henv0. unfold eval_dotted.
      change (match xo with Some x => x | None => b end) with y.
      cbn [lookup_env fold_left]. rewrite N.eqb_refl. cbn [is_moving_obj]. rewrite res_eqb_refl. reflexivity.
    - rewrite destname_eq. apply L_Dne.
    - (* _change_import_statements: Case 2 *)
      unfold change_import_statements. cbn [m m_folder m_imports client_of style_imports length Nat.mul Nat.add].
      cbn [change_loop length Nat.leb].
      assert (S0 : change_stmt V w src D F [IFrom 0 p [(b, xo)]] 0 = Done [IEmpty; IFrom 0 D [(b, xo)]]).
      { unfold change_stmt. cbn [nth_error existsb fst src_name src]. rewrite N.eqb_refl. cbn [orb negb].
        rewrite (imported_p F Hp).
        cbn [res_opt_is src_parent res_parent src]. rewrite res_eqb_refl.
        cbn [fold_left fst snd filter]. rewrite !N.eqb_refl. rewrite moved_from_import_eq. cbn [negb].
        cbn [add_import adding_visit].
        assert (Epd : dotted_eqb p D = false).
        { apply path_eqb_false. intro E. apply L_Dp. symmetry. exact E. }
        rewrite Epd. cbn [andb firstn skipn app]. reflexivity. }
      rewrite S0. cbn [length Nat.leb].
      assert (S1 : change_stmt V w src D F [IEmpty; IFrom 0 D [(b, xo)]] 1 = Done [IEmpty; IFrom 0 D [(b, xo)]]).
      { unfold change_stmt. cbn [nth_error existsb fst src_name src]. rewrite N.eqb_refl. cbn [orb negb].
        rewrite (imported_D F).
        cbn [res_opt_is src_parent res_parent src]. cbn [res_eqb].
        rewrite (path_eqb_false D p L_Dp). cbn [stmt_is_empty negb andb firstn skipn app]. reflexivity. }
      rewrite S1. reflexivity.
    - reflexivity.
    - cbn [map rename_stmt m_folder m client_of]. rewrite occ_from_D. reflexivity.
    - cbn [m_refs m client_of]. rewrite <- (map_id refs) at 2. apply map_ext_in. intros r Hr.
      unfold rename_ref. rewrite (Hev r Hr). reflexivity.
    - unfold occurs_in_module. cbn [andb orb m_refs m client_of].
      apply not_true_is_false. intro H. apply existsb_exists in H as [r [Hr1 Hr2]].
      rewrite (Hev r Hr1) in Hr2. discriminate.
    - unfold remove_old_imports. cbn [map m_folder m client_of]. rewrite Henv1.
      assert (Hst : is_star [(b, xo)] = false) by (cbn [is_star]; apply L_bS). rewrite Hst.
      cbn [lookup_env src_name src].
      assert (Hb : match (if N.eqb b y then Some (@None obj) else None) with
                   | Some o => is_moving_obj src o | None => false end = false)
        by (destruct (N.eqb b y); reflexivity).
      rewrite Hb. cbn [filter snd]. rewrite andb_false_r. cbn [negb reparse filter stmt_is_empty]. reflexivity.
  Qed.

  Lemma lookup_env_globs r gl x :
    lookup_env x (map (fun g => (g, Some (OGlob r g))) gl) =
    if memN x gl then Some (Some (OGlob r x)) else None.
  Proof.
    induction gl as [|g gl IH]; [reflexivity|].
    cbn [map lookup_env memN existsb]. fold (memN x gl). rewrite IH.
    destruct (memN x gl).
    - rewrite orb_true_r. reflexivity.
    - rewrite orb_false_r. destruct (N.eqb x g) eqn:E; [apply N.eqb_eq in E; subst; reflexivity|reflexivity].
  Qed.

  (* ---- style: from p.b import * *)
  Lemma co_star F name refs :
    fallback_ok l F D = true ->
    (forall r, In r refs -> exists g, r = [g]) ->
    change_occurrences V w src D (client_of p b F name StStar refs) =
    Done {| m_folder := F; m_name := name; m_imports := [IFrom 0 (D ++ [b]) [(STAR, None)]]; m_refs := refs |}.
  Proof.
    intros Hfb Hrefs.
    set (m := client_of p b F name StStar refs).
    assert (Hsb : N.eqb STAR b = false) by (rewrite N.eqb_sym; apply L_bS).
    assert (Hev : forall r, In r refs -> occ_ref w src m [IFrom 0 (p ++ [b]) [(STAR, None)]] r = None).
    { intros r Hr. destruct (Hrefs r Hr) as [g ->]. unfold occ_ref, occ_index. cbn [occ_scan app].
      assert (E : is_moving_obj src (rope_eval w m [IFrom 0 (p ++ [b]) [(STAR, None)]] [g]) = false).
      { unfold rope_eval, eval_dotted, env_of. cbn [flat_map bind_stmt bind_from m_folder m m_res client_of app].
        cbn [from_module]. fold l. rewrite abs_rope_src. rewrite N.eqb_refl. rewrite !app_nil_r.
        rewrite lookup_env_globs. cbn [fold_left].
        destruct (memN g (globals_of w src)); [reflexivity|].
        destruct (memN g (globals_of w (m_res m))); reflexivity. }
      rewrite E, andb_false_r. reflexivity. }
    rewrite (change_occurrences_steps V w src D m
               [IFrom 0 (p ++ [b]) [(STAR, None)]] [IFrom 0 (p ++ [b]) [(STAR, None)]]
               [IFrom 0 (D ++ [b]) [(STAR, None)]] refs false [IFrom 0 (D ++ [b]) [(STAR, None)]]).
    - reflexivity.
    - unfold occurs_in_module. cbn [m m_imports client_of style_imports existsb stmt_occurs m_folder andb].
      rewrite occ_from_abs0. reflexivity.
    - rewrite destname_eq. apply L_Dne.
    - apply cis_single. apply change_stmt_noname. cbn [existsb fst]. rewrite Hsb. reflexivity.
    - reflexivity.
    - cbn [map rename_stmt m_folder m client_of]. rewrite occ_from_abs0, replace_primary_hit0. reflexivity.
    - cbn [m_refs m client_of]. rewrite <- (map_id refs) at 2. apply map_ext_in. intros r Hr.
      unfold rename_ref. rewrite (Hev r Hr). reflexivity.
    - unfold occurs_in_module. cbn [andb orb m_refs m client_of].
      apply not_true_is_false. intro H. apply existsb_exists in H as [r [Hr1 Hr2]].
      rewrite (Hev r Hr1) in Hr2. discriminate.
    - unfold remove_old_imports. cbn [map m_folder m client_of].
      cbn [is_star]. rewrite N.eqb_refl. cbn [from_module]. fold l.
      rewrite abs_rope_new_none by exact Hfb. reflexivity.
  Qed.

  (* ---- style: from .b import g [as k]   (client in package p) *)
  Lemma rel_find_b : find_relative_module l [b] p 1 = Some src.
  Proof.
    unfold find_relative_module. cbn [pred up]. rewrite find_single. rewrite L_nodir, L_src. reflexivity.
  Qed.

  Lemma co_rel_mod name g k refs :
    fallback_ok l p D = true -> N.eqb g b = false -> N.eqb g STAR = false ->
    (forall r, In r refs -> r = [or_name k g]) ->
    change_occurrences V w src D (client_of p b p name (StRelMod g k) refs) =
    Done {| m_folder := p; m_name := name; m_imports := [IFrom 0 (D ++ [b]) [(g, k)]]; m_refs := refs |}.
  Proof.
    intros Hfb Hgb Hgs Hrefs.
    set (m := client_of p b p name (StRelMod g k) refs).
    assert (Hocc : occ_from w src p 1 [b] = Some 1).
    { unfold occ_from. cbn [Nat.leb]. unfold occ_index. cbn [occ_scan app src_name src].
      rewrite N.eqb_refl. cbn [from_module]. fold l. rewrite rel_find_b.
      unfold is_moving_res, res_opt_is. rewrite res_eqb_refl. reflexivity. }
    assert (Hev : forall r, In r refs -> occ_ref w src m [IFrom 1 [b] [(g, k)]] r = None).
    { intros r Hr. rewrite (Hrefs r Hr). unfold occ_ref, occ_index. cbn [occ_scan app].
      assert (E : is_moving_obj src (rope_eval w m [IFrom 1 [b] [(g, k)]] [or_name k g]) = false).
      { unfold rope_eval, eval_dotted, env_of. cbn [flat_map bind_stmt bind_from m_folder m m_res client_of app].
        cbn [from_module]. fold l. rewrite rel_find_b. rewrite Hgs.
        change (match k with Some x => x | None => g end) with (or_name k g).
        cbn [app lookup_env fold_left]. rewrite N.eqb_refl.
        unfold src. rewrite mod_attr_py. destruct (memN g (globals_of w (RPy p b))); reflexivity. }
      rewrite E, andb_false_r. reflexivity. }
    rewrite (change_occurrences_steps V w src D m
               [IFrom 1 [b] [(g, k)]] [IFrom 1 [b] [(g, k)]]
               [IFrom 0 (D ++ [b]) [(g, k)]] refs false [IFrom 0 (D ++ [b]) [(g, k)]]).
    - reflexivity.
    - unfold occurs_in_module. cbn [m m_imports client_of style_imports existsb stmt_occurs m_folder andb].
      rewrite Hocc. reflexivity.
    - rewrite destname_eq. apply L_Dne.
    - apply cis_single. apply change_stmt_noname. cbn [existsb fst]. rewrite Hgb. reflexivity.
    - reflexivity.
    - cbn [map rename_stmt m_folder m client_of]. rewrite Hocc.
      unfold replace_primary. rewrite new_name_eq. cbn [skipn]. rewrite app_nil_r. reflexivity.
    - cbn [m_refs m client_of]. rewrite <- (map_id refs) at 2. apply map_ext_in. intros r Hr.
      unfold rename_ref. rewrite (Hev r Hr). reflexivity.
    - unfold occurs_in_module. cbn [andb orb m_refs m client_of].
      apply not_true_is_false. intro H. apply existsb_exists in H as [r [Hr1 Hr2]].
      rewrite (Hev r Hr1) in Hr2. discriminate.
    - unfold remove_old_imports. cbn [map m_folder m client_of].
      assert (Hst : is_star [(g, k)] = false) by (cbn [is_star]; exact Hgs). rewrite Hst.
      assert (Hb : match lookup_env (src_name src)
                           (env_of true w p [IFrom 0 (D ++ [b]) [(g, k)]]) with
                   | Some o => is_moving_obj src o | None => false end = false).
      { unfold env_of. cbn [flat_map bind_stmt bind_from app from_module]. fold l.
        rewrite abs_rope_new_none by exact Hfb. rewrite Hgs. cbn [app lookup_env].
        destruct (N.eqb (src_name src) (match k with Some x => x | None => g end)); reflexivity. }
      rewrite Hb. cbn [filter]. rewrite andb_false_r. cbn [negb reparse filter stmt_is_empty]. reflexivity.
  Qed.

  (* ---- style: import p.b *)
  Let mI (F : path) (name : N) (refs : list dotted) := client_of p b F name StImport refs.
  Let impsI := [INormal [(p ++ [b], @None N)]].

    Lemma rope_eval_abs F name refs d c r :
      d <> [] -> p ++ [b] = d ++ c -> find_in_folder l [] d = Some r ->
      rope_eval w (mI F name refs) impsI d = Some (OMod r).
    Proof.
      intros Hd Hpre Hf. destruct d as [|h t0]; [congruence|].
      unfold rope_eval. apply eval_import_path; auto.
      - apply L_wf.
      - unfold env_of, impsI. cbn [flat_map bind_stmt bind_normal mI m_folder client_of].
        rewrite Hpre. cbn [app lookup_env]. rewrite N.eqb_refl. fold l.
        destruct (find_head l h t0 r Hf) as [r0 Hr0]. rewrite (abs_rope_found F [h] r0 Hr0), Hr0. reflexivity.
      - apply (shadow_prefix w (h :: t0) c). rewrite <- Hpre. apply L_sh1.
    Qed.

    Lemma ev_import_prefix F name refs i :
      0 < i <= length p -> is_moving_obj src (rope_eval w (mI F name refs) impsI (firstn i p)) = false.
    Proof.
      intro Hi. rewrite (rope_eval_abs F name refs (firstn i p) (skipn i p ++ [b]) (RDir (firstn i p))).
      - reflexivity.
      - destruct p; cbn in *; [lia|]. destruct i; [lia|discriminate].
      - rewrite app_assoc, firstn_skipn. reflexivity.
      - apply find_root_dir; [|apply dir_prefix_p]. destruct p; cbn in *; [lia|]. destruct i; [lia|discriminate].
    Qed.

    Lemma occ_ref_import F name refs rest : occ_ref w src (mI F name refs) impsI ((p ++ [b]) ++ rest) = Some (S (length p)).
    Proof.
      unfold occ_ref. apply occ_index_hit.
      - apply ev_import_prefix.
      - rewrite (rope_eval_abs F name refs (p ++ [b]) [] src); [|apply app_cons_not_nil|rewrite app_nil_r; reflexivity|apply find_src].
        cbn [is_moving_obj]. apply res_eqb_refl.
    Qed.

    Lemma not_moving_new_env (Fm : path) :
      match lookup_env (src_name src) (env_of true w Fm [INormal [(D ++ [b], None)]]) with
      | Some o => is_moving_obj src o | None => false end = false.
    Proof.
      destruct D_head as [c [D' [E Hc]]]. rewrite E.
      unfold env_of. cbn [flat_map bind_stmt bind_normal app]. cbn [lookup_env].
      destruct (N.eqb (src_name src) c); [|reflexivity].
      assert (Ea : abs_import true l Fm [c] = Some (RDir [c])).
      { apply abs_rope_found. rewrite find_single. cbn [app]. rewrite Hc. reflexivity. }
      fold l. rewrite Ea. reflexivity.
    Qed.

    Lemma filter_new_normal (sel : N -> bool) :
      filter (fun na : dotted * option N =>
                match snd na with
                | Some x => sel x
                | None => match fst na with [x] => sel x | _ => true end
                end) [(D ++ [b], None)] = [(D ++ [b], None)].
    Proof.
      destruct D_head as [c [D' [E _]]]. rewrite E. cbn [filter snd fst app].
      destruct (D' ++ [b]) eqn:E2; [exfalso; apply (app_cons_not_nil D' b); exact E2|reflexivity].
    Qed.

    Lemma add_import_same d : add_import [INormal [(d, None)]] (INormal [(d, None)]) = [INormal [(d, None)]].
    Proof.
      cbn [add_import adding_visit]. unfold proper_prefix.
      rewrite <- (app_nil_r d) at 2. rewrite strip_prefix_app.
      rewrite <- (app_nil_r d) at 2. rewrite strip_prefix_app.
      assert (E : list_eqb pairD_eqb [(d, @None N)] [(d, None)] = true).
      { cbn [list_eqb]. unfold pairD_eqb, dotted_eqb, optN_eqb, opt_eqb. cbn [fst snd]. rewrite path_eqb_refl. reflexivity. }
      rewrite E. reflexivity.
    Qed.

    Lemma co_import F name refs :
      (forall r, In r refs -> exists rest, r = (p ++ [b]) ++ rest) ->
      change_occurrences V w src D (mI F name refs) =
      Done {| m_folder := F; m_name := name; m_imports := [INormal [(D ++ [b], None)]];
              m_refs := map (fun r => (D ++ [b]) ++ skipn (S (length p)) r) refs |}.
    Proof.
      intros Hrefs.
      set (m := mI F name refs). set (imps := impsI).
      assert (Hr2 : map (rename_ref w src D m imps) refs = map (fun r => (D ++ [b]) ++ skipn (S (length p)) r) refs).
      { apply map_ext_in. intros r Hr. destruct (Hrefs r Hr) as [rest ->]. unfold rename_ref.
        unfold m, imps. rewrite occ_ref_import, replace_primary_hit. f_equal.
        replace (S (length p)) with (length (p ++ [b])) by (rewrite app_length; cbn; lia).
        rewrite skipn_app_len. reflexivity. }
      rewrite (change_occurrences_steps V w src D m imps imps
                 [INormal [(D ++ [b], None)]] (map (fun r => (D ++ [b]) ++ skipn (S (length p)) r) refs)
                 (match refs with [] => false | _ => true end) [INormal [(D ++ [b], None)]]).
      - unfold m, mI. cbn [m_folder m_name client_of]. f_equal. f_equal.
        destruct refs; [reflexivity|]. rewrite new_name_eq. apply add_import_same.
      - unfold occurs_in_module, m, mI. cbn [m_imports client_of style_imports existsb stmt_occurs occ_normal snd fst andb].
        change [INormal [(p ++ [b], None)]] with impsI. fold (mI F name refs).
        rewrite <- (app_nil_r (p ++ [b])). rewrite occ_ref_import. reflexivity.
      - rewrite destname_eq. apply L_Dne.
      - apply cis_single. apply change_stmt_normal.
      - reflexivity.
      - unfold imps, impsI at 2. cbn [map rename_stmt occ_normal snd fst]. unfold m.
        rewrite <- (app_nil_r (p ++ [b])). rewrite occ_ref_import, replace_primary_hit, app_nil_r. reflexivity.
      - exact Hr2.
      - unfold occurs_in_module. cbn [andb orb]. unfold m at 2, mI. cbn [m_refs client_of].
        destruct refs as [|r0 rs]; [reflexivity|]. cbn [existsb].
        destruct (Hrefs r0 (or_introl eq_refl)) as [rest ->]. unfold m, imps. rewrite occ_ref_import. reflexivity.
      - unfold remove_old_imports. cbn [map]. rewrite not_moving_new_env.
        assert (E : forall x, negb (N.eqb x (src_name src) && false) = true) by (intro; rewrite andb_false_r; reflexivity).
        rewrite (filter_new_normal (fun x => negb (N.eqb x (src_name src) && false))).
        cbn [reparse filter stmt_is_empty negb]. reflexivity.
    Qed.

  (* ---- style: from . import b   (client in package p) *)
  Lemma rel_find_pkg : find_relative_module l [] p 1 = Some (RDir p).
  Proof. reflexivity. Qed.

  Lemma co_rel_pkg name refs :
    v_relctx V = false ->
    p <> [] ->
    (forall r, In r refs -> exists rest, r = [b] ++ rest) ->
    change_occurrences V w src D (client_of p b p name (StRelPkg None) refs) =
    Done {| m_folder := p; m_name := name;
            m_imports := match refs with [] => [] | _ => [INormal [(D ++ [b], None)]] end;
            m_refs := map (fun r => (D ++ [b]) ++ skipn 1 r) refs |}.
  Proof.
    intros Hv Hp Hrefs.
    set (m := client_of p b p name (StRelPkg None) refs).
    set (imps := [IFrom 1 [] [(b, @None N)]]).
    assert (Henv : env_of true w p imps = [(b, Some (OMod src))]).
    { unfold env_of, imps. cbn [flat_map bind_stmt bind_from app from_module]. fold l.
      rewrite rel_find_pkg. rewrite L_bS. rewrite attr_p_b by auto. reflexivity. }
    assert (Hevb : is_moving_obj src (rope_eval w m imps [b]) = true).
    { unfold rope_eval. cbn [m m_folder client_of]. rewrite Henv. unfold eval_dotted.
      cbn [lookup_env fold_left]. rewrite N.eqb_refl. cbn [is_moving_obj]. apply res_eqb_refl. }
    assert (Hocc : forall rest, occ_ref w src m imps ([b] ++ rest) = Some 1).
    { intro rest. unfold occ_ref, occ_index. cbn [app occ_scan src_name src length].
      rewrite N.eqb_refl, Hevb. reflexivity. }
    rewrite (change_occurrences_steps V w src D m imps imps imps
               (map (fun r => (D ++ [b]) ++ skipn 1 r) refs)
               (match refs with [] => false | _ => true end) []).
    - cbn [m m_folder m_name client_of]. f_equal. f_equal.
      destruct refs; [reflexivity|]. rewrite new_name_eq. reflexivity.
    - unfold occurs_in_module. cbn [m m_imports client_of style_imports existsb stmt_occurs andb].
      fold imps. fold m. unfold from_name_occurs. cbn [fst snd src_name src]. rewrite N.eqb_refl, Hevb.
      cbn [andb]. rewrite orb_true_r. reflexivity.
    - rewrite destname_eq. apply L_Dne.
    - apply cis_single. unfold change_stmt. cbn [nth_error existsb fst src_name src]. rewrite N.eqb_refl.
      unfold imported_resource. rewrite Hv.
      cbn [orb negb imported_resource_nofolder res_opt_is stmt_is_empty andb firstn skipn app]. reflexivity.
    - reflexivity.
    - unfold imps at 2 3. cbn [map rename_stmt m_folder m client_of].
      unfold occ_from. cbn [Nat.leb]. reflexivity.
    - cbn [m_refs m client_of]. apply map_ext_in. intros r Hr. destruct (Hrefs r Hr) as [rest ->].
      unfold rename_ref. fold m. rewrite Hocc. unfold replace_primary. rewrite new_name_eq. reflexivity.
    - unfold occurs_in_module. cbn [andb orb m_refs m client_of].
      destruct refs as [|r0 rs]; [reflexivity|]. cbn [existsb].
      destruct (Hrefs r0 (or_introl eq_refl)) as [rest ->]. fold m. rewrite Hocc. reflexivity.
    - unfold remove_old_imports. cbn [m_folder m client_of]. rewrite Henv.
      cbn [lookup_env src_name src]. rewrite N.eqb_refl. cbn [is_moving_obj]. rewrite res_eqb_refl.
      unfold imps. cbn [map is_star]. rewrite L_bS. cbn [filter snd fst]. rewrite N.eqb_refl.
      cbn [andb negb reparse filter stmt_is_empty]. reflexivity.
  Qed.

  (* ---- the same style once the import context knows the folder: Case 2 applies *)
  Lemma co_rel_pkg_fixed name xo refs :
    v_relctx V = true ->
    p <> [] ->
    (forall r, In r refs -> r = [or_name xo b] \/ exists g, r = [or_name xo b; g]) ->
    change_occurrences V w src D (client_of p b p name (StRelPkg xo) refs) =
    Done {| m_folder := p; m_name := name; m_imports := [IFrom 0 D [(b, xo)]]; m_refs := refs |}.
  Proof.
    intros Hv Hp Hrefs.
    set (y := or_name xo b) in *.
    set (m := client_of p b p name (StRelPkg xo) refs).
    assert (Henv0 : env_of true w p [IFrom 1 [] [(b, xo)]] = [(y, Some (OMod src))]).
    { unfold env_of. cbn [flat_map bind_stmt bind_from app from_module]. fold l.
      rewrite rel_find_pkg. rewrite L_bS. rewrite attr_p_b by auto. reflexivity. }
    assert (Henv1 : env_of true w p [IFrom 0 D [(b, xo)]] = [(y, None)]).
    { unfold env_of. cbn [flat_map bind_stmt bind_from app from_module]. fold l.
      rewrite abs_rope_D. rewrite L_bS. rewrite attr_D_b_old. reflexivity. }
    assert (Hev : forall r, In r refs -> occ_ref w src m [IFrom 0 D [(b, xo)]] r = None).
    { intros r Hr. unfold occ_ref, occ_index.
      assert (E1 : is_moving_obj src (rope_eval w m [IFrom 0 D [(b, xo)]] [y]) = false).
      { unfold rope_eval. cbn [m_folder m client_of]. rewrite Henv1. unfold eval_dotted.
        cbn [lookup_env fold_left]. rewrite N.eqb_refl. reflexivity. }
      destruct (Hrefs r Hr) as [->|[g ->]]; cbn [occ_scan app]; rewrite E1, andb_false_r; [reflexivity|].
      assert (E2 : is_moving_obj src (rope_eval w m [IFrom 0 D [(b, xo)]] [y; g]) = false).
      { unfold rope_eval. cbn [m_folder m client_of]. rewrite Henv1. unfold eval_dotted.
        cbn [lookup_env fold_left]. rewrite N.eqb_refl. reflexivity. }
      rewrite E2, andb_false_r. reflexivity. }
    rewrite (change_occurrences_steps V w src D m
               [IEmpty; IFrom 0 D [(b, xo)]] [IFrom 0 D [(b, xo)]]
               [IFrom 0 D [(b, xo)]] refs false [IFrom 0 D [(b, xo)]]).
    - reflexivity.
    - unfold occurs_in_module. cbn [m m_imports client_of style_imports existsb stmt_occurs m_folder andb].
      unfold from_name_occurs. cbn [fst snd src_name src].
      rewrite N.eqb_refl. unfold rope_eval. cbn [m_folder m client_of]. rewrite Henv0. unfold eval_dotted.
      change (match xo with Some x => x | None => b end) with y.
      cbn [lookup_env fold_left]. rewrite N.eqb_refl. cbn [is_moving_obj]. rewrite res_eqb_refl.
      cbn [andb]. rewrite orb_true_r. reflexivity.
    - rewrite destname_eq. apply L_Dne.
    - unfold change_import_statements. cbn [m m_folder m_imports client_of style_imports length Nat.mul Nat.add].
      cbn [change_loop length Nat.leb].
      assert (S0 : change_stmt V w src D p [IFrom 1 [] [(b, xo)]] 0 = Done [IEmpty; IFrom 0 D [(b, xo)]]).
      { unfold change_stmt. cbn [nth_error existsb fst src_name src]. rewrite N.eqb_refl. cbn [orb negb].
        unfold imported_resource. rewrite Hv. cbn [from_module]. fold l. rewrite rel_find_pkg.
        cbn [res_opt_is src_parent res_parent src]. rewrite res_eqb_refl.
        cbn [fold_left fst snd filter]. rewrite !N.eqb_refl. rewrite moved_from_import_eq. cbn [negb].
        cbn [add_import adding_visit].
        assert (Epd : dotted_eqb [] D = false).
        { apply path_eqb_false. intro E. apply L_Dne. symmetry. exact E. }
        rewrite Epd. cbn [andb firstn skipn app]. reflexivity. }
      rewrite S0. cbn [length Nat.leb].
      assert (S1 : change_stmt V w src D p [IEmpty; IFrom 0 D [(b, xo)]] 1 = Done [IEmpty; IFrom 0 D [(b, xo)]]).
      { unfold change_stmt. cbn [nth_error existsb fst src_name src]. rewrite N.eqb_refl. cbn [orb negb].
        rewrite (imported_D p).
        cbn [res_opt_is src_parent res_parent src]. cbn [res_eqb].
        rewrite (path_eqb_false D p L_Dp). cbn [stmt_is_empty negb andb firstn skipn app]. reflexivity. }
      rewrite S1. reflexivity.
    - reflexivity.
    - cbn [map rename_stmt m_folder m client_of]. rewrite occ_from_D. reflexivity.
    - cbn [m_refs m client_of]. rewrite <- (map_id refs) at 2. apply map_ext_in. intros r Hr.
      unfold rename_ref. rewrite (Hev r Hr). reflexivity.
    - unfold occurs_in_module. cbn [andb orb m_refs m client_of].
      apply not_true_is_false. intro H. apply existsb_exists in H as [r [Hr1 Hr2]].
      rewrite (Hev r Hr1) in Hr2. discriminate.
    - unfold remove_old_imports. cbn [map m_folder m client_of]. rewrite Henv1.
      assert (Hst : is_star [(b, xo)] = false) by (cbn [is_star]; apply L_bS). rewrite Hst.
      cbn [lookup_env src_name src].
      assert (Hb : match (if N.eqb b y then Some (@None obj) else None) with
                   | Some o => is_moving_obj src o | None => false end = false)
        by (destruct (N.eqb b y); reflexivity).
      rewrite Hb. cbn [filter snd]. rewrite andb_false_r. cbn [negb reparse filter stmt_is_empty]. reflexivity.
  Qed.

  (* ------------------------------------------------------------------ Python's view, before and after *)
  Let new := RPy D b.
  Let rho := move_res src D.

  Lemma rho_src : rho src = new.
  Proof. unfold rho, move_res, src. rewrite res_eqb_refl. reflexivity. Qed.

  Lemma py_find_p : p <> [] -> find_in_folder l [] p = Some (RDir p).
  Proof. intro H. apply find_root_dir; [exact H|apply L_dp]. Qed.

  Lemma py_find_D' : find_in_folder l' [] D = Some (RDir D).
  Proof. apply find_root_dir'; [apply L_Dne|apply L_dD]. Qed.

  Lemma attr_D_b_new chk : chk new = true -> mod_attr w' chk (RDir D) b = Some (OMod new).
  Proof.
    intro Hc. unfold mod_attr. rewrite globals_dir. rewrite (shadow_last w D b L_Dne L_sh2).
    fold l'. rewrite find_single. rewrite is_dir_move, L_col1, has_py_new. fold new. rewrite Hc. reflexivity.
  Qed.

  Lemma single_mod_preserved m m' x r o :
    env_of false w (m_folder m) (m_imports m) = [(x, Some (OMod src))] ->
    env_of false w' (m_folder m') (m_imports m') = [(x, Some (OMod new))] ->
    (r = [x] \/ exists g, r = [x; g]) ->
    resolve_ref w m r = Some o -> resolve_ref w' m' r = Some (move_obj rho o).
  Proof.
    intros H1 H2 [->|[g ->]] Hr.
    - rewrite (resolve_single w m x _ H1) in Hr. inversion Hr; subst o.
      rewrite (resolve_single w' m' x _ H2). cbn [move_obj]. rewrite rho_src. reflexivity.
    - rewrite (resolve_single_attr w m x src g H1) in Hr.
      rewrite (resolve_single_attr w' m' x new g H2).
      unfold src in Hr. rewrite mod_attr_py in Hr. unfold new. rewrite mod_attr_py.
      rewrite globals_new. destruct (memN g (globals_of w (RPy p b))); [|discriminate].
      inversion Hr; subst o. cbn [move_obj]. fold src. rewrite rho_src. reflexivity.
  Qed.

  Lemma single_glob_preserved m m' y g r o :
    env_of false w (m_folder m) (m_imports m) = [(y, mod_attr w (fun _ => true) src g)] ->
    env_of false w' (m_folder m') (m_imports m') = [(y, mod_attr w' (fun _ => true) new g)] ->
    r = [y] ->
    resolve_ref w m r = Some o -> resolve_ref w' m' r = Some (move_obj rho o).
  Proof.
    intros H1 H2 -> Hr. unfold src in H1. rewrite mod_attr_py in H1. unfold new in H2. rewrite mod_attr_py, globals_new in H2.
    destruct (memN g (globals_of w (RPy p b))).
    - rewrite (resolve_single w m y _ H1) in Hr. inversion Hr; subst o.
      rewrite (resolve_single w' m' y _ H2). cbn [move_obj]. fold src. rewrite rho_src. reflexivity.
    - unfold resolve_ref, imports_ok in Hr. rewrite H1 in Hr. cbn in Hr. discriminate.
  Qed.

  (* environments, before *)
  Lemma envB_import_as F x : env_of false w F [INormal [(p ++ [b], Some x)]] = [(x, Some (OMod src))].
  Proof. unfold env_of. cbn [flat_map bind_stmt bind_normal app abs_import]. fold l. rewrite find_src. reflexivity. Qed.

  Lemma envB_from_pkg F xo : p <> [] -> env_of false w F [IFrom 0 p [(b, xo)]] = [(or_name xo b, Some (OMod src))].
  Proof.
    intro Hp. unfold env_of. cbn [flat_map bind_stmt bind_from app from_module abs_import]. fold l.
    rewrite (py_find_p Hp), L_bS, attr_p_b by auto. reflexivity.
  Qed.

  Lemma ltb_len_p : p <> [] -> Nat.ltb 0 (length p) = true.
  Proof. intro H. destruct p; [congruence|reflexivity]. Qed.

  Lemma envB_rel_pkg xo : p <> [] -> env_of false w p [IFrom 1 [] [(b, xo)]] = [(or_name xo b, Some (OMod src))].
  Proof.
    intro Hp. unfold env_of. cbn [flat_map bind_stmt bind_from app from_module]. fold l.
    rewrite (ltb_len_p Hp), rel_find_pkg, L_bS, attr_p_b by auto. reflexivity.
  Qed.

  Lemma envB_from_mod F g k : N.eqb g STAR = false ->
    env_of false w F [IFrom 0 (p ++ [b]) [(g, k)]] = [(or_name k g, mod_attr w (fun _ => true) src g)].
  Proof.
    intro Hg. unfold env_of. cbn [flat_map bind_stmt bind_from app from_module abs_import]. fold l.
    rewrite find_src, Hg. reflexivity.
  Qed.

  Lemma envB_rel_mod g k : p <> [] -> N.eqb g STAR = false ->
    env_of false w p [IFrom 1 [b] [(g, k)]] = [(or_name k g, mod_attr w (fun _ => true) src g)].
  Proof.
    intros Hp Hg. unfold env_of. cbn [flat_map bind_stmt bind_from app from_module]. fold l.
    rewrite (ltb_len_p Hp), rel_find_b, Hg. reflexivity.
  Qed.

  Lemma envB_star F :
    env_of false w F [IFrom 0 (p ++ [b]) [(STAR, None)]] = map (fun g => (g, Some (OGlob src g))) (globals_of w src).
  Proof.
    unfold env_of. cbn [flat_map bind_stmt bind_from app from_module abs_import]. fold l.
    rewrite find_src, N.eqb_refl, !app_nil_r. reflexivity.
  Qed.

  (* environments, after *)
  Lemma envA_import_as F x : env_of false w' F [INormal [(D ++ [b], Some x)]] = [(x, Some (OMod new))].
  Proof. unfold env_of. cbn [flat_map bind_stmt bind_normal app abs_import]. fold l'. rewrite find_new. reflexivity. Qed.

  Lemma envA_from_pkg F xo : env_of false w' F [IFrom 0 D [(b, xo)]] = [(or_name xo b, Some (OMod new))].
  Proof.
    unfold env_of. cbn [flat_map bind_stmt bind_from app from_module abs_import]. fold l'.
    rewrite py_find_D', L_bS, attr_D_b_new by auto. reflexivity.
  Qed.

  Lemma envA_from_mod F g k : N.eqb g STAR = false ->
    env_of false w' F [IFrom 0 (D ++ [b]) [(g, k)]] = [(or_name k g, mod_attr w' (fun _ => true) new g)].
  Proof.
    intro Hg. unfold env_of. cbn [flat_map bind_stmt bind_from app from_module abs_import]. fold l'.
    rewrite find_new, Hg. reflexivity.
  Qed.

  Lemma envA_star F :
    env_of false w' F [IFrom 0 (D ++ [b]) [(STAR, None)]] = map (fun g => (g, Some (OGlob new g))) (globals_of w src).
  Proof.
    unfold env_of. cbn [flat_map bind_stmt bind_from app from_module abs_import]. fold l'.
    rewrite find_new, N.eqb_refl, !app_nil_r. fold new. unfold new at 2. rewrite globals_new. reflexivity.
  Qed.

  Lemma env_ok_globs r gl : env_ok (map (fun g => (g, Some (OGlob r g))) gl) = true.
  Proof. unfold env_ok. apply forallb_forall. intros x Hx. apply in_map_iff in Hx as [g [<- _]]. reflexivity. Qed.

  Lemma star_preserved m m' r o :
    env_of false w (m_folder m) (m_imports m) = map (fun g => (g, Some (OGlob src g))) (globals_of w src) ->
    env_of false w' (m_folder m') (m_imports m') = map (fun g => (g, Some (OGlob new g))) (globals_of w src) ->
    (exists g, In g (globals_of w src) /\ r = [g]) ->
    resolve_ref w m r = Some o -> resolve_ref w' m' r = Some (move_obj rho o).
  Proof.
    intros H1 H2 [g [Hg ->]] Hr. apply memN_In in Hg.
    unfold resolve_ref, imports_ok in *. rewrite H1 in Hr. rewrite H2.
    rewrite env_ok_globs in *. unfold eval_dotted in *.
    rewrite lookup_env_globs in *. rewrite Hg in *. cbn [fold_left] in *.
    inversion Hr; subst o. cbn [move_obj]. rewrite rho_src. reflexivity.
  Qed.

  Lemma after_dotted m' :
    m_imports m' = [INormal [(D ++ [b], None)]] ->
    resolve_ref w' m' (D ++ [b]) = Some (OMod new)
    /\ forall g, resolve_ref w' m' ((D ++ [b]) ++ [g]) =
                 if memN g (globals_of w src) then Some (OGlob new g) else None.
  Proof.
    intro Hi.
    assert (Hs : no_global_shadow w' [] (D ++ [b]) = true) by (rewrite shadow_move; apply L_sh2).
    destruct (resolve_import_path w' m' (D ++ [b]) new wf_move Hi find_new Hs) as [H1 H2].
    split; [exact H1|]. intro g. rewrite H2. unfold new. rewrite mod_attr_py, globals_new. reflexivity.
  Qed.

  Lemma before_dotted m :
    m_imports m = [INormal [(p ++ [b], None)]] ->
    resolve_ref w m (p ++ [b]) = Some (OMod src)
    /\ forall g, resolve_ref w m ((p ++ [b]) ++ [g]) =
                 if memN g (globals_of w src) then Some (OGlob src g) else None.
  Proof.
    intro Hi.
    destruct (resolve_import_path w m (p ++ [b]) src L_wf Hi find_src L_sh1) as [H1 H2].
    split; [exact H1|]. intro g. rewrite H2. unfold src. rewrite mod_attr_py. reflexivity.
  Qed.

  (* shapes of the references the theorem speaks about *)
  Lemma ref_ok_base st base r :
    style_base p b st = Some base -> ref_ok w p b st r = true ->
    r = base \/ exists g, In g (globals_of w src) /\ r = base ++ [g].
  Proof.
    intros Hb H. unfold ref_ok in H. rewrite Hb in H. apply orb_true_iff in H as [H|H].
    - left. apply dotted_eqb_eq. exact H.
    - right. apply existsb_exists in H as [g [Hg1 Hg2]]. exists g. split; [exact Hg1|].
      apply dotted_eqb_eq. exact Hg2.
  Qed.

  Definition refs_preserved (m m' : pymod) : Prop :=
    length (m_refs m') = length (m_refs m) /\
    forall i r o, nth_error (m_refs m) i = Some r -> resolve_ref w m r = Some o ->
      exists r', nth_error (m_refs m') i = Some r' /\ resolve_ref w' m' r' = Some (move_obj rho o).

  Lemma refs_preserved_map m m' f :
    m_refs m' = map f (m_refs m) ->
    (forall r o, In r (m_refs m) -> resolve_ref w m r = Some o -> resolve_ref w' m' (f r) = Some (move_obj rho o)) ->
    refs_preserved m m'.
  Proof.
    intros Hm H. split; [rewrite Hm; apply map_length|].
    intros i r o Hn Hr. exists (f r). split.
    - rewrite Hm. apply map_nth_error. exact Hn.
    - apply H; [eapply nth_error_In; exact Hn|exact Hr].
  Qed.

  Lemma refs_preserved_same m m' :
    m_refs m' = m_refs m ->
    (forall r o, In r (m_refs m) -> resolve_ref w m r = Some o -> resolve_ref w' m' r = Some (move_obj rho o)) ->
    refs_preserved m m'.
  Proof. intros Hm H. apply (refs_preserved_map m m' (fun r => r)); [rewrite map_id; exact Hm|exact H]. Qed.

  Theorem move_module_client F name st refs :
    style_side V w p b D F st = true ->
    forallb (ref_ok w p b st) refs = true ->
    exists m', change_occurrences V w src D (client_of p b F name st refs) = Done m'
               /\ m_folder m' = F /\ m_name m' = name
               /\ refs_preserved (client_of p b F name st refs) m'.
  Proof.
    intros Hside Hrefs. rewrite forallb_forall in Hrefs.
    unfold style_side in Hside. apply andb_true_iff in Hside as [Hfb Hst]. fold l in Hfb.
    destruct st as [|x|xo|g k| |xr|g k].
    - (* import p.b *)
      eexists. split; [apply co_import|].
      + intros r Hr. destruct (ref_ok_base StImport _ r eq_refl (Hrefs r Hr)) as [->|[g [_ ->]]].
        * exists []. rewrite app_nil_r. reflexivity.
        * exists [g]. reflexivity.
      + split; [reflexivity|]. split; [reflexivity|].
        apply refs_preserved_map with (f := fun r => (D ++ [b]) ++ skipn (S (length p)) r); [reflexivity|].
        intros r o Hr Ho. cbn [client_of m_refs] in Hr.
        set (m := client_of p b F name StImport refs) in *.
        destruct (before_dotted m eq_refl) as [B1 B2].
        replace (S (length p)) with (length (p ++ [b])) by (rewrite app_length; cbn; lia).
        match goal with |- resolve_ref w' ?mm _ = _ => destruct (after_dotted mm eq_refl) as [A1 A2] end.
        destruct (ref_ok_base StImport _ r eq_refl (Hrefs r Hr)) as [->|[g [Hg ->]]].
        * rewrite <- (app_nil_r (p ++ [b])) at 2. rewrite skipn_app_len, app_nil_r.
          rewrite B1 in Ho. inversion Ho; subst o. rewrite A1. cbn [move_obj]. rewrite rho_src. reflexivity.
        * cbn [style_base] in *. rewrite skipn_app_len. rewrite B2 in Ho. rewrite A2.
          destruct (memN g (globals_of w src)); [|discriminate]. inversion Ho; subst o.
          cbn [move_obj]. rewrite rho_src. reflexivity.
    - (* import p.b as x *)
      apply negb_true_iff in Hst.
      eexists. split; [apply co_import_as; auto|].
      + intros r Hr. destruct (ref_ok_base (StImportAs x) _ r eq_refl (Hrefs r Hr)) as [->|[g [_ ->]]]; [left; reflexivity|right; eexists; reflexivity].
      + split; [reflexivity|]. split; [reflexivity|].
        apply refs_preserved_same; [reflexivity|]. intros r o Hr Ho. cbn [client_of m_refs] in Hr.
        eapply (single_mod_preserved _ _ x); eauto.
        * apply envB_import_as.
        * apply envA_import_as.
        * destruct (ref_ok_base (StImportAs x) _ r eq_refl (Hrefs r Hr)) as [->|[g [_ ->]]]; [left; reflexivity|right; eexists; reflexivity].
    - (* from p import b [as x] *)
      assert (Hp : p <> []) by (destruct p; [discriminate|discriminate]).
      eexists. split; [apply co_from_pkg; auto|].
      + intros r Hr. destruct (ref_ok_base (StFromPkg xo) _ r eq_refl (Hrefs r Hr)) as [->|[g [_ ->]]]; [left; reflexivity|right; eexists; reflexivity].
      + split; [reflexivity|]. split; [reflexivity|].
        apply refs_preserved_same; [reflexivity|]. intros r o Hr Ho. cbn [client_of m_refs] in Hr.
        eapply (single_mod_preserved _ _ (or_name xo b)); eauto.
        * apply envB_from_pkg. exact Hp.
        * apply envA_from_pkg.
        * destruct (ref_ok_base (StFromPkg xo) _ r eq_refl (Hrefs r Hr)) as [->|[g' [_ ->]]]; [left; reflexivity|right; eexists; reflexivity].
    - (* from p.b import g [as k] *)
      apply andb_true_iff in Hst as [Hgb Hgs]. apply negb_true_iff in Hgb. apply negb_true_iff in Hgs.
      assert (Hshape : forall r, In r refs -> r = [or_name k g]).
      { intros r Hr. specialize (Hrefs r Hr). unfold ref_ok in Hrefs. cbn [style_base] in Hrefs.
        apply dotted_eqb_eq. exact Hrefs. }
      eexists. split; [apply co_from_mod; auto|].
      split; [reflexivity|]. split; [reflexivity|].
      apply refs_preserved_same; [reflexivity|]. intros r o Hr Ho. cbn [client_of m_refs] in Hr.
      eapply (single_glob_preserved _ _ (or_name k g) g); eauto.
      * apply envB_from_mod. exact Hgs.
      * apply envA_from_mod. exact Hgs.
    - (* from p.b import * *)
      assert (Hshape : forall r, In r refs -> exists g, In g (globals_of w src) /\ r = [g]).
      { intros r Hr. specialize (Hrefs r Hr). unfold ref_ok in Hrefs. cbn [style_base] in Hrefs.
        apply existsb_exists in Hrefs as [g [Hg1 Hg2]]. exists g. split; [exact Hg1|apply dotted_eqb_eq; exact Hg2]. }
      eexists. split; [apply co_star; auto|].
      + intros r Hr. destruct (Hshape r Hr) as [g [_ ->]]. eauto.
      + split; [reflexivity|]. split; [reflexivity|].
        apply refs_preserved_same; [reflexivity|]. intros r o Hr Ho. cbn [client_of m_refs] in Hr.
        eapply star_preserved; eauto.
        * apply envB_star.
        * apply envA_star.
    - (* from . import b [as x] *)
      apply andb_true_iff in Hst as [Hst Hx]. apply andb_true_iff in Hst as [HF Hp0].
      apply path_eqb_eq in HF. subst F.
      assert (Hp : p <> []) by (destruct p; [discriminate|discriminate]).
      destruct (v_relctx V) eqn:Hv.
      + (* the import context knows the folder: rewritten like  from p import b [as x]  *)
        eexists. split; [apply co_rel_pkg_fixed; auto|].
        * intros r Hr. destruct (ref_ok_base (StRelPkg xr) _ r eq_refl (Hrefs r Hr)) as [->|[g [_ ->]]];
            [left; reflexivity|right; eexists; reflexivity].
        * split; [reflexivity|]. split; [reflexivity|].
          apply refs_preserved_same; [reflexivity|]. intros r o Hr Ho. cbn [client_of m_refs] in Hr.
          eapply (single_mod_preserved _ _ (or_name xr b)); eauto.
          -- apply envB_rel_pkg. exact Hp.
          -- apply envA_from_pkg.
          -- destruct (ref_ok_base (StRelPkg xr) _ r eq_refl (Hrefs r Hr)) as [->|[g' [_ ->]]];
               [left; reflexivity|right; eexists; reflexivity].
      + (* as found: only the unaliased form, through remove_old_imports + import D.b *)
        destruct xr as [xa|]; [discriminate|].
        assert (Hshape : forall r, In r refs -> r = [b] \/ exists g, In g (globals_of w src) /\ r = [b] ++ [g]).
        { intros r Hr. apply (ref_ok_base (StRelPkg None) [b] r eq_refl (Hrefs r Hr)). }
        eexists. split; [apply co_rel_pkg; auto|].
        * intros r Hr. destruct (Hshape r Hr) as [->|[g [_ ->]]]; [exists []; reflexivity|exists [g]; reflexivity].
        * split; [reflexivity|]. split; [reflexivity|].
          apply refs_preserved_map with (f := fun r => (D ++ [b]) ++ skipn 1 r); [reflexivity|].
          intros r o Hr Ho. cbn [client_of m_refs] in Hr.
          assert (Hne : match refs with [] => [] | _ :: _ => [INormal [(D ++ [b], @None N)]] end = [INormal [(D ++ [b], None)]]).
          { destruct refs; [destruct Hr|reflexivity]. }
          match goal with |- resolve_ref w' ?mm _ = _ => destruct (after_dotted mm Hne) as [A1 A2] end.
          set (m := client_of p b p name (StRelPkg None) refs) in *.
          pose proof (envB_rel_pkg None Hp) as HB. cbn [or_name] in HB.
          destruct (Hshape r Hr) as [->|[g [Hg ->]]].
          -- replace ((D ++ [b]) ++ skipn 1 [b]) with (D ++ [b]) by (cbn [skipn]; rewrite app_nil_r; reflexivity).
             rewrite (resolve_single w m b _ HB) in Ho. inversion Ho; subst o.
             rewrite A1. cbn [move_obj]. rewrite rho_src. reflexivity.
          -- replace ((D ++ [b]) ++ skipn 1 ([b] ++ [g])) with ((D ++ [b]) ++ [g]) by reflexivity.
             change ([b] ++ [g]) with [b; g] in Ho.
             rewrite (resolve_single_attr w m b src g HB) in Ho.
             unfold src in Ho. rewrite mod_attr_py in Ho. fold src in Ho. rewrite A2.
             destruct (memN g (globals_of w src)); [|discriminate]. inversion Ho; subst o.
             cbn [move_obj]. rewrite rho_src. reflexivity.
    - (* from .b import g [as k] *)
      apply andb_true_iff in Hst as [Hst Hgs]. apply andb_true_iff in Hst as [Hst Hgb].
      apply andb_true_iff in Hst as [HF Hp0]. apply path_eqb_eq in HF. subst F.
      apply negb_true_iff in Hgb. apply negb_true_iff in Hgs.
      assert (Hp : p <> []) by (destruct p; [discriminate|discriminate]).
      assert (Hshape : forall r, In r refs -> r = [or_name k g]).
      { intros r Hr. specialize (Hrefs r Hr). unfold ref_ok in Hrefs. cbn [style_base] in Hrefs.
        apply dotted_eqb_eq. exact Hrefs. }
      eexists. split; [apply co_rel_mod; auto|].
      split; [reflexivity|]. split; [reflexivity|].
      apply refs_preserved_same; [reflexivity|]. intros r o Hr Ho. cbn [client_of m_refs] in Hr.
      eapply (single_glob_preserved _ _ (or_name k g) g); eauto.
      * apply envB_rel_mod; auto.
      * apply envA_from_mod. exact Hgs.
  Qed.

  (* ------------------------------------------------------------------ no stale import *)
  Lemma resolve_some_ok (wx : world) m r o : resolve_ref wx m r = Some o -> imports_ok wx m = true.
  Proof. unfold resolve_ref. destruct (imports_ok wx m); [reflexivity|discriminate]. Qed.

  Lemma ok_of_env (wx : world) m e : env_of false wx (m_folder m) (m_imports m) = e -> env_ok e = true -> imports_ok wx m = true.
  Proof. intros H1 H2. unfold imports_ok. rewrite H1. exact H2. Qed.

  Lemma ok_glob m m' y g :
    env_of false w (m_folder m) (m_imports m) = [(y, mod_attr w (fun _ => true) src g)] ->
    env_of false w' (m_folder m') (m_imports m') = [(y, mod_attr w' (fun _ => true) new g)] ->
    imports_ok w m = true -> imports_ok w' m' = true.
  Proof.
    intros H1 H2. unfold imports_ok. rewrite H1, H2. unfold src, new. rewrite !mod_attr_py, globals_new.
    destruct (memN g (globals_of w (RPy p b))); auto.
  Qed.

  Theorem move_module_all_import F name st refs m' :
    style_side V w p b D F st = true ->
    forallb (ref_ok w p b st) refs = true ->
    change_occurrences V w src D (client_of p b F name st refs) = Done m' ->
    imports_ok w (client_of p b F name st refs) = true ->
    imports_ok w' m' = true.
  Proof.
    intros Hside Hrefs Hco Hok. rewrite forallb_forall in Hrefs.
    unfold style_side in Hside. apply andb_true_iff in Hside as [Hfb Hst]. fold l in Hfb.
    destruct st as [|x|xo|g k| |xr|g k].
    - change (client_of p b F name StImport refs) with (mI F name refs) in Hco.
      rewrite co_import in Hco.
      2:{ intros r Hr. destruct (ref_ok_base StImport _ r eq_refl (Hrefs r Hr)) as [->|[g [_ ->]]].
          - exists []. rewrite app_nil_r. reflexivity.
          - exists [g]. reflexivity. }
      inversion Hco; subst m'.
      match goal with |- imports_ok w' ?mm = _ => destruct (after_dotted mm eq_refl) as [A1 _] end.
      eapply resolve_some_ok; eauto.
    - apply negb_true_iff in Hst. rewrite co_import_as in Hco; auto.
      2:{ intros r Hr. destruct (ref_ok_base (StImportAs x) _ r eq_refl (Hrefs r Hr)) as [->|[g [_ ->]]];
          [left; reflexivity|right; eexists; reflexivity]. }
      inversion Hco; subst m'. eapply ok_of_env; [apply envA_import_as|reflexivity].
    - assert (Hp : p <> []) by (destruct p; [discriminate|discriminate]).
      rewrite co_from_pkg in Hco; auto.
      2:{ intros r Hr. destruct (ref_ok_base (StFromPkg xo) _ r eq_refl (Hrefs r Hr)) as [->|[g [_ ->]]];
          [left; reflexivity|right; eexists; reflexivity]. }
      inversion Hco; subst m'. eapply ok_of_env; [apply envA_from_pkg|reflexivity].
    - apply andb_true_iff in Hst as [Hgb Hgs]. apply negb_true_iff in Hgb. apply negb_true_iff in Hgs.
      rewrite co_from_mod in Hco; auto.
      2:{ intros r Hr. specialize (Hrefs r Hr). unfold ref_ok in Hrefs. cbn [style_base] in Hrefs.
          apply dotted_eqb_eq. exact Hrefs. }
      inversion Hco; subst m'.
      eapply (ok_glob (client_of p b F name (StFromMod g k) refs) _ (or_name k g) g); eauto.
      + apply envB_from_mod. exact Hgs.
      + apply envA_from_mod. exact Hgs.
    - rewrite co_star in Hco; auto.
      2:{ intros r Hr. specialize (Hrefs r Hr). unfold ref_ok in Hrefs. cbn [style_base] in Hrefs.
          apply existsb_exists in Hrefs as [g [_ Hg2]]. exists g. apply dotted_eqb_eq. exact Hg2. }
      inversion Hco; subst m'. eapply ok_of_env; [apply envA_star|apply env_ok_globs].
    - apply andb_true_iff in Hst as [Hst Hx]. apply andb_true_iff in Hst as [HF Hp0].
      apply path_eqb_eq in HF. subst F.
      assert (Hp : p <> []) by (destruct p; [discriminate|discriminate]).
      destruct (v_relctx V) eqn:Hv.
      + rewrite co_rel_pkg_fixed in Hco; auto.
        2:{ intros r Hr. destruct (ref_ok_base (StRelPkg xr) _ r eq_refl (Hrefs r Hr)) as [->|[g [_ ->]]];
            [left; reflexivity|right; eexists; reflexivity]. }
        inversion Hco; subst m'. eapply ok_of_env; [apply envA_from_pkg|reflexivity].
      + destruct xr as [xa|]; [discriminate|].
        rewrite co_rel_pkg in Hco; auto.
        2:{ intros r Hr. destruct (ref_ok_base (StRelPkg None) [b] r eq_refl (Hrefs r Hr)) as [->|[g [_ ->]]];
            [exists []; reflexivity|exists [g]; reflexivity]. }
        inversion Hco; subst m'. destruct refs as [|r0 rs]; [reflexivity|].
        match goal with |- imports_ok w' ?mm = _ => destruct (after_dotted mm eq_refl) as [A1 _] end.
        eapply resolve_some_ok; eauto.
    - apply andb_true_iff in Hst as [Hst Hgs]. apply andb_true_iff in Hst as [Hst Hgb].
      apply andb_true_iff in Hst as [HF Hp0]. apply path_eqb_eq in HF. subst F.
      apply negb_true_iff in Hgb. apply negb_true_iff in Hgs.
      assert (Hp : p <> []) by (destruct p; [discriminate|discriminate]).
      rewrite co_rel_mod in Hco; auto.
      2:{ intros r Hr. specialize (Hrefs r Hr). unfold ref_ok in Hrefs. cbn [style_base] in Hrefs.
          apply dotted_eqb_eq. exact Hrefs. }
      inversion Hco; subst m'.
      eapply (ok_glob (client_of p b p name (StRelMod g k) refs) _ (or_name k g) g); eauto.
      + apply envB_rel_mod; auto.
      + apply envA_from_mod. exact Hgs.
  Qed.
End ModuleMove.

(* ------------------------------------------------------------------ the runner's domain predicate *)
Lemma list_eqb_eq {A} (eqb : A -> A -> bool) :
  (forall x y, eqb x y = true -> x = y) -> forall a c, list_eqb eqb a c = true -> a = c.
Proof.
  intros H a. induction a as [|x a IH]; intros [|y c] E; cbn in E; try discriminate; [reflexivity|].
  apply andb_true_iff in E as [E1 E2]. f_equal; [apply H; exact E1|apply IH; exact E2].
Qed.

Lemma optN_eqb_eq a c : optN_eqb a c = true -> a = c.
Proof. destruct a, c; cbn; try discriminate; try reflexivity. intro H. apply N.eqb_eq in H. congruence. Qed.

Lemma pairD_eqb_eq a c : pairD_eqb a c = true -> a = c.
Proof.
  destruct a, c. unfold pairD_eqb. cbn [fst snd]. intro H. apply andb_true_iff in H as [H1 H2].
  apply dotted_eqb_eq in H1. apply optN_eqb_eq in H2. congruence.
Qed.

Lemma pairN_eqb_eq a c : pairN_eqb a c = true -> a = c.
Proof.
  destruct a, c. unfold pairN_eqb. cbn [fst snd]. intro H. apply andb_true_iff in H as [H1 H2].
  apply N.eqb_eq in H1. apply optN_eqb_eq in H2. congruence.
Qed.

Lemma istmt_eqb_eq a c : istmt_eqb a c = true -> a = c.
Proof.
  destruct a, c; cbn; try discriminate; intro H.
  - f_equal. apply (list_eqb_eq pairD_eqb pairD_eqb_eq). exact H.
  - apply andb_true_iff in H as [H H3]. apply andb_true_iff in H as [H1 H2].
    apply Nat.eqb_eq in H1. apply dotted_eqb_eq in H2.
    apply (list_eqb_eq pairN_eqb pairN_eqb_eq) in H3. congruence.
  - reflexivity.
Qed.

Theorem move_module_domain V w p b D m :
  move_domain V w (RPy p b) D m = true ->
  exists m', move_module_text V w (RPy p b) D m = Done m'
             /\ m_folder m' = m_folder m /\ m_name m' = m_name m
             /\ refs_preserved w p b D m m'.
Proof.
  unfold move_domain. intro H.
  apply andb_true_iff in H as [H Hst]. apply andb_true_iff in H as [H _].
  apply andb_true_iff in H as [Hlegal Hne]. apply negb_true_iff in Hne.
  destruct (style_of p b m) as [st|] eqn:Est; [|discriminate].
  apply andb_true_iff in Hst as [Hst Himps]. apply andb_true_iff in Hst as [Hside Hrefs].
  apply (list_eqb_eq istmt_eqb istmt_eqb_eq) in Himps.
  assert (Em : m = client_of p b (m_folder m) (m_name m) st (m_refs m)).
  { destruct m as [f n i r]. cbn in *. subst i. reflexivity. }
  unfold move_module_text. rewrite Hne.
  destruct (move_module_client V w p b D Hlegal (m_folder m) (m_name m) st (m_refs m) Hside Hrefs)
    as [m' [H1 [H2 [H3 H4]]]].
  exists m'. rewrite Em at 1. split; [exact H1|]. split; [exact H2|]. split; [exact H3|].
  rewrite Em. exact H4.
Qed.

Theorem move_module_all_import_domain V w p b D m m' :
  move_domain V w (RPy p b) D m = true ->
  move_module_text V w (RPy p b) D m = Done m' ->
  imports_ok w m = true -> imports_ok (move_world (RPy p b) D w) m' = true.
Proof.
  unfold move_domain. intros H Hco Hok.
  apply andb_true_iff in H as [H Hst]. apply andb_true_iff in H as [H _].
  apply andb_true_iff in H as [Hlegal Hne]. apply negb_true_iff in Hne.
  destruct (style_of p b m) as [st|] eqn:Est; [|discriminate].
  apply andb_true_iff in Hst as [Hst Himps]. apply andb_true_iff in Hst as [Hside Hrefs].
  apply (list_eqb_eq istmt_eqb istmt_eqb_eq) in Himps.
  assert (Em : m = client_of p b (m_folder m) (m_name m) st (m_refs m)).
  { destruct m as [f n i r]. cbn in *. subst i. reflexivity. }
  unfold move_module_text in Hco. rewrite Hne in Hco. rewrite Em in Hco, Hok.
  exact (move_module_all_import V w p b D Hlegal (m_folder m) (m_name m) st (m_refs m) m' Hside Hrefs Hco Hok).
Qed.
