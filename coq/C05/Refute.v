(* Concrete projects on which the faithful model of MoveModule / Rename breaks a reference: the witnesses of
   the C05 *_refuted lemmas.  Each is also a replay file under findings/ that fails on the real library.
   Definitions only. *)
From Coq Require Import List NArith Bool Arith.
From RopeVerif.C05 Require Import Layout Move Domain.
Import ListNotations.

(* identifiers *)
Definition a_ : N := 10%N. Definition b_ : N := 11%N. Definition c_ : N := 12%N.
Definition f_ : N := 13%N. Definition g_ : N := 14%N. Definition x_ : N := 15%N.
Definition k_ : N := 16%N. Definition q_ : N := 17%N. Definition p_ : N := 18%N.
Definition r_ : N := 19%N. Definition s_ : N := 20%N. Definition t_ : N := 21%N.
Definition nb_ : N := 22%N.

Fixpoint nth_opt {A} (l : list A) (i : nat) : option A := nth_error l i.

(* some reference that meant o before does not mean (moved o) after *)
Definition breaks (before : list (option obj)) (after : list (option obj)) (mv : obj -> obj) : bool :=
  existsb (fun pr : option obj * option obj =>
             match fst pr with
             | Some o => negb (opt_eqb obj_eqb (snd pr) (Some (mv o)))
             | None => false
             end) (combine before after).

Definition breaks_move (V : variant) (w : world) (src : res) (dest : path) (m : pymod) : bool :=
  match move_module_text V w src dest m with
  | Done m' =>
      let m2 := move_pymod_loc src dest m' in
      let w2 := move_world src dest w in
      Nat.eqb (length (m_refs m2)) (length (m_refs m))
      && breaks (map (resolve_ref w m) (m_refs m)) (map (resolve_ref w2 m2) (m_refs m2))
                (move_obj (move_res src dest))
  | _ => false
  end.

Definition breaks_rename (w : world) (src : res) (newn : N) (m : pymod) : bool :=
  let m' := rename_module_text w src newn m in
  let w2 := map_world (rename_res src newn) w in
  breaks (map (resolve_ref w m) (m_refs m)) (map (resolve_ref w2 m') (m_refs m')) (move_obj (rename_res src newn)).

(* the code as it is now: the three MoveModule repairs 9f7c670, 4ab2467, 0b4a7b3 are in *)
Definition repaired : variant := {| v_relctx := true; v_rootfrom := true; v_case3abs := true |}.

(* project: packages a (with global g), c ; modules a/b.py {f}, a/t.py {f} *)
Definition w1 : world :=
  {| w_l := [RDir [a_]; RPy [a_] INIT; RPy [a_] b_; RPy [a_] t_; RDir [c_]; RPy [c_] INIT];
     w_g := [(RPy [a_] INIT, [g_]); (RPy [a_] b_, [f_]); (RPy [a_] t_, [f_])] |}.

Definition mk (folder : path) (imps : list istmt) (refs : list dotted) : pymod :=
  {| m_folder := folder; m_name := k_; m_imports := imps; m_refs := refs |}.

(* from . import b as x        (client a/k.py) *)
Definition m_rel_alias := mk [a_] [IFrom 1 [] [(b_, Some x_)]] [[x_; f_]].
(* from a import b as x        (destination: project root) *)
Definition m_root_alias := mk [] [IFrom 0 [a_] [(b_, Some x_)]] [[x_; f_]].
(* import a.b ; a.b.f ; a.g *)
Definition m_pkg_name := mk [] [INormal [([a_; b_], None)]] [[a_; b_; f_]; [a_; g_]].
(* from a import b as x ; from a import t as x ; x.f *)
Definition m_twice := mk [] [IFrom 0 [a_] [(b_, Some x_)]; IFrom 0 [a_] [(t_, Some x_)]] [[x_; f_]].
(* import a.b ; import a.t as c ; a.b.f ; c.f *)
Definition m_head := mk [] [INormal [([a_; b_], None)]; INormal [([a_; t_], Some c_)]] [[a_; b_; f_]; [c_; f_]].
(* from .. import b      (client a/p/k.py): the implementation raises AttributeError *)
Definition m_crash := mk [a_; p_] [IFrom 2 [] [(b_, None)]] [[b_; f_]].

(* c/__init__ defines g : from c import * ; from a import b ; b.f *)
Definition w2 : world :=
  {| w_l := w_l w1; w_g := (RPy [c_] INIT, [g_]) :: w_g w1 |}.
Definition m_star := mk [] [IFrom 0 [c_] [(STAR, None)]; IFrom 0 [a_] [(b_, None)]] [[b_; f_]].

(* package a/p with module a/p/s.py doing  from .. import q ; q.r *)
Definition w3 : world :=
  {| w_l := [RDir [a_]; RPy [a_] INIT; RPy [a_] q_; RDir [a_; p_]; RPy [a_; p_] INIT; RPy [a_; p_] s_;
             RPy [a_; p_] b_; RDir [c_]; RPy [c_] INIT];
     w_g := [(RPy [a_] q_, [r_]); (RPy [a_; p_] INIT, [g_]); (RPy [a_; p_] b_, [f_])] |}.
Definition m_leaving : pymod :=
  {| m_folder := [a_; p_]; m_name := s_; m_imports := [IFrom 2 [] [(q_, None)]]; m_refs := [[q_; r_]] |}.
(* import a ; from a.p.b import f ; f ; a.p.g *)
Definition m_ancestor := mk [] [INormal [([a_], None)]; IFrom 0 [a_; p_; b_] [(f_, None)]] [[f_]; [a_; p_; g_]].

(* a/q/r/b.py and a/q/r/k.py doing  from ...q.r.b import f *)
Definition w4 : world :=
  {| w_l := [RDir [a_]; RPy [a_] INIT; RDir [a_; q_]; RPy [a_; q_] INIT; RDir [a_; q_; r_]; RPy [a_; q_; r_] INIT;
             RPy [a_; q_; r_] b_; RDir [c_]; RPy [c_] INIT];
     w_g := [(RPy [a_; q_; r_] b_, [f_])] |}.
Definition m_dots := mk [a_; q_; r_] [IFrom 3 [q_; r_; b_] [(f_, None)]] [[f_]].

(* rename d.t : from a import t ; from c import t ; t.f     (here c plays the second package) *)
Definition w5 : world :=
  {| w_l := [RDir [a_]; RPy [a_] INIT; RPy [a_] t_; RDir [c_]; RPy [c_] INIT; RPy [c_] t_];
     w_g := [(RPy [a_] t_, [f_]); (RPy [c_] t_, [f_])] |}.
Definition m_ren_twice := mk [] [IFrom 0 [a_] [(t_, None)]; IFrom 0 [c_] [(t_, None)]] [[t_; f_]].
