(* Rename of a module file p/b.py to p/nb.py: every client in one of the listed import styles still reaches
   the module and its globals. *)
From Coq Require Import List NArith Bool Arith Lia.
From RopeVerif.C05 Require Import Layout LayoutProofs Move Domain MoveProofs.
Import ListNotations.

Lemma set_nth_hit (p : path) (b nb : N) rest :
  set_nth (S (length p)) nb ((p ++ [b]) ++ rest) = (p ++ [nb]) ++ rest.
Proof.
  unfold set_nth. cbn [pred]. induction p as [|x p IH]; [reflexivity|].
  change (firstn (length (x :: p)) (((x :: p) ++ [b]) ++ rest)) with (x :: firstn (length p) ((p ++ [b]) ++ rest)).
  change (skipn (S (length (x :: p))) (((x :: p) ++ [b]) ++ rest)) with (skipn (S (length p)) ((p ++ [b]) ++ rest)).
  change (((x :: p) ++ [nb]) ++ rest) with (x :: ((p ++ [nb]) ++ rest)). rewrite <- IH. reflexivity.
Qed.

Section ModuleRename.
  Variable w : world.
  Variable p : path.
  Variable b : N.
  Variable nb : N.
  Hypothesis Hlegal : rename_legal w p b nb = true.

  Let l := w_l w.
  Let src := RPy p b.
  Let new := RPy p nb.
  Let rho := rename_res src nb.
  Let w' := map_world rho w.
  Let l' := w_l w'.

  Lemma R_wf : wf_layout l = true.
  Proof. unfold rename_legal in Hlegal. split_andb. assumption. Qed.
  Lemma R_root : single_root l = true.
  Proof. unfold rename_legal in Hlegal. split_andb. assumption. Qed.
  Lemma R_src : has_py l p b = true.
  Proof. unfold rename_legal in Hlegal. split_andb. assumption. Qed.
  Lemma R_bS : N.eqb b STAR = false.
  Proof. unfold rename_legal in Hlegal. split_andb. apply negb_true_iff. assumption. Qed.
  Lemma R_bI : N.eqb b INIT = false.
  Proof. unfold rename_legal in Hlegal. split_andb. apply negb_true_iff. assumption. Qed.
  Lemma R_nI : N.eqb nb INIT = false.
  Proof. unfold rename_legal in Hlegal. split_andb. apply negb_true_iff. assumption. Qed.
  Lemma R_nS : N.eqb nb STAR = false.
  Proof. unfold rename_legal in Hlegal. split_andb. apply negb_true_iff. assumption. Qed.
  Lemma R_nb : N.eqb nb b = false.
  Proof. unfold rename_legal in Hlegal. split_andb. apply negb_true_iff. assumption. Qed.
  Lemma R_nodir : is_dir l (p ++ [b]) = false.
  Proof. unfold rename_legal in Hlegal. split_andb. apply negb_true_iff. assumption. Qed.
  Lemma R_dp : is_dir l p = true.
  Proof. unfold rename_legal in Hlegal. split_andb. assumption. Qed.
  Lemma R_col1 : is_dir l (p ++ [nb]) = false.
  Proof. unfold rename_legal in Hlegal. split_andb. apply negb_true_iff. assumption. Qed.
  Lemma R_col2 : has_py l p nb = false.
  Proof. unfold rename_legal in Hlegal. split_andb. apply negb_true_iff. assumption. Qed.
  Lemma R_g : assoc_res (RPy p nb) (w_g w) = None.
  Proof.
    unfold rename_legal in Hlegal. split_andb.
    match goal with H : negb (is_some _) = true |- _ => destruct (assoc_res (RPy p nb) (w_g w)); [discriminate|reflexivity] end.
  Qed.
  Lemma R_sh1 : no_global_shadow w [] (p ++ [b]) = true.
  Proof. unfold rename_legal in Hlegal. split_andb. assumption. Qed.
  Lemma R_sh2 : no_global_shadow w [] (p ++ [nb]) = true.
  Proof. unfold rename_legal in Hlegal. split_andb. assumption. Qed.

  Lemma new_ne_src : new <> src.
  Proof. unfold new, src. intro E. inversion E as [E1]. pose proof R_nb as H. rewrite E1, N.eqb_refl in H. discriminate. Qed.

  Lemma rho_eq r : rho r = if res_eqb r src then new else r.
  Proof. reflexivity. Qed.

  Lemma rho_src : rho src = new.
  Proof. rewrite rho_eq, res_eqb_refl. reflexivity. Qed.

  (* --- look-ups before *)
  Lemma r_find_root_dir q : q <> [] -> is_dir l q = true -> find_in_folder l [] q = Some (RDir q).
  Proof. intros. apply (find_dir l [] q); auto. apply R_wf. Qed.

  Lemma r_find_src : find_in_folder l [] (p ++ [b]) = Some src.
  Proof. apply (find_py l p b []); cbn [app]; auto using R_wf, R_dp, R_nodir, R_src. Qed.

  Lemma r_find_module_eq d : find_module l d = find_in_folder l [] d.
  Proof. apply find_module_single_root. apply R_root. Qed.

  Lemma r_dir_prefix_p i : is_dir l (firstn i p) = true.
  Proof. apply (wf_dir_prefix l (firstn i p) (skipn i p)); [apply R_wf|]. rewrite firstn_skipn. apply R_dp. Qed.

  Lemma r_abs_found F d r : find_in_folder l [] d = Some r -> abs_import true l F d = Some r.
  Proof. intro H. unfold abs_import, find_module_from. rewrite r_find_module_eq, H. reflexivity. Qed.

  Lemma r_abs_prefix_p F i : 0 < i <= length p -> abs_import true l F (firstn i p) = Some (RDir (firstn i p)).
  Proof.
    intro Hi. apply r_abs_found. apply r_find_root_dir; [|apply r_dir_prefix_p].
    destruct p; cbn in *; [lia|]. destruct i; [lia|discriminate].
  Qed.

  Lemma r_abs_src F : abs_import true l F (p ++ [b]) = Some src.
  Proof. apply r_abs_found. apply r_find_src. Qed.

  Lemma r_occ_scan_skip ev q : forall pre d,
    (forall i, 0 < i <= length q -> ev (pre ++ firstn i q) = false) ->
    occ_scan src ev pre (q ++ d) = occ_scan src ev (pre ++ q) d.
  Proof.
    induction q as [|x q IH]; intros pre d H.
    - rewrite app_nil_r. reflexivity.
    - cbn [app occ_scan]. pose proof (H 1 ltac:(cbn; lia)) as H1. cbn [firstn] in H1. rewrite H1, andb_false_r.
      rewrite IH. { rewrite <- app_assoc. reflexivity. }
      intros i Hi. rewrite <- app_assoc. apply (H (S i)). cbn. lia.
  Qed.

  Lemma r_occ_index_hit ev rest :
    (forall i, 0 < i <= length p -> ev (firstn i p) = false) ->
    ev (p ++ [b]) = true ->
    occ_index src ev ((p ++ [b]) ++ rest) = Some (S (length p)).
  Proof.
    intros H1 H2. unfold occ_index. rewrite <- app_assoc. rewrite r_occ_scan_skip by exact H1.
    cbn [app occ_scan src_name src]. rewrite N.eqb_refl, H2. reflexivity.
  Qed.

  Lemma r_occ_scan_none ev q : forall pre,
    (forall i, 0 < i <= length q -> ev (pre ++ firstn i q) = false) -> occ_scan src ev pre q = None.
  Proof. intros pre H. rewrite <- (app_nil_r q). rewrite r_occ_scan_skip by exact H. reflexivity. Qed.

  Lemma r_occ_from_abs F rest : occ_from w src F 0 ((p ++ [b]) ++ rest) = Some (S (length p)).
  Proof.
    unfold occ_from. cbn [Nat.leb]. apply r_occ_index_hit.
    - intros i Hi. cbn [from_module]. fold l. rewrite r_abs_prefix_p by exact Hi. reflexivity.
    - cbn [from_module]. fold l. rewrite r_abs_src. unfold is_moving_res, res_opt_is. apply res_eqb_refl.
  Qed.

  Lemma r_occ_from_abs0 F : occ_from w src F 0 (p ++ [b]) = Some (S (length p)).
  Proof. rewrite <- (app_nil_r (p ++ [b])). apply r_occ_from_abs. Qed.

  Lemma r_occ_abs_hit F rest : occ_abs w src F ((p ++ [b]) ++ rest) = Some (S (length p)).
  Proof.
    unfold occ_abs. apply r_occ_index_hit.
    - intros i Hi. fold l. rewrite r_abs_prefix_p by exact Hi. reflexivity.
    - fold l. rewrite r_abs_src. unfold is_moving_res, res_opt_is. apply res_eqb_refl.
  Qed.

  Lemma r_occ_from_p F : occ_from w src F 0 p = None.
  Proof.
    unfold occ_from. cbn [Nat.leb]. unfold occ_index. apply r_occ_scan_none.
    intros i Hi. cbn [app from_module]. fold l. rewrite r_abs_prefix_p by exact Hi. reflexivity.
  Qed.

  Lemma r_attr_p_b chk : p <> [] -> chk src = true -> mod_attr w chk (RDir p) b = Some (OMod src).
  Proof.
    intros Hp Hc. unfold mod_attr. rewrite (shadow_last w p b Hp R_sh1).
    fold l. rewrite find_single. rewrite R_nodir, R_src. fold src. rewrite Hc. reflexivity.
  Qed.

  Lemma r_rel_find_b : find_relative_module l [b] p 1 = Some src.
  Proof. unfold find_relative_module. cbn [pred up]. rewrite find_single. rewrite R_nodir, R_src. reflexivity. Qed.

  (* --- the layout after the rename *)
  Lemma r_mem_dir q : mem (RDir q) l' = mem (RDir q) l.
  Proof.
    unfold l', w', map_world. cbn [w_l]. fold l.
    induction l as [|r l0 IH]; [reflexivity|].
    cbn [map mem existsb]. unfold mem in IH. rewrite IH. f_equal.
    rewrite rho_eq. destruct (res_eqb r src) eqn:E.
    - apply res_eqb_eq in E. subst r. reflexivity.
    - reflexivity.
  Qed.

  Lemma r_is_dir q : is_dir l' q = is_dir l q.
  Proof. unfold is_dir. destruct q; [reflexivity|]. apply r_mem_dir. Qed.

  Lemma r_has_py_new : has_py l' p nb = true.
  Proof.
    pose proof R_src as H. unfold has_py in *. apply mem_In in H. apply mem_In.
    unfold l', w', map_world. cbn [w_l]. apply in_map_iff. exists src. split; [apply rho_src|exact H].
  Qed.

  Lemma r_wf : wf_layout l' = true.
  Proof.
    pose proof R_wf as Hwf. unfold wf_layout in *. rewrite forallb_forall in *. intros r' Hin.
    unfold l', w', map_world in Hin. cbn [w_l] in Hin.
    apply in_map_iff in Hin as [r [H1 H2]]. specialize (Hwf r H2).
    apply andb_true_iff in Hwf as [Ha Hb]. rewrite rho_eq in H1.
    destruct (res_eqb r src) eqn:E.
    - subst r'. cbn [res_parent new]. rewrite r_is_dir, R_dp. reflexivity.
    - subst r'. rewrite r_is_dir. fold l. rewrite Ha. exact Hb.
  Qed.

  Lemma r_find_new : find_in_folder l' [] (p ++ [nb]) = Some new.
  Proof.
    apply (find_py l' p nb []); cbn [app]; auto using r_wf, r_has_py_new.
    - rewrite r_is_dir. apply R_dp.
    - rewrite r_is_dir. apply R_col1.
  Qed.

  Lemma r_find_root_dir' q : q <> [] -> is_dir l q = true -> find_in_folder l' [] q = Some (RDir q).
  Proof. intros. apply (find_dir l' [] q); auto using r_wf. cbn [app]. rewrite r_is_dir. assumption. Qed.

  Lemma r_assoc_new : assoc_res new (w_g w') = assoc_res src (w_g w).
  Proof.
    pose proof R_g as Hg. unfold w', map_world. cbn [w_g].
    induction (w_g w) as [|[k v] g IH]; [reflexivity|].
    cbn [map assoc_res fst snd] in *. fold new in Hg.
    destruct (res_eqb k new) eqn:E1; [discriminate|].
    rewrite rho_eq. destruct (res_eqb k src) eqn:E2.
    - rewrite res_eqb_refl. reflexivity.
    - rewrite E1. apply IH. exact Hg.
  Qed.

  Lemma r_assoc_other r : r <> src -> r <> new -> assoc_res r (w_g w') = assoc_res r (w_g w).
  Proof.
    intros H1 H2. unfold w', map_world. cbn [w_g].
    induction (w_g w) as [|[k v] g IH]; [reflexivity|].
    cbn [map assoc_res fst snd]. rewrite rho_eq. destruct (res_eqb k src) eqn:E2.
    - apply res_eqb_eq in E2. subst k.
      rewrite (res_eqb_neq new r) by congruence. rewrite (res_eqb_neq src r) by congruence. exact IH.
    - destruct (res_eqb k r); [reflexivity|exact IH].
  Qed.

  Lemma r_globals_new : globals_of w' new = globals_of w src.
  Proof. unfold globals_of. cbn [init_file new src]. fold new src. rewrite r_assoc_new. reflexivity. Qed.

  Lemma r_globals_dir q : globals_of w' (RDir q) = globals_of w (RDir q).
  Proof.
    unfold globals_of. cbn [init_file]. rewrite r_assoc_other; [reflexivity| |].
    - intro E. inversion E as [[E1 E2]]. pose proof R_bI as H. rewrite <- E2, N.eqb_refl in H. discriminate.
    - intro E. inversion E as [[E1 E2]]. pose proof R_nI as H. rewrite <- E2, N.eqb_refl in H. discriminate.
  Qed.

  Lemma r_shadow pre d : no_global_shadow w' pre d = no_global_shadow w pre d.
  Proof.
    revert pre. induction d as [|n d IH]; intro pre; [reflexivity|].
    cbn [no_global_shadow]. rewrite IH. destruct pre; [reflexivity|]. rewrite r_globals_dir. reflexivity.
  Qed.

  Lemma r_attr_p_nb chk : p <> [] -> chk new = true -> mod_attr w' chk (RDir p) nb = Some (OMod new).
  Proof.
    intros Hp Hc. unfold mod_attr. rewrite r_globals_dir. rewrite (shadow_last w p nb Hp R_sh2).
    fold l'. rewrite find_single. rewrite r_is_dir, R_col1, r_has_py_new. fold new. rewrite Hc. reflexivity.
  Qed.

  (* --- rope's view of  import p.b  clients *)
  Let mI (F : path) (name : N) (refs : list dotted) := client_of p b F name StImport refs.
  Let impsI := [INormal [(p ++ [b], @None N)]].

  Lemma r_rope_eval_abs F name refs d c r :
    d <> [] -> p ++ [b] = d ++ c -> find_in_folder l [] d = Some r ->
    rope_eval w (mI F name refs) impsI d = Some (OMod r).
  Proof.
    intros Hd Hpre Hf. destruct d as [|h t0]; [congruence|].
    unfold rope_eval. apply eval_import_path; auto.
    - apply R_wf.
    - unfold env_of, impsI. cbn [flat_map bind_stmt bind_normal mI m_folder client_of].
      rewrite Hpre. cbn [app lookup_env]. rewrite N.eqb_refl. fold l.
      destruct (find_head l h t0 r Hf) as [r0 Hr0]. rewrite (r_abs_found F [h] r0 Hr0), Hr0. reflexivity.
    - apply (shadow_prefix w (h :: t0) c). rewrite <- Hpre. apply R_sh1.
  Qed.

  Lemma r_occ_ref_import F name refs rest :
    occ_ref w src (mI F name refs) impsI ((p ++ [b]) ++ rest) = Some (S (length p)).
  Proof.
    unfold occ_ref. apply r_occ_index_hit.
    - intros i Hi.
      rewrite (r_rope_eval_abs F name refs (firstn i p) (skipn i p ++ [b]) (RDir (firstn i p))).
      + reflexivity.
      + destruct p; cbn in *; [lia|]. destruct i; [lia|discriminate].
      + rewrite app_assoc, firstn_skipn. reflexivity.
      + apply r_find_root_dir; [|apply r_dir_prefix_p]. destruct p; cbn in *; [lia|]. destruct i; [lia|discriminate].
    - rewrite (r_rope_eval_abs F name refs (p ++ [b]) [] src); [|apply app_cons_not_nil|rewrite app_nil_r; reflexivity|apply r_find_src].
      cbn [is_moving_obj]. apply res_eqb_refl.
  Qed.

  (* --- the rewritten client, style by style *)
  Definition renamed (F : path) (name : N) (st : style) (refs : list dotted) : pymod :=
    {| m_folder := F; m_name := name;
       m_imports :=
         match st with
         | StImport => [INormal [(p ++ [nb], None)]]
         | StImportAs x => [INormal [(p ++ [nb], Some x)]]
         | StFromPkg x => [IFrom 0 p [(nb, x)]]
         | StFromMod g k => [IFrom 0 (p ++ [nb]) [(g, k)]]
         | StStar => [IFrom 0 (p ++ [nb]) [(STAR, None)]]
         | StRelPkg x => [IFrom 1 [] [(nb, x)]]
         | StRelMod g k => [IFrom 1 [nb] [(g, k)]]
         end;
       m_refs :=
         match st with
         | StImport => map (fun r => (p ++ [nb]) ++ skipn (S (length p)) r) refs
         | StFromPkg None | StRelPkg None => map (fun r => [nb] ++ skipn 1 r) refs
         | _ => refs
         end |}.

  Lemma ren_import F name refs :
    (forall r, In r refs -> exists rest, r = (p ++ [b]) ++ rest) ->
    rename_module_text w src nb (client_of p b F name StImport refs) = renamed F name StImport refs.
  Proof.
    intro Hrefs. unfold rename_module_text, renamed. cbn [client_of m_folder m_name m_imports m_refs style_imports].
    f_equal.
    - cbn [map ren_stmt]. unfold occ_normal. cbn [snd fst].
      change [INormal [(p ++ [b], None)]] with impsI. fold (mI F name refs).
      change (m_imports (mI F name refs)) with impsI.
      rewrite <- (app_nil_r (p ++ [b])). rewrite r_occ_ref_import, set_nth_hit, app_nil_r. reflexivity.
    - apply map_ext_in. intros r Hr. destruct (Hrefs r Hr) as [rest ->]. unfold ren_ref.
      change [INormal [(p ++ [b], None)]] with impsI. fold (mI F name refs).
      change (m_imports (mI F name refs)) with impsI.
      rewrite r_occ_ref_import, set_nth_hit. f_equal.
      replace (S (length p)) with (length (p ++ [b])) by (rewrite app_length; cbn; lia).
      rewrite skipn_app_len. reflexivity.
  Qed.

  Lemma ren_import_as F name x refs :
    N.eqb x b = false ->
    (forall r, In r refs -> r = [x] \/ exists g, r = [x; g]) ->
    rename_module_text w src nb (client_of p b F name (StImportAs x) refs) = renamed F name (StImportAs x) refs.
  Proof.
    intros Hxb Hrefs. unfold rename_module_text, renamed. cbn [client_of m_folder m_name m_imports m_refs style_imports].
    set (m := {| m_folder := F; m_name := name; m_imports := [INormal [(p ++ [b], Some x)]]; m_refs := refs |}).
    assert (Henv : env_of true w F [INormal [(p ++ [b], Some x)]] = [(x, Some (OMod src))]).
    { unfold env_of. cbn [flat_map bind_stmt bind_normal app]. fold l. rewrite r_abs_src. reflexivity. }
    f_equal.
    - cbn [map ren_stmt]. unfold occ_normal. cbn [snd fst m_folder m].
      rewrite <- (app_nil_r (p ++ [b])). rewrite r_occ_abs_hit, set_nth_hit, app_nil_r. reflexivity.
    - change (client_of p b F name (StImportAs x) refs) with m.
      transitivity (map (fun r : dotted => r) refs); [|apply map_id].
      apply map_ext_in. intros r Hr. unfold ren_ref, occ_ref, occ_index.
      destruct (Hrefs r Hr) as [->|[g ->]]; cbn [occ_scan app src_name src]; rewrite Hxb; cbn [andb]; [reflexivity|].
      assert (E : is_moving_obj src (rope_eval w m (m_imports m) [x; g]) = false).
      { unfold rope_eval. cbn [m_folder m m_imports]. rewrite Henv. unfold eval_dotted.
        cbn [lookup_env fold_left]. rewrite N.eqb_refl. cbn [step_attr]. unfold src. rewrite mod_attr_py.
        destruct (memN g (globals_of w (RPy p b))); reflexivity. }
      rewrite E, andb_false_r. reflexivity.
  Qed.

  Lemma ren_from_pkg F name xo refs :
    p <> [] -> match xo with Some y => N.eqb y b = false | None => True end ->
    (forall r, In r refs -> exists rest, r = [or_name xo b] ++ rest /\ (rest = [] \/ exists g, rest = [g])) ->
    rename_module_text w src nb (client_of p b F name (StFromPkg xo) refs) = renamed F name (StFromPkg xo) refs.
  Proof.
    intros Hp Hxo Hrefs. unfold rename_module_text, renamed. cbn [client_of m_folder m_name m_imports m_refs style_imports].
    set (m := {| m_folder := F; m_name := name; m_imports := [IFrom 0 p [(b, xo)]]; m_refs := refs |}).
    set (y := or_name xo b) in *.
    assert (Henv : env_of true w F [IFrom 0 p [(b, xo)]] = [(y, Some (OMod src))]).
    { unfold env_of. cbn [flat_map bind_stmt bind_from app from_module]. fold l.
      rewrite (r_abs_found F p (RDir p)) by (apply r_find_root_dir; [exact Hp|apply R_dp]).
      rewrite R_bS. rewrite r_attr_p_b by auto. reflexivity. }
    assert (Hy : rope_eval w m (m_imports m) [y] = Some (OMod src)).
    { unfold rope_eval. cbn [m_folder m m_imports]. rewrite Henv. unfold eval_dotted.
      cbn [lookup_env fold_left]. rewrite N.eqb_refl. reflexivity. }
    assert (Hyg : forall g, is_moving_obj src (rope_eval w m (m_imports m) [y; g]) = false).
    { intro g. unfold rope_eval. cbn [m_folder m m_imports]. rewrite Henv. unfold eval_dotted.
      cbn [lookup_env fold_left]. rewrite N.eqb_refl. cbn [step_attr]. unfold src. rewrite mod_attr_py.
      destruct (memN g (globals_of w (RPy p b))); reflexivity. }
    change (client_of p b F name (StFromPkg xo) refs) with m.
    f_equal.
    - cbn [map ren_stmt m_folder m]. rewrite r_occ_from_p. unfold from_name_occurs. cbn [fst snd src_name src].
      rewrite N.eqb_refl. change (match xo with Some x => x | None => b end) with y. fold m. rewrite Hy.
      cbn [is_moving_obj andb]. rewrite res_eqb_refl. reflexivity.
    - destruct xo as [x|]; subst y; cbn [or_name] in *.
      + transitivity (map (fun r : dotted => r) refs); [|apply map_id].
        apply map_ext_in. intros r Hr. unfold ren_ref, occ_ref, occ_index.
        destruct (Hrefs r Hr) as [rest [-> [->|[g ->]]]]; cbn [occ_scan app src_name src];
          rewrite Hxo; cbn [andb]; [reflexivity|].
        rewrite (Hyg g), andb_false_r. reflexivity.
      + apply map_ext_in. intros r Hr. unfold ren_ref, occ_ref, occ_index.
        destruct (Hrefs r Hr) as [rest [-> _]]. cbn [app occ_scan src_name src].
        rewrite N.eqb_refl. rewrite Hy. cbn [is_moving_obj andb].
        rewrite res_eqb_refl. cbn [length]. reflexivity.
  Qed.

  Lemma ren_from_mod F name g k refs :
    N.eqb g b = false -> N.eqb g STAR = false ->
    (forall r, In r refs -> r = [or_name k g]) ->
    rename_module_text w src nb (client_of p b F name (StFromMod g k) refs) = renamed F name (StFromMod g k) refs.
  Proof.
    intros Hgb Hgs Hrefs. unfold rename_module_text, renamed. cbn [client_of m_folder m_name m_imports m_refs style_imports].
    set (m := {| m_folder := F; m_name := name; m_imports := [IFrom 0 (p ++ [b]) [(g, k)]]; m_refs := refs |}).
    change (client_of p b F name (StFromMod g k) refs) with m.
    f_equal.
    - cbn [map ren_stmt m_folder m]. rewrite r_occ_from_abs0.
      rewrite <- (app_nil_r (p ++ [b])) at 1. rewrite set_nth_hit, app_nil_r.
      unfold from_name_occurs. cbn [fst src_name src]. rewrite Hgb. reflexivity.
    - transitivity (map (fun r : dotted => r) refs); [|apply map_id].
      apply map_ext_in. intros r Hr. rewrite (Hrefs r Hr). unfold ren_ref, occ_ref, occ_index. cbn [occ_scan app].
      assert (E : is_moving_obj src (rope_eval w m (m_imports m) [or_name k g]) = false).
      { unfold rope_eval, eval_dotted, env_of. cbn [flat_map bind_stmt bind_from m_folder m m_imports m_res app].
        cbn [from_module]. fold l. rewrite r_abs_src. rewrite Hgs.
        change (match k with Some x => x | None => g end) with (or_name k g).
        cbn [app lookup_env fold_left]. rewrite N.eqb_refl.
        unfold src. rewrite mod_attr_py. destruct (memN g (globals_of w (RPy p b))); reflexivity. }
      rewrite E, andb_false_r. reflexivity.
  Qed.

  Lemma ren_star F name refs :
    (forall r, In r refs -> exists g, r = [g]) ->
    rename_module_text w src nb (client_of p b F name StStar refs) = renamed F name StStar refs.
  Proof.
    intros Hrefs. unfold rename_module_text, renamed. cbn [client_of m_folder m_name m_imports m_refs style_imports].
    set (m := {| m_folder := F; m_name := name; m_imports := [IFrom 0 (p ++ [b]) [(STAR, None)]]; m_refs := refs |}).
    change (client_of p b F name StStar refs) with m.
    assert (Hsb : N.eqb STAR b = false) by (rewrite N.eqb_sym; apply R_bS).
    f_equal.
    - cbn [map ren_stmt m_folder m]. rewrite r_occ_from_abs0.
      rewrite <- (app_nil_r (p ++ [b])) at 1. rewrite set_nth_hit, app_nil_r.
      unfold from_name_occurs. cbn [fst src_name src]. rewrite Hsb. reflexivity.
    - transitivity (map (fun r : dotted => r) refs); [|apply map_id].
      apply map_ext_in. intros r Hr. destruct (Hrefs r Hr) as [g ->].
      unfold ren_ref, occ_ref, occ_index. cbn [occ_scan app].
      assert (E : is_moving_obj src (rope_eval w m (m_imports m) [g]) = false).
      { unfold rope_eval, eval_dotted, env_of. cbn [flat_map bind_stmt bind_from m_folder m m_imports m_res app].
        cbn [from_module]. fold l. rewrite r_abs_src. rewrite N.eqb_refl. rewrite !app_nil_r.
        rewrite lookup_env_globs. cbn [fold_left].
        destruct (memN g (globals_of w src)); [reflexivity|].
        destruct (memN g (globals_of w (m_res m))); reflexivity. }
      rewrite E, andb_false_r. reflexivity.
  Qed.

  Lemma ren_rel_pkg name refs :
    p <> [] ->
    (forall r, In r refs -> exists rest, r = [b] ++ rest) ->
    rename_module_text w src nb (client_of p b p name (StRelPkg None) refs) = renamed p name (StRelPkg None) refs.
  Proof.
    intros Hp Hrefs. unfold rename_module_text, renamed. cbn [client_of m_folder m_name m_imports m_refs style_imports].
    set (m := {| m_folder := p; m_name := name; m_imports := [IFrom 1 [] [(b, None)]]; m_refs := refs |}).
    change (client_of p b p name (StRelPkg None) refs) with m.
    assert (Henv : env_of true w p [IFrom 1 [] [(b, None)]] = [(b, Some (OMod src))]).
    { unfold env_of. cbn [flat_map bind_stmt bind_from app from_module]. fold l.
      unfold find_relative_module. cbn [pred up]. rewrite R_bS. rewrite r_attr_p_b by auto. reflexivity. }
    assert (Hy : rope_eval w m (m_imports m) [b] = Some (OMod src)).
    { unfold rope_eval. cbn [m_folder m m_imports]. rewrite Henv. unfold eval_dotted.
      cbn [lookup_env fold_left]. rewrite N.eqb_refl. reflexivity. }
    f_equal.
    - cbn [map ren_stmt m_folder m]. unfold occ_from. cbn [Nat.leb]. unfold occ_index. cbn [occ_scan].
      unfold from_name_occurs. cbn [fst snd src_name src]. rewrite N.eqb_refl. rewrite Hy.
      cbn [is_moving_obj andb]. rewrite res_eqb_refl. reflexivity.
    - apply map_ext_in. intros r Hr. unfold ren_ref, occ_ref, occ_index.
      destruct (Hrefs r Hr) as [rest ->]. cbn [app occ_scan src_name src].
      rewrite N.eqb_refl. rewrite Hy. cbn [is_moving_obj andb]. rewrite res_eqb_refl. cbn [length]. reflexivity.
  Qed.

  Lemma ren_rel_mod name g k refs :
    N.eqb g b = false -> N.eqb g STAR = false ->
    (forall r, In r refs -> r = [or_name k g]) ->
    rename_module_text w src nb (client_of p b p name (StRelMod g k) refs) = renamed p name (StRelMod g k) refs.
  Proof.
    intros Hgb Hgs Hrefs. unfold rename_module_text, renamed. cbn [client_of m_folder m_name m_imports m_refs style_imports].
    set (m := {| m_folder := p; m_name := name; m_imports := [IFrom 1 [b] [(g, k)]]; m_refs := refs |}).
    change (client_of p b p name (StRelMod g k) refs) with m.
    assert (Hocc : occ_from w src p 1 [b] = Some 1).
    { unfold occ_from. cbn [Nat.leb]. unfold occ_index. cbn [occ_scan app src_name src].
      rewrite N.eqb_refl. cbn [from_module]. fold l. rewrite r_rel_find_b.
      unfold is_moving_res, res_opt_is. rewrite res_eqb_refl. reflexivity. }
    f_equal.
    - cbn [map ren_stmt m_folder m]. rewrite Hocc. unfold from_name_occurs. cbn [fst src_name src]. rewrite Hgb. reflexivity.
    - transitivity (map (fun r : dotted => r) refs); [|apply map_id].
      apply map_ext_in. intros r Hr. rewrite (Hrefs r Hr). unfold ren_ref, occ_ref, occ_index. cbn [occ_scan app].
      assert (E : is_moving_obj src (rope_eval w m (m_imports m) [or_name k g]) = false).
      { unfold rope_eval, eval_dotted, env_of. cbn [flat_map bind_stmt bind_from m_folder m m_imports m_res app].
        cbn [from_module]. fold l. rewrite r_rel_find_b. rewrite Hgs.
        change (match k with Some x => x | None => g end) with (or_name k g).
        cbn [app lookup_env fold_left]. rewrite N.eqb_refl.
        unfold src. rewrite mod_attr_py. destruct (memN g (globals_of w (RPy p b))); reflexivity. }
      rewrite E, andb_false_r. reflexivity.
  Qed.

  (* ------------------------------------------------------------------ Python's view, before and after *)
  Lemma r_ltb_len_p : p <> [] -> Nat.ltb 0 (length p) = true.
  Proof. intro H. destruct p; [congruence|reflexivity]. Qed.

  Lemma r_py_find_p : p <> [] -> find_in_folder l [] p = Some (RDir p).
  Proof. intro H. apply r_find_root_dir; [exact H|apply R_dp]. Qed.

  Lemma r_py_find_p' : p <> [] -> find_in_folder l' [] p = Some (RDir p).
  Proof. intro H. apply r_find_root_dir'; [exact H|apply R_dp]. Qed.

  Lemma r_rel_find_nb : find_relative_module l' [nb] p 1 = Some new.
  Proof.
    unfold find_relative_module. cbn [pred up]. rewrite find_single.
    rewrite r_is_dir, R_col1, r_has_py_new. reflexivity.
  Qed.

  (* module-valued single binding: x before, x' after *)
  Lemma r_single_mod m m' x x' r r' o :
    env_of false w (m_folder m) (m_imports m) = [(x, Some (OMod src))] ->
    env_of false w' (m_folder m') (m_imports m') = [(x', Some (OMod new))] ->
    ((r = [x] /\ r' = [x']) \/ exists g, r = [x; g] /\ r' = [x'; g]) ->
    resolve_ref w m r = Some o -> resolve_ref w' m' r' = Some (move_obj rho o).
  Proof.
    intros H1 H2 [[-> ->]|[g [-> ->]]] Hr.
    - rewrite (resolve_single w m x _ H1) in Hr. inversion Hr; subst o.
      rewrite (resolve_single w' m' x' _ H2). cbn [move_obj]. rewrite rho_src. reflexivity.
    - rewrite (resolve_single_attr w m x src g H1) in Hr.
      rewrite (resolve_single_attr w' m' x' new g H2).
      unfold src in Hr. rewrite mod_attr_py in Hr. unfold new. rewrite mod_attr_py.
      fold new src. rewrite r_globals_new. fold src in Hr.
      destruct (memN g (globals_of w src)); [|discriminate].
      inversion Hr; subst o. cbn [move_obj]. rewrite rho_src. reflexivity.
  Qed.

  Lemma r_single_glob m m' y g r o :
    env_of false w (m_folder m) (m_imports m) = [(y, mod_attr w (fun _ => true) src g)] ->
    env_of false w' (m_folder m') (m_imports m') = [(y, mod_attr w' (fun _ => true) new g)] ->
    r = [y] ->
    resolve_ref w m r = Some o -> resolve_ref w' m' r = Some (move_obj rho o).
  Proof.
    intros H1 H2 -> Hr. unfold src in H1. rewrite mod_attr_py in H1. unfold new in H2. rewrite mod_attr_py in H2.
    fold new src in H1, H2. rewrite r_globals_new in H2.
    destruct (memN g (globals_of w src)).
    - rewrite (resolve_single w m y _ H1) in Hr. inversion Hr; subst o.
      rewrite (resolve_single w' m' y _ H2). cbn [move_obj]. rewrite rho_src. reflexivity.
    - unfold resolve_ref, imports_ok in Hr. rewrite H1 in Hr. cbn in Hr. discriminate.
  Qed.

  Lemma r_star m m' r o :
    env_of false w (m_folder m) (m_imports m) = map (fun g => (g, Some (OGlob src g))) (globals_of w src) ->
    env_of false w' (m_folder m') (m_imports m') = map (fun g => (g, Some (OGlob new g))) (globals_of w src) ->
    (exists g, In g (globals_of w src) /\ r = [g]) ->
    resolve_ref w m r = Some o -> resolve_ref w' m' r = Some (move_obj rho o).
  Proof.
    intros H1 H2 [g [Hg ->]] Hr. apply memN_In in Hg.
    unfold resolve_ref, imports_ok in *. rewrite H1 in Hr. rewrite H2.
    assert (Eo : forall rr gl, env_ok (map (fun g => (g, Some (OGlob rr g))) gl) = true).
    { intros rr gl. unfold env_ok. apply forallb_forall. intros x Hx. apply in_map_iff in Hx as [g0 [<- _]]. reflexivity. }
    rewrite Eo in *. unfold eval_dotted in *.
    rewrite lookup_env_globs in *. rewrite Hg in *. cbn [fold_left] in *.
    inversion Hr; subst o. cbn [move_obj]. rewrite rho_src. reflexivity.
  Qed.

  Lemma r_before_dotted m :
    m_imports m = [INormal [(p ++ [b], None)]] ->
    resolve_ref w m (p ++ [b]) = Some (OMod src)
    /\ forall g, resolve_ref w m ((p ++ [b]) ++ [g]) =
                 if memN g (globals_of w src) then Some (OGlob src g) else None.
  Proof.
    intro Hi.
    destruct (resolve_import_path w m (p ++ [b]) src R_wf Hi r_find_src R_sh1) as [H1 H2].
    split; [exact H1|]. intro g. rewrite H2. unfold src. rewrite mod_attr_py. reflexivity.
  Qed.

  Lemma r_after_dotted m' :
    m_imports m' = [INormal [(p ++ [nb], None)]] ->
    resolve_ref w' m' (p ++ [nb]) = Some (OMod new)
    /\ forall g, resolve_ref w' m' ((p ++ [nb]) ++ [g]) =
                 if memN g (globals_of w src) then Some (OGlob new g) else None.
  Proof.
    intro Hi.
    assert (Hs : no_global_shadow w' [] (p ++ [nb]) = true) by (rewrite r_shadow; apply R_sh2).
    destruct (resolve_import_path w' m' (p ++ [nb]) new r_wf Hi r_find_new Hs) as [H1 H2].
    split; [exact H1|]. intro g. rewrite H2. unfold new. rewrite mod_attr_py. fold new. rewrite r_globals_new. reflexivity.
  Qed.

  Lemma r_ref_ok_base st base r :
    style_base p b st = Some base -> ref_ok w p b st r = true ->
    r = base \/ exists g, In g (globals_of w src) /\ r = base ++ [g].
  Proof.
    intros Hb H. unfold ref_ok in H. rewrite Hb in H. apply orb_true_iff in H as [H|H].
    - left. apply dotted_eqb_eq. exact H.
    - right. apply existsb_exists in H as [g [Hg1 Hg2]]. exists g. split; [exact Hg1|].
      apply dotted_eqb_eq. exact Hg2.
  Qed.

  Definition r_refs_preserved (m m' : pymod) : Prop :=
    length (m_refs m') = length (m_refs m) /\
    forall i r o, nth_error (m_refs m) i = Some r -> resolve_ref w m r = Some o ->
      exists r', nth_error (m_refs m') i = Some r' /\ resolve_ref w' m' r' = Some (move_obj rho o).

  Lemma r_refs_preserved_map m m' f :
    m_refs m' = map f (m_refs m) ->
    (forall r o, In r (m_refs m) -> resolve_ref w m r = Some o -> resolve_ref w' m' (f r) = Some (move_obj rho o)) ->
    r_refs_preserved m m'.
  Proof.
    intros Hm H. split; [rewrite Hm; apply map_length|].
    intros i r o Hn Hr. exists (f r). split.
    - rewrite Hm. apply map_nth_error. exact Hn.
    - apply H; [eapply nth_error_In; exact Hn|exact Hr].
  Qed.

  Lemma r_refs_preserved_same m m' :
    m_refs m' = m_refs m ->
    (forall r o, In r (m_refs m) -> resolve_ref w m r = Some o -> resolve_ref w' m' r = Some (move_obj rho o)) ->
    r_refs_preserved m m'.
  Proof. intros Hm H. apply (r_refs_preserved_map m m' (fun r => r)); [rewrite map_id; exact Hm|exact H]. Qed.

  Theorem rename_module_client F name st refs :
    rename_style_side p b F st = true ->
    forallb (ref_ok w p b st) refs = true ->
    r_refs_preserved (client_of p b F name st refs)
                     (rename_module_text w src nb (client_of p b F name st refs)).
  Proof.
    intros Hst Hrefs. rewrite forallb_forall in Hrefs. unfold rename_style_side in Hst.
    destruct st as [|x|xo|g k| |xr|g k].
    - (* import p.b *)
      rewrite ren_import.
      2:{ intros r Hr. destruct (r_ref_ok_base StImport _ r eq_refl (Hrefs r Hr)) as [->|[g [_ ->]]].
          - exists []. rewrite app_nil_r. reflexivity.
          - exists [g]. reflexivity. }
      apply r_refs_preserved_map with (f := fun r => (p ++ [nb]) ++ skipn (S (length p)) r); [reflexivity|].
      intros r o Hr Ho. cbn [client_of m_refs] in Hr.
      set (m := client_of p b F name StImport refs) in *.
      destruct (r_before_dotted m eq_refl) as [B1 B2].
      replace (S (length p)) with (length (p ++ [b])) by (rewrite app_length; cbn; lia).
      match goal with |- resolve_ref w' ?mm _ = _ => destruct (r_after_dotted mm eq_refl) as [A1 A2] end.
      destruct (r_ref_ok_base StImport _ r eq_refl (Hrefs r Hr)) as [->|[g [Hg ->]]].
      + rewrite <- (app_nil_r (p ++ [b])) at 2. rewrite skipn_app_len, app_nil_r.
        rewrite B1 in Ho. inversion Ho; subst o. rewrite A1. cbn [move_obj]. rewrite rho_src. reflexivity.
      + cbn [style_base] in *. rewrite skipn_app_len. rewrite B2 in Ho. rewrite A2.
        destruct (memN g (globals_of w src)); [|discriminate]. inversion Ho; subst o.
        cbn [move_obj]. rewrite rho_src. reflexivity.
    - (* import p.b as x *)
      apply negb_true_iff in Hst.
      rewrite ren_import_as; auto.
      2:{ intros r Hr. destruct (r_ref_ok_base (StImportAs x) _ r eq_refl (Hrefs r Hr)) as [->|[g [_ ->]]];
          [left; reflexivity|right; eexists; reflexivity]. }
      apply r_refs_preserved_same; [reflexivity|]. intros r o Hr Ho. cbn [client_of m_refs] in Hr.
      eapply (r_single_mod _ _ x x); eauto.
      + unfold env_of. cbn [client_of m_folder m_imports style_imports flat_map bind_stmt bind_normal app abs_import].
        fold l. rewrite r_find_src. reflexivity.
      + unfold env_of. cbn [renamed m_folder m_imports flat_map bind_stmt bind_normal app abs_import].
        fold l'. rewrite r_find_new. reflexivity.
      + destruct (r_ref_ok_base (StImportAs x) _ r eq_refl (Hrefs r Hr)) as [->|[g [_ ->]]];
          [left; split; reflexivity|right; exists g; split; reflexivity].
    - (* from p import b [as x] *)
      apply andb_true_iff in Hst as [Hp0 Hxo].
      assert (Hp : p <> []) by (destruct p; [discriminate|discriminate]).
      assert (Hxo' : match xo with Some y => N.eqb y b = false | None => True end).
      { destruct xo; [apply negb_true_iff; exact Hxo|exact I]. }
      rewrite ren_from_pkg; auto.
      2:{ intros r Hr. destruct (r_ref_ok_base (StFromPkg xo) _ r eq_refl (Hrefs r Hr)) as [->|[g [_ ->]]].
          - exists []. split; [rewrite app_nil_r; reflexivity|left; reflexivity].
          - exists [g]. split; [reflexivity|right; exists g; reflexivity]. }
      assert (HB : env_of false w F [IFrom 0 p [(b, xo)]] = [(or_name xo b, Some (OMod src))]).
      { unfold env_of. cbn [flat_map bind_stmt bind_from app from_module abs_import]. fold l.
        rewrite (r_py_find_p Hp), R_bS, r_attr_p_b by auto. reflexivity. }
      assert (HA : env_of false w' F [IFrom 0 p [(nb, xo)]] = [(or_name xo nb, Some (OMod new))]).
      { unfold env_of. cbn [flat_map bind_stmt bind_from app from_module abs_import]. fold l'.
        rewrite (r_py_find_p' Hp), R_nS, r_attr_p_nb by auto. reflexivity. }
      destruct xo as [x|].
      + apply r_refs_preserved_same; [reflexivity|]. intros r o Hr Ho. cbn [client_of m_refs] in Hr.
        eapply (r_single_mod (client_of p b F name (StFromPkg (Some x)) refs) (renamed F name (StFromPkg (Some x)) refs) x x); [exact HB|exact HA| |exact Ho].
        destruct (r_ref_ok_base (StFromPkg (Some x)) _ r eq_refl (Hrefs r Hr)) as [->|[g [_ ->]]];
          [left; split; reflexivity|right; exists g; split; reflexivity].
      + apply r_refs_preserved_map with (f := fun r => [nb] ++ skipn 1 r); [reflexivity|].
        intros r o Hr Ho. cbn [client_of m_refs] in Hr.
        eapply (r_single_mod (client_of p b F name (StFromPkg None) refs) (renamed F name (StFromPkg None) refs) b nb); [exact HB|exact HA| |exact Ho].
        destruct (r_ref_ok_base (StFromPkg None) _ r eq_refl (Hrefs r Hr)) as [->|[g [_ ->]]];
          [left; split; reflexivity|right; exists g; split; reflexivity].
    - (* from p.b import g [as k] *)
      apply andb_true_iff in Hst as [Hgb Hgs]. apply negb_true_iff in Hgb. apply negb_true_iff in Hgs.
      assert (Hshape : forall r, In r refs -> r = [or_name k g]).
      { intros r Hr. specialize (Hrefs r Hr). unfold ref_ok in Hrefs. cbn [style_base] in Hrefs.
        apply dotted_eqb_eq. exact Hrefs. }
      rewrite ren_from_mod; auto.
      apply r_refs_preserved_same; [reflexivity|]. intros r o Hr Ho. cbn [client_of m_refs] in Hr.
      eapply (r_single_glob _ _ (or_name k g) g); eauto.
      + unfold env_of. cbn [client_of m_folder m_imports style_imports flat_map bind_stmt bind_from app from_module abs_import].
        fold l. rewrite r_find_src, Hgs. reflexivity.
      + unfold env_of. cbn [renamed m_folder m_imports flat_map bind_stmt bind_from app from_module abs_import].
        fold l'. rewrite r_find_new, Hgs. reflexivity.
    - (* from p.b import * *)
      assert (Hshape : forall r, In r refs -> exists g, In g (globals_of w src) /\ r = [g]).
      { intros r Hr. specialize (Hrefs r Hr). unfold ref_ok in Hrefs. cbn [style_base] in Hrefs.
        apply existsb_exists in Hrefs as [g [Hg1 Hg2]]. exists g. split; [exact Hg1|apply dotted_eqb_eq; exact Hg2]. }
      rewrite ren_star.
      2:{ intros r Hr. destruct (Hshape r Hr) as [g [_ ->]]. eauto. }
      apply r_refs_preserved_same; [reflexivity|]. intros r o Hr Ho. cbn [client_of m_refs] in Hr.
      eapply r_star; eauto.
      + unfold env_of. cbn [client_of m_folder m_imports style_imports flat_map bind_stmt bind_from app from_module abs_import].
        fold l. rewrite r_find_src, N.eqb_refl, !app_nil_r. reflexivity.
      + unfold env_of. cbn [renamed m_folder m_imports flat_map bind_stmt bind_from app from_module abs_import].
        fold l'. rewrite r_find_new, N.eqb_refl, !app_nil_r. rewrite r_globals_new. reflexivity.
    - (* from . import b *)
      apply andb_true_iff in Hst as [Hst Hx]. apply andb_true_iff in Hst as [HF Hp0].
      apply path_eqb_eq in HF. subst F. destruct xr as [xa|]; [discriminate|].
      assert (Hp : p <> []) by (destruct p; [discriminate|discriminate]).
      assert (Hshape : forall r, In r refs -> r = [b] \/ exists g, In g (globals_of w src) /\ r = [b] ++ [g]).
      { intros r Hr. apply (r_ref_ok_base (StRelPkg None) [b] r eq_refl (Hrefs r Hr)). }
      rewrite ren_rel_pkg; auto.
      2:{ intros r Hr. destruct (Hshape r Hr) as [->|[g [_ ->]]]; [exists []; reflexivity|exists [g]; reflexivity]. }
      apply r_refs_preserved_map with (f := fun r => [nb] ++ skipn 1 r); [reflexivity|].
      intros r o Hr Ho. cbn [client_of m_refs] in Hr.
      eapply (r_single_mod _ _ b nb); eauto.
      + unfold env_of. cbn [client_of m_folder m_imports style_imports flat_map bind_stmt bind_from app from_module].
        fold l. rewrite (r_ltb_len_p Hp). unfold find_relative_module. cbn [pred up].
        rewrite R_bS, r_attr_p_b by auto. reflexivity.
      + unfold env_of. cbn [renamed m_folder m_imports flat_map bind_stmt bind_from app from_module].
        fold l'. rewrite (r_ltb_len_p Hp). unfold find_relative_module. cbn [pred up].
        rewrite R_nS, r_attr_p_nb by auto. reflexivity.
      + destruct (Hshape r Hr) as [->|[g [_ ->]]]; [left; split; reflexivity|right; exists g; split; reflexivity].
    - (* from .b import g [as k] *)
      apply andb_true_iff in Hst as [Hst Hgs]. apply andb_true_iff in Hst as [Hst Hgb].
      apply andb_true_iff in Hst as [HF Hp0]. apply path_eqb_eq in HF. subst F.
      apply negb_true_iff in Hgb. apply negb_true_iff in Hgs.
      assert (Hp : p <> []) by (destruct p; [discriminate|discriminate]).
      assert (Hshape : forall r, In r refs -> r = [or_name k g]).
      { intros r Hr. specialize (Hrefs r Hr). unfold ref_ok in Hrefs. cbn [style_base] in Hrefs.
        apply dotted_eqb_eq. exact Hrefs. }
      rewrite ren_rel_mod; auto.
      apply r_refs_preserved_same; [reflexivity|]. intros r o Hr Ho. cbn [client_of m_refs] in Hr.
      eapply (r_single_glob _ _ (or_name k g) g); eauto.
      + unfold env_of. cbn [client_of m_folder m_imports style_imports flat_map bind_stmt bind_from app from_module].
        fold l. rewrite (r_ltb_len_p Hp), r_rel_find_b, Hgs. reflexivity.
      + unfold env_of. cbn [renamed m_folder m_imports flat_map bind_stmt bind_from app from_module].
        fold l'. rewrite (r_ltb_len_p Hp), r_rel_find_nb, Hgs. reflexivity.
  Qed.

  (* ------------------------------------------------------------------ no stale import *)
  Lemma r_ok_of_env (wx : world) m e : env_of false wx (m_folder m) (m_imports m) = e -> env_ok e = true -> imports_ok wx m = true.
  Proof. intros H1 H2. unfold imports_ok. rewrite H1. exact H2. Qed.

  Lemma r_ok_glob m m' y g :
    env_of false w (m_folder m) (m_imports m) = [(y, mod_attr w (fun _ => true) src g)] ->
    env_of false w' (m_folder m') (m_imports m') = [(y, mod_attr w' (fun _ => true) new g)] ->
    imports_ok w m = true -> imports_ok w' m' = true.
  Proof.
    intros H1 H2. unfold imports_ok. rewrite H1, H2. unfold src, new. rewrite !mod_attr_py. fold new src.
    rewrite r_globals_new. destruct (memN g (globals_of w src)); auto.
  Qed.

  Theorem rename_module_all_import F name st refs :
    rename_style_side p b F st = true ->
    forallb (ref_ok w p b st) refs = true ->
    imports_ok w (client_of p b F name st refs) = true ->
    imports_ok w' (rename_module_text w src nb (client_of p b F name st refs)) = true.
  Proof.
    intros Hst Hrefs Hok. rewrite forallb_forall in Hrefs. unfold rename_style_side in Hst.
    destruct st as [|x|xo|g k| |xr|g k].
    - rewrite ren_import.
      2:{ intros r Hr. destruct (r_ref_ok_base StImport _ r eq_refl (Hrefs r Hr)) as [->|[g [_ ->]]].
          - exists []. rewrite app_nil_r. reflexivity.
          - exists [g]. reflexivity. }
      destruct (r_after_dotted (renamed F name StImport refs) eq_refl) as [A1 _].
      unfold resolve_ref in A1. destruct (imports_ok w' (renamed F name StImport refs)); [reflexivity|discriminate].
    - apply negb_true_iff in Hst. rewrite ren_import_as; auto.
      2:{ intros r Hr. destruct (r_ref_ok_base (StImportAs x) _ r eq_refl (Hrefs r Hr)) as [->|[g [_ ->]]];
          [left; reflexivity|right; eexists; reflexivity]. }
      eapply r_ok_of_env.
      { unfold env_of. cbn [renamed m_folder m_imports flat_map bind_stmt bind_normal app abs_import].
      fold l'. rewrite r_find_new. reflexivity. }
      reflexivity.
    - apply andb_true_iff in Hst as [Hp0 Hxo].
      assert (Hp : p <> []) by (destruct p; [discriminate|discriminate]).
      assert (Hxo' : match xo with Some y => N.eqb y b = false | None => True end).
      { destruct xo; [apply negb_true_iff; exact Hxo|exact I]. }
      rewrite ren_from_pkg; auto.
      2:{ intros r Hr. destruct (r_ref_ok_base (StFromPkg xo) _ r eq_refl (Hrefs r Hr)) as [->|[g [_ ->]]].
          - exists []. split; [rewrite app_nil_r; reflexivity|left; reflexivity].
          - exists [g]. split; [reflexivity|right; exists g; reflexivity]. }
      eapply r_ok_of_env.
      { unfold env_of. cbn [renamed m_folder m_imports flat_map bind_stmt bind_from app from_module abs_import]. fold l'.
      rewrite (r_py_find_p' Hp), R_nS, r_attr_p_nb by auto. reflexivity. }
      reflexivity.
    - apply andb_true_iff in Hst as [Hgb Hgs]. apply negb_true_iff in Hgb. apply negb_true_iff in Hgs.
      rewrite ren_from_mod; auto.
      2:{ intros r Hr. specialize (Hrefs r Hr). unfold ref_ok in Hrefs. cbn [style_base] in Hrefs.
          apply dotted_eqb_eq. exact Hrefs. }
      eapply (r_ok_glob (client_of p b F name (StFromMod g k) refs) _ (or_name k g) g); eauto.
      + unfold env_of. cbn [client_of m_folder m_imports style_imports flat_map bind_stmt bind_from app from_module abs_import].
        fold l. rewrite r_find_src, Hgs. reflexivity.
      + unfold env_of. cbn [renamed m_folder m_imports flat_map bind_stmt bind_from app from_module abs_import].
        fold l'. rewrite r_find_new, Hgs. reflexivity.
    - rewrite ren_star.
      2:{ intros r Hr. specialize (Hrefs r Hr). unfold ref_ok in Hrefs. cbn [style_base] in Hrefs.
          apply existsb_exists in Hrefs as [g [_ Hg2]]. exists g. apply dotted_eqb_eq. exact Hg2. }
      eapply r_ok_of_env.
      + unfold env_of. cbn [renamed m_folder m_imports flat_map bind_stmt bind_from app from_module abs_import].
        fold l'. rewrite r_find_new, N.eqb_refl, !app_nil_r. reflexivity.
      + unfold env_ok. apply forallb_forall. intros y Hy. apply in_map_iff in Hy as [g0 [<- _]]. reflexivity.
    - apply andb_true_iff in Hst as [Hst Hx]. apply andb_true_iff in Hst as [HF Hp0].
      apply path_eqb_eq in HF. subst F. destruct xr as [xa|]; [discriminate|].
      assert (Hp : p <> []) by (destruct p; [discriminate|discriminate]).
      rewrite ren_rel_pkg; auto.
      2:{ intros r Hr. destruct (r_ref_ok_base (StRelPkg None) [b] r eq_refl (Hrefs r Hr)) as [->|[g [_ ->]]];
          [exists []; reflexivity|exists [g]; reflexivity]. }
      eapply r_ok_of_env.
      { unfold env_of. cbn [renamed m_folder m_imports flat_map bind_stmt bind_from app from_module].
      fold l'. rewrite (r_ltb_len_p Hp). unfold find_relative_module. cbn [pred up].
      rewrite R_nS, r_attr_p_nb by auto. reflexivity. }
      reflexivity.
    - apply andb_true_iff in Hst as [Hst Hgs]. apply andb_true_iff in Hst as [Hst Hgb].
      apply andb_true_iff in Hst as [HF Hp0]. apply path_eqb_eq in HF. subst F.
      apply negb_true_iff in Hgb. apply negb_true_iff in Hgs.
      assert (Hp : p <> []) by (destruct p; [discriminate|discriminate]).
      rewrite ren_rel_mod; auto.
      2:{ intros r Hr. specialize (Hrefs r Hr). unfold ref_ok in Hrefs. cbn [style_base] in Hrefs.
          apply dotted_eqb_eq. exact Hrefs. }
      eapply (r_ok_glob (client_of p b p name (StRelMod g k) refs) _ (or_name k g) g); eauto.
      + unfold env_of. cbn [client_of m_folder m_imports style_imports flat_map bind_stmt bind_from app from_module].
        fold l. rewrite (r_ltb_len_p Hp), r_rel_find_b, Hgs. reflexivity.
      + unfold env_of. cbn [renamed m_folder m_imports flat_map bind_stmt bind_from app from_module].
        fold l'. rewrite (r_ltb_len_p Hp), r_rel_find_nb, Hgs. reflexivity.
  Qed.
End ModuleRename.

Theorem rename_module_domain w p b nb m :
  rename_domain w (RPy p b) nb m = true ->
  r_refs_preserved w p b nb m (rename_module_text w (RPy p b) nb m).
Proof.
  unfold rename_domain. intro H.
  apply andb_true_iff in H as [H Hst]. apply andb_true_iff in H as [Hlegal Hne].
  destruct (style_of p b m) as [st|] eqn:Est; [|discriminate].
  apply andb_true_iff in Hst as [Hst Himps]. apply andb_true_iff in Hst as [Hside Hrefs].
  apply (list_eqb_eq istmt_eqb istmt_eqb_eq) in Himps.
  assert (Em : m = client_of p b (m_folder m) (m_name m) st (m_refs m)).
  { destruct m as [f n i r]. cbn in *. subst i. reflexivity. }
  rewrite Em. apply rename_module_client; assumption.
Qed.

Theorem rename_module_all_import_domain w p b nb m :
  rename_domain w (RPy p b) nb m = true ->
  imports_ok w m = true ->
  imports_ok (map_world (rename_res (RPy p b) nb) w) (rename_module_text w (RPy p b) nb m) = true.
Proof.
  unfold rename_domain. intros H Hok.
  apply andb_true_iff in H as [H Hst]. apply andb_true_iff in H as [Hlegal Hne].
  destruct (style_of p b m) as [st|] eqn:Est; [|discriminate].
  apply andb_true_iff in Hst as [Hst Himps]. apply andb_true_iff in Hst as [Hside Hrefs].
  apply (list_eqb_eq istmt_eqb istmt_eqb_eq) in Himps.
  assert (Em : m = client_of p b (m_folder m) (m_name m) st (m_refs m)).
  { destruct m as [f n i r]. cbn in *. subst i. reflexivity. }
  rewrite Em in Hok |- *. apply rename_module_all_import; assumption.
Qed.
