(* MODEL of dotted completion (rope/contrib/codeassist.py _dotted_completions) for the receivers whose object is
   statically evident in C15's scope model: a plain name that Scope.lookup - from the scope holding the cursor line -
   answers with the DefinedName of a class statement.  The object is then that PyClass and the proposals are
   PyClass.get_attributes(): the class's own table (class-body bindings and the self.x of its methods, C15's events)
   updated over what it inherits (C15's inheritance table), filtered by the typed prefix.  Proposal scope:
   "attribute" (code 6), or "imported" (code 4) for an attribute bound by an import.
   Receivers that need type inference (instances, call results, modules of the project) are outside the model. *)
From Coq Require Import List NArith Bool PeanoNat.
From RopeVerif.Lib Require Import Text.
From RopeVerif.C15 Require Import Syntax Scoping RopeScopes Fragment.
From RopeVerif.C20 Require Import Split Complete.
Import ListNotations.

(* the class a plain-name receiver r denotes when looked up from the scope at q: the path of the class's scope *)
Definition receiver_class (w : world) (q : path) (r : ident) : option path :=
  match rope_lookup (w_bi w) (w_inh w) (w_rt w) q r with
  | BScope o =>
      match scope_at (w_rt w) o with
      | Some so =>
          match entry (revs so) r with
          | Some NDefClass =>
              match last_class_child (rchildren so) r with
              | Some j => Some (o ++ [j])
              | None => None
              end
          | _ => None
          end
      | None => None
      end
  | _ => None
  end.

(* x in PyClass.get_attributes() of the class at c, with the scope code of its proposal *)
Definition class_attribute (w : world) (c : path) (x : ident) : option N :=
  match scope_at (w_rt w) c with
  | Some cs =>
      match entry (revs cs) x with
      | Some k =>
          (* a name declared global in the class body is the module's own PyName (own_binding) *)
          Some (if is_imported (w_rt w) (own_binding c k) x then 4%N else 6%N)
      | None =>
          match w_inh w c x with
          | Some b => Some (if is_imported (w_rt w) b x then 4%N else 6%N)
          | None => None
          end
      end
  | None => None
  end.

Definition dotted_completions_at (w : world) (c : path) (starting : text) : list (text * N) :=
  flat_map (fun x => if is_prefix starting (w_spell w x)
                     then match class_attribute w c x with Some k => [(w_spell w x, k)] | None => [] end
                     else []) (w_ids w).

(* code_assist at a cursor whose split is (receiver r, starting) on line lineno; None: outside the model *)
Definition dotted_completions (w : world) (lineno : N) (r : ident) (starting : text) : option (list (text * N)) :=
  match receiver_class w (holding_path w lineno) r with
  | Some c => Some (dotted_completions_at w c starting)
  | None => None
  end.
