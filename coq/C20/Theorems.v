(* The statements of coq/Props/C20.v that are instances on witness programs (non-vacuity examples and the
   refutations; the witnesses are generated from Python sources, see Witnesses.v) and the corollaries for
   the scope rope's holding-scope finder selects. *)
From Coq Require Import List NArith Bool PeanoNat.
From RopeVerif.Lib Require Import Text.
From RopeVerif.C15 Require Import Syntax Scoping RopeScopes Fragment RopeScopesProofs LookupProofs Theorems.
From RopeVerif.C20 Require Import Split Complete CompleteProofs Witnesses.
Import ListNotations.

Definition no_inh : path -> ident -> option binding := fun _ _ => None.
Lemma no_inh_ok : inh_ok no_inh.
Proof. intros p x. discriminate. Qed.

(* "if", "for" *)
Definition kws2 : list text := [[105; 102]; [102; 111; 114]]%N.
Definition t_xa : text := [120; 97]%N.
Definition t_xab : text := [120; 97; 98]%N.
Definition t_fo : text := [102; 111]%N.
Definition t_for : text := [102; 111; 114]%N.
Definition t_os : text := [111; 115]%N.
Definition t_zz : text := [122; 122]%N.

Definition world_demo : world := world_of w_demo lay_demo bi_demo no_inh ids_demo spell_demo kws2.
Definition world_later_import : world :=
  world_of w_later_import lay_later_import bi_later_import no_inh ids_later_import spell_later_import kws2.
Definition world_line_unknown : world :=
  world_of w_line_unknown lay_line_unknown bi_line_unknown no_inh ids_line_unknown spell_line_unknown kws2.

(* line 6 of the demo module is [xab = xa] inside [def fo(al)], which declares [global xa]:
   typing "xa" there offers the global-declared xa and the local xab; with later_locals = False the local xab
   (defined on this very line) gives way to the module's xab; typing "f" offers the function and the keyword *)
Lemma demo_example :
  in_fragment_C15 w_demo = true
  /\ holding_path world_demo 6 = [0%nat]
  /\ completions world_demo 6 t_xa true = [(t_xa, PLocal); (t_xab, PLocal)]
  /\ completions world_demo 6 t_xa false = [(t_xa, PLocal); (t_xab, PGlobal)]
  /\ completions world_demo 6 [102%N] false = [(t_fo, PGlobal); (t_for, PKeyword)]
  /\ definition_line world_demo [0%nat] 1%N = Some 6%N      (* xab inside fo: line 6 *)
  /\ definition_line world_demo [0%nat] 0%N = Some 1%N      (* xa inside fo: the module's line 1 *)
  /\ definition_line world_demo [0%nat] 3%N = Some 3%N.     (* the parameter al: the def line *)
Proof. vm_compute. repeat split. Qed.

Lemma demo_queries_allowed :
  forall x, In x ids_demo -> query_ok no_inh (rope_tree w_demo) [0%nat] x = true.
Proof. intros x Hx. repeat (destruct Hx as [<-|Hx]; [vm_compute; reflexivity|]). destruct Hx. Qed.

(* ---- two defects that are fixed in the code (repo commits faeb634, 2b4039e) and in the model: the former
        [_refuted] witnesses, now positive examples; both inputs are replayed from corpus/C20 on every run *)

(* the cursor after a word and a space: nothing is split off the word any more ("abc " at offset 4 used to give
   the expression "ab") *)
Lemma split_after_space_fixed :
  split_in kws2 [97; 98; 99; 32]%N [97; 98; 99; 32]%N 4 = Some ([], [], 4%N).
Proof. vm_compute. reflexivity. Qed.

(* the attribute prefix typed after a dot is itself a keyword: "s.is" at offset 4 is now split like "s.ix"
   (it used to give ("", "is", 2), as if nothing were dotted) *)
Lemma dotted_keyword_prefix_fixed :
  split_in [[105; 115]]%N [115; 46; 105; 115]%N [115; 46; 105; 115]%N 4 = Some ([115%N], [105; 115]%N, 2%N)
  /\ split_in [[105; 115]]%N [115; 46; 105; 120]%N [115; 46; 105; 120]%N 4 = Some ([115%N], [105; 120]%N, 2%N).
Proof. vm_compute. split; reflexivity. Qed.

(* ---- refutations (each witness is the replay input of an open finding) *)

(* later_locals = False on line 2 of [def fo(): pass / import os / zz = 1]: the assignment on line 4 is
   filtered, the import on line 3 is not *)
Lemma later_import_refuted :
  in_fragment_C15 w_later_import = true
  /\ In (t_os, PImported) (completions world_later_import 2 [] false)
  /\ ~ In (t_zz, PLocal) (completions world_later_import 2 [] false)
  /\ In (t_zz, PLocal) (completions world_later_import 2 [] true).
Proof.
  split; [vm_compute; reflexivity|]. split; [vm_compute; tauto|]. split; [|vm_compute; tauto].
  vm_compute. intros H. repeat (destruct H as [H|H]; [discriminate H|]). exact H.
Qed.

(* go-to-definition has no line for a walrus target (wa = 2), although it is bound in the function (spec:
   s_binds lists it).  The name first declared by a bare annotation (an = 3; [an: int] on line 3, [an = wa] on
   line 4) used to have none either; since repo commit 5d25e3b it has the line of its first real assignment. *)
Lemma definition_line_unknown_refuted :
  in_fragment_C15 w_line_unknown = true
  /\ definition_line world_line_unknown [0%nat] 2%N = None
  /\ (exists ss, sscope_at (spec_tree 6 w_line_unknown) [0%nat] = Some ss /\ In 2%N (sbound ss)).
Proof.
  split; [vm_compute; reflexivity|]. split; [vm_compute; reflexivity|].
  eexists. split; [vm_compute; reflexivity|]. vm_compute. tauto.
Qed.

Lemma definition_line_annotation_fixed :
  definition_line world_line_unknown [0%nat] 3%N = Some 4%N.
Proof. vm_compute. reflexivity. Qed.

(* ---- corollaries at the scope rope selects for a cursor line *)
Section AtCursor.
  Variable p : program.
  Variable lay : list lineinfo.
  Variable nl : N.
  Variable bi : list ident.
  Variable inh : path -> ident -> option binding.
  Variable ids : list ident.
  Variable spell : ident -> text.
  Variable kws : list text.
  Hypothesis Hfrag : in_fragment_C15 p = true.
  Hypothesis Hinh : inh_ok inh.
  Let w := world_of p lay bi inh ids spell kws.

  Lemma cursor_sound lineno starting ll t k :
    In (t, k) (completions w lineno starting ll) ->
    is_prefix starting t = true /\
    ((exists x, In x ids /\ spell x = t /\ k <> PKeyword /\
                (query_ok inh (rope_tree p) (holding_path w lineno) x = true ->
                 visible_at bi (spec_tree nl p) (holding_path w lineno) x = true))
     \/ (k = PKeyword /\ In t kws)).
  Proof. apply (completions_sound p lay nl bi inh ids spell kws Hfrag Hinh). Qed.

  Lemma cursor_complete lineno starting x :
    In x ids -> is_prefix starting (spell x) = true ->
    query_ok inh (rope_tree p) (holding_path w lineno) x = true ->
    visible_at bi (spec_tree nl p) (holding_path w lineno) x = true ->
    exists k, In (spell x, k) (completions w lineno starting true).
  Proof. apply (completions_complete p lay nl bi inh ids spell kws Hfrag Hinh). Qed.
End AtCursor.
