(* Proofs about the scope-level model of completion (Complete.v).  The bridge to Python's rules is C15's
   lookup theorem: what [_undotted_completions] leaves in its result dictionary for a name is found by the
   same search as [Scope.lookup] (innermost scope's get_names(), then the propagated names of the outer
   scopes), so "is proposed" = "lookup finds a binding" = (C15_lookup_agrees) "CPython resolves the name". *)
From Coq Require Import List NArith Bool PeanoNat Lia.
From RopeVerif.Lib Require Import Text.
From RopeVerif.C15 Require Import Syntax Scoping RopeScopes Fragment RopeScopesProofs LookupProofs Theorems.
From RopeVerif.C20 Require Import Split Complete.
Import ListNotations.

(* an inheritance table never stores "no binding" *)
Definition inh_ok (inh : path -> ident -> option binding) : Prop := forall p x, inh p x <> Some BNone.

Section Walk.
  Variable bi : list ident.
  Variable inh : path -> ident -> option binding.
  Variable rt : rscope.
  Variable lt : lscope.
  Variable lay : list lineinfo.
  Hypothesis Hinh : inh_ok inh.

  Lemma gnames_not_none ch x b : gnames bi inh ch x = Some b -> b <> BNone.
  Proof.
    induction ch as [|[p s] outer IH]; cbn; [discriminate|].
    destruct (entry (revs s) x) as [k|].
    - intros [= <-]. destruct k; try discriminate. destruct in_module; discriminate.
    - destruct (rk s); try discriminate.
      + destruct (mem x bi); [intros [= <-]; discriminate | discriminate].
      + intros H E. subst b. exact (Hinh p x H).
      + exact IH.
  Qed.

  Lemma outer_prop_propagated ch x :
    outer_prop bi inh ch x = None <-> propagated bi inh ch x = BNone.
  Proof.
    induction ch as [|[p s] outer IH]; cbn [outer_prop propagated]; [tauto|].
    destruct (is_class (rk s)); [exact IH|].
    destruct (gnames bi inh ((p, s) :: outer) x) as [b|] eqn:E; [|exact IH].
    split; [discriminate|]. intros Hb. exfalso. exact (gnames_not_none _ _ _ E Hb).
  Qed.

  Lemma outer_prop_binding ch x k b :
    outer_prop bi inh ch x = Some (k, b) -> propagated bi inh ch x = b.
  Proof.
    induction ch as [|[p s] outer IH]; cbn [outer_prop propagated]; [discriminate|].
    destruct (is_class (rk s)); [exact IH|].
    destruct (gnames bi inh ((p, s) :: outer) x) as [b'|] eqn:E; [|exact IH].
    now intros [= _ <-].
  Qed.

  (* with later_locals = True the walk finds a name exactly when Scope.lookup does, and the same binding *)
  Lemma proposal_true_lookup lineno ch x :
    proposal bi inh lt lay true lineno ch x = None <-> lookup_chain bi inh ch x = BNone.
  Proof.
    destruct ch as [|[p s] outer]; cbn [proposal lookup_chain]; [tauto|].
    destruct (gnames bi inh ((p, s) :: outer) x) as [b|] eqn:E.
    - cbn. split; [discriminate|]. intros Hb. exfalso. exact (gnames_not_none _ _ _ E Hb).
    - apply outer_prop_propagated.
  Qed.

  Lemma proposal_true_binding lineno ch x k b :
    proposal bi inh lt lay true lineno ch x = Some (k, b) -> lookup_chain bi inh ch x = b.
  Proof.
    destruct ch as [|[p s] outer]; cbn [proposal lookup_chain]; [discriminate|].
    destruct (gnames bi inh ((p, s) :: outer) x) as [b'|] eqn:E.
    - cbn. now intros [= _ <-].
    - apply outer_prop_binding.
  Qed.

  (* later_locals = False only removes *)
  Lemma proposal_mono lineno ch x r :
    proposal bi inh lt lay false lineno ch x = Some r ->
    exists r', proposal bi inh lt lay true lineno ch x = Some r'.
  Proof.
    destruct ch as [|[p s] outer]; cbn [proposal]; [discriminate|].
    destruct (gnames bi inh ((p, s) :: outer) x) as [b|] eqn:E.
    - intros _. cbn. eauto.
    - eauto.
  Qed.

  (* what later_locals = False keeps: a name the innermost scope does not hold, or holds with a definition
     line that is not in [lineno .. end of the scope] *)
  Lemma proposal_false_keeps lineno p s outer x :
    (match gnames bi inh ((p, s) :: outer) x with
     | Some b => defined_after lt lay s lineno b x = false
     | None => True
     end) ->
    proposal bi inh lt lay false lineno ((p, s) :: outer) x = proposal bi inh lt lay true lineno ((p, s) :: outer) x.
  Proof.
    cbn [proposal]. destruct (gnames bi inh ((p, s) :: outer) x) as [b|]; [|reflexivity].
    intros ->. reflexivity.
  Qed.
End Walk.

(* ------------------------------------------------------------------ names of a scope against the SPEC *)
Section Names.
  Variable p : program.
  Variable lay : list lineinfo.
  Variable nl : N.
  Variable bi : list ident.
  Variable inh : path -> ident -> option binding.
  Variable ids : list ident.
  Variable spell : ident -> text.
  Variable kws : list text.
  Hypothesis Hfrag : in_fragment_C15 p = true.
  Hypothesis Hinh : inh_ok inh.

  Let w := world_of p lay bi inh ids spell kws.

  Lemma names_at_lookup q lineno x :
    names_at w q lineno true x = None <-> rope_lookup bi inh (rope_tree p) q x = BNone.
  Proof.
    unfold names_at, rope_lookup, w, world_of. cbn [w_rt w_bi w_inh w_lt w_lay].
    destruct (rchain (rope_tree p) q) as [ch|]; [|tauto].
    unfold proposal_kind.
    destruct (proposal bi inh (ltree p) lay true lineno ch x) as [[k b]|] eqn:E.
    - split; [discriminate|]. intros Hl.
      pose proof (proj2 (proposal_true_lookup bi inh (ltree p) lay Hinh lineno ch x) Hl). congruence.
    - split; [|reflexivity]. intros _. exact (proj1 (proposal_true_lookup bi inh (ltree p) lay Hinh lineno ch x) E).
  Qed.

  (* THE BRIDGE: at every scope, for every identifier whose query C15 allows, the walk proposes the identifier
     iff it is visible under Python's rules *)
  Lemma names_at_visible q lineno x :
    query_ok inh (rope_tree p) q x = true ->
    (names_at w q lineno true x <> None <-> visible_at bi (spec_tree nl p) q x = true).
  Proof.
    intros Hq. rewrite names_at_lookup. unfold visible_at.
    rewrite <- (lookup_agrees p nl bi inh q x Hfrag Hq).
    destruct (rope_lookup bi inh (rope_tree p) q x); split; intros H; try reflexivity; try discriminate;
      try (exfalso; now apply H).
  Qed.

  Lemma names_at_mono q lineno x k :
    names_at w q lineno false x = Some k -> names_at w q lineno true x <> None.
  Proof.
    unfold names_at, w, world_of. cbn [w_rt w_bi w_inh w_lt w_lay].
    destruct (rchain (rope_tree p) q) as [ch|]; [|discriminate].
    unfold proposal_kind.
    destruct (proposal bi inh (ltree p) lay false lineno ch x) as [[k0 b]|] eqn:E; [|discriminate].
    intros _. destruct (proposal_mono bi inh (ltree p) lay lineno ch x _ E) as [[k1 b1] ->]. discriminate.
  Qed.

  (* ---- the list of proposals *)
  Lemma in_completions q lineno starting ll t k :
    In (t, k) (completions_at w q lineno starting ll) <->
    (exists x, In x ids /\ spell x = t /\ is_prefix starting t = true /\ names_at w q lineno ll x = Some k)
    \/ (k = PKeyword /\ blank starting = false /\ In t kws /\ is_prefix starting t = true).
  Proof.
    unfold completions_at. rewrite in_app_iff, in_flat_map.
    assert (Hw : w_ids w = ids /\ w_spell w = spell /\ w_kws w = kws) by (repeat split). destruct Hw as (-> & -> & ->).
    split.
    - intros [[x [Hx Hin]]|Hk].
      + left. destruct (is_prefix starting (spell x)) eqn:Ep; [|contradiction].
        destruct (names_at w q lineno ll x) as [k'|] eqn:En; [|contradiction].
        destruct Hin as [[= <- <-]|[]]. exists x. auto.
      + right. destruct (blank starting); [contradiction|].
        apply in_map_iff in Hk as [t' [[= <- <-] Ht]]. apply filter_In in Ht as [Ht Hp]. auto.
    - intros [[x (Hx & <- & Hp & Hn)]|(-> & Hb & Ht & Hp)].
      + left. exists x. split; [exact Hx|]. rewrite Hp, Hn. now left.
      + right. rewrite Hb. apply in_map_iff. exists t. split; [reflexivity|]. apply filter_In. auto.
  Qed.

  (* names never get the keyword scope *)
  Lemma names_at_not_keyword q lineno ll x : names_at w q lineno ll x <> Some PKeyword.
  Proof.
    unfold names_at. destruct (rchain (w_rt w) q); [|discriminate].
    unfold proposal_kind. destruct proposal as [[k b]|]; [|discriminate].
    unfold kind_of. destruct b; try discriminate;
      destruct (is_imported _ _ _); try discriminate; destruct (skind_eqb _ _); discriminate.
  Qed.

  Theorem completions_sound q lineno starting ll t k :
    In (t, k) (completions_at w q lineno starting ll) ->
    is_prefix starting t = true /\
    ((exists x, In x ids /\ spell x = t /\ k <> PKeyword /\
                (query_ok inh (rope_tree p) q x = true -> visible_at bi (spec_tree nl p) q x = true))
     \/ (k = PKeyword /\ In t kws)).
  Proof.
    rewrite in_completions. intros [[x (Hx & Hs & Hp & Hn)]|(-> & _ & Ht & Hp)].
    - split; [exact Hp|]. left. exists x. repeat split; auto.
      + intros ->. exact (names_at_not_keyword _ _ _ _ Hn).
      + intros Hq. apply (names_at_visible q lineno x Hq).
        destruct ll; [congruence|]. exact (names_at_mono _ _ _ _ Hn).
    - split; [exact Hp|]. right. auto.
  Qed.

  Theorem completions_complete q lineno starting x :
    In x ids -> is_prefix starting (spell x) = true ->
    query_ok inh (rope_tree p) q x = true ->
    visible_at bi (spec_tree nl p) q x = true ->
    exists k, In (spell x, k) (completions_at w q lineno starting true).
  Proof.
    intros Hx Hp Hq Hv. apply (names_at_visible q lineno x Hq) in Hv.
    destruct (names_at w q lineno true x) as [k|] eqn:E; [|congruence].
    exists k. apply in_completions. left. exists x. auto.
  Qed.

  Theorem completions_keywords q lineno starting ll t :
    In t kws -> is_prefix starting t = true -> blank starting = false ->
    In (t, PKeyword) (completions_at w q lineno starting ll).
  Proof. intros Ht Hp Hb. apply in_completions. right. auto. Qed.

  (* later_locals = False: a visible name is still offered unless the innermost scope holds it with a
     definition line between the cursor line and the end of that scope *)
  Theorem completions_complete_nolater q lineno starting x ps s outer :
    In x ids -> is_prefix starting (spell x) = true ->
    query_ok inh (rope_tree p) q x = true ->
    visible_at bi (spec_tree nl p) q x = true ->
    rchain (rope_tree p) q = Some ((ps, s) :: outer) ->
    (match gnames bi inh ((ps, s) :: outer) x with
     | Some b => defined_after (ltree p) lay s lineno b x = false
     | None => True
     end) ->
    exists k, In (spell x, k) (completions_at w q lineno starting false).
  Proof.
    intros Hx Hp Hq Hv Hch Hk.
    apply (names_at_visible q lineno x Hq) in Hv.
    assert (E : names_at w q lineno false x = names_at w q lineno true x).
    { unfold names_at, w, world_of. cbn [w_rt w_bi w_inh w_lt w_lay]. rewrite Hch. unfold proposal_kind.
      now rewrite (proposal_false_keeps bi inh (ltree p) lay lineno ps s outer x Hk). }
    destruct (names_at w q lineno true x) as [k|] eqn:E1; [|congruence].
    exists k. apply in_completions. left. exists x. auto.
  Qed.
End Names.

(* ------------------------------------------------------------------ definition lines of statically determined names *)
(* The discipline of the names dictionary, on the events of one scope (whatever syntax produced them):
   - a name whose FIRST event is a plain assignment (assignment statement, for / with / except target: an
     AssignmentValue with a line) and that is never rebound by def / class / import / global / parameter has
     the line of that first assignment, however often it is assigned again;
   - a name whose LAST strong event is a def / class statement or a parameter has the line of that event,
     whatever assignments follow. *)
Lemma lstate_from_skip cur evs x :
  (forall e, In e evs -> fst (fst e) <> x) -> lstate_from cur evs x = cur.
Proof.
  revert cur. induction evs as [|[[y k] p] r IH]; intros cur H; cbn [lstate_from]; [reflexivity|].
  destruct (N.eqb_spec y x) as [->|_].
  - exfalso. apply (H (x, k, p)); [now left | reflexivity].
  - apply IH. intros e He. apply H. now right.
Qed.

Lemma lstate_from_weak_keeps k0 ln fa evs x :
  (assigned_kind k0 = false \/ (exists v, fa = Some v)) ->
  (forall e, In e evs -> fst (fst e) = x -> weak (snd (fst e)) = true) ->
  lstate_from (Some (k0, ln, fa)) evs x = Some (k0, ln, fa).
Proof.
  intros Hk. induction evs as [|[[y k] p] r IH]; intros H; cbn [lstate_from]; [reflexivity|].
  destruct (N.eqb_spec y x) as [->|_].
  - pose proof (H (x, k, p) (or_introl eq_refl) eq_refl) as Hwk. cbn [fst snd] in Hwk. rewrite Hwk.
    destruct Hk as [Hk|[v ->]].
    + rewrite Hk. apply IH. intros e He. apply H. now right.
    + destruct (assigned_kind k0); cbn [app_first]; apply IH; intros e He; apply H; now right.
  - apply IH. intros e He. apply H. now right.
Qed.

Theorem entry_line_first_assignment pre post x l0 :
  (forall e, In e pre -> fst (fst e) <> x) ->
  (forall e, In e post -> fst (fst e) = x -> weak (snd (fst e)) = true) ->
  entry_line (pre ++ (x, NAssigned, Pay None (ALine l0)) :: post) x = Some l0.
Proof.
  intros Hpre Hpost. unfold entry_line.
  assert (E : forall cur a b, lstate_from cur (a ++ b) x = lstate_from (lstate_from cur a x) b x).
  { intros cur a. revert cur. induction a as [|[[y k] p] a IH]; intros cur b; cbn [List.app lstate_from]; [reflexivity|].
    destruct (N.eqb y x); apply IH. }
  rewrite E, (lstate_from_skip None pre x Hpre). cbn [lstate_from]. rewrite N.eqb_refl. cbn [weak pay_line pay_app app_first].
  rewrite (lstate_from_weak_keeps NAssigned None (Some (Some l0)) post x); [reflexivity | right; eauto | exact Hpost].
Qed.

Definition definition_kind (k : nkind) : Prop := k = NDefFun \/ k = NDefClass \/ k = NParam \/ k = NCompTarget.

Theorem entry_line_definition pre post x k l0 a :
  definition_kind k ->
  (forall e, In e post -> fst (fst e) = x -> weak (snd (fst e)) = true) ->
  entry_line (pre ++ (x, k, Pay (Some l0) a) :: post) x = Some l0.
Proof.
  intros Hk Hpost. unfold entry_line.
  assert (E : forall cur a b, lstate_from cur (a ++ b) x = lstate_from (lstate_from cur a x) b x).
  { intros cur a0. revert cur. induction a0 as [|[[y k'] p] a0 IH]; intros cur b; cbn [List.app lstate_from]; [reflexivity|].
    destruct (N.eqb y x); apply IH. }
  rewrite E. cbn [lstate_from]. rewrite N.eqb_refl.
  assert (Hw : weak k = false) by (destruct Hk as [ -> | [ -> | [ -> | -> ] ] ]; reflexivity).
  rewrite Hw. cbn [pay_line].
  destruct Hk as [ -> | [ -> | [ -> | -> ] ] ].
  - rewrite (lstate_from_weak_keeps NDefFun (Some l0) None post x); [reflexivity | now left | exact Hpost].
  - rewrite (lstate_from_weak_keeps NDefClass (Some l0) None post x); [reflexivity | now left | exact Hpost].
  - rewrite (lstate_from_weak_keeps NParam (Some l0) None post x); [reflexivity | now left | exact Hpost].
  - (* a comprehension target is an AssignedName created with its line: later assignments do not change it *)
    assert (G : forall fa evs, (forall e, In e evs -> fst (fst e) = x -> weak (snd (fst e)) = true) ->
                exists fa', lstate_from (Some (NCompTarget, Some l0, fa)) evs x = Some (NCompTarget, Some l0, fa')).
    { intros fa evs. revert fa. induction evs as [|[[y k'] p] r IH]; intros fa H; cbn [lstate_from]; [eauto|].
      destruct (N.eqb_spec y x) as [->|_].
      - pose proof (H (x, k', p) (or_introl eq_refl) eq_refl) as Hwk. cbn [fst snd] in Hwk. rewrite Hwk.
        cbn [assigned_kind]. apply IH. intros e He. apply H. now right.
      - apply IH. intros e He. apply H. now right. }
    destruct (G None post Hpost) as [fa' ->]. reflexivity.
Qed.
