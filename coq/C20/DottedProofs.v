(* Dotted completion on a class receiver against Python: the attributes proposed are the names bound in the class
   body (C15's spec, through C15_names_agree), plus - on purpose in rope - the instance attributes self.x of its
   methods, plus what the class inherits. *)
From Coq Require Import List NArith Bool PeanoNat.
From RopeVerif.Lib Require Import Text.
From RopeVerif.C15 Require Import Syntax Scoping RopeScopes Fragment RopeScopesProofs LookupProofs Theorems.
From RopeVerif.C20 Require Import Split Complete Dotted.
Import ListNotations.

Section DottedSpec.
  Variable p : program.
  Variable lay : list lineinfo.
  Variable nl : N.
  Variable bi : list ident.
  Variable inh : path -> ident -> option binding.
  Variable ids : list ident.
  Variable spell : ident -> text.
  Variable kws : list text.
  Hypothesis Hfrag : in_fragment_C15 p = true.
  Let w := world_of p lay bi inh ids spell kws.

  Lemma in_dotted c starting t k :
    In (t, k) (dotted_completions_at w c starting) <->
    exists x, In x ids /\ spell x = t /\ is_prefix starting t = true /\ class_attribute w c x = Some k.
  Proof.
    unfold dotted_completions_at. rewrite in_flat_map.
    assert (Hw : w_ids w = ids /\ w_spell w = spell) by (split; reflexivity). destruct Hw as [-> ->].
    split.
    - intros [x [Hx Hin]]. destruct (is_prefix starting (spell x)) eqn:Ep; [|contradiction].
      destruct (class_attribute w c x) as [k'|] eqn:Ec; [|contradiction].
      destruct Hin as [[= <- <-]|[]]. exists x. auto.
    - intros [x (Hx & <- & Hp & Hc)]. exists x. split; [exact Hx|]. rewrite Hp, Hc. now left.
  Qed.

  (* SOUND: every proposal extends the prefix and is a name bound in the class body (Python's class attributes), an
     instance attribute assigned in a method of the class, or an inherited attribute *)
  Theorem dotted_sound c cs ss starting t k :
    scope_at (rope_tree p) c = Some cs ->
    sscope_at (spec_tree nl p) c = Some ss ->
    In (t, k) (dotted_completions_at w c starting) ->
    is_prefix starting t = true /\
    exists x, In x ids /\ spell x = t /\
              (In x (spec_names ss)
               \/ (In x (keys (revs cs)) /\ has_real (revs cs) x = false)
               \/ inh c x <> None).
  Proof.
    intros Hr Hs Hin. apply in_dotted in Hin as [x (Hx & <- & Hp & Hc)]. split; [exact Hp|].
    exists x. split; [exact Hx|]. split; [reflexivity|].
    unfold class_attribute, w, world_of in Hc. cbn [w_rt w_inh] in Hc. rewrite Hr in Hc.
    destruct (entry (revs cs) x) as [k0|] eqn:E.
    - assert (Hk : In x (keys (revs cs))).
      { destruct (in_dec N.eq_dec x (keys (revs cs))) as [H|H]; [exact H|]. apply entry_none in H. congruence. }
      destruct (has_real (revs cs) x) eqn:Er.
      + left. apply (names_agree_at p nl c cs ss Hfrag Hr Hs x). unfold real_names. apply filter_In. auto.
      + right. left. auto.
    - right. right. destruct (inh c x); [discriminate | discriminate].
  Qed.

  (* COMPLETE: every name the class body binds (under Python's rules) whose spelling extends the prefix is proposed *)
  Theorem dotted_complete c cs ss starting x :
    scope_at (rope_tree p) c = Some cs ->
    sscope_at (spec_tree nl p) c = Some ss ->
    In x ids -> In x (spec_names ss) -> is_prefix starting (spell x) = true ->
    exists k, In (spell x, k) (dotted_completions_at w c starting).
  Proof.
    intros Hr Hs Hx Hsp Hp.
    apply (names_agree_at p nl c cs ss Hfrag Hr Hs x) in Hsp. unfold real_names in Hsp. apply filter_In in Hsp as [Hk _].
    assert (Hc : exists k, class_attribute w c x = Some k).
    { unfold class_attribute, w, world_of. cbn [w_rt w_inh]. rewrite Hr.
      destruct (entry (revs cs) x) as [k0|] eqn:E; [|apply entry_none in E; contradiction].
      destruct k0; eauto. }
    destruct Hc as [k Hc]. exists k. apply in_dotted. exists x. auto.
  Qed.
End DottedSpec.

(* ------------------------------------------------------------------ non-vacuity: [Kl.k|] in the klass witness *)
From RopeVerif.C20 Require Import Witnesses.
Definition world_klass : world :=
  world_of w_klass lay_klass bi_klass (fun _ _ => None) ids_klass spell_klass [].

(* line 6 is [xa = Kl.ka] at module level: the receiver Kl (identifier 0) is the class at path [0]; typing "k" after
   the dot offers the class attribute ka and the instance attribute kb, typing nothing also the method me *)
Lemma klass_example :
  in_fragment_C15 w_klass = true
  /\ receiver_class world_klass (holding_path world_klass 6) 0%N = Some [0%nat]
  /\ dotted_completions world_klass 6 0%N [107%N] = Some [([107; 97]%N, 6%N); ([107; 98]%N, 6%N)]
  /\ dotted_completions world_klass 6 0%N [] = Some [([107; 97]%N, 6%N); ([109; 101]%N, 6%N); ([107; 98]%N, 6%N)]
  /\ (exists cs ss, scope_at (rope_tree w_klass) [0%nat] = Some cs /\ sscope_at (spec_tree 7 w_klass) [0%nat] = Some ss
                    /\ In 1%N (spec_names ss) /\ In 2%N (spec_names ss)).
Proof.
  split; [vm_compute; reflexivity|]. split; [vm_compute; reflexivity|]. split; [vm_compute; reflexivity|].
  split; [vm_compute; reflexivity|]. eexists. eexists. split; [vm_compute; reflexivity|]. split; [vm_compute; reflexivity|].
  vm_compute. tauto.
Qed.
