(* The tree of l-events (Complete.v: [ltree], events with their definition-line payload) erases to C15's
   [rope_tree]: same shape, and in every scope the same events in the same order once the payload is dropped.
   Hence a path addresses the same scope in both trees, and the kind the l-state machine records for a name is
   C15's [entry]. *)
From Coq Require Import List NArith Bool PeanoNat.
From RopeVerif.Lib Require Import Text.
From RopeVerif.C15 Require Import Syntax Scoping RopeScopes Fragment.
From RopeVerif.C20 Require Import Split Complete.
Import ListNotations.

Inductive lmatch : lscope -> rscope -> Prop :=
| LM levs lcs k name st bf bl bases rcs :
    Forall2 lmatch lcs rcs ->
    lmatch (LScope levs lcs) (RScope k name st bf bl (map strip levs) bases rcs).

Lemma strip_lift0 evs : map strip (lift0 evs) = evs.
Proof. unfold lift0. rewrite map_map. cbn. apply map_id. Qed.
Lemma strip_lassigned a xs : map strip (lassigned a xs) = assigned xs.
Proof. unfold lassigned, assigned. rewrite map_map. reflexivity. Qed.

Lemma Forall2_app_inv {A B} (R : A -> B -> Prop) l1 l2 m1 m2 :
  Forall2 R l1 m1 -> Forall2 R l2 m2 -> Forall2 R (l1 ++ l2) (m1 ++ m2).
Proof. apply Forall2_app. Qed.

Lemma Forall2_flat_map {A B C} (R : B -> C -> Prop) (f : A -> list B) (g : A -> list C) l :
  Forall (fun a => Forall2 R (f a) (g a)) l -> Forall2 R (flat_map f l) (flat_map g l).
Proof. induction 1; cbn; [constructor | now apply Forall2_app]. Qed.

Lemma map_flat_map_ext {A B C} (h : B -> C) (f : A -> list B) (g : A -> list C) l :
  Forall (fun a => map h (f a) = g a) l -> map h (flat_map f l) = flat_map g l.
Proof. induction 1; cbn; [reflexivity | now rewrite map_app, H, IHForall]. Qed.

(* ---- expressions *)
Lemma strip_lcg l c : map strip (lcg_names l c) = cg_names c.
Proof.
  destruct c as [t i ifs]. unfold lcg_names, cg_names. rewrite !map_app, !strip_lift0.
  unfold lcomp_target_events, comp_target_events. now rewrite map_map.
Qed.

Lemma lx_scopes_match : (forall e, Forall2 lmatch (lx_scopes e) (rx_scopes e))
                        /\ (forall c, Forall2 lmatch (lcg_scopes c) (cg_scopes c)).
Proof.
  apply expr_comp_ind; intros; cbn [lx_scopes rx_scopes lcg_scopes cg_scopes]; try constructor;
    try assumption; try (now apply Forall2_app); try (now apply Forall2_flat_map).
  - apply Forall2_app; [assumption | now apply Forall2_flat_map].
  - apply Forall2_app; [now apply Forall2_flat_map | assumption].
  - (* comprehension *)
    replace (flat_map rx_names elts ++ flat_map cg_names gens)
      with (map strip (lift0 (flat_map rx_names elts) ++ flat_map (lcg_names l) gens)).
    + constructor. apply Forall2_app; now apply Forall2_flat_map.
    + rewrite map_app, strip_lift0. f_equal. apply map_flat_map_ext.
      apply Forall_forall. intros c _. apply strip_lcg.
  - constructor.
Qed.

Lemma lx_match e : Forall2 lmatch (lx_scopes e) (rx_scopes e).
Proof. apply lx_scopes_match. Qed.
Lemma lx_match_list es : Forall2 lmatch (flat_map lx_scopes es) (flat_map rx_scopes es).
Proof. apply Forall2_flat_map. apply Forall_forall. intros e _. apply lx_match. Qed.
Lemma olx_match o : Forall2 lmatch (olx_scopes o) (orx_scopes o).
Proof. destruct o; [apply lx_match | constructor]. Qed.

(* ---- _ClassInitVisitor *)
Lemma strip_lself l a self t : map strip (lself_events l a self t) = self_events self t.
Proof. unfold lself_events, self_events. now rewrite map_map. Qed.

Lemma strip_lci self s : map strip (lci_names self s) = ci_names self s.
Proof.
  induction s using stmt_ind'; cbn [lci_names ci_names]; try reflexivity.
  - rewrite map_app, strip_lift0. f_equal. apply map_flat_map_ext. apply Forall_forall. intros t _. apply strip_lself.
  - apply strip_lself.
  - apply strip_lself.
  - rewrite map_app. f_equal; now apply map_flat_map_ext.
  - rewrite map_app. f_equal; now apply map_flat_map_ext.
  - rewrite !map_app. f_equal; [now apply map_flat_map_ext|]. f_equal; [|f_equal; now apply map_flat_map_ext].
    apply map_flat_map_ext. eapply Forall_impl; [|exact H0]. intros [hl ty nm hb] Hh. cbn in Hh.
    now apply map_flat_map_ext.
Qed.

Lemma lci_match s : Forall2 lmatch (lci_scopes s) (ci_scopes s).
Proof.
  induction s using stmt_ind'; cbn [lci_scopes ci_scopes]; try constructor.
  - apply lx_match.
  - apply Forall2_app; now apply Forall2_flat_map.
  - apply Forall2_app; now apply Forall2_flat_map.
  - apply Forall2_app; [now apply Forall2_flat_map|]. apply Forall2_app; [|apply Forall2_app; now apply Forall2_flat_map].
    apply Forall2_flat_map. eapply Forall_impl; [|exact H0]. intros [hl ty nm hb] Hh. cbn in Hh.
    now apply Forall2_flat_map.
Qed.

(* ---- _ScopeVisitor *)
Lemma strip_limport n : map strip (limport_events n) = import_events n.
Proof. apply strip_lift0. Qed.
Lemma strip_litem l it : map strip (litem_events l it) = item_events it.
Proof. destruct it as [c [v|]]; cbn; [apply strip_lassigned | reflexivity]. Qed.
Lemma strip_lparam l ps : map strip (lparam_events l ps) = param_events ps.
Proof. unfold lparam_events, param_events. now rewrite map_map. Qed.

Lemma strip_ls mn s : forall cls, map strip (ls_names mn cls s) = rs_names mn cls s.
Proof.
  induction s using stmt_ind'; intros cls; cbn [ls_names rs_names]; try reflexivity;
    try apply strip_lift0.
  - rewrite map_app, strip_lassigned, strip_lift0. reflexivity.
  - apply strip_lassigned.
  - rewrite !map_app, strip_lift0. f_equal. f_equal; apply map_flat_map_ext.
    + eapply Forall_impl; [|exact H]. intros a Ha. apply Ha.
    + eapply Forall_impl; [|exact H0]. intros a Ha. apply Ha.
  - rewrite !map_app, strip_lift0. f_equal. f_equal; apply map_flat_map_ext.
    + eapply Forall_impl; [|exact H]. intros a Ha. apply Ha.
    + eapply Forall_impl; [|exact H0]. intros a Ha. apply Ha.
  - rewrite !map_app, strip_lassigned. f_equal. f_equal; apply map_flat_map_ext.
    + eapply Forall_impl; [|exact H]. intros a Ha. apply Ha.
    + eapply Forall_impl; [|exact H0]. intros a Ha. apply Ha.
  - rewrite map_app. f_equal.
    + apply map_flat_map_ext. apply Forall_forall. intros it _. apply strip_litem.
    + apply map_flat_map_ext. eapply Forall_impl; [|exact H]. intros a Ha. apply Ha.
  - rewrite !map_app. f_equal; [|f_equal; [|f_equal]].
    + apply map_flat_map_ext. eapply Forall_impl; [|exact H]. intros a Ha. apply Ha.
    + apply map_flat_map_ext. eapply Forall_impl; [|exact H0]. intros [hl ty nm hb] Hh. cbn in Hh.
      rewrite map_app, strip_lassigned. f_equal. apply map_flat_map_ext.
      eapply Forall_impl; [|exact Hh]. intros a Ha. apply Ha.
    + apply map_flat_map_ext. eapply Forall_impl; [|exact H1]. intros a Ha. apply Ha.
    + apply map_flat_map_ext. eapply Forall_impl; [|exact H2]. intros a Ha. apply Ha.
  - (* def *)
    cbn [map strip fst]. f_equal. destruct cls; [|reflexivity]. destruct (first_arg ps); [|reflexivity].
    apply map_flat_map_ext. apply Forall_forall. intros st _. apply strip_lci.
  - apply map_flat_map_ext. apply Forall_forall. intros n0 _. apply strip_limport.
  - destruct ns; [apply strip_lift0 | reflexivity].
  - rewrite map_map. reflexivity.
Qed.

Lemma strip_ls_list mn cls b : map strip (flat_map (ls_names mn cls) b) = flat_map (rs_names mn cls) b.
Proof. apply map_flat_map_ext. apply Forall_forall. intros s _. apply strip_ls. Qed.

Lemma ls_match mn s : forall cls, Forall2 lmatch (ls_scopes mn cls s) (rs_scopes mn cls s).
Proof.
  induction s using stmt_ind'; intros cls; cbn [ls_scopes rs_scopes]; try constructor;
    try apply lx_match; try apply lx_match_list.
  - apply Forall2_app; [apply lx_match|]. apply Forall2_app; apply Forall2_flat_map.
    + eapply Forall_impl; [|exact H]. intros a Ha. apply Ha.
    + eapply Forall_impl; [|exact H0]. intros a Ha. apply Ha.
  - apply Forall2_app; [apply lx_match|]. apply Forall2_app; apply Forall2_flat_map.
    + eapply Forall_impl; [|exact H]. intros a Ha. apply Ha.
    + eapply Forall_impl; [|exact H0]. intros a Ha. apply Ha.
  - apply Forall2_app; apply Forall2_flat_map.
    + eapply Forall_impl; [|exact H]. intros a Ha. apply Ha.
    + eapply Forall_impl; [|exact H0]. intros a Ha. apply Ha.
  - apply Forall2_flat_map. eapply Forall_impl; [|exact H]. intros a Ha. apply Ha.
  - apply Forall2_app; [|apply Forall2_app; [|apply Forall2_app]]; apply Forall2_flat_map.
    + eapply Forall_impl; [|exact H]. intros a Ha. apply Ha.
    + eapply Forall_impl; [|exact H0]. intros [hl ty nm hb] Hh. cbn in Hh. apply Forall2_flat_map.
      eapply Forall_impl; [|exact Hh]. intros a Ha. apply Ha.
    + eapply Forall_impl; [|exact H1]. intros a Ha. apply Ha.
    + eapply Forall_impl; [|exact H2]. intros a Ha. apply Ha.
  - (* def: the function's own scope, then the comprehensions the class visitor sees *)
    replace (flat_map rx_names ae ++ flat_map (rs_names mn false) b ++ flat_map rx_names d ++ orx_names r ++ param_events ps)
      with (map strip (lift0 (flat_map rx_names ae) ++ flat_map (ls_names mn false) b ++ lift0 (flat_map rx_names d)
                       ++ lift0 (orx_names r) ++ lparam_events l ps)).
    + constructor. apply Forall2_app; [apply lx_match_list|]. apply Forall2_app; [|apply Forall2_app; [apply lx_match_list | apply olx_match]].
      apply Forall2_flat_map. eapply Forall_impl; [|exact H]. intros a Ha. apply Ha.
    + rewrite !map_app, !strip_lift0, strip_ls_list, strip_lparam. reflexivity.
  - destruct cls; [|constructor]. destruct (first_arg ps); [|constructor].
    apply Forall2_flat_map. apply Forall_forall. intros st _. apply lci_match.
  - (* class *)
    replace (flat_map rx_names bs ++ flat_map (rs_names mn true) b ++ flat_map rx_names d)
      with (map strip (lift0 (flat_map rx_names bs) ++ flat_map (ls_names mn true) b ++ lift0 (flat_map rx_names d))).
    + constructor. apply Forall2_app; [apply lx_match_list|]. apply Forall2_app; [|apply lx_match_list].
      apply Forall2_flat_map. eapply Forall_impl; [|exact H]. intros a Ha. apply Ha.
    + rewrite !map_app, !strip_lift0, strip_ls_list. reflexivity.
  - constructor.
Qed.

Theorem ltree_erases p : lmatch (ltree p) (rope_tree p).
Proof.
  unfold ltree, rope_tree.
  assert (E : map strip (flat_map (ls_names [] false) p) = flat_map (rs_names [] false) p) by apply strip_ls_list.
  assert (K : map (fun e : levent => fst (fst e)) (flat_map (ls_names [] false) p) = keys (flat_map (rs_names [] false) p)).
  { rewrite <- E. unfold keys. rewrite map_map. reflexivity. }
  rewrite K, <- E. constructor.
  apply Forall2_flat_map. apply Forall_forall. intros s _. apply ls_match.
Qed.

(* a path addresses matching scopes *)
Lemma lmatch_nth lcs rcs i :
  Forall2 lmatch lcs rcs ->
  match nth_error lcs i, nth_error rcs i with
  | Some a, Some b => lmatch a b
  | None, None => True
  | _, _ => False
  end.
Proof.
  intros H. revert i. induction H as [|a b la lb Hab Hl IH]; intros [|i]; cbn [nth_error]; auto. apply IH.
Qed.

Lemma lmatch_chain q : forall lt rt pre acc, lmatch lt rt ->
  match lscope_at lt q, rchain_from rt pre q acc with
  | Some ls, Some ((_, rs) :: _) => map strip (llevs ls) = revs rs
  | None, None => True
  | _, _ => False
  end.
Proof.
  induction q as [|i q IH]; intros lt rt pre acc H; cbn [lscope_at rchain_from].
  - inversion H; subst. reflexivity.
  - inversion H; subst. cbn [lchildren rchildren].
    pose proof (lmatch_nth lcs rcs i H0) as Hn.
    destruct (nth_error lcs i) as [a|], (nth_error rcs i) as [b|]; try contradiction; [|exact I].
    apply IH. exact Hn.
Qed.

Lemma lmatch_at lt rt q : lmatch lt rt ->
  match lscope_at lt q, scope_at rt q with
  | Some ls, Some rs => map strip (llevs ls) = revs rs
  | None, None => True
  | _, _ => False
  end.
Proof.
  intros H. unfold scope_at, rchain. pose proof (lmatch_chain q lt rt [] [] H) as G.
  destruct (lscope_at lt q), (rchain_from rt [] q []) as [[|[? ?] ?]|]; auto.
Qed.

(* the kind of the table entry the l-state machine ends with is C15's [entry] *)
Lemma lstate_kind cur evs x :
  option_map (fun s : nkind * option N * option (option N) => fst (fst s)) (lstate_from cur evs x)
  = entry_from (option_map (fun s : nkind * option N * option (option N) => fst (fst s)) cur) (map strip evs) x.
Proof.
  revert cur. induction evs as [|[[y k] p] r IH]; intros cur; cbn [lstate_from entry_from map strip fst]; [reflexivity|].
  destruct (N.eqb y x); [|apply IH].
  rewrite IH. f_equal. destruct (weak k); [|reflexivity].
  destruct cur as [[[k0 ln] fa]|]; [|reflexivity]. cbn [option_map fst]. destruct (assigned_kind k0); reflexivity.
Qed.

Definition state_kind (s : nkind * option N * option (option N)) : nkind := fst (fst s).

Theorem lstate_entry evs x :
  option_map state_kind (lstate_from None evs x) = entry (map strip evs) x.
Proof. exact (lstate_kind None evs x). Qed.

Theorem ltree_paths p q :
  match lscope_at (ltree p) q, scope_at (rope_tree p) q with
  | Some ls, Some rs => map strip (llevs ls) = revs rs
  | None, None => True
  | _, _ => False
  end.
Proof. apply lmatch_at. apply ltree_erases. Qed.
