(* MODEL of the scope-level half of completion and of definition lookup, on top of C15's model of rope's
   scopes (coq/C15/RopeScopes.v: [rope_tree], [entry], [gnames], [propagated], [lookup_chain], [holding]):

     rope/contrib/codeassist.py   _PythonCodeAssist._code_completions (line, logical start, holding scope),
                                  _undotted_completions (the walk from the module scope inwards: outer scopes
                                  contribute get_propagated_names() - nothing for a class -, the innermost one
                                  get_names(); a later scope overwrites an earlier one), _is_defined_after,
                                  _matching_keywords / __call__ (keywords when nothing is dotted and something
                                  was typed), CompletionProposal._get_scope (builtin / imported override),
                                  get_definition_location
     rope/contrib/fixsyntax.py    _logical_start (text that needs no repair), _get_line_indents
     rope/base/codeanalyze.py     LogicalLineFinder.logical_line_in / _first_non_blank
     rope/base/pynamesdef.py      AssignedName.get_definition_location (lineno, else the first appended
                                  assignment's line), ParameterName, DefinedName, ImportedName/Module
     rope/base/pyobjectsdef.py    which line each visitor event records (the second component of an l-event)

   Not modelled (oracle / exhaustive execution only): dotted completion (needs type inference), the
   [name=] proposals of _keyword_parameters, completion after [from m import], the syntax-repair path.

   DEFINITION LINES.  C15's events (name, kind) are extended to l-events (name, kind, pay): [pay_line] is
   the [lineno] the PyName object is created with, [pay_app] what the event appends to [assignments] of an
   existing AssignedName ([ALine l]: an AssignmentValue whose node is on line l; [APoison]: an
   AssignmentValue without node - the bare annotation [x: T] -, whose get_lineno() raises AttributeError:
   since repo commit 5d25e3b get_definition_location goes on to the first assignment that has a node, so
   it weighs like [ANone]: nothing - walrus targets).  The line of a statement stands for the line of the assigned value
   (they coincide unless the value starts on a continuation line; the harness keeps the correspondence
   inside that domain and the oracle reports the others).  The tree of l-events [ltree] has the shape of
   [rope_tree] by construction (erasure lemma in CompleteProofs.v). *)
From Coq Require Import List NArith Bool PeanoNat.
From RopeVerif.Lib Require Import Text.
From RopeVerif.C15 Require Import Syntax Scoping RopeScopes Fragment.
From RopeVerif.C20 Require Import Split.
Import ListNotations.

(* ------------------------------------------------------------------ logical start of a line *)
Section Lines.
  Variable lay : list lineinfo.

  (* a NEWLINE token ends on line l (comment-only lines are logical lines of their own in [lay]; the
     tokenizer gives them no NEWLINE) *)
  Definition nl_end (l : N) : bool := let li := line_at lay l in li_end li && negb (li_empty li).

  (* LogicalLineFinder._calculate_logical: the region of l starts after the last NEWLINE before l *)
  Fixpoint region_start (fuel : nat) (l : N) : N :=
    match fuel with
    | O => 1%N
    | S f => if N.leb l 1 then 1%N else if nl_end (N.pred l) then l else region_start f (N.pred l)
    end.

  (* LogicalLineFinder._first_non_blank *)
  Fixpoint first_non_blank (fuel : nat) (cur : N) : N :=
    match fuel with
    | O => cur
    | S f =>
        if N.ltb cur (nlines lay)
        then (if li_empty (line_at lay cur) then first_non_blank f (N.succ cur) else cur)
        else cur
    end.

  Definition logical_start (l : N) : N :=
    first_non_blank (S (length lay)) (region_start (S (length lay)) l).
End Lines.

(* ------------------------------------------------------------------ l-events *)
Inductive app := ALine (l : N) | APoison | ANone.
Record pay := Pay { pay_line : option N; pay_app : app }.
Definition pay0 := Pay None ANone.
Notation levent := (ident * nkind * pay)%type.
Notation levents := (list levent).
Definition strip (e : levent) : ident * nkind := fst e.
Definition lift0 (evs : events) : levents := map (fun e => (e, pay0)) evs.
Definition lassigned (a : app) (xs : list ident) : levents := map (fun x => (x, NAssigned, Pay None a)) xs.

Inductive lscope := LScope (levs : levents) (children : list lscope).
Definition llevs (s : lscope) := let 'LScope e _ := s in e.
Definition lchildren (s : lscope) := let 'LScope _ c := s in c.

(* _ComprehensionVisitor._Name (Store): AssignedName(lineno=node.lineno) *)
Definition lcomp_target_events (l : N) (t : expr) : levents :=
  map (fun x => (x, NCompTarget, Pay (Some l) ANone)) (target_names t).
Definition lcg_names (l : N) (c : comp) : levents :=
  match c with Comp t i _ => lcomp_target_events l t ++ lift0 (rx_names t) ++ lift0 (rx_names i) end.

Fixpoint lx_scopes (e : expr) : list lscope :=
  match e with
  | EName _ | EConst => []
  | EAttr e _ => lx_scopes e
  | ESub e i => lx_scopes e ++ lx_scopes i
  | ETuple es | EOp es => flat_map lx_scopes es
  | ECall f args => lx_scopes f ++ flat_map lx_scopes args
  | EKw _ e => lx_scopes e
  | ENamed _ v => lx_scopes v
  | ELambda _ _ _ ae body => flat_map lx_scopes ae ++ lx_scopes body
  | EComp _ l _ elts gens =>
      [LScope (lift0 (flat_map rx_names elts) ++ flat_map (lcg_names l) gens)
              (flat_map lx_scopes elts ++ flat_map lcg_scopes gens)]
  end
with lcg_scopes (c : comp) : list lscope :=
  match c with Comp t i _ => lx_scopes t ++ lx_scopes i end.
Definition olx_scopes (o : option expr) : list lscope := match o with Some e => lx_scopes e | None => [] end.

(* _ClassInitVisitor._Attribute: AssignedName(lineno=node.lineno) if absent, then the assignment *)
Definition lself_events (l : N) (a : app) (self : ident) (t : expr) : levents :=
  map (fun x => (x, NSelfAttr, Pay (Some l) a)) (self_attrs self t).

Fixpoint lci_names (self : ident) (s : stmt) : levents :=
  match s with
  | SAssign l ts v => flat_map (lself_events l (ALine l) self) ts ++ lift0 (rx_names v)
  | SAug l t _ => lself_events l ANone self t
  | SAnn l t _ _ => lself_events l ANone self t
  | SIf _ _ b o | SWhile _ _ b o => flat_map (lci_names self) b ++ flat_map (lci_names self) o
  | STry _ b hs o f =>
      flat_map (lci_names self) b
      ++ flat_map (fun h => match h with Handler _ _ _ hb => flat_map (lci_names self) hb end) hs
      ++ flat_map (lci_names self) o ++ flat_map (lci_names self) f
  | _ => []
  end.
Fixpoint lci_scopes (s : stmt) : list lscope :=
  match s with
  | SAssign _ _ v => lx_scopes v
  | SIf _ _ b o | SWhile _ _ b o => flat_map lci_scopes b ++ flat_map lci_scopes o
  | STry _ b hs o f =>
      flat_map lci_scopes b
      ++ flat_map (fun h => match h with Handler _ _ _ hb => flat_map lci_scopes hb end) hs
      ++ flat_map lci_scopes o ++ flat_map lci_scopes f
  | _ => []
  end.

Definition lparam_events (l : N) (ps : list param) : levents :=
  map (fun x => (x, NParam, Pay (Some l) ANone)) (rope_param_names ps).
Definition limport_events (n : list occ * option occ) : levents := lift0 (import_events n).
Definition litem_events (l : N) (it : expr * option expr) : levents :=
  match it with (_, Some v) => lassigned (ALine l) (target_names v) | (_, None) => [] end.

Section LVisit.
  Variable mn : list ident.

  Fixpoint ls_names (cls : bool) (s : stmt) : levents :=
    match s with
    | SExpr _ es => lift0 (flat_map rx_names es)
    | SReturn _ _ => []
    | SAssign l ts v => lassigned (ALine l) (flat_map target_names ts) ++ lift0 (rx_names v)
    | SAug _ _ _ => []
    | SAnn l t _ v => lassigned (match v with Some _ => ALine l | None => APoison end) (target_names t)
    | SDel _ ts => lift0 (flat_map rx_names ts)
    | SPass _ => []
    | SIf _ t b o | SWhile _ t b o =>
        lift0 (rx_names t) ++ flat_map (ls_names cls) b ++ flat_map (ls_names cls) o
    | SFor l t _ b o =>
        lassigned (ALine l) (target_names t) ++ flat_map (ls_names cls) b ++ flat_map (ls_names cls) o
    | SWith l items b => flat_map (litem_events l) items ++ flat_map (ls_names cls) b
    | STry _ b hs o f =>
        flat_map (ls_names cls) b
        ++ flat_map (fun h => match h with
                              | Handler hl _ nm hb =>
                                  lassigned (ALine hl) (map oname (opt_list nm)) ++ flat_map (ls_names cls) hb
                              end) hs
        ++ flat_map (ls_names cls) o ++ flat_map (ls_names cls) f
    | SDef l _ _ n ps _ _ body =>
        (oname n, NDefFun, Pay (Some l) ANone)
        :: (if cls then match first_arg ps with
                        | Some self => flat_map (lci_names self) body
                        | None => []
                        end
            else [])
    | SClass l _ _ n _ _ => [(oname n, NDefClass, Pay (Some l) ANone)]
    | SImport _ ns => flat_map limport_events ns
    | SFrom _ _ _ (Some ns) => lift0 (map from_events ns)
    | SFrom _ _ _ None => []
    | SGlobal l ns => map (fun o => (oname o, NGlobal (mem (oname o) mn), Pay (Some l) ANone)) ns
    | SNonlocal _ _ => []
    end.

  Fixpoint ls_scopes (cls : bool) (s : stmt) : list lscope :=
    match s with
    | SExpr _ es => flat_map lx_scopes es
    | SReturn _ _ => []
    | SAssign _ _ v => lx_scopes v
    | SAug _ _ _ => []
    | SAnn _ _ _ _ => []
    | SDel _ ts => flat_map lx_scopes ts
    | SPass _ => []
    | SIf _ t b o | SWhile _ t b o => lx_scopes t ++ flat_map (ls_scopes cls) b ++ flat_map (ls_scopes cls) o
    | SFor _ _ _ b o => flat_map (ls_scopes cls) b ++ flat_map (ls_scopes cls) o
    | SWith _ _ b => flat_map (ls_scopes cls) b
    | STry _ b hs o f =>
        flat_map (ls_scopes cls) b
        ++ flat_map (fun h => match h with Handler _ _ _ hb => flat_map (ls_scopes cls) hb end) hs
        ++ flat_map (ls_scopes cls) o ++ flat_map (ls_scopes cls) f
    | SDef l _ d n ps ae r body =>
        LScope (lift0 (flat_map rx_names ae) ++ flat_map (ls_names false) body ++ lift0 (flat_map rx_names d)
                ++ lift0 (orx_names r) ++ lparam_events l ps)
               (flat_map lx_scopes ae ++ flat_map (ls_scopes false) body ++ flat_map lx_scopes d ++ olx_scopes r)
        :: (if cls then match first_arg ps with
                        | Some _ => flat_map lci_scopes body
                        | None => []
                        end
            else [])
    | SClass l _ d n bs body =>
        [LScope (lift0 (flat_map rx_names bs) ++ flat_map (ls_names true) body ++ lift0 (flat_map rx_names d))
                (flat_map lx_scopes bs ++ flat_map (ls_scopes true) body ++ flat_map lx_scopes d)]
    | SImport _ _ | SFrom _ _ _ _ | SGlobal _ _ | SNonlocal _ _ => []
    end.
End LVisit.

Definition ltree (p : program) : lscope :=
  let evs := flat_map (ls_names [] false) p in
  LScope evs (flat_map (ls_scopes (map (fun e => fst (fst e)) evs) false) p).

Fixpoint lscope_at (t : lscope) (p : path) : option lscope :=
  match p with
  | [] => Some t
  | i :: r => match nth_error (lchildren t) i with Some c => lscope_at c r | None => None end
  end.

(* ------------------------------------------------------------------ the line of a table entry *)
(* the PyName object stored under a name: its kind, the lineno it was created with, the line of the first
   assignment that has one *)
Notation lstate := (nkind * option N * option (option N))%type.

Definition assigned_kind (k : nkind) : bool :=
  match k with NAssigned | NSelfAttr | NCompTarget | NGlobal false => true | _ => false end.
Definition app_first (a : app) (cur : option (option N)) : option (option N) :=
  match cur with
  | Some _ => cur
  | None => match a with ALine l => Some (Some l) | APoison | ANone => None end
  end.

Fixpoint lstate_from (cur : option lstate) (evs : levents) (x : ident) : option lstate :=
  match evs with
  | [] => cur
  | (y, k, p) :: r =>
      if N.eqb y x then
        lstate_from
          (if weak k then
             match cur with
             | None => Some (k, pay_line p, app_first (pay_app p) None)
             | Some (k0, ln, fa) => if assigned_kind k0 then Some (k0, ln, app_first (pay_app p) fa) else cur
             end
           else Some (k, pay_line p, None)) r x
      else lstate_from cur r x
  end.

(* AssignedName.get_definition_location()[1]: lineno, else the line of the first assignment with a node
   (and the fixed lines of the other kinds; an import that does
   not resolve has no location) *)
Definition line_of_state (s : lstate) : option N :=
  match s with
  | (NImport, _, _) => None
  | (NGlobal _, _, _) => None          (* _Global: AssignedName(node.lineno) has no module: location (None, l) *)
  | (_, Some l, _) => Some l
  | (_, None, Some (Some l)) => Some l
  | (_, None, _) => None
  end.

Definition entry_line (evs : levents) (x : ident) : option N :=
  match lstate_from None evs x with Some s => line_of_state s | None => None end.

(* the line of the PyName a lookup answered with [b] (own_binding sends a name declared global to the
   module's own table) *)
Definition binding_line (lt : lscope) (b : binding) (x : ident) : option N :=
  match b with
  | BScope q => match lscope_at lt q with Some s => entry_line (llevs s) x | None => None end
  | _ => None
  end.

(* ------------------------------------------------------------------ proposals *)
Inductive pscope := PLocal | PGlobal | PBuiltin | PImported | PKeyword.
Definition pscope_code (s : pscope) : N :=
  match s with PLocal => 1 | PGlobal => 2 | PBuiltin => 3 | PImported => 4 | PKeyword => 5 end%N.

Section Proposals.
  Variable bi : list ident.
  Variable inh : path -> ident -> option binding.
  Variable rt : rscope.
  Variable lt : lscope.
  Variable lay : list lineinfo.

  (* CompletionProposal._get_scope: BuiltinName -> builtin, ImportedModule / ImportedName -> imported,
     else "global" for names found in the module scope and "local" otherwise *)
  Definition is_imported (b : binding) (x : ident) : bool :=
    match b with
    | BScope q => match scope_at rt q with
                  | Some s => match entry (revs s) x with Some NImport => true | _ => false end
                  | None => false
                  end
    | _ => false
    end.
  Definition kind_of (found_in : skind) (b : binding) (x : ident) : pscope :=
    match b with
    | BBuiltin => PBuiltin
    | _ => if is_imported b x then PImported
           else if skind_eqb found_in KModule then PGlobal else PLocal
    end.

  (* the outer scopes, innermost first: what the recursion of _undotted_completions has left in [result]
     for x when it reaches the innermost scope *)
  Fixpoint outer_prop (ch : list (path * rscope)) (x : ident) : option (skind * binding) :=
    match ch with
    | [] => None
    | (p, s) :: outer =>
        if is_class (rk s) then outer_prop outer x
        else match gnames bi inh ch x with
             | Some b => Some (rk s, b)
             | None => outer_prop outer x
             end
    end.

  (* _is_defined_after(scope, pyname, lineno): same module, lineno <= line <= scope.get_end() *)
  Definition defined_after (s : rscope) (lineno : N) (b : binding) (x : ident) : bool :=
    match binding_line lt b x with
    | Some l => N.leb lineno l && N.leb l (rope_end lay s)
    | None => false
    end.

  Definition proposal (ll : bool) (lineno : N) (ch : list (path * rscope)) (x : ident)
    : option (skind * binding) :=
    match ch with
    | [] => None
    | (p, s) :: outer =>
        match gnames bi inh ch x with
        | Some b => if ll || negb (defined_after s lineno b x) then Some (rk s, b) else outer_prop outer x
        | None => outer_prop outer x
        end
    end.

  Definition proposal_kind (ll : bool) (lineno : N) (ch : list (path * rscope)) (x : ident) : option pscope :=
    match proposal ll lineno ch x with
    | Some (k, b) => Some (kind_of k b x)
    | None => None
    end.
End Proposals.

(* ------------------------------------------------------------------ completions *)
Fixpoint is_prefix (a b : text) : bool :=
  match a, b with
  | [], _ => true
  | x :: a', y :: b' => N.eqb x y && is_prefix a' b'
  | _ :: _, [] => false
  end.

Record world := World {
  w_rt : rscope;                                   (* rope_tree p *)
  w_lt : lscope;                                   (* ltree p *)
  w_lay : list lineinfo;
  w_bi : list ident;                               (* identifiers that are builtins *)
  w_inh : path -> ident -> option binding;         (* inherited attributes of the classes *)
  w_ids : list ident;                              (* the identifiers of the case *)
  w_spell : ident -> text;                         (* their spellings *)
  w_kws : list text                                (* keyword.kwlist *)
}.
Definition world_of (p : program) (lay : list lineinfo) (bi : list ident) (inh : path -> ident -> option binding)
           (ids : list ident) (spell : ident -> text) (kws : list text) : world :=
  World (rope_tree p) (ltree p) lay bi inh ids spell kws.

(* the scope holding line [lineno]: logical start, its indentation, get_inner_scope_for_line *)
Definition holding_path (w : world) (lineno : N) : path :=
  rope_scope_for_line (w_lay w) (w_rt w) (logical_start (w_lay w) lineno).

(* _undotted_completions for the scope at [q] *)
Definition names_at (w : world) (q : path) (lineno : N) (ll : bool) (x : ident) : option pscope :=
  match rchain (w_rt w) q with
  | Some ch => proposal_kind (w_bi w) (w_inh w) (w_rt w) (w_lt w) (w_lay w) ll lineno ch x
  | None => None
  end.

(* code_assist for an undotted prefix [starting] typed on line [lineno]: (spelling, scope) pairs *)
Definition completions_at (w : world) (q : path) (lineno : N) (starting : text) (ll : bool) : list (text * pscope) :=
  flat_map (fun x => if is_prefix starting (w_spell w x)
                     then match names_at w q lineno ll x with Some k => [(w_spell w x, k)] | None => [] end
                     else []) (w_ids w)
  ++ (if blank starting then [] else map (fun k => (k, PKeyword)) (filter (is_prefix starting) (w_kws w))).

Definition completions (w : world) (lineno : N) (starting : text) (ll : bool) : list (text * pscope) :=
  completions_at w (holding_path w lineno) lineno starting ll.

(* get_definition_location for a plain name x looked up from the scope at q *)
Definition definition_line (w : world) (q : path) (x : ident) : option N :=
  binding_line (w_lt w) (rope_lookup (w_bi w) (w_inh w) (w_rt w) q x) x.

(* ------------------------------------------------------------------ SPEC *)
(* the names visible from the scope at q under Python's rules: bound there, in an enclosing function
   scope, at module level, or builtin - C15's [spec_resolve] finds a binding *)
Definition visible_at (bi : list ident) (st : sscope) (q : path) (x : ident) : bool :=
  match spec_resolve bi st q x with BNone => false | _ => true end.
