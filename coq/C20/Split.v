(* MODEL of the text-level half of completion: rope/base/worder.py
     _RealFinder._find_word_start, _find_last_non_space_char, _find_string_start, _find_parens_start,
     _find_atom_start, _find_primary_without_dot_start, _find_primary_start, get_splitted_primary_before,
     Worder._context_call (the switch to the raw text inside strings and comments)
   and of the two line-level helpers of rope/contrib/codeassist.py (_code_completions: lineno) and
   rope/contrib/fixsyntax.py (_logical_start on text that needs no repair).

   Representation.  The functions of worder.py walk backwards from the cursor over [self.code]; a position
   is therefore kept as the REVERSED text before a boundary together with the character just after the
   boundary ([pos]).  A Python "offset of a character" k is the boundary k+1 (the character is the head of
   the list); a Python "start offset" s is the boundary s (the character at s is the look-ahead).  Numeric
   offsets are recovered as lengths.  The loops are structurally recursive where they only walk left; the
   mutually recursive finders and their while loops take fuel (out of fuel = [None], excluded in the
   statements; [split_in] gives twice the length of the text + 4, which suffices because every loop
   iteration and every nested call moves left).

   Quirks kept: a keyword directly before the cursor is not a primary unless an identifier character
   follows; [_find_last_non_space_char] stops ON a newline; the relative-import test [from .x]; a string
   start is the previous occurrence of the same quote character.  Two former quirks are gone from the code
   and from this model (repo commits faeb634, 2b4039e): after a blank nothing is split off the previous
   word, and a keyword-spelled word directly after a dot is an attribute name.
   Python's negative indices: [code[-1]] is the last character of the text ([lastc]); the one place where
   the algorithm would go on with a negative offset after finding that character to be a dot yields
   [None] (outside the model; counted by the harness). *)
From Coq Require Import List NArith Bool.
From RopeVerif.Lib Require Import Text.
Import ListNotations.

(* ------------------------------------------------------------------ characters (ASCII; the harness keeps
   generated sources ASCII, str.isalnum / str.isspace on other code points are outside the model) *)
Definition is_digit (c : N) : bool := N.leb 48 c && N.leb c 57.
Definition is_alpha (c : N) : bool := (N.leb 65 c && N.leb c 90) || (N.leb 97 c && N.leb c 122).
Definition is_id_char (c : N) : bool := is_alpha c || is_digit c || N.eqb c 95.
(* str.isspace: \t \n \v \f \r, FS GS RS US, space *)
Definition is_space (c : N) : bool := (N.leb 9 c && N.leb c 13) || (N.leb 28 c && N.leb c 32).
Definition ch_nl := 10%N.
Definition ch_dot := 46%N.
Definition is_quote (c : N) : bool := N.eqb c 34 || N.eqb c 39.            (* double and single quote *)
Definition is_close (c : N) : bool := N.eqb c 41 || N.eqb c 93 || N.eqb c 125.   (* ) ] } *)
Definition is_close2 (c : N) : bool := N.eqb c 41 || N.eqb c 93.                 (* ) ] *)
Definition is_open (c : N) : bool := N.eqb c 40 || N.eqb c 91 || N.eqb c 123.    (* ( [ { *)
Definition is_colon_comma (c : N) : bool := N.eqb c 58 || N.eqb c 44.            (* : , *)

Definition blank (t : text) : bool := forallb is_space t.     (* t.strip() == "" *)

Notation pos := (list N * option N)%type.
Definition plen (p : pos) : N := N.of_nat (length (fst p)).
Definition oc_is (f : N -> bool) (o : option N) : bool := match o with Some c => f c | None => false end.

(* the boundary one character to the left *)
Definition step_left (p : pos) : pos :=
  match fst p with
  | [] => p
  | c :: l => (l, Some c)
  end.

(* _find_word_start(k): boundary k+1 -> boundary of the word start *)
Fixpoint word_start (l : list N) (nx : option N) : pos :=
  match l with
  | c :: l' => if is_id_char c then word_start l' (Some c) else (l, nx)
  | [] => (l, nx)
  end.

(* the identifier characters skipped by [word_start], in source order *)
Fixpoint word_before (l : list N) (acc : text) : text :=
  match l with
  | c :: l' => if is_id_char c then word_before l' (c :: acc) else acc
  | [] => acc
  end.

(* _find_last_non_space_char(k): boundary k+1 -> boundary k'+1 of the result (k' = -1 is the empty list);
   stops on a newline *)
Fixpoint last_non_space (l : list N) (nx : option N) : pos :=
  match l with
  | c :: l' => if is_space c then (if N.eqb c ch_nl then (l, nx) else last_non_space l' (Some c)) else (l, nx)
  | [] => (l, nx)
  end.

(* _find_string_start(k) with code[k] = kind: code.rindex(kind, 0, k), or 0.  [l] is the text before k.
   Result: the boundary (start offset) of the string *)
Fixpoint string_start (kind : N) (l : list N) (nx : option N) : pos :=
  match l with
  | c :: l' => if N.eqb c kind then (l', Some c) else string_start kind l' (Some c)
  | [] => ([], nx)
  end.

Section Finder.
  Variable kws : list text.          (* keyword.kwlist *)
  Variable lastc : N.                (* code[-1] *)
  Definition is_kw (w : text) : bool := existsb (text_eqb w) kws.

  (* the character a Python index expression code[k] reads when the boundary k+1 is [l]: code[-1] for k = -1 *)
  Definition at_ (l : list N) : N := match l with c :: _ => c | [] => lastc end.

  (* the word "from" ends at the head of l: code[k-3 : k+1] == "from" and (k < 4 or code[k-4] is no identifier
     character); a slice that would start at a negative index is treated as different *)
  Definition ends_from (l : list N) : bool :=
    match l with
    | 109%N :: 111%N :: 114%N :: 102%N :: rest =>
        match rest with
        | [] => true
        | c :: _ => negb (is_id_char c)
        end
    | _ => false
    end.

  (* _follows_dot(s) for a start offset s: the last non-blank character before s (same line) is a dot, and that dot
     does not end a number (the word before it, if any, does not begin with a digit: `3. else x`) *)
  Definition follows_dot (a : pos) : bool :=
    match fst (last_non_space (fst a) (snd a)) with
    | d :: lprev =>
        if N.eqb d ch_dot then
          let b := last_non_space lprev (Some d) in
          match fst b with
          | c :: _ =>
              if is_id_char c then negb (oc_is is_digit (snd (word_start (fst b) (snd b)))) else true
          | [] => true
          end
        else false
    | [] => false
    end.

  (* The finders take the boundary k+1 of the character offset k they are called with and return a boundary
     that is a START offset, except [parens_start] / [parens_loop], which return the boundary o+1 of the
     opening bracket's offset o (empty list: -1).  The while loops are members of the same mutual
     recursion; every call and every loop iteration spends one unit of fuel. *)
  Fixpoint parens_start (n : nat) (l : list N) (nx : option N) : option pos :=
    match n with
    | O => None
    | S n' =>
        match l with
        | [] => Some ([], nx)
        | c :: l' => parens_loop n' (last_non_space l' (Some c))      (* offset = last_non_space(k - 1) *)
        end
    end
  with parens_loop (n : nat) (p : pos) : option pos :=
    match n with
    | O => None
    | S n' =>
        match fst p with
        | [] => Some p
        | c :: l' =>
            if is_open c then Some p
            else if is_colon_comma c then parens_loop n' (last_non_space l' (Some c))
            else match primary_start n' (fst p) (snd p) with
                 | None => None
                 | Some q => parens_loop n' (last_non_space (fst q) (snd q))
                 end
        end
    end
  with atom_start (n : nat) (l : list N) (nx : option N) : option pos :=
    match n with
    | O => None
    | S n' =>
        match l with
        | [] => None
        | c :: l' =>
            if N.eqb c ch_nl then Some (l, nx)                       (* offset + 1 *)
            else
              let p := if is_space c then last_non_space l nx else (l, nx) in
              let d := at_ (fst p) in
              match fst p with
              | [] => if is_quote lastc || is_close lastc || is_id_char lastc then None   (* code[-1] *)
                      else Some (l', Some c)                         (* old_offset *)
              | _ :: lp =>
                  if is_quote d then Some (string_start d lp (Some d))
                  else if is_close d then
                    match parens_start n' (fst p) (snd p) with
                    | Some q => match fst q with
                                | _ :: _ => Some (step_left q)        (* the offset of the opening bracket *)
                                | [] => None                          (* unbalanced: -1 *)
                                end
                    | None => None
                    end
                  else if is_id_char d then Some (word_start (fst p) (snd p))
                  else Some (l', Some c)                             (* old_offset *)
              end
        end
    end
  with primary_wo_dot_start (n : nat) (l : list N) (nx : option N) : option pos :=
    match n with
    | O => None
    | S n' =>
        match l with
        | [] => None
        | c :: l' =>
            (* last_atom = k (as a start offset: boundary k); offset = last_non_space(k) *)
            match pwds_loop n' (l', Some c) (last_non_space l nx) with
            | None => None
            | Some (last_atom, p) =>
                match fst p with
                | [] => Some last_atom
                | d :: _ =>
                    if is_quote d || is_close d || is_id_char d then
                      match atom_start n' (fst p) (snd p) with
                      | None => None
                      | Some a =>
                          if negb (is_id_char d && is_kw (word_before (fst p) [])) || oc_is is_id_char (snd p)
                             || follows_dot a
                          then Some a else Some last_atom
                      end
                    else Some last_atom
                end
            end
        end
    end
  with pwds_loop (n : nat) (last_atom : pos) (p : pos) : option (pos * pos) :=
    match n with
    | O => None
    | S n' =>
        match fst p with
        | c :: (_ :: _) =>                                            (* offset > 0 *)
            if is_close2 c then
              match parens_start n' (fst p) (snd p) with
              | Some q =>
                  match fst q with
                  | _ :: _ =>
                      let la := step_left q in                        (* offset of the bracket, as a start *)
                      pwds_loop n' la (last_non_space (fst la) (snd la))
                  | [] => None
                  end
              | None => None
              end
            else Some (last_atom, p)
        | _ => Some (last_atom, p)
        end
    end
  with primary_start (n : nat) (l : list N) (nx : option N) : option pos :=
    match n with
    | O => None
    | S n' =>
        match l with
        | [] => None
        | c :: l' =>
            if N.eqb c ch_dot then primary_loop n' (l, nx)           (* offset + 1 *)
            else match primary_wo_dot_start n' l nx with
                 | None => None
                 | Some q => primary_loop n' q
                 end
        end
    end
  with primary_loop (n : nat) (p : pos) : option pos :=              (* p: a start offset *)
    match n with
    | O => None
    | S n' =>
        match fst p with
        | [] => Some p                                                (* offset > 0 fails *)
        | _ :: _ =>
            let prev := last_non_space (fst p) (snd p) in
            match fst prev with
            | [] => if N.eqb lastc ch_dot then None else Some p       (* code[-1] *)
            | d :: lprev =>
                if negb (N.eqb d ch_dot) then Some p
                else
                  let pwe := last_non_space lprev (Some d) in
                  if ends_from (fst pwe) then Some (lprev, Some d)   (* offset = prev *)
                  else
                    match lprev with
                    | [] => None                                      (* prev - 1 = -1 *)
                    | _ :: _ =>
                        match primary_wo_dot_start n' lprev (Some d) with
                        | None => None
                        | Some q => if oc_is is_id_char (snd q) then primary_loop n' q else Some q
                        end
                    end
            end
        end
    end.
End Finder.

(* ------------------------------------------------------------------ slices *)
Fixpoint drop (n : N) (t : text) : text :=
  match t with
  | [] => []
  | c :: t' => if N.eqb n 0 then t else drop (N.pred n) t'
  end.
Fixpoint take (n : N) (t : text) : text :=
  match t with
  | [] => []
  | c :: t' => if N.eqb n 0 then [] else c :: take (N.pred n) t'
  end.
(* t[a:b] for 0 <= a, 0 <= b *)
Definition slice (t : text) (a b : N) : text := if N.leb b a then [] else take (b - a) (drop a t).
Definition nth_ch (t : text) (k : N) : option N := hd_error (drop k t).
Definition tlen (t : text) : N := N.of_nat (length t).

(* ------------------------------------------------------------------ get_splitted_primary_before *)
(* [code] is the text the finder walks over (rope.base.simplify.real_code(raw), or raw itself inside an
   ignored region), [raw] the text the returned strings are cut from.  Result: (expression, starting,
   starting_offset). *)
Definition split_in (kws : list text) (code raw : text) (o : N) : option (text * text * N) :=
  if N.eqb o 0 then Some ([], [], 0%N)
  else
    let fuel := S (S (S (S (length code + length code)))) in
    let lastc := last code 0%N in
    let before := rev (take o code) in
    let nx := nth_ch code o in
    let e := N.pred o in
    match before with
    | [] => None
    | ce :: _ =>
        (* nothing is being typed after a blank; only a dot before the blanks continues an expression.  (The
           code computes both starts first; they have no effect on this answer.) *)
        if is_space ce && negb (oc_is (N.eqb ch_dot) (hd_error (fst (last_non_space before nx))))
        then Some ([], [], o)
        else
        match atom_start kws lastc fuel before nx, primary_start kws lastc fuel before nx with
        | Some wsp, Some rsp =>
            let ws := plen wsp in
            let rs := plen rsp in
            let ws := if blank (slice code ws o) then e else ws in
            let ws := if is_space ce then e else ws in
            let rs := if blank (slice code rs ws) then ws else rs in
            if N.eqb rs ws && N.eqb ws e && negb (is_id_char ce) then Some ([], [], o)
            else if N.eqb rs ws then Some ([], slice raw ws o, ws)
            else if N.eqb ce ch_dot then Some (slice raw rs e, [], o)
            else
              (* code[ws] exists because ws <= e < len(code) *)
              let cws := match nth_ch code ws with Some c => c | None => 0%N end in
              let before_ws := rev (take ws code) in
              let ldp :=                                              (* boundary last_dot_position + 1 *)
                if N.eqb cws ch_dot then (cws :: before_ws, nth_ch code (N.succ ws))
                else last_non_space before_ws (Some cws) in
              let lcp := last_non_space (tl (fst ldp)) (hd_error (fst ldp)) in
              let ws' := if is_space cws then o else ws in
              Some (slice raw rs (plen lcp), slice raw ws' o, ws')
        | _, _ => None
        end
    end.

(* Worder._context_call: bisect over the starts of the ignored regions (strings and comments) *)
Fixpoint in_ignored (regions : list (N * N)) (o : N) : bool :=
  match regions with
  | [] => false
  | (a, b) :: r => if N.leb a o && N.ltb o b then true else in_ignored r o
  end.

Definition split_before (kws : list text) (regions : list (N * N)) (code raw : text) (o : N)
  : option (text * text * N) :=
  if in_ignored regions o then split_in kws raw raw o else split_in kws code raw o.

(* ------------------------------------------------------------------ line of an offset *)
(* code.count("\n", 0, o) + 1 *)
Definition line_of (raw : text) (o : N) : N :=
  N.succ (N.of_nat (length (filter (N.eqb ch_nl) (take o raw)))).
