(* The link from statement syntax to definition lines: in the fragment, the line rope's tables give a name whose
   binding is statically determined is the line of the statement that binds it. *)
From Coq Require Import List NArith Bool PeanoNat Lia.
From RopeVerif.Lib Require Import Text.
From RopeVerif.C15 Require Import Syntax Scoping RopeScopes Fragment RopeScopesProofs.
From RopeVerif.C20 Require Import Split Complete CompleteProofs BindLines EraseProofs.
Import ListNotations.

(* ------------------------------------------------------------------ the spec is C15's, annotated *)
Lemma bname_at_line l k xs : map bname (at_line l k xs) = xs.
Proof. unfold at_line. rewrite map_map. cbn. apply map_id. Qed.

Lemma map_flat_map_eq {A B C} (h : B -> C) (f : A -> list B) (g : A -> list C) l :
  Forall (fun a => map h (f a) = g a) l -> map h (flat_map f l) = flat_map g l.
Proof. induction 1; cbn; [reflexivity | now rewrite map_app, H, IHForall]. Qed.

Lemma bind_lines_names s : map bname (s_bind_lines s) = s_binds s.
Proof.
  unfold s_binds.
  induction s using stmt_ind'; cbn [s_bind_lines s_binds_gen]; rewrite ?map_app; cbn [map]; rewrite ?map_app, ?bname_at_line;
    try reflexivity.
  - f_equal. f_equal; now apply map_flat_map_eq.
  - f_equal. f_equal; now apply map_flat_map_eq.
  - f_equal. f_equal. f_equal. f_equal; now apply map_flat_map_eq.
  - f_equal; [|now apply map_flat_map_eq].
    apply map_flat_map_eq. apply Forall_forall. intros [c [v|]] _; cbn; rewrite ?map_app, ?bname_at_line; reflexivity.
  - f_equal; [now apply map_flat_map_eq|]. f_equal; [|f_equal; now apply map_flat_map_eq].
    apply map_flat_map_eq. eapply Forall_impl; [|exact H0]. intros [hl ty nm hb] Hh. cbn in Hh.
    rewrite !map_app, !bname_at_line. f_equal. f_equal. now apply map_flat_map_eq.
  - destruct ns; cbn; [apply bname_at_line | reflexivity].
Qed.

Lemma bind_lines_names_list b : map bname (flat_map s_bind_lines b) = flat_map s_binds b.
Proof. apply map_flat_map_eq. apply Forall_forall. intros s _. apply bind_lines_names. Qed.

(* ------------------------------------------------------------------ the names dictionary on uniform events *)
(* an event that gives a name the line l: a plain assignment with its value on line l, a def / class on line l *)
Definition line_event (l : N) (e : levent) : Prop :=
  (snd (fst e) = NAssigned /\ snd e = Pay None (ALine l))
  \/ ((snd (fst e) = NDefFun \/ snd (fst e) = NDefClass) /\ pay_line (snd e) = Some l).

Definition lstep (cur : option (nkind * option N * option (option N))) (k : nkind) (p : pay) :=
  if weak k then
    match cur with
    | None => Some (k, pay_line p, app_first (pay_app p) None)
    | Some (k0, ln, fa) => if assigned_kind k0 then Some (k0, ln, app_first (pay_app p) fa) else cur
    end
  else Some (k, pay_line p, None).

Definition good (l : N) (s : nkind * option N * option (option N)) : Prop :=
  line_of_state s = Some l /\ (assigned_kind (fst (fst s)) = true -> exists v, snd s = Some v).

Lemma lstep_good l cur y k p :
  (cur = None \/ exists s, cur = Some s /\ good l s) ->
  line_event l (y, k, p) ->
  exists s, lstep cur k p = Some s /\ good l s.
Proof.
  intros Hc [[Hk Hp]|[Hk Hp]]; cbn [fst snd] in *.
  - subst k p. unfold lstep. cbn [weak pay_line pay_app].
    destruct Hc as [->|[[[k0 ln] fa] [-> [Hl Hfa]]]].
    + eexists. split; [reflexivity|]. split; [reflexivity|]. cbn. eauto.
    + cbn [fst snd] in Hfa. destruct (assigned_kind k0) eqn:Ea.
      * destruct (Hfa eq_refl) as [v ->]. cbn [app_first]. eexists. split; [reflexivity|].
        split; [exact Hl|]. cbn [fst snd]. eauto.
      * eexists. split; [reflexivity|]. split; [exact Hl|]. cbn [fst snd]. congruence.
  - unfold lstep. assert (Hw : weak k = false) by (destruct Hk as [-> | ->]; reflexivity). rewrite Hw, Hp.
    eexists. split; [reflexivity|]. split.
    + destruct Hk as [-> | ->]; reflexivity.
    + cbn [fst snd]. destruct Hk as [-> | ->]; discriminate.
Qed.

Lemma lstate_from_step cur y k p r x :
  lstate_from cur ((y, k, p) :: r) x = if N.eqb y x then lstate_from (lstep cur k p) r x else lstate_from cur r x.
Proof. reflexivity. Qed.

Lemma entry_line_uniform evs x l :
  (exists e, In e evs /\ fst (fst e) = x) ->
  (forall e, In e evs -> fst (fst e) = x -> line_event l e) ->
  entry_line evs x = Some l.
Proof.
  intros Hex Hall. unfold entry_line.
  assert (G : forall cur,
            (cur = None \/ exists s, cur = Some s /\ good l s) ->
            ((exists s, cur = Some s) \/ exists e, In e evs /\ fst (fst e) = x) ->
            exists s, lstate_from cur evs x = Some s /\ good l s).
  { clear Hex. induction evs as [|[[y k] p] r IH]; intros cur Hc Hne.
    - cbn. destruct Hne as [[s ->]|[e [[] _]]]. destruct Hc as [Hc|[s' [[= <-] Hg]]]; [discriminate|]. eauto.
    - rewrite lstate_from_step. destruct (N.eqb_spec y x) as [->|Hyx].
      + assert (Hle : line_event l (x, k, p)) by (apply Hall; [now left | reflexivity]).
        destruct (lstep_good l cur x k p Hc Hle) as [s [Es Hs]]. rewrite Es.
        apply IH; [intros e He; apply Hall; now right | right; eauto | left; eauto].
      + apply IH; [intros e He; apply Hall; now right | exact Hc |].
        destruct Hne as [Hne|[e [[<-|He] Hx]]]; [now left | cbn in Hx; congruence | right; eauto]. }
  destruct (G None (or_introl eq_refl) (or_intror Hex)) as [s [-> [Hs _]]]. exact Hs.
Qed.

(* ------------------------------------------------------------------ events of a statement against its bindings *)
Lemma in_at_line x l k xs : In (x, l, k) (at_line l k xs) <-> In x xs.
Proof.
  unfold at_line. rewrite in_map_iff. split.
  - intros [y [[= <-] Hy]]. exact Hy.
  - intros H. now exists x.
Qed.

Lemma in_lift0 x k p evs : In (x, k, p) (lift0 evs) -> In x (keys evs) /\ p = pay0.
Proof.
  unfold lift0. rewrite in_map_iff. intros [[y k'] [[= <- <- <-] Hy]]. split; [|reflexivity].
  apply In_keys. eauto.
Qed.

Lemma in_lassigned x k p a xs : In (x, k, p) (lassigned a xs) -> k = NAssigned /\ p = Pay None a /\ In x xs.
Proof. unfold lassigned. rewrite in_map_iff. intros [y [[= <- <- <-] Hy]]. auto. Qed.

Lemma walrus_keys_list w es :
  forallb (expr_ok w) es = true -> forall x, In x (keys (flat_map rx_names es)) -> In x (flat_map e_walrus es).
Proof.
  induction es as [|e es IH]; cbn [forallb flat_map]; intros H x Hx; [exact Hx|].
  apply andb_prop in H as [He Hes]. rewrite keys_app in Hx. apply in_app_iff in Hx. apply in_app_iff.
  destruct Hx as [Hx|Hx]; [left; now rewrite <- (expr_ok_walrus e w He) | right; now apply IH].
Qed.

Definition classified (x : ident) (k : nkind) (p : pay) (bl : list bentry) (gl : list ident) : Prop :=
  (exists l, line_event l (x, k, p) /\ exists bk, plain bk = true /\ In (x, l, bk) bl)
  \/ (exists l bk, plain bk = false /\ In (x, l, bk) bl)
  \/ In x gl.

Lemma classified_mono x k p bl bl' gl gl' :
  (forall e, In e bl -> In e bl') -> (forall y, In y gl -> In y gl') ->
  classified x k p bl gl -> classified x k p bl' gl'.
Proof.
  intros Hb Hg [[l [Hl [bk [Hp Hi]]]]|[[l [bk [Hp Hi]]]|Hi]].
  - left. exists l. split; [exact Hl|]. exists bk. auto.
  - right. left. exists l, bk. auto.
  - right. right. auto.
Qed.

Lemma other_entry x k p l xs bl gl :
  In x xs -> (forall e, In e (at_line l BOther xs) -> In e bl) -> classified x k p bl gl.
Proof. intros Hx Hb. right. left. exists l, BOther. split; [reflexivity|]. apply Hb. now apply in_at_line. Qed.

Lemma assign_entry x l xs bl gl :
  In x xs -> (forall e, In e (at_line l BAssign xs) -> In e bl) ->
  classified x NAssigned (Pay None (ALine l)) bl gl.
Proof.
  intros Hx Hb. left. exists l. split; [left; split; reflexivity|]. exists BAssign. split; [reflexivity|].
  apply Hb. now apply in_at_line.
Qed.

Section Classify.
  Variable mn mn' : list ident.

  Lemma list_classified b x k p :
    Forall (fun s => forall x k p, frag_stmt mn false s = true -> In (x, k, p) (ls_names mn' false s) ->
                                   classified x k p (s_bind_lines s) (s_globals s)) b ->
    forallb (frag_stmt mn false) b = true ->
    In (x, k, p) (flat_map (ls_names mn' false) b) ->
    classified x k p (flat_map s_bind_lines b) (flat_map s_globals b).
  Proof.
    intros HF Hfr Hin. apply in_flat_map in Hin as [s [Hs Hin]].
    rewrite Forall_forall in HF. rewrite forallb_forall in Hfr.
    apply (classified_mono x k p (s_bind_lines s) _ (s_globals s) _).
    - intros e0 He. apply in_flat_map. eauto.
    - intros y Hy. apply in_flat_map. eauto.
    - apply HF; auto.
  Qed.

  Lemma events_classified s : forall x k p,
    frag_stmt mn false s = true -> In (x, k, p) (ls_names mn' false s) ->
    classified x k p (s_bind_lines s) (s_globals s).
  Proof.
    induction s using stmt_ind'; intros x k p Hfr Hin; cbn [frag_stmt] in Hfr; cbn [ls_names] in Hin;
      cbn [s_bind_lines s_globals]; try contradiction.
    - (* SExpr *)
      apply in_lift0 in Hin as [Hx ->]. apply (other_entry x k pay0 l (flat_map e_walrus es)); [|auto].
      now apply (walrus_keys_list true).
    - (* SAssign *)
      apply andb_prop in Hfr as [_ Hv]. apply in_app_iff in Hin as [Hin|Hin].
      + apply in_lassigned in Hin as (-> & -> & Hx). apply (assign_entry x l (flat_map target_names ts)); [exact Hx|].
        intros e0 He. apply in_app_iff. now left.
      + apply in_lift0 in Hin as [Hx ->]. apply (other_entry x k pay0 l (e_walrus v)).
        * now rewrite <- (expr_ok_walrus v true Hv).
        * intros e0 He. apply in_app_iff. right. apply in_app_iff. now right.
    - (* SAnn *)
      apply in_lassigned in Hin as (-> & -> & Hx). destruct v.
      + apply (assign_entry x l (target_names t)); [exact Hx|]. intros e0 He. apply in_app_iff. now left.
      + apply (other_entry x NAssigned _ l (target_names t)); [exact Hx|]. intros e0 He. apply in_app_iff. now left.
    - (* SDel *)
      destruct (simple_list_nil ts Hfr) as (E & _). rewrite E in Hin. contradiction.
    - (* SIf *)
      apply andb_prop in Hfr as [Hfr Ho]. apply andb_prop in Hfr as [Ht Hb].
      apply in_app_iff in Hin as [Hin|Hin]; [|apply in_app_iff in Hin as [Hin|Hin]].
      + apply in_lift0 in Hin as [Hx ->]. apply (other_entry x k pay0 l (e_walrus t)).
        * now rewrite <- (expr_ok_walrus t true Ht).
        * intros e0 He. apply in_app_iff. now left.
      + eapply classified_mono; [| |exact (list_classified b x k p H Hb Hin)].
        * intros e0 He. apply in_app_iff. right. apply in_app_iff. now left.
        * intros y Hy. apply in_app_iff. now left.
      + eapply classified_mono; [| |exact (list_classified o x k p H0 Ho Hin)].
        * intros e0 He. apply in_app_iff. right. apply in_app_iff. now right.
        * intros y Hy. apply in_app_iff. now right.
    - (* SWhile *)
      apply andb_prop in Hfr as [Hfr Ho]. apply andb_prop in Hfr as [Ht Hb].
      apply in_app_iff in Hin as [Hin|Hin]; [|apply in_app_iff in Hin as [Hin|Hin]].
      + apply in_lift0 in Hin as [Hx ->]. apply (other_entry x k pay0 l (e_walrus t)).
        * now rewrite <- (expr_ok_walrus t true Ht).
        * intros e0 He. apply in_app_iff. now left.
      + eapply classified_mono; [| |exact (list_classified b x k p H Hb Hin)].
        * intros e0 He. apply in_app_iff. right. apply in_app_iff. now left.
        * intros y Hy. apply in_app_iff. now left.
      + eapply classified_mono; [| |exact (list_classified o x k p H0 Ho Hin)].
        * intros e0 He. apply in_app_iff. right. apply in_app_iff. now right.
        * intros y Hy. apply in_app_iff. now right.
    - (* SFor *)
      apply andb_prop in Hfr as [Hfr Ho]. apply andb_prop in Hfr as [Hfr Hb].
      apply in_app_iff in Hin as [Hin|Hin]; [|apply in_app_iff in Hin as [Hin|Hin]].
      + apply in_lassigned in Hin as (-> & -> & Hx). apply (assign_entry x l (target_names t)); [exact Hx|].
        intros e0 He. apply in_app_iff. now left.
      + eapply classified_mono; [| |exact (list_classified b x k p H Hb Hin)].
        * intros e0 He. apply in_app_iff. right. apply in_app_iff. right. apply in_app_iff. right. apply in_app_iff. now left.
        * intros y Hy. apply in_app_iff. now left.
      + eapply classified_mono; [| |exact (list_classified o x k p H0 Ho Hin)].
        * intros e0 He. apply in_app_iff. right. apply in_app_iff. right. apply in_app_iff. right. apply in_app_iff. now right.
        * intros y Hy. apply in_app_iff. now right.
    - (* SWith *)
      apply andb_prop in Hfr as [_ Hb]. apply in_app_iff in Hin as [Hin|Hin].
      + apply in_flat_map in Hin as [[c [v|]] [Hit Hin]]; cbn [litem_events] in Hin; [|contradiction].
        apply in_lassigned in Hin as (-> & -> & Hx). apply (assign_entry x l (target_names v)); [exact Hx|].
        intros e0 He. apply in_app_iff. left. apply in_flat_map. exists (c, Some v). split; [exact Hit|].
        cbn [item_bind_lines]. apply in_app_iff. right. apply in_app_iff. now left.
      + eapply classified_mono; [| |exact (list_classified b x k p H Hb Hin)].
        * intros e0 He. apply in_app_iff. now right.
        * auto.
    - (* STry *)
      apply andb_prop in Hfr as [Hfr Hff]. apply andb_prop in Hfr as [Hfr Hfo]. apply andb_prop in Hfr as [Hfb Hfh].
      apply in_app_iff in Hin as [Hin|Hin]; [|apply in_app_iff in Hin as [Hin|Hin]; [|apply in_app_iff in Hin as [Hin|Hin]]].
      + eapply classified_mono; [| |exact (list_classified b x k p H Hfb Hin)].
        * intros e0 He. apply in_app_iff. now left.
        * intros y Hy. apply in_app_iff. now left.
      + apply in_flat_map in Hin as [[hl ty nm hb] [Hh Hin]].
        rewrite forallb_forall in Hfh. pose proof (Hfh _ Hh) as Hfh1. cbn in Hfh1. apply andb_prop in Hfh1 as [_ Hfhb].
        rewrite Forall_forall in H0. pose proof (H0 _ Hh) as Hhb. unfold HP in Hhb. cbn [hbody] in Hhb.
        apply in_app_iff in Hin as [Hin|Hin].
        * apply in_lassigned in Hin as (-> & -> & Hx). apply (assign_entry x hl (map oname (opt_list nm))); [exact Hx|].
          intros e0 He. apply in_app_iff. right. apply in_app_iff. left. apply in_flat_map.
          exists (Handler hl ty nm hb). split; [exact Hh|]. apply in_app_iff. right. apply in_app_iff. now left.
        * eapply classified_mono; [| |exact (list_classified hb x k p Hhb Hfhb Hin)].
          -- intros e0 He. apply in_app_iff. right. apply in_app_iff. left. apply in_flat_map.
             exists (Handler hl ty nm hb). split; [exact Hh|]. apply in_app_iff. right. apply in_app_iff. now right.
          -- intros y Hy. apply in_app_iff. right. apply in_app_iff. left. apply in_flat_map.
             exists (Handler hl ty nm hb). split; [exact Hh | exact Hy].
      + eapply classified_mono; [| |exact (list_classified o x k p H1 Hfo Hin)].
        * intros e0 He. apply in_app_iff. right. apply in_app_iff. right. apply in_app_iff. now left.
        * intros y Hy. apply in_app_iff. right. apply in_app_iff. right. apply in_app_iff. now left.
      + eapply classified_mono; [| |exact (list_classified f x k p H2 Hff Hin)].
        * intros e0 He. apply in_app_iff. right. apply in_app_iff. right. apply in_app_iff. now right.
        * intros y Hy. apply in_app_iff. right. apply in_app_iff. right. apply in_app_iff. now right.
    - (* SDef *)
      destruct Hin as [[= <- <- <-]|[]]. left. exists l. split; [right; split; [now left | reflexivity]|].
      exists BDef. split; [reflexivity|]. apply in_app_iff. right. now left.
    - (* SClass *)
      destruct Hin as [[= <- <- <-]|[]]. left. exists l. split; [right; split; [now right | reflexivity]|].
      exists BClass. split; [reflexivity|]. apply in_app_iff. right. now left.
    - (* SImport *)
      apply in_flat_map in Hin as [n [Hn Hin]]. unfold limport_events in Hin. apply in_lift0 in Hin as [Hx ->].
      right. left. exists l, BImport. split; [reflexivity|]. apply in_at_line. apply in_flat_map. exists n. split; [exact Hn|].
      destruct n as [[|o0 path] [a|]]; cbn in *; auto.
    - (* SFrom *)
      destruct ns as [ns|]; [|contradiction]. apply in_lift0 in Hin as [Hx ->].
      right. left. exists l, BImport. split; [reflexivity|]. apply in_at_line.
      unfold keys in Hx. rewrite map_map in Hx. apply in_map_iff in Hx as [n [<- Hn]]. apply in_map_iff. exists n.
      split; [|exact Hn]. destruct n as [o0 [a|]]; reflexivity.
    - (* SGlobal *)
      apply in_map_iff in Hin as [o0 [[= <- <- <-] Ho]]. right. right. apply in_map_iff. now exists o0.
  Qed.
End Classify.

(* ------------------------------------------------------------------ every plain binding has its event *)
Section Exists.
  Variable mn' : list ident.

  Definition has_event (x : ident) (l : N) (evs : levents) : Prop :=
    exists k p, In (x, k, p) evs /\ line_event l (x, k, p).

  Lemma has_event_mono x l evs evs' : (forall e, In e evs -> In e evs') -> has_event x l evs -> has_event x l evs'.
  Proof. intros H (k & p & Hi & Hl). exists k, p. auto. Qed.

  Lemma assigned_event x l xs : In x xs -> has_event x l (lassigned (ALine l) xs).
  Proof.
    intros Hx. exists NAssigned, (Pay None (ALine l)). split.
    - unfold lassigned. apply in_map_iff. now exists x.
    - left. split; reflexivity.
  Qed.

  Lemma list_has_event b x l bk :
    Forall (fun s => forall x l bk, plain bk = true -> In (x, l, bk) (s_bind_lines s) ->
                                    has_event x l (ls_names mn' false s)) b ->
    plain bk = true -> In (x, l, bk) (flat_map s_bind_lines b) ->
    has_event x l (flat_map (ls_names mn' false) b).
  Proof.
    intros HF Hp Hin. apply in_flat_map in Hin as [s [Hs Hin]]. rewrite Forall_forall in HF.
    eapply has_event_mono; [|exact (HF s Hs x l bk Hp Hin)]. intros e0 He. apply in_flat_map. eauto.
  Qed.

  Lemma not_plain_at x l l0 bk xs : plain bk = true -> In (x, l, bk) (at_line l0 BOther xs) -> False.
  Proof. unfold at_line. rewrite in_map_iff. intros Hp [y [[= _ _ <-] _]]. discriminate. Qed.
  Lemma not_plain_import x l l0 bk xs : plain bk = true -> In (x, l, bk) (at_line l0 BImport xs) -> False.
  Proof. unfold at_line. rewrite in_map_iff. intros Hp [y [[= _ _ <-] _]]. discriminate. Qed.
  Lemma in_at_line_inv x l l0 bk k xs : In (x, l, bk) (at_line l0 k xs) -> l = l0 /\ bk = k /\ In x xs.
  Proof. unfold at_line. rewrite in_map_iff. intros [y [[= <- <- <-] Hy]]. auto. Qed.

  Lemma bindings_have_events s : forall x l bk,
    plain bk = true -> In (x, l, bk) (s_bind_lines s) -> has_event x l (ls_names mn' false s).
  Proof.
    induction s using stmt_ind'; intros x l0 bk Hp Hin; cbn [s_bind_lines] in Hin; cbn [ls_names];
      repeat (apply in_app_iff in Hin as [Hin|Hin]);
      try (exfalso; exact (not_plain_at _ _ _ _ _ Hp Hin)); try (exfalso; exact (not_plain_import _ _ _ _ _ Hp Hin));
      try contradiction.
    - (* SAssign *)
      apply in_at_line_inv in Hin as (-> & _ & Hx). eapply has_event_mono; [|exact (assigned_event x l _ Hx)].
      intros e0 He. apply in_app_iff. now left.
    - (* SAnn *)
      apply in_at_line_inv in Hin as (-> & Hk & Hx). destruct v; [|subst bk; discriminate].
      exact (assigned_event x l _ Hx).
    - eapply has_event_mono; [|exact (list_has_event b x l0 bk H Hp Hin)].
      intros e0 He. apply in_app_iff. right. apply in_app_iff. now left.
    - eapply has_event_mono; [|exact (list_has_event o x l0 bk H0 Hp Hin)].
      intros e0 He. apply in_app_iff. right. apply in_app_iff. now right.
    - eapply has_event_mono; [|exact (list_has_event b x l0 bk H Hp Hin)].
      intros e0 He. apply in_app_iff. right. apply in_app_iff. now left.
    - eapply has_event_mono; [|exact (list_has_event o x l0 bk H0 Hp Hin)].
      intros e0 He. apply in_app_iff. right. apply in_app_iff. now right.
    - (* SFor target *)
      apply in_at_line_inv in Hin as (-> & _ & Hx). eapply has_event_mono; [|exact (assigned_event x l _ Hx)].
      intros e0 He. apply in_app_iff. now left.
    - eapply has_event_mono; [|exact (list_has_event b x l0 bk H Hp Hin)].
      intros e0 He. apply in_app_iff. right. apply in_app_iff. now left.
    - eapply has_event_mono; [|exact (list_has_event o x l0 bk H0 Hp Hin)].
      intros e0 He. apply in_app_iff. right. apply in_app_iff. now right.
    - (* SWith items *)
      apply in_flat_map in Hin as [[c [v|]] [Hit Hin]]; cbn [item_bind_lines] in Hin;
        repeat (apply in_app_iff in Hin as [Hin|Hin]); try (exfalso; exact (not_plain_at _ _ _ _ _ Hp Hin)).
      apply in_at_line_inv in Hin as (-> & _ & Hx). eapply has_event_mono; [|exact (assigned_event x l _ Hx)].
      intros e0 He. apply in_app_iff. left. apply in_flat_map. exists (c, Some v). split; [exact Hit | exact He].
    - eapply has_event_mono; [|exact (list_has_event b x l0 bk H Hp Hin)].
      intros e0 He. apply in_app_iff. now right.
    - (* STry *)
      eapply has_event_mono; [|exact (list_has_event b x l0 bk H Hp Hin)].
      intros e0 He. apply in_app_iff. now left.
    - apply in_flat_map in Hin as [[hl ty nm hb] [Hh Hin]].
      rewrite Forall_forall in H0. pose proof (H0 _ Hh) as Hhb. unfold HP in Hhb. cbn [hbody] in Hhb.
      repeat (apply in_app_iff in Hin as [Hin|Hin]); try (exfalso; exact (not_plain_at _ _ _ _ _ Hp Hin)).
      + apply in_at_line_inv in Hin as (-> & _ & Hx). eapply has_event_mono; [|exact (assigned_event x hl _ Hx)].
        intros e0 He. apply in_app_iff. right. apply in_app_iff. left. apply in_flat_map.
        exists (Handler hl ty nm hb). split; [exact Hh|]. apply in_app_iff. now left.
      + eapply has_event_mono; [|exact (list_has_event hb x l0 bk Hhb Hp Hin)].
        intros e0 He. apply in_app_iff. right. apply in_app_iff. left. apply in_flat_map.
        exists (Handler hl ty nm hb). split; [exact Hh|]. apply in_app_iff. now right.
    - eapply has_event_mono; [|exact (list_has_event o x l0 bk H1 Hp Hin)].
      intros e0 He. apply in_app_iff. right. apply in_app_iff. right. apply in_app_iff. now left.
    - eapply has_event_mono; [|exact (list_has_event f x l0 bk H2 Hp Hin)].
      intros e0 He. apply in_app_iff. right. apply in_app_iff. right. apply in_app_iff. now right.
    - (* SDef *)
      destruct Hin as [[= <- <- <-]|Hin].
      + exists NDefFun, (Pay (Some l) ANone). split; [now left|]. right. split; [now left | reflexivity].
      + repeat (apply in_app_iff in Hin as [Hin|Hin]); exfalso; exact (not_plain_at _ _ _ _ _ Hp Hin).
    - (* SClass *)
      destruct Hin as [[= <- <- <-]|Hin].
      + exists NDefClass, (Pay (Some l) ANone). split; [now left|]. right. split; [now right | reflexivity].
      + exfalso; exact (not_plain_at _ _ _ _ _ Hp Hin).
    - destruct ns; [exfalso; exact (not_plain_import _ _ _ _ _ Hp Hin) | contradiction].
  Qed.
End Exists.

(* ------------------------------------------------------------------ blocks, the module, functions *)
Theorem block_definition_line mn mn' body x l :
  forallb (frag_stmt mn false) body = true ->
  determined body x l ->
  entry_line (flat_map (ls_names mn' false) body) x = Some l.
Proof.
  intros Hfr (Hex & Hall & Hgl). apply entry_line_uniform.
  - destruct Hex as (bk & Hp & Hin).
    destruct (list_has_event mn' body x l bk) as (k & p & Hi & _); auto.
    + apply Forall_forall. intros s _. apply bindings_have_events.
    + exists (x, k, p). auto.
  - intros [[y k] p] He Hy. cbn in Hy. subst y.
    assert (Hc : classified x k p (flat_map s_bind_lines body) (flat_map s_globals body)).
    { apply (list_classified mn mn'); auto. apply Forall_forall. intros s _. apply events_classified. }
    destruct Hc as [[l' [Hl [bk [Hp Hi]]]]|[[l' [bk [Hp Hi]]]|Hi]].
    + destruct (Hall l' bk Hi) as [-> _]. exact Hl.
    + destruct (Hall l' bk Hi) as [_ Hp']. congruence.
    + contradiction.
Qed.

(* the module: go-to-definition on a module-level name whose binding is statically determined *)
Theorem module_definition_line p lay bi inh ids spell kws x l :
  in_fragment_C15 p = true ->
  determined p x l ->
  definition_line (world_of p lay bi inh ids spell kws) [] x = Some l.
Proof.
  intros Hf Hd. unfold in_fragment_C15 in Hf. apply andb_prop in Hf as [Hf _]. apply andb_prop in Hf as [Hfr _].
  pose proof (block_definition_line _ [] p x l Hfr Hd) as Hline.
  unfold definition_line, world_of. cbn [w_lt w_bi w_inh w_rt].
  assert (Hk : In x (keys (flat_map (rs_names [] false) p))).
  { destruct Hd as ((bk & Hp & Hin) & _ & _).
    destruct (list_has_event [] p x l bk) as (k & pp & Hi & _); auto.
    - apply Forall_forall. intros s _. apply bindings_have_events.
    - rewrite <- (strip_ls_list [] false p). unfold keys. rewrite map_map. apply in_map_iff. now exists (x, k, pp). }
  unfold rope_lookup, rchain. cbn [rchain_from lookup_chain gnames rope_tree revs].
  destruct (entry (flat_map (rs_names [] false) p) x) as [k|] eqn:E.
  - assert (Hb : own_binding [] k = BScope []) by (destruct k; try reflexivity; destruct in_module; reflexivity).
    rewrite Hb. cbn [binding_line lscope_at ltree llevs]. exact Hline.
  - apply entry_none in E. contradiction.
Qed.

(* a def statement, wherever it stands: the table of the function's own scope *)
Definition function_levents (mn' : list ident) (l : N) (d : list expr) (ps : list param) (ae : list expr)
           (r : option expr) (body : list stmt) : levents :=
  lift0 (flat_map rx_names ae) ++ flat_map (ls_names mn' false) body ++ lift0 (flat_map rx_names d)
  ++ lift0 (orx_names r) ++ lparam_events l ps.

Lemma function_scope_is mn' cls l st d n ps ae r body :
  exists rest cs, ls_scopes mn' cls (SDef l st d n ps ae r body) = LScope (function_levents mn' l d ps ae r body) cs :: rest.
Proof. cbn [ls_scopes]. eauto. Qed.

Lemma in_split_last (x : ident) l : In x l -> exists a b, l = a ++ x :: b /\ ~ In x b.
Proof.
  induction l as [|y l IH]; [contradiction|]. intros H.
  destruct (in_dec N.eq_dec x l) as [Hl|Hl].
  - destruct (IH Hl) as (a & b & -> & Hb). exists (y :: a), b. auto.
  - destruct H as [->|H]; [|contradiction]. exists [], l. auto.
Qed.

(* a parameter (as rope knows parameters: plain, *args, **kwargs) has the line of the def statement *)
Theorem parameter_definition_line mn' l d ps ae r body x :
  In x (rope_param_names ps) ->
  entry_line (function_levents mn' l d ps ae r body) x = Some l.
Proof.
  intros Hx. unfold function_levents, lparam_events.
  apply in_split_last in Hx as (a & b & E & Hb). rewrite E, map_app. cbn [map].
  rewrite !app_assoc.
  apply (entry_line_definition _ (map (fun x0 => (x0, NParam, Pay (Some l) ANone)) b) x NParam l ANone).
  - right. right. now left.
  - intros e0 He Hx. apply in_map_iff in He as [y [<- Hy]]. cbn in Hx. subst y. contradiction.
Qed.

(* a local of the function whose binding is statically determined *)
Theorem local_definition_line mn mn' cls l st d n ps ae r body x lx :
  frag_stmt mn cls (SDef l st d n ps ae r body) = true ->
  ~ In x (map pname ps) ->
  determined body x lx ->
  entry_line (function_levents mn' l d ps ae r body) x = Some lx.
Proof.
  intros Hfr Hnp Hd. cbn [frag_stmt] in Hfr.
  repeat (apply andb_prop in Hfr as [Hfr ?]).
  destruct (simple_list_nil d Hfr) as (Ed & _). destruct (simple_list_nil ae H4) as (Eae & _).
  destruct (simple_opt_nil r H3) as (Er & _).
  unfold function_levents. rewrite Ed, Eae, Er. cbn [lift0 map List.app].
  pose proof (block_definition_line mn mn' body x lx H1 Hd) as Hline.
  (* the parameter events do not mention x *)
  unfold entry_line in *.
  assert (E : forall cur a b, lstate_from cur (a ++ b) x = lstate_from (lstate_from cur a x) b x).
  { intros cur a. revert cur. induction a as [|[[y k'] pp] a IH]; intros cur b; cbn [List.app lstate_from]; [reflexivity|].
    destruct (N.eqb y x); apply IH. }
  rewrite E, lstate_from_skip; [exact Hline|].
  intros e0 He Hx. unfold lparam_events in He. apply in_map_iff in He as [y [<- Hy]]. cbn in Hx. subst y.
  apply Hnp. unfold rope_param_names in Hy.
  repeat (apply in_app_iff in Hy as [Hy|Hy]); apply in_map_iff in Hy as [q [<- Hq]]; apply filter_In in Hq as [Hq _];
    apply in_map_iff; now exists q.
Qed.

(* ------------------------------------------------------------------ non-vacuity: the demo module of Witnesses.v *)
From RopeVerif.C20 Require Import Witnesses.

(* xab (identifier 1) is bound at module level by the assignment on line 2 and nowhere else in that block; the def
   statement fo (identifier 2) on line 3 *)
Lemma demo_determined : determined w_demo 1%N 2%N /\ determined w_demo 2%N 3%N.
Proof.
  split; (split; [eexists; split; [|vm_compute; tauto]; reflexivity|]);
    (split; [|vm_compute; tauto]); intros l' k H; vm_compute in H;
    repeat (destruct H as [H|H]; [inversion H; subst; split; reflexivity|]); try contradiction;
    repeat (destruct H as [H|H]; [discriminate H|]); try contradiction.
Qed.
