(* Proofs about the text-level model (Split.v): the split before the cursor for an identifier prefix. *)
From Coq Require Import List NArith Bool Lia.
From RopeVerif.Lib Require Import Text.
From RopeVerif.C20 Require Import Split.
Import ListNotations.

(* ------------------------------------------------------------------ characters *)
Lemma id_char_range c :
  is_id_char c = true -> (48 <= c <= 57 \/ 65 <= c <= 90 \/ 97 <= c <= 122 \/ c = 95)%N.
Proof.
  unfold is_id_char, is_alpha, is_digit. rewrite !orb_true_iff, !andb_true_iff, !N.leb_le, N.eqb_eq. lia.
Qed.

Lemma eqb_false_of_ne (a b : N) : a <> b -> N.eqb a b = false.
Proof. apply N.eqb_neq. Qed.

Lemma id_not_nl c : is_id_char c = true -> N.eqb c ch_nl = false.
Proof. intros H. apply id_char_range in H. apply N.eqb_neq. unfold ch_nl. lia. Qed.
Lemma id_not_dot c : is_id_char c = true -> N.eqb c ch_dot = false.
Proof. intros H. apply id_char_range in H. apply N.eqb_neq. unfold ch_dot. lia. Qed.
Lemma id_not_space c : is_id_char c = true -> is_space c = false.
Proof.
  intros H. apply id_char_range in H. unfold is_space.
  apply orb_false_iff. split; apply andb_false_iff; rewrite !N.leb_gt; lia.
Qed.
Lemma id_not_quote c : is_id_char c = true -> is_quote c = false.
Proof. intros H. apply id_char_range in H. unfold is_quote. apply orb_false_iff. split; apply N.eqb_neq; lia. Qed.
Lemma id_not_close c : is_id_char c = true -> is_close c = false.
Proof.
  intros H. apply id_char_range in H. unfold is_close. rewrite !orb_false_iff. repeat split; apply N.eqb_neq; lia.
Qed.
Lemma id_not_close2 c : is_id_char c = true -> is_close2 c = false.
Proof. intros H. apply id_char_range in H. unfold is_close2. rewrite !orb_false_iff. split; apply N.eqb_neq; lia. Qed.

(* ------------------------------------------------------------------ slices *)
Lemma tlen_cons c t : tlen (c :: t) = N.succ (tlen t).
Proof. unfold tlen. cbn [length]. now rewrite Nat2N.inj_succ. Qed.
Lemma tlen_app a b : tlen (a ++ b) = (tlen a + tlen b)%N.
Proof. unfold tlen. now rewrite app_length, Nat2N.inj_add. Qed.

Lemma take_app a b : take (tlen a) (a ++ b) = a.
Proof.
  induction a as [|x a IH]; cbn [app].
  - destruct b; reflexivity.
  - rewrite tlen_cons. cbn [take]. rewrite (proj2 (N.eqb_neq _ _) (N.neq_succ_0 _)), N.pred_succ, IH. reflexivity.
Qed.
Lemma drop_app a b : drop (tlen a) (a ++ b) = b.
Proof.
  induction a as [|x a IH]; cbn [app].
  - destruct b; reflexivity.
  - rewrite tlen_cons. cbn [drop]. rewrite (proj2 (N.eqb_neq _ _) (N.neq_succ_0 _)), N.pred_succ, IH. reflexivity.
Qed.
Lemma take_all a : take (tlen a) a = a.
Proof. rewrite <- (app_nil_r a) at 2. apply take_app. Qed.

Lemma slice_mid a w b : slice (a ++ w ++ b) (tlen a) (tlen a + tlen w) = w.
Proof.
  unfold slice. destruct (N.leb_spec (tlen a + tlen w) (tlen a)) as [H|H].
  - assert (tlen w = 0%N) by lia. destruct w; [reflexivity|]. rewrite tlen_cons in H0. lia.
  - rewrite drop_app. replace (tlen a + tlen w - tlen a)%N with (tlen w) by lia. apply take_app.
Qed.
Lemma slice_empty t a b : (b <= a)%N -> slice t a b = [].
Proof. intros H. unfold slice. now rewrite (proj2 (N.leb_le _ _) H). Qed.

Lemma plen_tlen l nx : plen (rev l, nx) = tlen l.
Proof. unfold plen, tlen. cbn [fst]. now rewrite rev_length. Qed.

(* ------------------------------------------------------------------ words *)
Lemma fst_last_non_space l nx nx' : fst (last_non_space l nx) = fst (last_non_space l nx').
Proof.
  revert nx nx'. induction l as [|c l IH]; intros; cbn [last_non_space]; [reflexivity|].
  destruct (is_space c); [|reflexivity]. destruct (N.eqb c ch_nl); [reflexivity|]. apply IH.
Qed.

(* r: identifier characters (the word, reversed); L: what precedes, not starting with one *)
Definition no_id_head (L : list N) : bool := match L with c :: _ => negb (is_id_char c) | [] => true end.

Lemma word_start_app r L nx :
  forallb is_id_char r = true -> no_id_head L = true ->
  fst (word_start (r ++ L) nx) = L.
Proof.
  revert nx. induction r as [|c r IH]; intros nx Hr HL; cbn [app].
  - destruct L as [|d L]; [reflexivity|]. cbn [word_start]. cbn in HL.
    destruct (is_id_char d); [discriminate|reflexivity].
  - cbn in Hr. apply andb_prop in Hr as [Hc Hr]. cbn [word_start]. rewrite Hc. now apply IH.
Qed.

Lemma word_before_app r L acc :
  forallb is_id_char r = true -> no_id_head L = true ->
  word_before (r ++ L) acc = rev r ++ acc.
Proof.
  revert acc. induction r as [|c r IH]; intros acc Hr HL; cbn [app].
  - destruct L as [|d L]; [reflexivity|]. cbn [word_before]. cbn in HL.
    destruct (is_id_char d); [discriminate|reflexivity].
  - cbn in Hr. apply andb_prop in Hr as [Hc Hr]. cbn [word_before rev]. rewrite Hc, IH by assumption.
    now rewrite <- app_assoc.
Qed.

(* the characters before the word let no dotted expression continue: after the blanks of the same line comes
   no dot (and, if only blanks precede on the first line, the text does not END in a dot - Python's code[-1]) *)
Definition word_boundary_before (L : list N) (lastc : N) : bool :=
  no_id_head L
  && match fst (last_non_space L None) with
     | [] => negb (N.eqb lastc ch_dot)
     | d :: _ => negb (N.eqb d ch_dot)
     end.

(* ------------------------------------------------------------------ the finders on a word *)
Section Word.
  Variable kws : list text.
  Variable lastc : N.

  (* one-step unfoldings of the mutual recursion (kept as equations so that proofs never see the raw fix) *)
  Lemma atom_start_S n c l' nx :
    atom_start kws lastc (S n) (c :: l') nx =
    if N.eqb c ch_nl then Some (c :: l', nx)
    else
      let p := if is_space c then last_non_space (c :: l') nx else (c :: l', nx) in
      let d := at_ lastc (fst p) in
      match fst p with
      | [] => if is_quote lastc || is_close lastc || is_id_char lastc then None else Some (l', Some c)
      | _ :: lp =>
          if is_quote d then Some (string_start d lp (Some d))
          else if is_close d then
            match parens_start kws lastc n (fst p) (snd p) with
            | Some q => match fst q with _ :: _ => Some (step_left q) | [] => None end
            | None => None
            end
          else if is_id_char d then Some (word_start (fst p) (snd p))
          else Some (l', Some c)
      end.
  Proof. reflexivity. Qed.

  Lemma pwds_S n c l' nx :
    primary_wo_dot_start kws lastc (S n) (c :: l') nx =
    match pwds_loop kws lastc n (l', Some c) (last_non_space (c :: l') nx) with
    | None => None
    | Some (last_atom, p) =>
        match fst p with
        | [] => Some last_atom
        | d :: _ =>
            if is_quote d || is_close d || is_id_char d then
              match atom_start kws lastc n (fst p) (snd p) with
              | None => None
              | Some a =>
                  if negb (is_id_char d && is_kw kws (word_before (fst p) [])) || oc_is is_id_char (snd p)
                     || follows_dot a
                  then Some a else Some last_atom
              end
            else Some last_atom
        end
    end.
  Proof. reflexivity. Qed.

  Lemma pwds_loop_S n last_atom p :
    pwds_loop kws lastc (S n) last_atom p =
    match fst p with
    | c :: (_ :: _) =>
        if is_close2 c then
          match parens_start kws lastc n (fst p) (snd p) with
          | Some q =>
              match fst q with
              | _ :: _ => let la := step_left q in pwds_loop kws lastc n la (last_non_space (fst la) (snd la))
              | [] => None
              end
          | None => None
          end
        else Some (last_atom, p)
    | _ => Some (last_atom, p)
    end.
  Proof. reflexivity. Qed.

  Lemma primary_start_S n c l' nx :
    primary_start kws lastc (S n) (c :: l') nx =
    if N.eqb c ch_dot then primary_loop kws lastc n (c :: l', nx)
    else match primary_wo_dot_start kws lastc n (c :: l') nx with
         | None => None
         | Some q => primary_loop kws lastc n q
         end.
  Proof. reflexivity. Qed.

  Lemma primary_loop_S n p :
    primary_loop kws lastc (S n) p =
    match fst p with
    | [] => Some p
    | _ :: _ =>
        let prev := last_non_space (fst p) (snd p) in
        match fst prev with
        | [] => if N.eqb lastc ch_dot then None else Some p
        | d :: lprev =>
            if negb (N.eqb d ch_dot) then Some p
            else
              let pwe := last_non_space lprev (Some d) in
              if ends_from (fst pwe) then Some (lprev, Some d)
              else
                match lprev with
                | [] => None
                | _ :: _ =>
                    match primary_wo_dot_start kws lastc n lprev (Some d) with
                    | None => None
                    | Some q => if oc_is is_id_char (snd q) then primary_loop kws lastc n q else Some q
                    end
                end
        end
    end.
  Proof. reflexivity. Qed.

  Lemma atom_start_word n c l nx :
    is_id_char c = true ->
    atom_start kws lastc (S n) (c :: l) nx = Some (word_start (c :: l) nx).
  Proof.
    intros Hc. rewrite atom_start_S.
    rewrite (id_not_nl c Hc), (id_not_space c Hc). cbn [fst snd at_].
    rewrite (id_not_quote c Hc), (id_not_close c Hc), Hc. reflexivity.
  Qed.

  Lemma pwds_word n c l nx :
    is_id_char c = true ->
    exists q, primary_wo_dot_start kws lastc (S (S n)) (c :: l) nx = Some q
              /\ (fst q = fst (word_start (c :: l) nx) \/ fst q = l).
  Proof.
    intros Hc. rewrite pwds_S. cbn [last_non_space]. rewrite (id_not_space c Hc).
    rewrite pwds_loop_S. cbn [fst snd].
    destruct l as [|c2 l2].
    - cbn [fst snd]. rewrite Hc, orb_true_r, (atom_start_word n c [] nx Hc).
      destruct (negb _ || _ || _); eexists; split; try reflexivity; auto.
    - rewrite (id_not_close2 c Hc). cbn [fst snd]. rewrite Hc, orb_true_r, (atom_start_word n c (c2 :: l2) nx Hc).
      destruct (negb _ || _ || _); eexists; split; try reflexivity; auto.
  Qed.

  (* the loop of _find_primary_start stops at once when no dot precedes *)
  Lemma primary_loop_stops n L nx :
    match fst (last_non_space L nx) with
    | [] => N.eqb lastc ch_dot = false
    | d :: _ => N.eqb d ch_dot = false
    end ->
    primary_loop kws lastc (S n) (L, nx) = Some (L, nx).
  Proof.
    intros H. rewrite primary_loop_S. cbn [fst snd]. destruct L as [|x L]; [reflexivity|].
    cbv zeta. destruct (fst (last_non_space (x :: L) nx)) as [|d lp]; rewrite H; reflexivity.
  Qed.

  Lemma primary_start_word n c r L nx :
    forallb is_id_char (c :: r) = true ->
    no_id_head L = true ->
    match fst (last_non_space L None) with
    | [] => N.eqb lastc ch_dot = false
    | d :: _ => N.eqb d ch_dot = false
    end ->
    exists q, primary_start kws lastc (S (S (S (S n)))) (c :: r ++ L) nx = Some q
              /\ (fst q = L \/ fst q = r ++ L).
  Proof.
    intros Hw HL Hb. cbn [forallb] in Hw. apply andb_prop in Hw as [Hc Hr].
    rewrite primary_start_S, (id_not_dot c Hc).
    destruct (pwds_word (S n) c (r ++ L) nx Hc) as [q [-> Hq]].
    destruct q as [ql qn]. cbn [fst] in Hq.
    assert (HwL : fst (word_start (c :: r ++ L) nx) = L).
    { change (c :: r ++ L) with ((c :: r) ++ L). apply word_start_app; [|exact HL]. cbn [forallb]. now rewrite Hc, Hr. }
    destruct Hq as [Hq|Hq]; subst ql.
    - rewrite HwL. exists (L, qn). split; [|now left]. apply primary_loop_stops.
      now rewrite (fst_last_non_space L qn None).
    - exists (r ++ L, qn). split; [|now right]. apply primary_loop_stops.
      destruct r as [|c2 r2]; cbn [app].
      + now rewrite (fst_last_non_space L qn None).
      + cbn [forallb] in Hr. apply andb_prop in Hr as [Hc2 _]. cbn [last_non_space].
        rewrite (id_not_space c2 Hc2). cbn [fst]. exact (id_not_dot c2 Hc2).
  Qed.
End Word.

(* ------------------------------------------------------------------ dotted prefixes *)
Lemma word_start_snd r L nx :
  r <> [] -> forallb is_id_char r = true -> no_id_head L = true ->
  oc_is is_id_char (snd (word_start (r ++ L) nx)) = true.
Proof.
  revert nx. induction r as [|c r IH]; intros nx Hne Hr HL; [congruence|].
  cbn in Hr. apply andb_prop in Hr as [Hc Hr]. cbn [app word_start]. rewrite Hc.
  destruct r as [|c2 r2].
  - cbn [app]. destruct L as [|d L]; cbn [word_start snd oc_is]; [exact Hc|].
    cbn in HL. destruct (is_id_char d); [discriminate|]. exact Hc.
  - apply IH; [discriminate | exact Hr | exact HL].
Qed.

Lemma word_start_snd_eq r L nx :
  r <> [] -> forallb is_id_char r = true -> no_id_head L = true ->
  snd (word_start (r ++ L) nx) = Some (last r 0%N).
Proof.
  revert nx. induction r as [|c r IH]; intros nx Hne Hr HL; [congruence|].
  cbn in Hr. apply andb_prop in Hr as [Hc Hr]. cbn [app word_start]. rewrite Hc.
  destruct r as [|c2 r2].
  - cbn [app last]. destruct L as [|d L]; cbn [word_start snd]; [reflexivity|].
    cbn in HL. destruct (is_id_char d); [discriminate|]. reflexivity.
  - rewrite IH; [reflexivity | discriminate | exact Hr | exact HL].
Qed.

(* a word (reversed: c :: r) directly before a dot, the word not starting with a digit: what follows the dot is an
   attribute name *)
Lemma follows_dot_word (a : pos) c r L :
  fst a = ch_dot :: c :: r ++ L ->
  forallb is_id_char (c :: r) = true -> no_id_head L = true ->
  is_digit (last (c :: r) 0%N) = false ->
  follows_dot a = true.
Proof.
  destruct a as [al an]. cbn [fst]. intros -> Hw HL Hd. unfold follows_dot. cbn [fst snd last_non_space].
  change (is_space ch_dot) with false. cbn [fst]. change (N.eqb ch_dot ch_dot) with true. cbv iota.
  assert (Hc : is_id_char c = true) by (cbn in Hw; now apply andb_prop in Hw as [? _]).
  cbn [last_non_space]. rewrite (id_not_space c Hc). cbn [fst snd]. rewrite Hc.
  change (c :: r ++ L) with ((c :: r) ++ L).
  rewrite (word_start_snd_eq (c :: r) L (Some ch_dot)); [|discriminate | exact Hw | exact HL].
  cbn [oc_is]. now rewrite Hd.
Qed.

Section Dotted.
  Variable kws : list text.
  Variable lastc : N.

  Lemma pwds_word_exact n c l nx :
    is_id_char c = true ->
    is_kw kws (word_before (c :: l) []) = false \/ oc_is is_id_char nx = true
    \/ follows_dot (word_start (c :: l) nx) = true ->
    primary_wo_dot_start kws lastc (S (S n)) (c :: l) nx = Some (word_start (c :: l) nx).
  Proof.
    intros Hc Hk. rewrite pwds_S. cbn [last_non_space]. rewrite (id_not_space c Hc).
    rewrite pwds_loop_S. cbn [fst snd].
    assert (Hcond : negb (is_id_char c && is_kw kws (word_before (c :: l) [])) || oc_is is_id_char nx
                    || follows_dot (word_start (c :: l) nx) = true).
    { destruct Hk as [-> | [-> | ->]]; [now rewrite andb_false_r | now rewrite orb_true_r | apply orb_true_r]. }
    destruct l as [|c2 l2].
    - cbn [fst snd]. rewrite (atom_start_word kws lastc n c [] nx Hc), Hcond, Hc, orb_true_r. reflexivity.
    - rewrite (id_not_close2 c Hc). cbn [fst snd].
      rewrite (atom_start_word kws lastc n c (c2 :: l2) nx Hc), Hcond, Hc, orb_true_r. reflexivity.
  Qed.

  (* the loop of _find_primary_start at the boundary just after [v.]: one turn, back to the start of v *)
  Lemma primary_loop_one_dot n c r L nx :
    forallb is_id_char (c :: r) = true ->
    is_kw kws (rev (c :: r)) = false ->
    ends_from (c :: r ++ L) = false ->
    no_id_head L = true ->
    match fst (last_non_space L None) with
    | [] => N.eqb lastc ch_dot = false
    | d :: _ => N.eqb d ch_dot = false
    end ->
    exists nx', primary_loop kws lastc (S (S (S (S n)))) (ch_dot :: c :: r ++ L, nx) = Some (L, nx')
                /\ oc_is is_id_char nx' = true.
  Proof.
    intros Hv Hkw Hfrom HL Hb.
    assert (Hc : is_id_char c = true) by (cbn in Hv; now apply andb_prop in Hv as [? _]).
    rewrite primary_loop_S. cbn [fst snd last_non_space].
    change (is_space ch_dot) with false. cbv zeta. cbn [fst].
    change (N.eqb ch_dot ch_dot) with true. cbn [negb].
    cbn [last_non_space]. rewrite (id_not_space c Hc). cbn [fst]. rewrite Hfrom.
    assert (Hwb : word_before (c :: r ++ L) [] = rev (c :: r)).
    { change (c :: r ++ L) with ((c :: r) ++ L). rewrite (word_before_app (c :: r) L [] Hv HL). apply app_nil_r. }
    rewrite (pwds_word_exact (S n) c (r ++ L) (Some ch_dot) Hc); [|left; rewrite Hwb; exact Hkw].
    assert (Hid : oc_is is_id_char (snd (word_start (c :: r ++ L) (Some ch_dot))) = true).
    { change (c :: r ++ L) with ((c :: r) ++ L). apply word_start_snd; [discriminate | exact Hv | exact HL]. }
    rewrite Hid.
    assert (HwL : fst (word_start (c :: r ++ L) (Some ch_dot)) = L).
    { change (c :: r ++ L) with ((c :: r) ++ L). now apply word_start_app. }
    destruct (word_start (c :: r ++ L) (Some ch_dot)) as [ql qn]. cbn [fst snd] in *. subst ql.
    exists qn. split; [|exact Hid]. apply primary_loop_stops. now rewrite (fst_last_non_space L qn None).
  Qed.
End Dotted.

(* ------------------------------------------------------------------ the theorem *)
Lemma forallb_rev {A} (f : A -> bool) l : forallb f (rev l) = forallb f l.
Proof.
  destruct (forallb f l) eqn:E.
  - apply forallb_forall. intros x Hx. apply in_rev in Hx. rewrite forallb_forall in E. now apply E.
  - destruct (forallb f (rev l)) eqn:E2; [|reflexivity].
    rewrite forallb_forall in E2. assert (forallb f l = true); [|congruence].
    apply forallb_forall. intros x Hx. apply E2. now apply -> in_rev.
Qed.

Lemma blank_word w : w <> [] -> forallb is_id_char w = true -> blank w = false.
Proof.
  destruct w as [|c w]; [congruence|]. intros _ H. cbn in H. apply andb_prop in H as [Hc _].
  unfold blank. cbn [forallb]. now rewrite (id_not_space c Hc).
Qed.

Theorem split_identifier_prefix (kws : list text) (pre w post raw : text) :
  w <> [] -> forallb is_id_char w = true ->
  word_boundary_before (rev pre) (last (pre ++ w ++ post) 0%N) = true ->
  split_in kws (pre ++ w ++ post) raw (tlen pre + tlen w)
  = Some ([], slice raw (tlen pre) (tlen pre + tlen w), tlen pre).
Proof.
  intros Hne Hw Hb.
  unfold word_boundary_before in Hb. apply andb_prop in Hb as [HL Hdot].
  set (code := pre ++ w ++ post). set (o := (tlen pre + tlen w)%N). set (lastc := last code 0%N) in *.
  assert (Ho : N.eqb o 0 = false).
  { apply N.eqb_neq. unfold o. destruct w; [congruence|]. rewrite tlen_cons. lia. }
  assert (Htake : take o code = pre ++ w).
  { unfold o, code. rewrite <- tlen_app, app_assoc. apply take_app. }
  assert (Hrw : exists c r, rev w = c :: r).
  { destruct (rev w) as [|c r] eqn:E; [|eauto]. apply (f_equal (@rev N)) in E. rewrite rev_involutive in E. now subst. }
  destruct Hrw as (c & r & Erw).
  assert (Hcr : forallb is_id_char (c :: r) = true) by (rewrite <- Erw, forallb_rev; exact Hw).
  assert (Hc : is_id_char c = true) by (cbn in Hcr; now apply andb_prop in Hcr as [? _]).
  assert (Hbound : match fst (last_non_space (rev pre) None) with
                   | [] => N.eqb lastc ch_dot = false
                   | d :: _ => N.eqb d ch_dot = false
                   end).
  { destruct (fst (last_non_space (rev pre) None)); now apply negb_true_iff. }
  unfold split_in. fold code. fold o. rewrite Ho, Htake, rev_app_distr, Erw. cbn [app]. fold lastc.
  set (nx := nth_ch code o).
  set (n := length code + length code).
  rewrite (atom_start_word kws lastc _ c (r ++ rev pre) nx Hc).
  destruct (primary_start_word kws lastc n c r (rev pre) nx Hcr HL Hbound) as [q [-> Hq]].
  assert (Hws : plen (word_start (c :: r ++ rev pre) nx) = tlen pre).
  { unfold plen. change (c :: r ++ rev pre) with ((c :: r) ++ rev pre).
    rewrite (word_start_app (c :: r) (rev pre) nx Hcr HL). unfold tlen. now rewrite rev_length. }
  rewrite Hws.
  assert (Hsl : slice code (tlen pre) o = w) by (apply slice_mid).
  rewrite Hsl, (blank_word w Hne Hw), (id_not_space c Hc).
  assert (Hrs : (tlen pre <= plen q)%N).
  { unfold plen. destruct Hq as [-> | ->].
    - unfold tlen. rewrite rev_length. lia.
    - unfold tlen. rewrite app_length, rev_length. lia. }
  rewrite (slice_empty code (plen q) (tlen pre) Hrs). cbn [blank forallb].
  rewrite N.eqb_refl, Hc. cbn [negb andb]. rewrite andb_false_r. reflexivity.
Qed.

Lemma split_identifier_example :
  word_boundary_before (rev [120; 32; 61; 32]%N) 10%N = true
  /\ split_in [[105; 102]; [102; 111; 114]]%N ([120; 32; 61; 32] ++ [97; 108] ++ [112; 10])%N
              ([120; 32; 61; 32] ++ [97; 108] ++ [112; 10])%N 6
     = Some ([], [97; 108]%N, 4%N).
Proof. vm_compute. split; reflexivity. Qed.

(* ------------------------------------------------------------------ the dotted theorem *)
Lemma dot_facts :
  N.eqb ch_dot ch_nl = false /\ is_space ch_dot = false /\ is_quote ch_dot = false /\ is_close ch_dot = false
  /\ is_id_char ch_dot = false /\ N.eqb ch_dot ch_dot = true.
Proof. vm_compute. repeat split. Qed.

Lemma rev_nonempty (w : text) : w <> [] -> exists c r, rev w = c :: r.
Proof.
  intros H. destruct (rev w) as [|c r] eqn:E; [|eauto].
  apply (f_equal (@rev N)) in E. rewrite rev_involutive in E. now subst.
Qed.

Lemma nth_ch_app a b : nth_ch (a ++ b) (tlen a) = hd_error b.
Proof. unfold nth_ch. now rewrite drop_app. Qed.

Theorem split_dotted_prefix (kws : list text) (pre v w post raw : text) :
  v <> [] -> forallb is_id_char v = true -> is_kw kws v = false ->
  oc_is is_digit (hd_error v) = false ->
  forallb is_id_char w = true ->
  ends_from (rev v ++ rev pre) = false ->
  word_boundary_before (rev pre) (last (pre ++ v ++ ch_dot :: w ++ post) 0%N) = true ->
  split_in kws (pre ++ v ++ ch_dot :: w ++ post) raw (tlen pre + tlen v + 1 + tlen w)
  = Some (slice raw (tlen pre) (tlen pre + tlen v),
          slice raw (tlen pre + tlen v + 1) (tlen pre + tlen v + 1 + tlen w),
          (tlen pre + tlen v + 1)%N).
Proof.
  intros Hvne Hv Hvk Hvd Hw Hfrom Hb.
  unfold word_boundary_before in Hb. apply andb_prop in Hb as [HL Hdot].
  destruct dot_facts as (Dnl & Dsp & Dq & Dcl & Did & Ddd).
  set (P := pre ++ v ++ [ch_dot]).
  assert (Ecode : pre ++ v ++ ch_dot :: w ++ post = P ++ w ++ post).
  { unfold P. now rewrite <- !app_assoc. }
  rewrite Ecode in *. set (code := P ++ w ++ post) in *. set (lastc := last code 0%N) in *.
  assert (HP : tlen P = (tlen pre + tlen v + 1)%N).
  { unfold P. rewrite !tlen_app. unfold tlen at 3. cbn [length]. lia. }
  rewrite <- HP. set (o := (tlen P + tlen w)%N).
  assert (Ho : N.eqb o 0 = false) by (apply N.eqb_neq; unfold o; lia).
  assert (Htake : take o code = P ++ w).
  { unfold o, code. rewrite <- tlen_app, app_assoc. apply take_app. }
  destruct (rev_nonempty v Hvne) as (cv & rv & Erv).
  assert (Hcv : forallb is_id_char (cv :: rv) = true) by (rewrite <- Erv, forallb_rev; exact Hv).
  assert (Hkv : is_kw kws (rev (cv :: rv)) = false) by (rewrite <- Erv, rev_involutive; exact Hvk).
  assert (Hlastd : is_digit (last (cv :: rv) 0%N) = false).
  { rewrite <- Erv. destruct v as [|v0 v']; [congruence|]. cbn [rev]. rewrite last_last. exact Hvd. }
  assert (Hfrom' : ends_from (cv :: rv ++ rev pre) = false) by (rewrite app_comm_cons, <- Erv; exact Hfrom).
  assert (Hbound : match fst (last_non_space (rev pre) None) with
                   | [] => N.eqb lastc ch_dot = false
                   | d :: _ => N.eqb d ch_dot = false
                   end).
  { destruct (fst (last_non_space (rev pre) None)); now apply negb_true_iff. }
  assert (ErP : rev P = ch_dot :: cv :: rv ++ rev pre).
  { unfold P. rewrite !rev_app_distr, Erv. reflexivity. }
  assert (Hlen : exists m, length code + length code = S (S (S (S m)))).
  { assert (2 <= length code)%nat.
    { unfold code, P. rewrite !app_length. cbn [length]. destruct v; [congruence|]. cbn [length]. lia. }
    destruct (length code) as [|[|k]]; try lia. exists (k + k)%nat. lia. }
  destruct Hlen as [m Hm].
  assert (HslP : slice code (tlen pre) (tlen pre + tlen v) = v).
  { unfold code, P. rewrite <- !app_assoc. apply slice_mid. }
  unfold split_in. fold code. fold o. rewrite Ho, Htake, rev_app_distr, ErP, Hm. fold lastc.
  set (nx := nth_ch code o).
  assert (Hnx : nx = hd_error post).
  { unfold nx, o, code. rewrite <- tlen_app, app_assoc. apply nth_ch_app. }
  destruct w as [|w0 w'].
  - (* the cursor is right after the dot *)
    cbn [rev app]. rewrite Dsp. cbn [andb].
    rewrite atom_start_S, Dnl, Dsp. cbn [fst snd at_]. rewrite Dq, Dcl, Did.
    rewrite primary_start_S, Ddd.
    destruct (primary_loop_one_dot kws lastc (S (S (S m))) cv rv (rev pre) nx Hcv Hkv Hfrom' HL Hbound) as [nx' [-> _]].
    unfold plen. cbn [fst]. rewrite app_comm_cons, <- Erv, <- rev_app_distr.
    replace (N.of_nat (length (rev (pre ++ v)))) with (tlen pre + tlen v)%N
      by (unfold tlen; rewrite rev_length, app_length, Nat2N.inj_add; reflexivity).
    replace (N.of_nat (length (rev pre))) with (tlen pre) by (unfold tlen; now rewrite rev_length).
    assert (Eo : o = (tlen pre + tlen v + 1)%N) by (unfold o, tlen at 2; cbn [length]; lia).
    assert (Es1 : slice code (tlen pre + tlen v) o = [ch_dot]).
    { unfold code, P. rewrite Eo. replace (tlen pre + tlen v)%N with (tlen (pre ++ v)) by apply tlen_app.
      change 1%N with (tlen [ch_dot]).
      replace (pre ++ v ++ [ch_dot]) with ((pre ++ v) ++ [ch_dot]) by now rewrite app_assoc.
      rewrite <- app_assoc. apply (slice_mid (pre ++ v) [ch_dot] ([] ++ post)). }
    rewrite Es1. cbn [blank forallb]. rewrite Dsp. cbn [andb].
    replace (N.pred o) with (tlen pre + tlen v)%N by lia.
    rewrite HslP, (blank_word v Hvne Hv).
    assert (Hneq : N.eqb (tlen pre) (tlen pre + tlen v) = false).
    { apply N.eqb_neq. destruct v; [congruence|]. rewrite tlen_cons. lia. }
    rewrite Hneq. cbn [andb].
    rewrite (slice_empty raw (tlen P) o) by (unfold o, tlen at 2; cbn [length]; lia).
    rewrite HP, Eo. reflexivity.
  - (* a word after the dot *)
    destruct (rev_nonempty (w0 :: w') ltac:(discriminate)) as (c & r & Erw).
    assert (Hcr : forallb is_id_char (c :: r) = true) by (rewrite <- Erw, forallb_rev; exact Hw).
    assert (Hc : is_id_char c = true) by (cbn in Hcr; now apply andb_prop in Hcr as [? _]).
    assert (Hw0 : is_id_char w0 = true) by (cbn in Hw; now apply andb_prop in Hw as [? _]).
    rewrite Erw. cbn [app]. rewrite (id_not_space c Hc). cbn [andb].
    set (Ld := ch_dot :: cv :: rv ++ rev pre).
    assert (HLd : no_id_head Ld = true) by (unfold Ld; cbn [no_id_head]; now rewrite Did).
    rewrite (atom_start_word kws lastc _ c (r ++ Ld) nx Hc).
    rewrite primary_start_S, (id_not_dot c Hc).
    assert (Hwb : word_before (c :: r ++ Ld) [] = w0 :: w').
    { change (c :: r ++ Ld) with ((c :: r) ++ Ld). rewrite (word_before_app (c :: r) Ld [] Hcr HLd), app_nil_r.
      rewrite <- Erw. apply rev_involutive. }
    assert (HwsL : fst (word_start (c :: r ++ Ld) nx) = Ld).
    { change (c :: r ++ Ld) with ((c :: r) ++ Ld). now apply word_start_app. }
    rewrite (pwds_word_exact kws lastc (S (S (S (S (S m))))) c (r ++ Ld) nx Hc);
      [|right; right; apply (follows_dot_word _ cv rv (rev pre)); [exact HwsL | exact Hcv | exact HL | exact Hlastd]].
    destruct (word_start (c :: r ++ Ld) nx) as [ql qn] eqn:Eq. cbn [fst] in HwsL. subst ql.
    unfold Ld at 1.
    destruct (primary_loop_one_dot kws lastc (S (S (S m))) cv rv (rev pre) qn Hcv Hkv Hfrom' HL Hbound) as [nx' [-> _]].
    unfold plen. cbn [fst].
    assert (ELd : N.of_nat (length Ld) = tlen P).
    { unfold Ld. rewrite <- ErP. unfold tlen. now rewrite rev_length. }
    rewrite ELd.
    replace (N.of_nat (length (rev pre))) with (tlen pre) by (unfold tlen; now rewrite rev_length).
    assert (Hsw : slice code (tlen P) o = w0 :: w') by (apply slice_mid).
    rewrite Hsw, (blank_word (w0 :: w') ltac:(discriminate) Hw).
    assert (HsPv : slice code (tlen pre) (tlen P) = v ++ [ch_dot]).
    { rewrite HP. unfold code, P. replace (tlen pre + tlen v + 1)%N with (tlen pre + tlen (v ++ [ch_dot]))%N
        by (rewrite tlen_app; unfold tlen at 3; cbn [length]; lia).
      rewrite <- !app_assoc. rewrite (app_assoc v [ch_dot]). apply slice_mid. }
    rewrite HsPv.
    assert (Hbl : blank (v ++ [ch_dot]) = false).
    { destruct v as [|v0 v']; [congruence|]. cbn in Hv. apply andb_prop in Hv as [Hv0 _].
      unfold blank. cbn [app forallb]. now rewrite (id_not_space v0 Hv0). }
    rewrite Hbl.
    assert (Hneq : N.eqb (tlen pre) (tlen P) = false) by (apply N.eqb_neq; lia).
    rewrite Hneq. cbn [andb].
    assert (Hcws : nth_ch code (tlen P) = Some w0) by (unfold code; apply nth_ch_app).
    rewrite Hcws, (id_not_dot w0 Hw0), (id_not_space w0 Hw0).
    assert (HtP : take (tlen P) code = P) by (unfold code; apply take_app).
    rewrite HtP, ErP. cbn [last_non_space]. rewrite Dsp. cbn [fst tl hd_error last_non_space].
    rewrite (id_not_space cv (proj1 (andb_prop _ _ Hcv))). cbn [fst].
    replace (N.of_nat (length (cv :: rv ++ rev pre))) with (tlen pre + tlen v)%N.
    2:{ rewrite app_comm_cons, <- Erv, <- rev_app_distr, rev_length, app_length, Nat2N.inj_add. reflexivity. }
    rewrite HP. reflexivity.
Qed.

(* "x = os.is|\n": the attribute prefix is spelled like a keyword *)
Lemma split_dotted_example :
  let kws := [[105; 115]; [102; 111; 114]]%N in
  let pre := [120; 32; 61; 32]%N in let v := [111; 115]%N in let w := [105; 115]%N in let post := [10]%N in
  is_kw kws v = false /\ is_kw kws w = true /\ ends_from (rev v ++ rev pre) = false
  /\ word_boundary_before (rev pre) (last (pre ++ v ++ ch_dot :: w ++ post) 0%N) = true
  /\ split_in kws (pre ++ v ++ ch_dot :: w ++ post) (pre ++ v ++ ch_dot :: w ++ post) 9 = Some (v, w, 7%N).
Proof. vm_compute. repeat split. Qed.

(* ------------------------------------------------------------------ after a blank *)
(* the character before the cursor is white space and the last non-blank character before it on the line is not
   a dot: nothing is being typed, whatever precedes *)
Theorem split_after_blank (kws : list text) (pre post raw : text) (c : N) :
  is_space c = true ->
  oc_is (N.eqb ch_dot) (hd_error (fst (last_non_space (c :: rev pre) (hd_error post)))) = false ->
  split_in kws (pre ++ c :: post) raw (tlen pre + 1) = Some ([], [], (tlen pre + 1)%N).
Proof.
  intros Hc Hd. unfold split_in.
  assert (Ho : N.eqb (tlen pre + 1) 0 = false) by (apply N.eqb_neq; lia).
  assert (Htake : take (tlen pre + 1) (pre ++ c :: post) = pre ++ [c]).
  { replace (tlen pre + 1)%N with (tlen (pre ++ [c])) by (rewrite tlen_app; reflexivity).
    replace (pre ++ c :: post) with ((pre ++ [c]) ++ post) by (rewrite <- app_assoc; reflexivity).
    apply take_app. }
  assert (Hnx : nth_ch (pre ++ c :: post) (tlen pre + 1) = hd_error post).
  { replace (tlen pre + 1)%N with (tlen (pre ++ [c])) by (rewrite tlen_app; reflexivity).
    replace (pre ++ c :: post) with ((pre ++ [c]) ++ post) by (rewrite <- app_assoc; reflexivity).
    apply nth_ch_app. }
  rewrite Ho, Htake, Hnx, rev_app_distr. cbn [rev app]. rewrite Hc, Hd. reflexivity.
Qed.

Lemma split_after_blank_example :
  split_in [[105; 102]]%N [97; 98; 99; 32]%N [97; 98; 99; 32]%N 4 = Some ([], [], 4%N)
  /\ split_in [[105; 102]]%N [97; 46; 98; 32]%N [97; 46; 98; 32]%N 4 = Some ([], [], 4%N)
  /\ split_in [[105; 102]]%N [97; 46; 32]%N [97; 46; 32]%N 3 = Some ([97%N], [], 3%N).
Proof. vm_compute. repeat split. Qed.
