(* Correspondence runner for C20.  A case is one generated module with what rope answered at its cursor
   positions; the model is evaluated here and compared.

     c_splits    Worder(raw, True).get_splitted_primary_before(o) for EVERY offset o = 0 .. len(raw)
     c_lstarts   fixsyntax._logical_start(raw.split("\n"), l) for every line l
     c_items     code_assist at a representative offset of every distinct (line, typed prefix, later_locals,
                 answer) among the offsets where nothing is dotted and the line is not a from-import:
                 (offset, later_locals, proposals as (identifier, scope code)); the pipeline
                 offset -> split -> line -> logical start -> holding scope -> scope walk -> prefix filter ->
                 keywords is evaluated here from the offset alone
     c_defs      get_definition_location at plain name tokens: (path of the scope the token is evaluated in - from
                 ast, by the harness -, identifier, line or None)
     c_py_visible  CPython (symtable, by the harness): per scope path, the identifiers of c_idents that resolve
   Result codes:
     0 agree                                  1 split differs             2 logical start differs
     3 proposals differ (later_locals=True)   4 proposals differ (later_locals=False)
     5 definition line differs                6 an item is not an undotted position for the model
     7 attribute proposals differ (dotted position whose receiver the model knows to be a class)
     9 outside the model (cyclic superclasses)
     11 SPEC (visible_at) differs from CPython
     21 inside the theorems' domain but the model's proposals and the SPEC's visible names differ *)
From Coq Require Import List NArith Bool PeanoNat.
From RopeVerif.Lib Require Import Text.
From RopeVerif.C15 Require Import Syntax Scoping RopeScopes Fragment.
From RopeVerif.C20 Require Import Split Complete Dotted.
Import ListNotations.

Record case := {
  c_prog : program;
  c_layout : list lineinfo;
  c_builtins : list ident;                         (* identifiers of the universe that are builtins *)
  c_idents : list ident;                           (* identifiers occurring in the module (inheritance tables) *)
  c_spell : list text;                             (* spelling of identifier i; the universe is 0 .. length-1 *)
  c_kws : list text;
  c_code : text;                                   (* rope.base.simplify.real_code(raw) *)
  c_raw : text;
  c_regions : list (N * N);                        (* strings and comments *)
  c_splits : list (option (text * text * N));      (* None: outside the comparison *)
  c_lstarts : list N;
  c_items : list (N * bool * list (ident * N));
  c_defs : list (path * ident * option N);
  c_py_visible : list (path * list ident);
  c_ditems : list (N * list (ident * N))        (* dotted positions whose receiver is a plain name: offset, proposals *)
}.

Definition opt_N_eqb (a b : option N) : bool :=
  match a, b with Some x, Some y => N.eqb x y | None, None => true | _, _ => false end.

Definition split_eqb (a b : text * text * N) : bool :=
  let '(e, s, o) := a in let '(e', s', o') := b in text_eqb e e' && text_eqb s s' && N.eqb o o'.

Fixpoint check_splits (c : case) (o : N) (obs : list (option (text * text * N))) : bool :=
  match obs with
  | [] => true
  | ob :: r =>
      (match ob with
       | None => true
       | Some s =>
           match split_before (c_kws c) (c_regions c) (c_code c) (c_raw c) o with
           | Some m => split_eqb m s
           | None => true                              (* outside the model: negative indices *)
           end
       end) && check_splits c (N.succ o) r
  end.

Fixpoint check_lstarts (lay : list lineinfo) (l : N) (obs : list N) : bool :=
  match obs with
  | [] => true
  | s :: r => N.eqb (logical_start lay l) s && check_lstarts lay (N.succ l) r
  end.

Definition spell_of (c : case) (x : ident) : text := nth (N.to_nat x) (c_spell c) [].
Definition universe (c : case) : list ident := map N.of_nat (seq 0 (length (c_spell c))).

Definition universe_t (c : case) : list (ident * text) := combine (universe c) (c_spell c).

(* The model's answer at an item, per identifier of the universe: the scope code of its proposal as a name
   (0: none) and whether its spelling is proposed as a keyword.  [completions] is the same thing as a list
   (CompleteProofs.completions_rows). *)
Definition model_row (w : world) (q : path) (lineno : N) (starting : text) (ll : bool) (xt : ident * text) : N * bool :=
  if is_prefix starting (snd xt) then
    (match names_at w q lineno ll (fst xt) with Some k => pscope_code k | None => 0%N end,
     negb (blank starting) && existsb (text_eqb (snd xt)) (w_kws w))
  else (0%N, false).

(* rope's answer for identifier x from the proposals (ascending by identifier, then by code): (code, keyword?) and
   the rest of the list *)
Fixpoint take_obs (x : ident) (obs : list (ident * N)) (acc : N * bool) : (N * bool) * list (ident * N) :=
  match obs with
  | (y, k) :: r =>
      if N.eqb y x then take_obs x r (if N.eqb k 5 then (fst acc, true) else (k, snd acc))
      else (acc, obs)
  | [] => (acc, [])
  end.

(* identifiers whose lookup from the holding scope is outside C15's domain (query_ok) are not compared *)
Fixpoint rows_ok (w : world) (q : path) (lineno : N) (starting : text) (ll : bool)
         (ut : list (ident * text)) (obs : list (ident * N)) : bool :=
  match ut with
  | [] => match obs with [] => true | _ => false end          (* a proposal outside the universe / not ascending *)
  | xt :: ut' =>
      let '(got, rest) := take_obs (fst xt) obs (0%N, false) in
      let want := model_row w q lineno starting ll xt in
      (if query_ok (w_inh w) (w_rt w) q (fst xt) then N.eqb (fst want) (fst got) else true)
      && Bool.eqb (snd want) (snd got)
      && rows_ok w q lineno starting ll ut' rest
  end.

Definition item_ok (c : case) (w : world) (ut : list (ident * text)) (o : N) (ll : bool) (obs : list (ident * N)) : N :=
  match split_before (c_kws c) (c_regions c) (c_code c) (c_raw c) o with
  | Some (e, starting, so) =>
      if blank e then
        let lineno := line_of (c_raw c) so in
        if rows_ok w (holding_path w lineno) lineno starting ll ut obs then 0%N else if ll then 3%N else 4%N
      else 6%N
  | None => 6%N
  end.

Fixpoint check_items (c : case) (w : world) (ut : list (ident * text)) (items : list (N * bool * list (ident * N))) : N :=
  match items with
  | [] => 0%N
  | (o, ll, obs) :: r =>
      let code := item_ok c w ut o ll obs in
      if N.eqb code 0 then check_items c w ut r else code
  end.

(* dotted items: the receiver must be the spelling of an identifier; where the model knows it denotes a class the
   attribute proposals are compared (scope codes 6 attribute / 4 imported), elsewhere the item is outside the model *)
Fixpoint drows_ok (w : world) (c : path) (starting : text) (ut : list (ident * text)) (obs : list (ident * N)) : bool :=
  match ut with
  | [] => match obs with [] => true | _ => false end
  | xt :: ut' =>
      let '(got, rest) := take_obs (fst xt) obs (0%N, false) in
      let want := if is_prefix starting (snd xt)
                  then match class_attribute w c (fst xt) with Some k => k | None => 0%N end else 0%N in
      N.eqb want (fst got) && negb (snd got) && drows_ok w c starting ut' rest
  end.

Definition ditem_code (c : case) (w : world) (ut : list (ident * text)) (o : N) (obs : list (ident * N)) : N :=
  match split_before (c_kws c) (c_regions c) (c_code c) (c_raw c) o with
  | Some (e, starting, so) =>
      match find (fun xt => text_eqb (snd xt) e) ut with
      | Some (r, _) =>
          let lineno := line_of (c_raw c) so in
          match receiver_class w (holding_path w lineno) r with
          | Some cp => if drows_ok w cp starting ut obs then 0%N else 7%N
          | None => 100%N                                  (* outside the model *)
          end
      | None => 100%N
      end
  | None => 100%N
  end.

Fixpoint check_ditems (c : case) (w : world) (ut : list (ident * text)) (items : list (N * list (ident * N))) : bool :=
  match items with
  | [] => true
  | (o, obs) :: r => negb (N.eqb (ditem_code c w ut o obs) 7) && check_ditems c w ut r
  end.

Definition check_defs (w : world) (defs : list (path * ident * option N)) : bool :=
  forallb (fun d => let '(q, x, l) := d in
                    if query_ok (w_inh w) (w_rt w) q x then opt_N_eqb (definition_line w q x) l else true) defs.

Definition names_eqb (a b : list ident) : bool :=
  forallb (fun x => mem x b) a && forallb (fun x => mem x a) b.

Definition check_py_visible (c : case) (st : sscope) : bool :=
  forallb (fun e => names_eqb (filter (visible_at (c_builtins c) st (fst e)) (c_idents c)) (snd e)) (c_py_visible c).

(* inside the theorems' domain: at every scope, for every identifier whose query is allowed, the model proposes
   it (later_locals = True, empty prefix) iff the SPEC says it is visible *)
Definition check_theorem (c : case) (w : world) (st : sscope) : bool :=
  forallb (fun ps =>
    let q := fst ps in
    forallb (fun x =>
      if query_ok (w_inh w) (w_rt w) q x
      then Bool.eqb (match names_at w q 1%N true x with Some _ => true | None => false end)
                    (visible_at (c_builtins c) st q x)
      else true) (universe c)) (r_all (w_rt w)).

Definition run_case (c : case) : N :=
  let rt := rope_tree (c_prog c) in
  let '(tbl, stable) := rope_inh (c_builtins c) rt (c_idents c) in
  if negb stable then 9%N
  else
    let w := world_of (c_prog c) (c_layout c) (c_builtins c) (inh_of tbl) (universe c) (spell_of c) (c_kws c) in
    let st := spec_tree (nlines (c_layout c)) (c_prog c) in
    if negb (check_splits c 0%N (c_splits c)) then 1%N
    else if negb (check_lstarts (c_layout c) 1%N (c_lstarts c)) then 2%N
    else
      let code := check_items c w (universe_t c) (c_items c) in
      if negb (N.eqb code 0) then code
      else if negb (check_ditems c w (universe_t c) (c_ditems c)) then 7%N
      else if negb (check_defs w (c_defs c)) then 5%N
      else if negb (check_py_visible c st) then 11%N
      else if in_fragment_C15 (c_prog c) then (if check_theorem c w st then 0%N else 21%N)
      else 0%N.

Fixpoint mismatches_from (i : N) (cs : list case) : list (N * N) :=
  match cs with
  | [] => []
  | c :: r =>
      let code := run_case c in
      if N.eqb code 0 then mismatches_from (N.succ i) r else (i, code) :: mismatches_from (N.succ i) r
  end.
Definition mismatches (cs : list case) : list (N * N) := mismatches_from 0 cs.

(* for the evidence: cases inside the theorems' domain *)
Definition in_domain (cs : list case) : list N :=
  map (fun c => if in_fragment_C15 (c_prog c) then 1%N else 0%N) cs.

(* for the evidence: dotted items the model covers (receiver known to be a class) *)
Definition dotted_covered (cs : list case) : list N :=
  map (fun c =>
    let rt := rope_tree (c_prog c) in
    let '(tbl, _) := rope_inh (c_builtins c) rt (c_idents c) in
    let w := world_of (c_prog c) (c_layout c) (c_builtins c) (inh_of tbl) (universe c) (spell_of c) (c_kws c) in
    N.of_nat (length (filter (fun it => N.eqb (ditem_code c w (universe_t c) (fst it) (snd it)) 0) (c_ditems c)))) cs.

(* diagnostics for the harness: the model's answer at one offset *)
Definition debug_item (c : case) (o : N) (ll : bool) : option (N * path * text * list (text * N)) :=
  let rt := rope_tree (c_prog c) in
  let '(tbl, _) := rope_inh (c_builtins c) rt (c_idents c) in
  let w := world_of (c_prog c) (c_layout c) (c_builtins c) (inh_of tbl) (universe c) (spell_of c) (c_kws c) in
  match split_before (c_kws c) (c_regions c) (c_code c) (c_raw c) o with
  | Some (e, starting, so) =>
      let lineno := line_of (c_raw c) so in
      Some (lineno, holding_path w lineno, starting,
            map (fun e => (fst e, pscope_code (snd e))) (completions w lineno starting ll))
  | None => None
  end.
