(* SPEC of "the line where a name is bound": C15's [s_binds] (Scoping.v: the names a statement binds in the block
   that contains it) with the line of the binding statement and the kind of construct.  The names, in order, are
   exactly C15's ([bind_lines_names] in BindLinesProofs.v), so this is the same spec, annotated.
     BAssign  assignment statement (every target name), annotated assignment with a value, for / with / except target
     BDef / BClass  def / class statement
     BImport  import / from-import (the definition is in the imported module: outside this property)
     BOther   bindings without a statement line of their own in rope's tables: walrus targets, augmented
              assignment, del, a bare annotation *)
From Coq Require Import List NArith Bool.
From RopeVerif.C15 Require Import Syntax Scoping.
Import ListNotations.

Inductive bkind := BAssign | BDef | BClass | BImport | BOther.
Notation bentry := (ident * N * bkind)%type.
Definition bname (e : bentry) : ident := fst (fst e).
Definition bline (e : bentry) : N := snd (fst e).
Definition bkind_of (e : bentry) : bkind := snd e.
Definition at_line (l : N) (k : bkind) (xs : list ident) : list bentry := map (fun x => (x, l, k)) xs.

Definition item_bind_lines (l : N) (it : expr * option expr) : list bentry :=
  match it with
  | (c, Some v) => at_line l BOther (e_walrus c) ++ at_line l BAssign (target_names v) ++ at_line l BOther (e_walrus v)
  | (c, None) => at_line l BOther (e_walrus c)
  end.

Fixpoint s_bind_lines (s : stmt) : list bentry :=
  match s with
  | SExpr l es => at_line l BOther (flat_map e_walrus es)
  | SReturn l e => at_line l BOther (oe_walrus e)
  | SAssign l ts v =>
      at_line l BAssign (flat_map target_names ts) ++ at_line l BOther (flat_map e_walrus ts) ++ at_line l BOther (e_walrus v)
  | SAug l t v => at_line l BOther (target_names t) ++ at_line l BOther (e_walrus t) ++ at_line l BOther (e_walrus v)
  | SAnn l t a v =>
      at_line l (match v with Some _ => BAssign | None => BOther end) (target_names t)
      ++ at_line l BOther (e_walrus t) ++ at_line l BOther (e_walrus a) ++ at_line l BOther (oe_walrus v)
  | SDel l ts => at_line l BOther (flat_map target_names ts) ++ at_line l BOther (flat_map e_walrus ts)
  | SPass _ => []
  | SIf l t b o | SWhile l t b o =>
      at_line l BOther (e_walrus t) ++ flat_map s_bind_lines b ++ flat_map s_bind_lines o
  | SFor l t i b o =>
      at_line l BAssign (target_names t) ++ at_line l BOther (e_walrus t) ++ at_line l BOther (e_walrus i)
      ++ flat_map s_bind_lines b ++ flat_map s_bind_lines o
  | SWith l items b => flat_map (item_bind_lines l) items ++ flat_map s_bind_lines b
  | STry _ b hs o f =>
      flat_map s_bind_lines b
      ++ flat_map (fun h => match h with
                            | Handler hl ty nm hb =>
                                at_line hl BOther (oe_walrus ty) ++ at_line hl BAssign (map oname (opt_list nm))
                                ++ flat_map s_bind_lines hb
                            end) hs
      ++ flat_map s_bind_lines o ++ flat_map s_bind_lines f
  | SDef l _ d n _ ae r _ =>
      at_line l BOther (flat_map e_walrus d) ++ (oname n, l, BDef) :: at_line l BOther (flat_map e_walrus ae)
      ++ at_line l BOther (oe_walrus r)
  | SClass l _ d n bs _ =>
      at_line l BOther (flat_map e_walrus d) ++ (oname n, l, BClass) :: at_line l BOther (flat_map e_walrus bs)
  | SImport l ns => at_line l BImport (flat_map import_bound ns)
  | SFrom l _ _ (Some ns) => at_line l BImport (map from_bound ns)
  | SFrom _ _ _ None => []
  | SGlobal _ _ | SNonlocal _ _ => []
  end.

Definition plain (k : bkind) : bool := match k with BAssign | BDef | BClass => true | _ => false end.

(* the binding of x in a block is statically determined and sits on line l: x is bound there by an assignment /
   for / with / except target, a def or a class statement, every binding of x in the block is of that kind and on
   that line (one statement, in practice), and x is not declared global in the block *)
Definition determined (body : list stmt) (x : ident) (l : N) : Prop :=
  (exists k, plain k = true /\ In (x, l, k) (flat_map s_bind_lines body))
  /\ (forall l' k, In (x, l', k) (flat_map s_bind_lines body) -> l' = l /\ plain k = true)
  /\ ~ In x (flat_map s_globals body).
