#!/bin/sh
# Builds the whole Coq development (full .vo build) under a lock; regenerates _CoqProject from the tree.
set -e
cd "$(dirname "$0")"
exec 9>.build.lock
flock 9
{ echo "-Q . RopeVerif"; echo "-arg -w -arg -all"; find . -name '*.v' -not -path './_build/*' | sed 's|^\./||' | LC_ALL=C sort; } > _CoqProject.new
if ! cmp -s _CoqProject.new _CoqProject 2>/dev/null; then mv _CoqProject.new _CoqProject; coq_makefile -f _CoqProject -o Makefile >/dev/null; else rm -f _CoqProject.new; fi
[ -f Makefile ] || coq_makefile -f _CoqProject -o Makefile >/dev/null
timeout "${COQ_BUILD_TIMEOUT:-1800}" make -j"${COQ_JOBS:-16}" "$@"
