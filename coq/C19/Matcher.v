(* C19 — model of rope.refactor.similarfinder._ASTMatcher / RawSimilarFinder.get_matches.
   Definitions only; proofs are in MatcherProofs.v. *)
From Coq Require Import List NArith Bool.
From RopeVerif.Lib Require Import Text.
From RopeVerif.C19 Require Import Tree.
Import ListNotations.

(* the `mapping` dict of one candidate: wildcard base name -> bound node *)
Definition mapping := list (text * tree).

Fixpoint lookup (m : mapping) (k : text) : option tree :=
  match m with
  | [] => None
  | (k', v) :: r => if text_eqb k k' then Some v else lookup r k
  end.

Definition bind (m : mapping) (k : text) (v : tree) : mapping := (k, v) :: m.

(* What _match_nodes does with the head of the expected tree before looking at any child:
   RDone/RFail: decided by _match_wildcard alone;
   RPlain p m keep: run the field-wise comparison of [p] against the node with mapping [m]; on
   success return [keep] if given (the call _match_nodes(mapping[name], node2, {}) whose own mapping is
   thrown away), else the mapping produced. *)
Inductive res :=
| RFail
| RDone (m : mapping)
| RPlain (p : tree) (m : mapping) (keep : option mapping).

Section Matcher.
  (* matches_callback(node, name): the wildcard's own acceptance test *)
  Variable acc : text -> tree -> bool.

  Definition resolve (pat t : tree) (m : mapping) : res :=
    match wild_base pat with
    | Some w =>
        match lookup m w with
        | None => if acc w t then RDone (bind m w t) else RFail
        | Some b =>
            (* _match_nodes(b, t, {}) : b is a node of the *searched* tree used as the pattern *)
            match wild_base b with
            | Some w' => if acc w' t then RDone m else RFail
            | None => RPlain b [] (Some m)
            end
        end
    | None => RPlain pat m None
    end.

  Definition finish (r : option mapping) (keep : option mapping) : option mapping :=
    match r, keep with
    | Some m, None => Some m
    | Some _, Some k => Some k
    | None, _ => None
    end.

  (* _match_nodes(expected = pat, node = t, mapping = m); None = False, Some m' = True with the dict
     mutated to m'.  Structurally recursive on the searched node [t]. *)
  Fixpoint mn (t pat : tree) (m : mapping) {struct t} : option mapping :=
    match resolve pat t m with
    | RFail => None
    | RDone m' => Some m'
    | RPlain p mi keep =>
        finish
          (match p, t with
           | Node _ _ _ pc pks, Node _ _ _ tc tks =>
               if N.eqb pc tc
                  && Nat.eqb (length (filter nctx pks)) (length (filter nctx tks)) then
                 (fix go (tks pks : list tree) (m : mapping) {struct tks} : option mapping :=
                    match tks with
                    | [] => match pks with [] => Some m | _ :: _ => None end
                    | k2 :: r2 =>
                        if nctx k2 then
                          match pks with
                          | [] => None
                          | k1 :: r1 =>
                              match
                                (match k1 with
                                 | Node _ _ _ _ _ | Ctx _ => mn k2 k1 m
                                 | Lst l1 =>
                                     match k2 with
                                     | Lst l2 =>
                                         if Nat.eqb (length l1) (length l2) then
                                           (fix gol (l2 l1 : list tree) (m : mapping) {struct l2}
                                              : option mapping :=
                                              match l2, l1 with
                                              | [], [] => Some m
                                              | e2 :: q2, e1 :: q1 =>
                                                  match mn e2 e1 m with
                                                  | Some m' => gol q2 q1 m'
                                                  | None => None
                                                  end
                                              | _, _ => None
                                              end) l2 l1 m
                                         else None
                                     | _ => None
                                     end
                                 | Atom ty1 v1 =>
                                     match k2 with
                                     | Atom ty2 v2 => if atom_eqb ty1 v1 ty2 v2 then Some m else None
                                     | _ => None
                                     end
                                 end)
                              with
                              | Some m' => go r2 r1 m'
                              | None => None
                              end
                          end
                        else go r2 pks m
                    end) tks (filter nctx pks) mi
               else None
           | Ctx k1, Ctx k2 => if N.eqb k1 k2 then Some mi else None
           | Atom ty1 v1, Atom ty2 v2 => if atom_eqb ty1 v1 ty2 v2 then Some mi else None
           | _, _ => None
           end) keep
    end.

  (* the two inner loops, re-exposed *)
  Fixpoint mn_list (l2 l1 : list tree) (m : mapping) {struct l2} : option mapping :=
    match l2, l1 with
    | [], [] => Some m
    | e2 :: q2, e1 :: q1 =>
        match mn e2 e1 m with
        | Some m' => mn_list q2 q1 m'
        | None => None
        end
    | _, _ => None
    end.

  Definition child_step (k2 k1 : tree) (m : mapping) : option mapping :=
    match k1 with
    | Node _ _ _ _ _ | Ctx _ => mn k2 k1 m
    | Lst l1 =>
        match k2 with
        | Lst l2 => if Nat.eqb (length l1) (length l2) then mn_list l2 l1 m else None
        | _ => None
        end
    | Atom ty1 v1 =>
        match k2 with
        | Atom ty2 v2 => if atom_eqb ty1 v1 ty2 v2 then Some m else None
        | _ => None
        end
    end.

  (* tks: all fields of the searched node (expr_context values skipped on the fly);
     pks: the already filtered fields of the expected node *)
  Fixpoint mn_kids (tks pks : list tree) (m : mapping) {struct tks} : option mapping :=
    match tks with
    | [] => match pks with [] => Some m | _ :: _ => None end
    | k2 :: r2 =>
        if nctx k2 then
          match pks with
          | [] => None
          | k1 :: r1 =>
              match child_step k2 k1 m with
              | Some m' => mn_kids r2 r1 m'
              | None => None
              end
          end
        else mn_kids r2 pks m
    end.

  Definition plain (t p : tree) (mi : mapping) : option mapping :=
    match p, t with
    | Node _ _ _ pc pks, Node _ _ _ tc tks =>
        if N.eqb pc tc && Nat.eqb (length (filter nctx pks)) (length (filter nctx tks))
        then mn_kids tks (filter nctx pks) mi else None
    | Ctx k1, Ctx k2 => if N.eqb k1 k2 then Some mi else None
    | Atom ty1 v1, Atom ty2 v2 => if atom_eqb ty1 v1 ty2 v2 then Some mi else None
    | _, _ => None
    end.

  (* _match_stmts(current_stmts = ws, mapping) against the statement pattern ps *)
  Definition match_stmts (ws ps : list tree) (m : mapping) : option mapping :=
    if Nat.eqb (length ws) (length ps) then mn_list ws ps m else None.

  (* ---- traversal: ast.call_for_nodes(body, callback) with a callback returning None ----
     pre-order over ast.iter_child_nodes: AST-valued fields and AST items of list-valued fields
     (expr_context instances are AST nodes too and are visited) *)
  Fixpoint nodes (t : tree) : list tree :=
    match t with
    | Node _ _ _ _ ks =>
        t :: (fix over (ks : list tree) : list tree :=
                match ks with
                | [] => []
                | k :: r =>
                    (match k with
                     | Node _ _ _ _ _ => nodes k
                     | Ctx _ => [k]
                     | Lst l =>
                         (fix items (l : list tree) : list tree :=
                            match l with
                            | [] => []
                            | x :: q =>
                                (match x with
                                 | Node _ _ _ _ _ => nodes x
                                 | Ctx _ => [x]
                                 | _ => []
                                 end) ++ items q
                            end) l
                     | Atom _ _ => []
                     end) ++ over r
                end) ks
    | Ctx _ => [t]
    | _ => []
    end.

  Inductive amatch :=
  | MExpr (t : tree) (m : mapping)             (* ExpressionMatch(node, mapping) *)
  | MStmts (ws : list tree) (m : mapping).     (* StatementMatch(ast_list, mapping) *)

  (* _check_expression *)
  Definition check_expression (pat n : tree) : list amatch :=
    match mn n pat [] with
    | Some m => [MExpr n m]
    | None => []
    end.

  (* __check_stmt_list: for index in range(len(nodes)): if len(nodes) - index >= len(pattern) ... *)
  Fixpoint check_stmt_list (ps : list tree) (l : list tree) : list amatch :=
    match l with
    | [] => []
    | _ :: r =>
        (if Nat.leb (length ps) (length l) then
           let ws := firstn (length ps) l in
           match match_stmts ws ps [] with
           | Some m => [MStmts ws m]
           | None => []
           end
         else []) ++ check_stmt_list ps r
    end.

  (* _check_statements: every list-valued field of the visited node *)
  Definition check_statements (ps : list tree) (n : tree) : list amatch :=
    flat_map (fun k => match k with Lst l => check_stmt_list ps l | _ => [] end) (node_kids n).

  Inductive pattern :=
  | PExpr (p : tree)
  | PStmts (ps : list tree).

  (* RawSimilarFinder._create_pattern applied to the parsed (wildcard-substituted) pattern module *)
  Definition create_pattern (m : tree) : pattern :=
    match m with
    | Node _ _ _ _ (Lst body :: _) =>
        match body with
        | [Node _ _ _ c (v :: _)] => if N.eqb c cls_Expr then PExpr v else PStmts body
        | _ => PStmts body
        end
    | _ => PStmts []
    end.

  (* _ASTMatcher.find_matches *)
  Definition find_matches (body : tree) (pat : pattern) : list amatch :=
    match pat with
    | PExpr p => flat_map (check_expression p) (nodes body)
    | PStmts ps => flat_map (check_statements ps) (nodes body)
    end.

  Definition match_region (a : amatch) : N * N :=
    match a with
    | MExpr t _ => (node_start t, node_end t)
    | MStmts ws _ => (node_start (hd (Ctx 0) ws), node_end (last ws (Ctx 0)))
    end.

  (* RawSimilarFinder.get_matches(code, start, end, skip) *)
  Definition in_region (st en : N) (skip : option (N * N)) (a : amatch) : bool :=
    let '(ms, me) := match_region a in
    N.leb st ms && N.leb me en &&
    match skip with
    | Some (s0, s1) => negb (N.ltb s0 me && N.ltb ms s1)
    | None => true
    end.

  Definition get_matches (body : tree) (pat : pattern) (st en : N) (skip : option (N * N))
    : list amatch :=
    filter (in_region st en skip) (find_matches body pat).

End Matcher.

(* ---- the acceptance tests rope installs ----
   RawSimilarFinder._simple_does_match: isinstance(node, (ast.expr, ast.Name));
   SimilarFinder._does_match with DefaultWildcard and args {w: "exact"} for w in [exact], no other
   argument: _check_exact, then _check_object which accepts when no name/object/type/instance is given. *)
Definition acc_default (exact : list text) (w : text) (t : tree) : bool :=
  if existsb (text_eqb w) exact then
    match name_id t with
    | Some v => text_eqb v w
    | None => false
    end
  else
    match t with
    | Node _ _ _ c _ => is_expr_cls c
    | _ => false
    end.

(* inst m pat: the pattern with every wildcard replaced by the node bound to it *)
Fixpoint inst (m : mapping) (p : tree) : tree :=
  match p with
  | Node i s e c ks =>
      match wild_base p with
      | Some w => match lookup m w with Some b => b | None => p end
      | None => Node i s e c (map (inst m) ks)
      end
  | Lst l => Lst (map (inst m) l)
  | _ => p
  end.

(* the wildcards of a pattern, in first-occurrence order with repetitions *)
Fixpoint vars (p : tree) : list text :=
  match p with
  | Node _ _ _ _ ks =>
      match wild_base p with
      | Some w => [w]
      | None => flat_map vars ks
      end
  | Lst l => flat_map vars l
  | _ => []
  end.
