(* C19 — model of similarfinder.CodeTemplate: the scanner that finds ${name} placeholders outside
   comments and string literals.  It follows re.finditer on
       comment | string | (?P<name>\$\{[^\s\$\}]*\})
   with comment = #[^\n]*  and  string = (?<![fF])(\b[uUbB]?[rR]?)?( """..""" | '''..''' | ".." | '..' )
   (codeanalyze.get_comment_pattern / get_string_pattern) for ASCII text.  Definitions only. *)
From Coq Require Import List NArith Bool.
From RopeVerif.Lib Require Import Text.
From RopeVerif.C19 Require Import Tree Matcher Restructure.
Import ListNotations.
Open Scope N_scope.

Definition is_word (c : N) : bool :=
  (N.leb 48 c && N.leb c 57) || (N.leb 65 c && N.leb c 90) || (N.leb 97 c && N.leb c 122) || N.eqb c 95.
Definition is_ws (c : N) : bool :=                     (* \s on ASCII *)
  N.eqb c 32 || (N.leb 9 c && N.leb c 13) || (N.leb 28 c && N.leb c 31).
Definition in_set (c : N) (l : list N) : bool := existsb (N.eqb c) l.

(* #[^\n]* : length of the match, the text starts with '#' *)
Fixpoint to_eol (t : text) : nat :=
  match t with
  | [] => 0
  | c :: r => if N.eqb c 10 then 0 else Datatypes.S (to_eol r)
  end.

(* body and closing quotes of a long string: (\\.|q(?!qq)|\\\n|[^q\\])*qqq ; None = no match *)
Fixpoint long_body (q : N) (t : text) : option nat :=
  match t with
  | [] => None
  | c :: r =>
      if N.eqb c q then
        match r with
        | c2 :: c3 :: _ =>
            if N.eqb c2 q && N.eqb c3 q then Some 3%nat
            else option_map Datatypes.S (long_body q r)
        | _ => option_map Datatypes.S (long_body q r)
        end
      else if N.eqb c 92 then
        match r with
        | _ :: r' => option_map (fun n => Datatypes.S (Datatypes.S n)) (long_body q r')
        | [] => None
        end
      else option_map Datatypes.S (long_body q r)
  end.

(* body and closing quote of a short string: (\\.|\\\n|[^q\\\n])*q *)
Fixpoint short_body (q : N) (t : text) : option nat :=
  match t with
  | [] => None
  | c :: r =>
      if N.eqb c q then Some 1%nat
      else if N.eqb c 92 then
        match r with
        | _ :: r' => option_map (fun n => Datatypes.S (Datatypes.S n)) (short_body q r')
        | [] => None
        end
      else if N.eqb c 10 then None
      else option_map Datatypes.S (short_body q r)
  end.

(* the four quote alternatives, in the order of the regular expression *)
Definition quoted (t : text) : option nat :=
  let long q := match t with
                | a :: b :: c :: r =>
                    if N.eqb a q && N.eqb b q && N.eqb c q
                    then option_map (fun n => (3 + n)%nat) (long_body q r) else None
                | _ => None
                end in
  let short q := match t with
                 | a :: r => if N.eqb a q then option_map Datatypes.S (short_body q r) else None
                 | [] => None
                 end in
  match long 34 with
  | Some n => Some n
  | None => match long 39 with
            | Some n => Some n
            | None => match short 34 with
                      | Some n => Some n
                      | None => short 39
                      end
            end
  end.

(* prefix lengths tried by (\b[uUbB]?[rR]?)? in backtracking order, then the empty alternative *)
Definition prefix_lengths (prev : option N) (t : text) : list nat :=
  let pw := match prev with Some p => is_word p | None => false end in
  let cw := match t with c :: _ => is_word c | [] => false end in
  let boundary := xorb pw cw in
  let ub := match t with c :: _ => in_set c [117; 85; 98; 66] | [] => false end in
  let r_at (k : nat) := match nth_error t k with Some c => in_set c [114; 82] | None => false end in
  (if boundary then
     (if ub then (if r_at 1%nat then [2%nat] else []) ++ [1%nat] else [])
     ++ (if r_at 0%nat then [1%nat] else []) ++ [0%nat]
   else []) ++ [0%nat].

Definition string_at (prev : option N) (t : text) : option nat :=
  match prev with
  | Some p => if in_set p [102; 70] then None else
      (fix try (ks : list nat) : option nat :=
         match ks with
         | [] => None
         | k :: r => match quoted (skipn k t) with
                     | Some n => Some (k + n)%nat
                     | None => try r
                     end
         end) (prefix_lengths prev t)
  | None =>
      (fix try (ks : list nat) : option nat :=
         match ks with
         | [] => None
         | k :: r => match quoted (skipn k t) with
                     | Some n => Some (k + n)%nat
                     | None => try r
                     end
         end) (prefix_lengths prev t)
  end.

(* \$\{[^\s\$\}]*\} : the name and the length of the match *)
Fixpoint name_body (t : text) : option (text * nat) :=
  match t with
  | [] => None
  | c :: r =>
      if N.eqb c 125 then Some ([], 1%nat)
      else if is_ws c || N.eqb c 36 then None
      else match name_body r with
           | Some (nm, n) => Some (c :: nm, Datatypes.S n)
           | None => None
           end
  end.
Definition name_at (t : text) : option (text * nat) :=
  match t with
  | 36 :: 123 :: r => match name_body r with
                      | Some (nm, n) => Some (nm, (2 + n)%nat)
                      | None => None
                      end
  | _ => None
  end.

Definition last_of (prev : option N) (t : text) (n : nat) : option N :=
  match n with
  | O => prev
  | Datatypes.S m => nth_error t m
  end.

(* finditer: the placeholder occurrences (name, start, end) in text order *)
Fixpoint scan (fuel : nat) (prev : option N) (t : text) (pos : N) : list (text * N * N) :=
  match fuel with
  | O => []
  | Datatypes.S f =>
      match t with
      | [] => []
      | c :: r =>
          let skip n := scan f (last_of prev t n) (skipn n t) (pos + N.of_nat n) in
          if N.eqb c 35 then skip (Datatypes.S (to_eol r))
          else match string_at prev t with
               | Some n => skip n
               | None =>
                   match name_at t with
                   | Some (nm, n) => (nm, pos, pos + N.of_nat n) :: skip n
                   | None => scan f (Some c) r (pos + 1)
                   end
               end
      end
  end.

Definition find_names (t : text) : list (text * N * N) := scan (Datatypes.S (length t)) None t 0.

(* the template cut at its placeholders *)
Fixpoint cut_at (t : text) (pos : N) (occ : list (text * N * N)) : template :=
  match occ with
  | [] => match t with [] => [] | _ => [PLit t] end
  | (nm, s, e) :: r =>
      let lit := firstn (N.to_nat (s - pos)) t in
      (match lit with [] => [] | _ => [PLit lit] end)
      ++ PVar nm :: cut_at (skipn (N.to_nat (e - pos)) t) e r
  end.
Definition cut (t : text) : template := cut_at t 0 (find_names t).

(* RawSimilarFinder._replace_wildcards: the pattern with ${name} -> reserved identifier *)
Definition replace_wildcards (t : text) : text :=
  let g := cut t in
  substitute g (map (fun w => (w, get_var w)) (goal_names g)).
