(* C19 — proofs about traversal, windows, region filter, tree-level rewriting, the acceptance tests,
   and the occurrence-wise reading of a successful match. *)
From Coq Require Import List NArith Bool Lia PeanoNat.
From RopeVerif.Lib Require Import Text.
From RopeVerif.C19 Require Import Tree Matcher MatcherProofs.
Import ListNotations.

(* ---- nodes: every descendant is visited ---- *)
Definition nodes_field (k : tree) : list tree :=
  match k with Lst l => flat_map nodes l | _ => nodes k end.

Lemma nodes_node i s e c ks :
  nodes (Node i s e c ks) = Node i s e c ks :: flat_map nodes_field ks.
Proof.
  cbn [nodes]. f_equal.
  induction ks as [|k r IH]; [reflexivity|]. cbn [flat_map]. rewrite <- IH. f_equal.
  destruct k as [| l | |]; try reflexivity. cbn [nodes_field].
  induction l as [|x q IHq]; [reflexivity|]. cbn [flat_map]. rewrite <- IHq. f_equal.
  destruct x; reflexivity.
Qed.

Definition visitable (t : tree) : bool :=
  match t with Node _ _ _ _ _ | Ctx _ => true | _ => false end.

Inductive child : tree -> tree -> Prop :=
| child_field i s e c ks k : In k ks -> visitable k = true -> child k (Node i s e c ks)
| child_item i s e c ks l k :
    In (Lst l) ks -> In k l -> visitable k = true -> child k (Node i s e c ks).

Inductive desc : tree -> tree -> Prop :=
| desc_refl t : visitable t = true -> desc t t
| desc_step a b c : child a b -> desc b c -> desc a c.

Lemma nodes_self t : visitable t = true -> In t (nodes t).
Proof. destruct t; try discriminate; intros _; [rewrite nodes_node|]; left; reflexivity. Qed.

Definition closed_at (t : tree) : Prop :=
  forall a b, In b (nodes t) -> child a b -> In a (nodes t).

Lemma nodes_child_closed' t : closed_at t /\ (forall l, t = Lst l -> Forall closed_at l).
Proof.
  induction t as [i s e c ks IH|l IH|ty v|k] using tree_ind'.
  - split; [|discriminate]. intros a b Hb Hc.
    rewrite nodes_node in Hb |- *. destruct Hb as [<-|Hb].
    + right. inversion Hc as [? ? ? ? ? ? Hin Hv|? ? ? ? ? l ? Hl Hin Hv]; subst.
      * apply in_flat_map. exists a. split; [exact Hin|].
        destruct a; try discriminate; cbn [nodes_field]; apply nodes_self; reflexivity.
      * apply in_flat_map. exists (Lst l). split; [exact Hl|]. cbn [nodes_field].
        apply in_flat_map. exists a. split; [exact Hin|]. apply nodes_self. exact Hv.
    + right. apply in_flat_map in Hb as (k & Hk & Hb). apply in_flat_map. exists k.
      split; [exact Hk|]. rewrite Forall_forall in IH. destruct (IH _ Hk) as [IH1 IH2].
      destruct k as [| l | |]; cbn [nodes_field] in *.
      * eapply IH1; eauto.
      * apply in_flat_map in Hb as (x & Hx & Hb). apply in_flat_map. exists x.
        split; [exact Hx|]. specialize (IH2 l eq_refl). rewrite Forall_forall in IH2.
        eapply IH2; eauto.
      * contradiction.
      * eapply IH1; eauto.
  - split; [intros a b []|]. intros l' [= <-]. eapply Forall_impl; [|exact IH].
    intros x [Hx _]. exact Hx.
  - split; [intros a b []|discriminate].
  - split; [|discriminate]. intros a b Hb Hc. cbn in Hb. destruct Hb as [<-|[]]. inversion Hc.
Qed.

Theorem nodes_complete n t : desc n t -> In n (nodes t).
Proof.
  induction 1 as [t Hv|a b c Hc Hd IH].
  - apply nodes_self. exact Hv.
  - eapply (proj1 (nodes_child_closed' c)); eauto.
Qed.

(* ---- find_matches: exactly the visited nodes / windows that match ---- *)
Section Find.
  Variable acc : text -> tree -> bool.

  Theorem find_expr_iff body p a :
    In a (find_matches acc body (PExpr p)) <->
    exists n m, In n (nodes body) /\ mn acc n p [] = Some m /\ a = MExpr n m.
  Proof.
    cbn [find_matches]. rewrite in_flat_map. split.
    - intros (n & Hn & Ha). unfold check_expression in Ha.
      destruct (mn acc n p []) as [m|] eqn:E; [|contradiction].
      destruct Ha as [<-|[]]. eauto.
    - intros (n & m & Hn & E & ->). exists n. split; [exact Hn|].
      unfold check_expression. rewrite E. left; reflexivity.
  Qed.

  Lemma check_stmt_list_iff ps l a :
    In a (check_stmt_list acc ps l) <->
    exists pre suf m, l = pre ++ suf /\ suf <> [] /\ (length ps <= length suf)%nat /\
      match_stmts acc (firstn (length ps) suf) ps [] = Some m /\
      a = MStmts (firstn (length ps) suf) m.
  Proof.
    induction l as [|x r IH].
    - cbn. split; [contradiction|]. intros (pre & suf & m & H & Hs & _).
      destruct pre; destruct suf; cbn in H; congruence.
    - cbn [check_stmt_list]. rewrite in_app_iff, IH. split.
      + intros [H|(pre & suf & m & -> & Hs & Hl & E & ->)].
        * destruct (Nat.leb (length ps) (length (x :: r))) eqn:L; [|contradiction].
          apply Nat.leb_le in L.
          destruct (match_stmts acc (firstn (length ps) (x :: r)) ps []) as [m|] eqn:E; [|contradiction].
          destruct H as [<-|[]]. exists [], (x :: r), m. repeat split; auto. discriminate.
        * exists (x :: pre), suf, m. repeat split; auto.
      + intros (pre & suf & m & H & Hs & Hl & E & ->). destruct pre as [|y pre].
        * cbn [app] in H. subst suf. left. apply Nat.leb_le in Hl. rewrite Hl, E. left; reflexivity.
        * cbn [app] in H. injection H as -> ->. right. exists pre, suf, m. repeat split; auto.
  Qed.

  Lemma match_stmts_length ws ps m m' : match_stmts acc ws ps m = Some m' -> length ws = length ps.
  Proof. unfold match_stmts. destruct (Nat.eqb _ _) eqn:E; [|discriminate]. intros _. apply Nat.eqb_eq, E. Qed.

  (* every non-empty window of a statement list that matches is reported *)
  Theorem window_reported ps l pre ws post m :
    l = pre ++ ws ++ post -> ws <> [] -> match_stmts acc ws ps [] = Some m ->
    In (MStmts ws m) (check_stmt_list acc ps l).
  Proof.
    intros -> Hne E. apply check_stmt_list_iff.
    pose proof (match_stmts_length _ _ _ _ E) as Hl.
    exists pre, (ws ++ post), m.
    assert (F : firstn (length ps) (ws ++ post) = ws).
    { rewrite <- Hl. rewrite firstn_app, Nat.sub_diag, firstn_all. cbn. apply app_nil_r. }
    rewrite F. repeat split; auto.
    - destruct ws; [congruence|discriminate].
    - rewrite app_length. lia.
  Qed.

  Theorem find_stmts_iff body ps a :
    In a (find_matches acc body (PStmts ps)) <->
    exists n l, In n (nodes body) /\ In (Lst l) (node_kids n) /\ In a (check_stmt_list acc ps l).
  Proof.
    cbn [find_matches]. rewrite in_flat_map. split.
    - intros (n & Hn & Ha). unfold check_statements in Ha. apply in_flat_map in Ha as (k & Hk & Ha).
      destruct k as [|l| |]; try contradiction. eauto.
    - intros (n & l & Hn & Hk & Ha). exists n. split; [exact Hn|].
      unfold check_statements. apply in_flat_map. exists (Lst l). auto.
  Qed.

  (* ---- region filter ---- *)
  Theorem get_matches_iff body pat st en skip a :
    In a (get_matches acc body pat st en skip) <->
    In a (find_matches acc body pat) /\ in_region st en skip a = true.
  Proof. unfold get_matches. apply filter_In. Qed.

  Theorem in_region_spec st en skip a :
    in_region st en skip a = true <->
    (st <= fst (match_region a) /\ snd (match_region a) <= en)%N /\
    (forall s0 s1, skip = Some (s0, s1) ->
       ~ (s0 < snd (match_region a) /\ fst (match_region a) < s1)%N).
  Proof.
    unfold in_region. destruct (match_region a) as [ms me]. cbn [fst snd].
    rewrite !andb_true_iff, !N.leb_le. split.
    - intros [[H1 H2] H3]. split; [auto|]. intros s0 s1 ->.
      apply negb_true_iff, andb_false_iff in H3. rewrite !N.ltb_ge in H3. lia.
    - intros [[H1 H2] H3]. split; [auto|]. destruct skip as [[s0 s1]|]; [|reflexivity].
      specialize (H3 s0 s1 eq_refl). apply negb_true_iff, andb_false_iff. rewrite !N.ltb_ge. lia.
  Qed.
End Find.

Theorem get_matches_spec acc body pat st en skip a :
  In a (get_matches acc body pat st en skip) <->
  In a (find_matches acc body pat) /\
  ((st <= fst (match_region a) /\ snd (match_region a) <= en)%N /\
   (forall s0 s1, skip = Some (s0, s1) ->
      ~ (s0 < snd (match_region a) /\ fst (match_region a) < s1)%N)).
Proof. rewrite get_matches_iff, in_region_spec. reflexivity. Qed.

(* ---- tree-level rewriting: replacing nodes by equal code leaves the tree unchanged ---- *)
Fixpoint rewrite (f : tree -> option tree) (t : tree) : tree :=
  match t with
  | Node i s e c ks =>
      match f t with
      | Some t' => t'
      | None => Node i s e c (map (rewrite f) ks)
      end
  | Lst l => Lst (map (rewrite f) l)
  | _ => t
  end.

(* the tree-level reading of Restructure: every outermost node matching [pat] becomes [goal] with the
   bound nodes inserted *)
Definition restructure_tree (acc : text -> tree -> bool) (pat goal body : tree) : tree :=
  rewrite (fun n => match mn acc n pat [] with Some m => Some (inst m goal) | None => None end) body.

Lemma map_erase_filter_congr (g : tree -> tree) ks :
  Forall (fun k => no_wild k = true -> erase (g k) = erase k) ks ->
  forallb no_wild ks = true ->
  map erase (filter nctx (map g ks)) = map erase (filter nctx ks).
Proof.
  induction 1 as [|k r Hk Hr IH]; intro H; [reflexivity|]. cbn [forallb] in H.
  apply andb_true_iff in H as [H1 H2]. cbn [map filter].
  rewrite (erase_eq_nctx _ _ (Hk H1)). destruct (nctx k); cbn [map]; rewrite IH by exact H2.
  - rewrite (Hk H1). reflexivity.
  - reflexivity.
Qed.

Lemma rewrite_congr f :
  (forall n t', no_wild n = true -> f n = Some t' -> erase t' = erase n) ->
  forall t, no_wild t = true -> erase (rewrite f t) = erase t.
Proof.
  intros Hf t. induction t as [i s e c ks IH|l IH|ty v|k] using tree_ind'; intro Hw; try reflexivity.
  - cbn [rewrite]. destruct (f (Node i s e c ks)) as [t'|] eqn:E; [eapply Hf; eauto|].
    apply no_wild_node in Hw as [_ Hk]. rewrite !erase_node. f_equal.
    apply map_erase_filter_congr; assumption.
  - cbn [rewrite]. rewrite !erase_lst. f_equal. cbn [no_wild] in Hw.
    induction IH as [|x r Hx Hr IHr]; [reflexivity|]. cbn [forallb] in Hw.
    apply andb_true_iff in Hw as [H1 H2]. cbn [map]. f_equal; auto.
Qed.

Theorem identity_goal acc pat body :
  (forall w t, acc w t = true -> is_node t = true) ->
  no_wild body = true -> erase (restructure_tree acc pat pat body) = erase body.
Proof.
  intros Hacc Hw. unfold restructure_tree. apply rewrite_congr; [|exact Hw].
  intros n t' Hn H. destruct (mn acc n pat []) as [m|] eqn:E; [|discriminate].
  injection H as <-. eapply match_sound; eauto.
Qed.

(* ---- rope's acceptance tests satisfy the hypotheses of the theorems ---- *)
Lemma acc_default_node exact w t : acc_default exact w t = true -> is_node t = true.
Proof.
  unfold acc_default. destruct (existsb _ exact).
  - destruct t; cbn; congruence.
  - destruct t; cbn; congruence.
Qed.

Lemma acc_default_erase exact w a b :
  erase a = erase b -> acc_default exact w a = acc_default exact w b.
Proof.
  intro H. unfold acc_default. destruct (existsb _ exact).
  - rewrite <- (name_id_erase a), <- (name_id_erase b), H. reflexivity.
  - destruct a as [i s e c ks| | |]; destruct b as [i' s' e' c' ks'| | |]; try reflexivity;
      try (rewrite ?erase_node in H; cbn [erase] in H; discriminate).
    rewrite !erase_node in H. injection H as -> _. reflexivity.
Qed.

(* ---- occurrence-wise reading: which sub-tree of the searched node faces a wildcard ---- *)
Inductive occurs : tree -> tree -> text -> tree -> Prop :=
| occ_here pat t w : wild_base pat = Some w -> occurs pat t w t
| occ_field i s e c pks i' s' e' c' tks j pk tk w x :
    wild_base (Node i s e c pks) = None ->
    nth_error (filter nctx pks) j = Some pk -> nth_error (filter nctx tks) j = Some tk ->
    occurs pk tk w x -> occurs (Node i s e c pks) (Node i' s' e' c' tks) w x
| occ_item pl tl j pk tk w x :
    nth_error pl j = Some pk -> nth_error tl j = Some tk ->
    occurs pk tk w x -> occurs (Lst pl) (Lst tl) w x.

Theorem inst_occurs m pat t w x :
  mnode m -> erase (inst m pat) = erase t -> occurs pat t w x ->
  forall b, lookup m w = Some b -> erase b = erase x.
Proof.
  intros Hm He Ho. induction Ho as [pat t w Hw|i s e c pks i' s' e' c' tks j pk tk w x Hp Hj Hj' Ho IH
                                   |pl tl j pk tk w x Hj Hj' Ho IH]; intros b L.
  - rewrite (inst_wild _ _ _ Hw), L in He. exact He.
  - apply IH; [|exact L]. rewrite inst_node_plain in He by exact Hp. rewrite !erase_node in He.
    injection He as _ He. rewrite filter_map_comm in He by (intros; apply nctx_inst'; exact Hm).
    apply (f_equal (fun l => nth_error l j)) in He. rewrite !nth_error_map in He.
    rewrite Hj, Hj' in He. cbn in He. congruence.
  - apply IH; [|exact L]. cbn [inst] in He. rewrite !erase_lst in He. injection He as He.
    apply (f_equal (fun l => nth_error l j)) in He. rewrite !nth_error_map in He.
    rewrite Hj, Hj' in He. cbn in He. congruence.
Qed.

Theorem match_consistent acc :
  (forall w t, acc w t = true -> is_node t = true) ->
  forall t pat m w x b,
    no_wild t = true -> mn acc t pat [] = Some m ->
    occurs pat t w x -> lookup m w = Some b -> erase b = erase x.
Proof.
  intros Hacc t pat m w x b Hw H Ho L. apply (inst_occurs m pat t w x); auto.
  - destruct (mn_sound_all acc Hacc t) as [HS _].
    destruct (HS pat [] m mwf_nil Hw H) as (Hm & _ & _).
    intros w0 b0 L0. apply Hm in L0. tauto.
  - eapply match_sound; eauto.
Qed.
