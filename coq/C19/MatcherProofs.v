(* C19 — proofs about the matcher model. *)
From Coq Require Import List NArith Bool Lia PeanoNat.
From RopeVerif.Lib Require Import Text.
From RopeVerif.C19 Require Import Tree Matcher.
Import ListNotations.

(* ---- induction principle for the nested tree type ---- *)
Section TreeInd.
  Variable P : tree -> Prop.
  Hypothesis HN : forall i s e c ks, Forall P ks -> P (Node i s e c ks).
  Hypothesis HL : forall l, Forall P l -> P (Lst l).
  Hypothesis HA : forall ty v, P (Atom ty v).
  Hypothesis HC : forall k, P (Ctx k).
  Fixpoint tree_ind' (t : tree) : P t :=
    match t with
    | Node i s e c ks =>
        HN i s e c ks ((fix go (l : list tree) : Forall P l :=
                          match l with
                          | [] => Forall_nil P
                          | x :: r => Forall_cons x (tree_ind' x) (go r)
                          end) ks)
    | Lst l =>
        HL l ((fix go (l : list tree) : Forall P l :=
                 match l with
                 | [] => Forall_nil P
                 | x :: r => Forall_cons x (tree_ind' x) (go r)
                 end) l)
    | Atom ty v => HA ty v
    | Ctx k => HC k
    end.
End TreeInd.

(* ---- basic facts ---- *)
Lemma erase_node i s e c ks :
  erase (Node i s e c ks) = Node 0 0 0 c (map erase (filter nctx ks)).
Proof.
  cbn [erase]. f_equal.
  induction ks as [|k r IH]; cbn [filter map]; [reflexivity|].
  destruct (nctx k); cbn [map]; rewrite IH; reflexivity.
Qed.

Lemma erase_lst l : erase (Lst l) = Lst (map erase l).
Proof. reflexivity. Qed.

Lemma atom_eqb_eq t1 v1 t2 v2 : atom_eqb t1 v1 t2 v2 = true -> t1 = t2 /\ v1 = v2.
Proof.
  unfold atom_eqb. intro H. apply andb_true_iff in H as [H1 H2].
  apply N.eqb_eq in H1. apply text_eqb_eq in H2. auto.
Qed.

Lemma atom_eqb_refl t v : atom_eqb t v t v = true.
Proof. unfold atom_eqb. rewrite N.eqb_refl, text_eqb_refl. reflexivity. Qed.

Lemma nctx_erase t : nctx (erase t) = nctx t.
Proof. destruct t; reflexivity. Qed.

Lemma is_node_erase t : is_node (erase t) = is_node t.
Proof. destruct t; reflexivity. Qed.

Lemma erase_eq_nctx a b : erase a = erase b -> nctx a = nctx b.
Proof. intro H. rewrite <- (nctx_erase a), <- (nctx_erase b), H. reflexivity. Qed.

Lemma erase_eq_is_node a b : erase a = erase b -> is_node a = is_node b.
Proof. intro H. rewrite <- (is_node_erase a), <- (is_node_erase b), H. reflexivity. Qed.

Lemma is_node_nctx t : is_node t = true -> nctx t = true.
Proof. destruct t; cbn; congruence. Qed.

Lemma filter_nctx_map_erase ks : filter nctx (map erase ks) = map erase (filter nctx ks).
Proof.
  induction ks as [|k r IH]; [reflexivity|]. cbn [map filter]. rewrite nctx_erase.
  destruct (nctx k); cbn [map]; rewrite IH; reflexivity.
Qed.

Lemma filter_idem {A} (f : A -> bool) l : filter f (filter f l) = filter f l.
Proof.
  induction l as [|x r IH]; [reflexivity|]. cbn [filter].
  destruct (f x) eqn:E; cbn [filter]; rewrite ?E, IH; reflexivity.
Qed.

Lemma name_id_erase t : name_id (erase t) = name_id t.
Proof.
  destruct t as [i s e c ks| | |]; try reflexivity.
  rewrite erase_node. cbn [name_id]. destruct (N.eqb c cls_Name); [|reflexivity].
  rewrite filter_nctx_map_erase, filter_idem.
  destruct (filter nctx ks) as [|k r]; [reflexivity|]. destruct k; reflexivity.
Qed.

Lemma wild_base_erase t : wild_base (erase t) = wild_base t.
Proof. unfold wild_base. rewrite name_id_erase. reflexivity. Qed.

Lemma wild_base_node t w : wild_base t = Some w -> is_node t = true.
Proof. destruct t; cbn; congruence. Qed.

(* ---- mappings ---- *)
Definition mwf (m : mapping) : Prop :=
  forall w b, lookup m w = Some b -> is_node b = true /\ no_wild b = true.
Definition extends (m m' : mapping) : Prop :=
  forall w b, lookup m w = Some b -> lookup m' w = Some b.

Lemma extends_refl m : extends m m.
Proof. intros w b H; exact H. Qed.
Lemma extends_trans a b c : extends a b -> extends b c -> extends a c.
Proof. intros H1 H2 w x H. apply H2, H1, H. Qed.
Lemma mwf_nil : mwf [].
Proof. intros w b H; discriminate. Qed.

Lemma lookup_bind_same m w v : lookup (bind m w v) w = Some v.
Proof. cbn. rewrite text_eqb_refl. reflexivity. Qed.
Lemma lookup_bind_other m w v k : k <> w -> lookup (bind m w v) k = lookup m k.
Proof.
  intro H. cbn. destruct (text_eqb k w) eqn:E; [|reflexivity].
  apply text_eqb_eq in E. congruence.
Qed.

Lemma extends_bind m w v : lookup m w = None -> extends m (bind m w v).
Proof.
  intros Hn k b H. destruct (text_eqb k w) eqn:E.
  - apply text_eqb_eq in E. subst. congruence.
  - cbn. rewrite E. exact H.
Qed.

Lemma mwf_bind m w v : mwf m -> is_node v = true -> no_wild v = true -> mwf (bind m w v).
Proof.
  intros Hm Hn Hw k b H. cbn in H. destruct (text_eqb k w).
  - injection H as <-. auto.
  - apply Hm in H. exact H.
Qed.

(* ---- inst on wildcard-free trees is the identity ---- *)
Lemma no_wild_node i s e c ks :
  no_wild (Node i s e c ks) = true ->
  wild_base (Node i s e c ks) = None /\ forallb no_wild ks = true.
Proof. cbn [no_wild]. destruct (wild_base _); [discriminate|]. auto. Qed.

Lemma no_wild_wild_base t : no_wild t = true -> wild_base t = None.
Proof. destruct t; try reflexivity. intro H. apply no_wild_node in H. tauto. Qed.

Lemma map_id_Forall {A} (f : A -> A) (P : A -> bool) l :
  Forall (fun t => P t = true -> f t = t) l -> forallb P l = true -> map f l = l.
Proof.
  induction 1 as [|x r Hx Hr IH]; intro H; [reflexivity|]. cbn [map]. cbn [forallb] in H.
  apply andb_true_iff in H as [H1 H2]. f_equal; auto.
Qed.

Lemma inst_no_wild m t : no_wild t = true -> inst m t = t.
Proof.
  induction t as [i s e c ks IH|l IH|ty v|k] using tree_ind'; intro H; try reflexivity.
  - apply no_wild_node in H as [Hw Hk]. cbn [inst]. rewrite Hw. f_equal.
    eapply map_id_Forall; eauto.
  - cbn [inst]. f_equal. cbn [no_wild] in H. eapply map_id_Forall; eauto.
Qed.

Lemma inst_wild m p w : wild_base p = Some w ->
  inst m p = match lookup m w with Some b => b | None => p end.
Proof. destruct p; cbn; try congruence. intro H. cbn in H. rewrite H. reflexivity. Qed.

Lemma inst_node_plain m i s e c ks : wild_base (Node i s e c ks) = None ->
  inst m (Node i s e c ks) = Node i s e c (map (inst m) ks).
Proof. intro H. cbn [inst]. rewrite H. reflexivity. Qed.

Lemma filter_map_comm {A} (f : A -> bool) (g : A -> A) l :
  (forall x, In x l -> f (g x) = f x) -> filter f (map g l) = map g (filter f l).
Proof.
  induction l as [|x r IH]; intro H; [reflexivity|]. cbn [map filter].
  rewrite (H x (or_introl eq_refl)). destruct (f x); cbn [map]; rewrite IH; auto.
  all: intros y Hy; apply H; right; exact Hy.
Qed.

Lemma nctx_inst m p : mwf m -> nctx (inst m p) = nctx p.
Proof.
  intro Hm. destruct p as [i s e c ks| | |]; try reflexivity.
  cbn [inst]. destruct (wild_base _) as [w|] eqn:E; [|reflexivity].
  destruct (lookup m w) as [b|] eqn:L; [|reflexivity].
  apply Hm in L as [L _]. apply is_node_nctx in L. rewrite L. reflexivity.
Qed.

Section Sound.
  Variable acc : text -> tree -> bool.
  Hypothesis acc_node : forall w t, acc w t = true -> is_node t = true.

  Lemma mn_unfold t pat m :
    mn acc t pat m =
    match resolve acc pat t m with
    | RFail => None
    | RDone m' => Some m'
    | RPlain p mi keep => finish (plain acc t p mi) keep
    end.
  Proof.
    destruct t; cbn [mn]; destruct (resolve acc pat _ m) as [|m'|p mi keep]; reflexivity.
  Qed.

  (* what a successful match establishes *)
  Definition post (t pat : tree) (m m' : mapping) : Prop :=
    mwf m' /\ extends m m' /\
    forall m'', extends m' m'' -> mwf m'' -> erase (inst m'' pat) = erase t.

  Definition S (t : tree) : Prop :=
    forall pat m m', mwf m -> no_wild t = true -> mn acc t pat m = Some m' -> post t pat m m'.

  Definition SL (l2 : list tree) : Prop :=
    forall l1 m m', mwf m -> forallb no_wild l2 = true -> mn_list acc l2 l1 m = Some m' ->
      mwf m' /\ extends m m' /\
      forall m'', extends m' m'' -> mwf m'' -> map erase (map (inst m'') l1) = map erase l2.

  Lemma SL_of_Forall l2 : Forall S l2 -> SL l2.
  Proof.
    induction 1 as [|t r Ht Hr IH]; intros l1 m m' Hm Hw H.
    - destruct l1; [|discriminate]. injection H as <-.
      split; [exact Hm|]. split; [apply extends_refl|]. reflexivity.
    - destruct l1 as [|p q]; [discriminate|]. cbn [mn_list] in H.
      cbn [forallb] in Hw. apply andb_true_iff in Hw as [Hw1 Hw2].
      destruct (mn acc t p m) as [m1|] eqn:E; [|discriminate].
      destruct (Ht p m m1 Hm Hw1 E) as (Hm1 & Hx1 & Hi1).
      destruct (IH q m1 m' Hm1 Hw2 H) as (Hm' & Hx' & Hi').
      split; [exact Hm'|]. split; [eapply extends_trans; eauto|].
      intros m'' Hx'' Hm''. cbn [map]. f_equal.
      + apply Hi1; [eapply extends_trans; eauto|exact Hm''].
      + apply Hi'; assumption.
  Qed.

  (* S for a list-valued field additionally gives S for its items *)
  Definition S' (t : tree) : Prop := S t /\ forall l, t = Lst l -> Forall S l.

  Lemma child_step_sound k2 k1 m m' :
    S' k2 -> mwf m -> no_wild k2 = true -> nctx k1 = true ->
    child_step acc k2 k1 m = Some m' -> post k2 k1 m m'.
  Proof.
    intros [HS HL] Hm Hw Hc H. destruct k1 as [i s e c ks|l1|ty1 v1|k]; cbn [child_step] in H.
    - apply HS; assumption.
    - destruct k2 as [|l2| |]; try discriminate.
      destruct (Nat.eqb (length l1) (length l2)); [|discriminate].
      specialize (HL l2 eq_refl). apply SL_of_Forall in HL.
      cbn [no_wild] in Hw. destruct (HL l1 m m' Hm Hw H) as (Hm' & Hx & Hi).
      split; [exact Hm'|]. split; [exact Hx|]. intros m'' Hx'' Hm''.
      cbn [inst]. rewrite !erase_lst. f_equal. apply Hi; assumption.
    - destruct k2 as [| |ty2 v2|]; try discriminate.
      destruct (atom_eqb ty1 v1 ty2 v2) eqn:E; [|discriminate]. injection H as <-.
      apply atom_eqb_eq in E as [-> ->].
      split; [exact Hm|]. split; [apply extends_refl|]. reflexivity.
    - discriminate.
  Qed.

  Lemma mn_kids_sound tks :
    Forall S' tks -> forall pks m m', Forall (fun k => nctx k = true) pks -> mwf m ->
    forallb no_wild tks = true -> mn_kids acc tks pks m = Some m' ->
    mwf m' /\ extends m m' /\
    forall m'', extends m' m'' -> mwf m'' ->
      map erase (map (inst m'') pks) = map erase (filter nctx tks).
  Proof.
    induction 1 as [|k2 r2 Hk Hr IH]; intros pks m m' Hc Hm Hw H.
    - destruct pks; [|discriminate]. injection H as <-.
      split; [exact Hm|]. split; [apply extends_refl|]. reflexivity.
    - cbn [mn_kids] in H. cbn [forallb] in Hw. apply andb_true_iff in Hw as [Hw1 Hw2].
      cbn [filter]. destruct (nctx k2) eqn:Ek.
      + destruct pks as [|k1 r1]; [discriminate|]. inversion Hc as [|? ? Hc1 Hc2]; subst.
        destruct (child_step acc k2 k1 m) as [m1|] eqn:E; [|discriminate].
        destruct (child_step_sound k2 k1 m m1 Hk Hm Hw1 Hc1 E) as (Hm1 & Hx1 & Hi1).
        destruct (IH r1 m1 m' Hc2 Hm1 Hw2 H) as (Hm' & Hx' & Hi').
        split; [exact Hm'|]. split; [eapply extends_trans; eauto|].
        intros m'' Hx'' Hm''. cbn [map]. f_equal.
        * apply Hi1; [eapply extends_trans; eauto|exact Hm''].
        * apply Hi'; assumption.
      + apply IH; assumption.
  Qed.

  Lemma filter_nctx_Forall ks : Forall (fun k => nctx k = true) (filter nctx ks).
  Proof.
    induction ks as [|k r IH]; cbn [filter]; [constructor|].
    destruct (nctx k) eqn:E; [constructor; assumption|assumption].
  Qed.

  Lemma plain_sound t p m m' :
    (forall i s e c ks, t = Node i s e c ks -> Forall S' ks) ->
    wild_base p = None -> mwf m -> no_wild t = true ->
    plain acc t p m = Some m' -> post t p m m'.
  Proof.
    intros IH Hp Hm Hw H.
    destruct p as [pi ps pe pc pks| |ty1 v1|k1]; destruct t as [ti ts te tc tks| |ty2 v2|k2];
      cbn [plain] in H; try discriminate.
    - destruct (N.eqb pc tc && Nat.eqb (length (filter nctx pks)) (length (filter nctx tks))) eqn:E;
        [|discriminate].
      apply andb_true_iff in E as [Ec _]. apply N.eqb_eq in Ec. subst tc.
      apply no_wild_node in Hw as [_ Hwk].
      destruct (mn_kids_sound tks (IH _ _ _ _ _ eq_refl) (filter nctx pks) m m'
                  (filter_nctx_Forall pks) Hm Hwk H) as (Hm' & Hx & Hi).
      split; [exact Hm'|]. split; [exact Hx|]. intros m'' Hx'' Hm''.
      rewrite inst_node_plain by exact Hp. rewrite !erase_node. f_equal.
      rewrite filter_map_comm by (intros; apply nctx_inst; exact Hm'').
      apply Hi; assumption.
    - destruct (atom_eqb ty1 v1 ty2 v2) eqn:E; [|discriminate]. injection H as <-.
      apply atom_eqb_eq in E as [-> ->].
      split; [exact Hm|]. split; [apply extends_refl|]. reflexivity.
    - destruct (N.eqb k1 k2) eqn:E; [|discriminate]. injection H as <-.
      apply N.eqb_eq in E. subst.
      split; [exact Hm|]. split; [apply extends_refl|]. reflexivity.
  Qed.

  Lemma mn_sound_step t :
    (forall i s e c ks, t = Node i s e c ks -> Forall S' ks) -> S t.
  Proof.
    intros IH pat m m' Hm Hw H. rewrite mn_unfold in H. unfold resolve in H.
    destruct (wild_base pat) as [w|] eqn:Ew.
    - destruct (lookup m w) as [b|] eqn:L.
      + destruct (Hm _ _ L) as [Hbn Hbw]. rewrite (no_wild_wild_base _ Hbw) in H.
        destruct (plain acc t b []) as [mo|] eqn:P; [|discriminate]. cbn [finish] in H.
        injection H as <-.
        destruct (plain_sound t b [] mo IH (no_wild_wild_base _ Hbw) mwf_nil Hw P) as (Hmo & _ & Hi).
        split; [exact Hm|]. split; [apply extends_refl|]. intros m'' Hx Hm''.
        rewrite (inst_wild _ _ _ Ew), (Hx _ _ L).
        rewrite <- (Hi mo (extends_refl _) Hmo). rewrite inst_no_wild by exact Hbw. reflexivity.
      + destruct (acc w t) eqn:A; [|discriminate]. injection H as <-.
        split; [apply mwf_bind; eauto|]. split; [apply extends_bind; exact L|].
        intros m'' Hx Hm''. rewrite (inst_wild _ _ _ Ew), (Hx _ _ (lookup_bind_same m w t)).
        reflexivity.
    - destruct (plain acc t pat m) as [mo|] eqn:P; [|discriminate]. cbn [finish] in H.
      injection H as <-. apply plain_sound; assumption.
  Qed.

  Lemma mn_sound_all t : S' t.
  Proof.
    induction t as [i s e c ks IH|l IH|ty v|k] using tree_ind'.
    - split; [|discriminate]. apply mn_sound_step. intros ? ? ? ? ? [= <- <- <- <- <-]. exact IH.
    - split.
      + apply mn_sound_step. discriminate.
      + intros l' [= <-]. eapply Forall_impl; [|exact IH]. intros a [Ha _]. exact Ha.
    - split; [|discriminate]. apply mn_sound_step. discriminate.
    - split; [|discriminate]. apply mn_sound_step. discriminate.
  Qed.

  Theorem match_sound t pat m :
    no_wild t = true -> mn acc t pat [] = Some m -> erase (inst m pat) = erase t.
  Proof.
    intros Hw H. destruct (mn_sound_all t) as [HS _].
    destruct (HS pat [] m mwf_nil Hw H) as (Hm & _ & Hi).
    apply Hi; [apply extends_refl|exact Hm].
  Qed.

  Theorem match_stmts_sound ws ps m :
    forallb no_wild ws = true -> match_stmts acc ws ps [] = Some m ->
    map erase (map (inst m) ps) = map erase ws.
  Proof.
    intros Hw H. unfold match_stmts in H. destruct (Nat.eqb _ _); [|discriminate].
    assert (HF : Forall S ws).
    { apply Forall_forall. intros x _. apply mn_sound_all. }
    destruct (SL_of_Forall ws HF ps [] m mwf_nil Hw H) as (Hm & _ & Hi).
    apply Hi; [apply extends_refl|exact Hm].
  Qed.
End Sound.

(* ---- completeness ---- *)
Lemma erase_inv_atom t ty v : erase t = Atom ty v -> t = Atom ty v.
Proof. destruct t; cbn; congruence. Qed.
Lemma erase_inv_ctx t k : erase t = Ctx k -> t = Ctx k.
Proof. destruct t; cbn; congruence. Qed.
Lemma erase_inv_lst t l' : erase t = Lst l' -> exists l, t = Lst l /\ map erase l = l'.
Proof. destruct t; cbn [erase]; try discriminate. intros [= <-]. eauto. Qed.
Lemma erase_inv_node t i0 s0 e0 c l' :
  erase t = Node i0 s0 e0 c l' ->
  exists i s e ks, t = Node i s e c ks /\ map erase (filter nctx ks) = l'.
Proof.
  destruct t as [i s e c' ks| | |]; try (cbn [erase]; discriminate).
  rewrite erase_node. intros [= _ _ _ <- <-]. eauto 6.
Qed.

Lemma map_eq_length {A B} (f : A -> B) l1 l2 : map f l1 = map f l2 -> length l1 = length l2.
Proof. intro H. apply (f_equal (@length B)) in H. rewrite !map_length in H. exact H. Qed.

Definition mwf2 (m : mapping) : Prop :=
  forall w b, lookup m w = Some b -> is_node b = true /\ no_wild b = true /\ shape_ok b = true.
Definition mnode (m : mapping) : Prop :=
  forall w b, lookup m w = Some b -> is_node b = true.
Definition agree (m sg : mapping) : Prop :=
  forall w b, lookup m w = Some b -> exists b', lookup sg w = Some b' /\ erase b = erase b'.

Lemma mwf2_mwf m : mwf2 m -> mwf m.
Proof. intros H w b L. apply H in L. tauto. Qed.
Lemma mwf2_nil : mwf2 [].
Proof. intros w b H; discriminate. Qed.
Lemma mwf2_bind m w v :
  mwf2 m -> is_node v = true -> no_wild v = true -> shape_ok v = true -> mwf2 (bind m w v).
Proof.
  intros Hm Hn Hw Hs k b H. cbn in H. destruct (text_eqb k w).
  - injection H as <-. auto.
  - apply Hm in H. exact H.
Qed.

Lemma nctx_inst' m p : mnode m -> nctx (inst m p) = nctx p.
Proof.
  intro Hm. destruct p as [i s e c ks| | |]; try reflexivity.
  cbn [inst]. destruct (wild_base _) as [w|] eqn:E; [|reflexivity].
  destruct (lookup m w) as [b|] eqn:L; [|reflexivity].
  apply Hm in L. apply is_node_nctx in L. rewrite L. reflexivity.
Qed.

Lemma shape_ok_node i s e c ks : shape_ok (Node i s e c ks) = forallb shape_ok ks.
Proof. reflexivity. Qed.

Lemma forallb_filter {A} (f g : A -> bool) l : forallb f l = true -> forallb f (filter g l) = true.
Proof.
  induction l as [|x r IH]; [reflexivity|]. cbn [forallb filter]. intro H.
  apply andb_true_iff in H as [H1 H2]. destruct (g x); cbn [forallb]; rewrite ?H1; auto.
Qed.

Section Complete.
  Variable acc : text -> tree -> bool.
  Hypothesis acc_node : forall w t, acc w t = true -> is_node t = true.
  Hypothesis acc_erase : forall w a b, erase a = erase b -> acc w a = acc w b.

  Definition accepts (sg : mapping) (p : tree) : Prop :=
    forall w b, In w (vars p) -> lookup sg w = Some b -> acc w b = true.

  Definition cpost (sg m m' : mapping) : Prop :=
    mwf2 m' /\ extends m m' /\ agree m' sg.

  Definition C (t : tree) : Prop :=
    forall sg pat m,
      is_lst pat = false -> shape_ok pat = true -> mwf2 m -> mnode sg ->
      no_wild t = true -> shape_ok t = true -> agree m sg -> accepts sg pat ->
      erase (inst sg pat) = erase t ->
      exists m', mn acc t pat m = Some m' /\ cpost sg m m'.

  Definition CL (l2 : list tree) : Prop :=
    forall sg l1 m,
      forallb (fun x => negb (is_lst x) && shape_ok x) l1 = true -> mwf2 m -> mnode sg ->
      forallb no_wild l2 = true -> forallb shape_ok l2 = true -> agree m sg ->
      (forall p, In p l1 -> accepts sg p) ->
      map erase (map (inst sg) l1) = map erase l2 ->
      exists m', mn_list acc l2 l1 m = Some m' /\ cpost sg m m'.

  Lemma CL_of_Forall l2 : Forall C l2 -> CL l2.
  Proof.
    induction 1 as [|t r Ht Hr IH]; intros sg l1 m Hs Hm Hsg Hw Hsh Ha Hacc He.
    - destruct l1; [|discriminate]. exists m. split; [reflexivity|].
      split; [exact Hm|]. split; [apply extends_refl|exact Ha].
    - destruct l1 as [|p q]; [discriminate|]. cbn [map] in He. injection He as He1 He2.
      cbn [forallb] in Hs, Hw, Hsh.
      apply andb_true_iff in Hs as [Hs1 Hs2]. apply andb_true_iff in Hs1 as [Hs1 Hs1'].
      apply negb_true_iff in Hs1.
      apply andb_true_iff in Hw as [Hw1 Hw2]. apply andb_true_iff in Hsh as [Hsh1 Hsh2].
      destruct (Ht sg p m Hs1 Hs1' Hm Hsg Hw1 Hsh1 Ha (Hacc p (or_introl eq_refl)) He1)
        as (m1 & E1 & Hm1 & Hx1 & Ha1).
      destruct (IH sg q m1 Hs2 Hm1 Hsg Hw2 Hsh2 Ha1 (fun p' Hp' => Hacc p' (or_intror Hp')) He2)
        as (m' & E' & Hm' & Hx' & Ha').
      exists m'. cbn [mn_list]. rewrite E1. split; [exact E'|].
      split; [exact Hm'|]. split; [eapply extends_trans; eauto|exact Ha'].
  Qed.

  Definition C' (t : tree) : Prop := C t /\ forall l, t = Lst l -> Forall C l.

  Lemma accepts_kid sg i s e c ks k :
    wild_base (Node i s e c ks) = None -> accepts sg (Node i s e c ks) -> In k ks -> accepts sg k.
  Proof.
    intros Hp Ha Hk w b Hw. apply Ha. cbn [vars]. rewrite Hp. apply in_flat_map. eauto.
  Qed.

  Lemma accepts_item sg l k : accepts sg (Lst l) -> In k l -> accepts sg k.
  Proof. intros Ha Hk w b Hw. apply Ha. cbn [vars]. apply in_flat_map. eauto. Qed.

  Lemma child_step_complete sg k2 k1 m :
    C' k2 -> nctx k1 = true -> shape_ok k1 = true -> mwf2 m -> mnode sg ->
    no_wild k2 = true -> shape_ok k2 = true -> agree m sg -> accepts sg k1 ->
    erase (inst sg k1) = erase k2 ->
    exists m', child_step acc k2 k1 m = Some m' /\ cpost sg m m'.
  Proof.
    intros [HC HL] Hc Hs Hm Hsg Hw Hsh Ha Hacc He.
    destruct k1 as [i s e c ks|l1|ty1 v1|k]; cbn [child_step].
    - apply HC; auto.
    - cbn [inst] in He. rewrite erase_lst in He. symmetry in He.
      apply erase_inv_lst in He as (l2 & -> & He).
      pose proof (map_eq_length _ _ _ He) as Hlen. rewrite map_length in Hlen.
      rewrite <- Hlen, Nat.eqb_refl.
      specialize (HL l2 eq_refl). apply CL_of_Forall in HL.
      cbn [no_wild] in Hw.
      assert (Hsh' : forallb shape_ok l2 = true).
      { cbn [shape_ok] in Hsh. clear -Hsh. induction l2 as [|x r IH]; [reflexivity|].
        cbn [forallb] in *. apply andb_true_iff in Hsh as [H1 H2].
        apply andb_true_iff in H1 as [_ H1]. rewrite H1, IH; auto. }
      apply HL; auto.
      intros p Hp. eapply accepts_item; eauto.
    - cbn [inst erase] in He. symmetry in He. apply erase_inv_atom in He. subst k2.
      rewrite atom_eqb_refl. exists m. split; [reflexivity|].
      split; [exact Hm|]. split; [apply extends_refl|exact Ha].
    - discriminate.
  Qed.

  Lemma mn_kids_complete tks :
    Forall C' tks -> forall sg pks m,
    Forall (fun k => nctx k = true) pks -> forallb shape_ok pks = true -> mwf2 m -> mnode sg ->
    forallb no_wild tks = true -> forallb shape_ok tks = true -> agree m sg ->
    (forall p, In p pks -> accepts sg p) ->
    map erase (map (inst sg) pks) = map erase (filter nctx tks) ->
    exists m', mn_kids acc tks pks m = Some m' /\ cpost sg m m'.
  Proof.
    induction 1 as [|k2 r2 Hk Hr IH]; intros sg pks m Hc Hs Hm Hsg Hw Hsh Ha Hacc He.
    - destruct pks; [|discriminate]. exists m. split; [reflexivity|].
      split; [exact Hm|]. split; [apply extends_refl|exact Ha].
    - cbn [mn_kids]. cbn [forallb] in Hw, Hsh.
      apply andb_true_iff in Hw as [Hw1 Hw2]. apply andb_true_iff in Hsh as [Hsh1 Hsh2].
      cbn [filter] in He. destruct (nctx k2) eqn:Ek.
      + destruct pks as [|k1 r1]; [discriminate|]. cbn [map] in He. injection He as He1 He2.
        inversion Hc as [|? ? Hc1 Hc2]; subst. cbn [forallb] in Hs.
        apply andb_true_iff in Hs as [Hs1 Hs2].
        destruct (child_step_complete sg k2 k1 m Hk Hc1 Hs1 Hm Hsg Hw1 Hsh1 Ha
                    (Hacc k1 (or_introl eq_refl)) He1) as (m1 & E1 & Hm1 & Hx1 & Ha1).
        destruct (IH sg r1 m1 Hc2 Hs2 Hm1 Hsg Hw2 Hsh2 Ha1
                    (fun p' Hp' => Hacc p' (or_intror Hp')) He2) as (m' & E' & Hm' & Hx' & Ha').
        exists m'. rewrite E1. split; [exact E'|].
        split; [exact Hm'|]. split; [eapply extends_trans; eauto|exact Ha'].
      + apply IH; auto.
  Qed.

  Lemma plain_complete t sg p m :
    (forall i s e c ks, t = Node i s e c ks -> Forall C' ks) ->
    wild_base p = None -> is_lst p = false -> shape_ok p = true -> mwf2 m -> mnode sg ->
    no_wild t = true -> shape_ok t = true -> agree m sg -> accepts sg p ->
    erase (inst sg p) = erase t ->
    exists m', plain acc t p m = Some m' /\ cpost sg m m'.
  Proof.
    intros IH Hp Hl Hs Hm Hsg Hw Hsh Ha Hacc He.
    destruct p as [pi ps pe pc pks| |ty1 v1|k1]; [| discriminate | |].
    - rewrite inst_node_plain in He by exact Hp. rewrite erase_node in He. symmetry in He.
      apply erase_inv_node in He as (ti & ts & te & tks & -> & He).
      rewrite filter_map_comm in He by (intros; apply nctx_inst'; exact Hsg).
      cbn [plain]. rewrite N.eqb_refl.
      pose proof (map_eq_length _ _ _ He) as Hlen. rewrite map_length in Hlen.
      rewrite <- Hlen, Nat.eqb_refl. cbn [andb].
      apply no_wild_node in Hw as [_ Hwk]. rewrite shape_ok_node in Hsh, Hs.
      apply (mn_kids_complete tks (IH _ _ _ _ _ eq_refl) sg (filter nctx pks) m); auto.
      + apply filter_nctx_Forall.
      + apply forallb_filter. exact Hs.
      + intros k Hk. apply filter_In in Hk as [Hk _]. eapply accepts_kid; eauto.
    - cbn [inst erase] in He. symmetry in He. apply erase_inv_atom in He. subst t.
      cbn [plain]. rewrite atom_eqb_refl. exists m. split; [reflexivity|].
      split; [exact Hm|]. split; [apply extends_refl|exact Ha].
    - cbn [inst erase] in He. symmetry in He. apply erase_inv_ctx in He. subst t.
      cbn [plain]. rewrite N.eqb_refl. exists m. split; [reflexivity|].
      split; [exact Hm|]. split; [apply extends_refl|exact Ha].
  Qed.

  Lemma agree_nil sg : agree [] sg.
  Proof. intros w b H; discriminate. Qed.

  Lemma mn_complete_step t :
    (forall i s e c ks, t = Node i s e c ks -> Forall C' ks) -> C t.
  Proof.
    intros IH sg pat m Hl Hs Hm Hsg Hw Hsh Ha Hacc He.
    rewrite mn_unfold. unfold resolve.
    destruct (wild_base pat) as [w|] eqn:Ew.
    - rewrite (inst_wild _ _ _ Ew) in He.
      destruct (lookup sg w) as [b'|] eqn:Ls.
      2:{ exfalso. pose proof (no_wild_wild_base _ Hw) as Hn.
          rewrite <- wild_base_erase, <- He, wild_base_erase, Ew in Hn. discriminate. }
      assert (Hv : In w (vars pat)).
      { destruct pat; cbn in Ew; try discriminate. cbn [vars]. cbn. 
        change (wild_base (Node id s e cls kids)) with
          (match name_id (Node id s e cls kids) with Some v => var_base v | None => None end).
        unfold wild_base in Ew. rewrite Ew. left; reflexivity. }
      destruct (lookup m w) as [b|] eqn:L.
      + destruct (Hm _ _ L) as (Hbn & Hbw & Hbs). rewrite (no_wild_wild_base _ Hbw).
        destruct (Ha _ _ L) as (b'' & Ls' & Hbe). rewrite Ls in Ls'. injection Ls' as <-.
        assert (Hbl : is_lst b = false) by (destruct b; cbn in *; congruence).
        destruct (plain_complete t [] b [] IH (no_wild_wild_base _ Hbw) Hbl Hbs mwf2_nil
                    (fun w0 b0 H0 => ltac:(discriminate)) Hw Hsh (agree_nil _)
                    (fun w0 b0 _ H0 => ltac:(discriminate)))
          as (mo & P & _).
        { rewrite inst_no_wild by exact Hbw. congruence. }
        rewrite P. cbn [finish]. exists m. split; [reflexivity|].
        split; [exact Hm|]. split; [apply extends_refl|exact Ha].
      + assert (A : acc w t = true).
        { rewrite <- (acc_erase w b' t He). apply (Hacc w b' Hv Ls). }
        rewrite A. exists (bind m w t). split; [reflexivity|].
        split; [apply mwf2_bind; eauto|]. split; [apply extends_bind; exact L|].
        intros k b Hk. destruct (text_eqb k w) eqn:E.
        * apply text_eqb_eq in E. subst k. rewrite lookup_bind_same in Hk. injection Hk as <-.
          exists b'. split; [exact Ls|]. symmetry. exact He.
        * cbn in Hk. rewrite E in Hk. apply Ha. exact Hk.
    - destruct (plain_complete t sg pat m IH Ew Hl Hs Hm Hsg Hw Hsh Ha Hacc He) as (m' & P & HP).
      rewrite P. cbn [finish]. exists m'. split; [reflexivity|exact HP].
  Qed.

  Lemma mn_complete_all t : C' t.
  Proof.
    induction t as [i s e c ks IH|l IH|ty v|k] using tree_ind'.
    - split; [|discriminate]. apply mn_complete_step. intros ? ? ? ? ? [= <- <- <- <- <-]. exact IH.
    - split.
      + apply mn_complete_step. discriminate.
      + intros l' [= <-]. eapply Forall_impl; [|exact IH]. intros a [Ha _]. exact Ha.
    - split; [|discriminate]. apply mn_complete_step. discriminate.
    - split; [|discriminate]. apply mn_complete_step. discriminate.
  Qed.

  Theorem match_complete t pat sg :
    no_wild t = true -> shape_ok t = true -> is_lst pat = false -> shape_ok pat = true ->
    mnode sg -> accepts sg pat -> erase (inst sg pat) = erase t ->
    exists m, mn acc t pat [] = Some m /\ agree m sg.
  Proof.
    intros Hw Hsh Hl Hs Hsg Hacc He. destruct (mn_complete_all t) as [HC _].
    destruct (HC sg pat [] Hl Hs mwf2_nil Hsg Hw Hsh (agree_nil _) Hacc He) as (m & E & _ & _ & Ha).
    eauto.
  Qed.

  Theorem match_stmts_complete ws ps sg :
    forallb no_wild ws = true -> forallb shape_ok ws = true ->
    forallb (fun x => negb (is_lst x) && shape_ok x) ps = true ->
    mnode sg -> (forall p, In p ps -> accepts sg p) ->
    map erase (map (inst sg) ps) = map erase ws ->
    exists m, match_stmts acc ws ps [] = Some m /\ agree m sg.
  Proof.
    intros Hw Hsh Hs Hsg Hacc He. unfold match_stmts.
    pose proof (map_eq_length _ _ _ He) as Hlen. rewrite map_length in Hlen.
    rewrite <- Hlen, Nat.eqb_refl.
    assert (HF : Forall C ws).
    { apply Forall_forall. intros x _. apply mn_complete_all. }
    destruct (CL_of_Forall ws HF sg ps [] Hs mwf2_nil Hsg Hw Hsh (agree_nil _) Hacc He)
      as (m & E & _ & _ & Ha).
    eauto.
  Qed.
End Complete.
