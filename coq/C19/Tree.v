(* C19 — generic syntax trees as seen by rope's similar-code finder.

   A value that can occur as (part of) a field of a Python [ast] node is one of
     Node id s e cls kids   an AST node: unique id, patched region [s,e), class number, the values of
                            its _fields in order (what ast.iter_fields yields)
     Lst items              a list-valued field
     Atom ty v              a non-AST leaf: None / str / int / ... ; ty = interned type, v = repr text
     Ctx k                  an expr_context instance (Load/Store/Del), k = which one
   Class numbering convention (fixed by the harness, checked by the correspondence):
   expression classes are 1..99 (ast.Name = 1), statement classes 100..199, everything else >= 200. *)
From Coq Require Import List NArith Bool.
From RopeVerif.Lib Require Import Text.
Import ListNotations.

Inductive tree :=
| Node (id s e cls : N) (kids : list tree)
| Lst (items : list tree)
| Atom (ty : N) (v : text)
| Ctx (k : N).

Definition cls_Name : N := 1.
Definition cls_Expr : N := 100.          (* ast.Expr, the expression statement *)
Definition ty_str : N := 1.              (* atom type tag of str *)

Definition is_expr_cls (c : N) : bool := N.leb 1 c && N.ltb c 100.

Definition is_node (t : tree) : bool := match t with Node _ _ _ _ _ => true | _ => false end.
Definition nctx (t : tree) : bool := match t with Ctx _ => false | _ => true end.

Definition atom_eqb (ty1 : N) (v1 : text) (ty2 : N) (v2 : text) : bool :=
  N.eqb ty1 ty2 && text_eqb v1 v2.

(* ---- rope's reserved names (similarfinder._RopeVariable) ---- *)
Definition normal_prefix : text :=      (* "__rope__variable_normal_" *)
  [95; 95; 114; 111; 112; 101; 95; 95; 118; 97; 114; 105; 97; 98; 108; 101; 95; 110; 111; 114; 109; 97; 108; 95]%N.
Definition any_prefix : text :=         (* "__rope__variable_any_" *)
  [95; 95; 114; 111; 112; 101; 95; 95; 118; 97; 114; 105; 97; 98; 108; 101; 95; 97; 110; 121; 95]%N.

(* [strip_prefix p s] = Some rest iff s.startswith(p) *)
Fixpoint strip_prefix (p s : text) : option text :=
  match p with
  | [] => Some s
  | c :: p' => match s with
               | d :: s' => if N.eqb c d then strip_prefix p' s' else None
               | [] => None
               end
  end.

(* _RopeVariable.is_var / get_base: Some base for a reserved identifier ("?" is 63) *)
Definition var_base (name : text) : option text :=
  match strip_prefix normal_prefix name with
  | Some r => Some r
  | None => match strip_prefix any_prefix name with
            | Some r => Some (63%N :: r)
            | None => None
            end
  end.

(* _RopeVariable.get_var: the identifier standing for wildcard ${name} *)
Definition get_var (name : text) : text :=
  match name with
  | 63%N :: r => any_prefix ++ r
  | _ => normal_prefix ++ name
  end.

(* isinstance(t, ast.Name) -> t.id : the identifier is the first field that is not an expr_context *)
Definition name_id (t : tree) : option text :=
  match t with
  | Node _ _ _ c ks =>
      if N.eqb c cls_Name then
        match filter nctx ks with
        | Atom _ v :: _ => Some v
        | _ => None
        end
      else None
  | _ => None
  end.

(* Some w iff t is an ast.Name whose id is a reserved identifier with base w *)
Definition wild_base (t : tree) : option text :=
  match name_id t with
  | Some v => var_base v
  | None => None
  end.

(* no reserved identifier anywhere in the tree *)
Fixpoint no_wild (t : tree) : bool :=
  match t with
  | Node _ _ _ _ ks =>
      match wild_base t with Some _ => false | None => forallb no_wild ks end
  | Lst l => forallb no_wild l
  | _ => true
  end.

(* ---- equality "modulo expr_context" (and modulo node ids / regions) ----
   [erase] forgets ids and regions and drops the expr_context fields of every node, which is what
   _ASTMatcher._get_children does; t ≡ u is [erase t = erase u]. *)
Fixpoint erase (t : tree) : tree :=
  match t with
  | Node _ _ _ c ks =>
      Node 0 0 0 c
        ((fix go (ks : list tree) : list tree :=      (* = map erase (filter nctx ks) *)
            match ks with
            | [] => []
            | k :: r => if nctx k then erase k :: go r else go r
            end) ks)
  | Lst l => Lst (map erase l)
  | Atom ty v => Atom ty v
  | Ctx k => Ctx k
  end.

Fixpoint tree_eqb (a b : tree) {struct a} : bool :=
  match a, b with
  | Node i1 s1 e1 c1 k1, Node i2 s2 e2 c2 k2 =>
      N.eqb i1 i2 && N.eqb s1 s2 && N.eqb e1 e2 && N.eqb c1 c2 &&
      (fix go (k1 k2 : list tree) {struct k1} : bool :=
         match k1, k2 with
         | [], [] => true
         | x :: r1, y :: r2 => tree_eqb x y && go r1 r2
         | _, _ => false
         end) k1 k2
  | Lst l1, Lst l2 =>
      (fix go (k1 k2 : list tree) {struct k1} : bool :=
         match k1, k2 with
         | [], [] => true
         | x :: r1, y :: r2 => tree_eqb x y && go r1 r2
         | _, _ => false
         end) l1 l2
  | Atom t1 v1, Atom t2 v2 => atom_eqb t1 v1 t2 v2
  | Ctx k1, Ctx k2 => N.eqb k1 k2
  | _, _ => false
  end.

Definition teqb (a b : tree) : bool := tree_eqb (erase a) (erase b).

(* no list directly inside a list (true of every Python ast) *)
Definition is_lst (t : tree) : bool := match t with Lst _ => true | _ => false end.
Fixpoint shape_ok (t : tree) : bool :=
  match t with
  | Node _ _ _ _ ks => forallb shape_ok ks
  | Lst l => forallb (fun x => negb (is_lst x) && shape_ok x) l
  | _ => true
  end.

Definition node_id (t : tree) : N := match t with Node i _ _ _ _ => i | _ => 0%N end.
Definition node_start (t : tree) : N := match t with Node _ s _ _ _ => s | _ => 0%N end.
Definition node_end (t : tree) : N := match t with Node _ _ e _ _ => e | _ => 0%N end.
Definition node_cls (t : tree) : N := match t with Node _ _ _ c _ => c | _ => 0%N end.
Definition node_kids (t : tree) : list tree := match t with Node _ _ _ _ ks => ks | _ => [] end.
