(* C19 — textual insertion of bound code commutes with the canonical printer exactly under [fits]. *)
From Coq Require Import List NArith Bool PeanoNat Lia.
From RopeVerif.Lib Require Import Text.
From RopeVerif.C19 Require Import Precedence.
Import ListNotations.

Section PInd.
  Variable P : pexpr -> Prop.
  Hypothesis HH : forall w, P (PHole w).
  Hypothesis HN : forall l items, (forall c s, In (ISub c s) items -> P s) -> P (PNode l items).
  Fixpoint pexpr_ind' (e : pexpr) : P e :=
    match e with
    | PHole w => HH w
    | PNode l items =>
        HN l items
           ((fix go (items : list pitem) : forall c s, In (ISub c s) items -> P s :=
               match items with
               | [] => fun c s H => match H with end
               | it :: r =>
                   fun c s H =>
                     match H with
                     | or_introl E =>
                         match it as it0 return it0 = ISub c s -> P s with
                         | ITok _ => fun E0 => False_ind _ (eq_ind (ITok []) (fun x => match x with ITok _ => True | ISub _ _ => False end) I _ (eq_trans (f_equal (fun x => match x with ITok _ => ITok [] | y => y end) E0) eq_refl))
                         | ISub c0 s0 => fun E0 => eq_ind s0 P (pexpr_ind' s0) s (f_equal (fun x => match x with ISub _ s1 => s1 | ITok _ => s0 end) E0)
                         end E
                     | or_intror H' => go r c s H'
                     end
               end) items)
    end.
End PInd.

Definition body_of (items : list pitem) : list token :=
  (fix go (items : list pitem) : list token :=
     match items with
     | [] => []
     | ITok t :: r => TTok t :: go r
     | ISub c s :: r => pp c s ++ go r
     end) items.

Definition items_subst (sg : N -> pexpr) (items : list pitem) : list pitem :=
  (fix go (items : list pitem) : list pitem :=
     match items with
     | [] => []
     | ITok t :: r => ITok t :: go r
     | ISub c s :: r => ISub c (psubst sg s) :: go r
     end) items.

Definition items_fit (sg : N -> pexpr) (items : list pitem) : bool :=
  (fix go (items : list pitem) : bool :=
     match items with
     | [] => true
     | ITok _ :: r => go r
     | ISub c' s :: r => fits sg c' s && go r
     end) items.

Lemma pp_node c l items :
  pp c (PNode l items) = if Nat.ltb l c then TOpen :: body_of items ++ [TClose] else body_of items.
Proof. reflexivity. Qed.

Lemma tsub_app tau a b : tsub tau (a ++ b) = tsub tau a ++ tsub tau b.
Proof. unfold tsub. apply flat_map_app. Qed.

Lemma pp_fit_level c e l items : e = PNode l items -> (c <= l)%nat -> pp c e = pp 0 e.
Proof.
  intros -> H. rewrite !pp_node. destruct (Nat.ltb_spec l c); [lia|]. reflexivity.
Qed.

(* Inserting the unparenthesised texts of the bound expressions at the goal's wildcards gives exactly the
   canonical text of the tree-level substitution, whenever every wildcard position is fit. *)
Theorem subst_meaning sg : forall g c,
  fits sg c g = true ->
  pp c (psubst sg g) = tsub (fun w => pp 0 (sg w)) (pp c g).
Proof.
  intro g. induction g as [w|l items IH] using pexpr_ind'; intros c H.
  - cbn [psubst pp tsub flat_map]. rewrite app_nil_r. cbn [fits fits_at] in H.
    rewrite andb_true_r in H. destruct (sg w) as [w'|l items] eqn:E; [reflexivity|].
    apply Nat.leb_le in H. eapply pp_fit_level; eauto.
  - cbn [fits fits_at] in H. cbn [andb] in H. change (items_fit sg items = true) in H.
    change (psubst sg (PNode l items)) with (PNode l (items_subst sg items)). rewrite !pp_node.
    assert (B : body_of (items_subst sg items) = tsub (fun w => pp 0 (sg w)) (body_of items)).
    { clear c. induction items as [|it r IHr]; [reflexivity|]. destruct it as [t|c' s].
      - change (items_fit sg (ITok t :: r)) with (items_fit sg r) in H.
        change (body_of (items_subst sg (ITok t :: r))) with (TTok t :: body_of (items_subst sg r)).
        change (body_of (ITok t :: r)) with (TTok t :: body_of r).
        change (tsub (fun w => pp 0 (sg w)) (TTok t :: body_of r))
          with (TTok t :: tsub (fun w => pp 0 (sg w)) (body_of r)).
        f_equal. apply IHr; [intros c0 s0 Hin; apply (IH c0 s0); right; exact Hin|exact H].
      - change (items_fit sg (ISub c' s :: r)) with (fits sg c' s && items_fit sg r) in H.
        apply andb_true_iff in H as [H1 H2].
        change (body_of (items_subst sg (ISub c' s :: r)))
          with (pp c' (psubst sg s) ++ body_of (items_subst sg r)).
        change (body_of (ISub c' s :: r)) with (pp c' s ++ body_of r). rewrite tsub_app.
        f_equal; [apply (IH c' s); [left; reflexivity|exact H1]|].
        apply IHr; [intros c0 s0 Hin; apply (IH c0 s0); right; exact Hin|exact H2]. }
    destruct (Nat.ltb l c).
    + cbn [tsub flat_map]. cbn. f_equal. change (flat_map _ (body_of items ++ [TClose]))
        with (tsub (fun w => pp 0 (sg w)) (body_of items ++ [TClose])).
      rewrite tsub_app, B. reflexivity.
    + exact B.
Qed.

(* ---- outside the condition: ${a} ** 2 with a -> 2 + 1 ---- *)
Definition atom (t : text) : pexpr := PNode 18 [ITok t].
Definition add (a b : pexpr) : pexpr := PNode 12 [ISub 12 a; ITok [43%N]; ISub 13 b].
Definition pow (a b : pexpr) : pexpr := PNode 15 [ISub 16 a; ITok [42%N; 42%N]; ISub 15 b].
Definition goal_pow : pexpr := pow (PHole 0) (atom [50%N]).
Definition sg_sum (w : N) : pexpr := add (atom [50%N]) (atom [49%N]).

Lemma precedence_refuted :
  fits sg_sum 0 goal_pow = false /\
  tsub (fun w => pp 0 (sg_sum w)) (pp 0 goal_pow) <> pp 0 (psubst sg_sum goal_pow) /\
  (* the text obtained is the canonical text of another tree: 2 + (1 ** 2) *)
  tsub (fun w => pp 0 (sg_sum w)) (pp 0 goal_pow)
  = pp 0 (add (atom [50%N]) (pow (atom [49%N]) (atom [50%N]))).
Proof. vm_compute. repeat split. discriminate. Qed.

(* inside the condition: ${a} + 2 with a -> 2 ** 1 *)
Definition goal_add : pexpr := add (PHole 0) (atom [50%N]).
Definition sg_pow (w : N) : pexpr := pow (atom [50%N]) (atom [49%N]).
Lemma subst_meaning_example :
  fits sg_pow 0 goal_add = true /\
  pp 0 (psubst sg_pow goal_add) = [TTok [50%N]; TTok [42%N; 42%N]; TTok [49%N]; TTok [43%N]; TTok [50%N]].
Proof. vm_compute. split; reflexivity. Qed.
