(* C19 — concrete trees used for the non-vacuity examples and the refutation witness.
   The terms are what harness/c19.py prints for the sources quoted next to them. *)
From Coq Require Import List NArith Bool.
From RopeVerif.Lib Require Import Text.
From RopeVerif.C19 Require Import Tree Matcher MatcherProofs FindProofs.
Import ListNotations.
Open Scope N_scope.

Definition rv (c : N) : text :=          (* "__rope__variable_normal_" ++ [c] *)
  normal_prefix ++ [c].

(* x = f(a + 1, a+1) *)
Definition ex_call : tree :=
  Node 4 4 17 6 [Node 5 4 5 1 [Atom 1 [102]; Ctx 0];
                 Lst [Node 6 6 11 4 [Node 7 6 7 1 [Atom 1 [97]; Ctx 0]; Node 0 0 0 200 [];
                                     Node 8 10 11 8 [Atom 2 [49]; Atom 0 [78;111;110;101]]];
                      Node 9 13 16 4 [Node 10 13 14 1 [Atom 1 [97]; Ctx 0]; Node 0 0 0 200 [];
                                      Node 11 15 16 8 [Atom 2 [49]; Atom 0 [78;111;110;101]]]];
                 Lst []].
Definition ex_body : tree :=
  Node 1 0 18 201 [Lst [Node 2 0 17 103 [Lst [Node 3 0 1 1 [Atom 1 [120]; Ctx 1]]; ex_call;
                                         Atom 0 [78;111;110;101]]];
                   Lst []].
(* f(${p}, ${p}) *)
Definition ex_pat : tree :=
  Node 0 0 0 6 [Node 0 0 0 1 [Atom 1 [102]; Ctx 0];
                Lst [Node 0 0 0 1 [Atom 1 (rv 112); Ctx 0]; Node 0 0 0 1 [Atom 1 (rv 112); Ctx 0]];
                Lst []].
Definition ex_arg1 : tree :=
  Node 6 6 11 4 [Node 7 6 7 1 [Atom 1 [97]; Ctx 0]; Node 0 0 0 200 [];
                 Node 8 10 11 8 [Atom 2 [49]; Atom 0 [78;111;110;101]]].
Definition ex_arg2 : tree :=
  Node 9 13 16 4 [Node 10 13 14 1 [Atom 1 [97]; Ctx 0]; Node 0 0 0 200 [];
                  Node 11 15 16 8 [Atom 2 [49]; Atom 0 [78;111;110;101]]].

Lemma ex_match : mn (acc_default []) ex_call ex_pat [] = Some [([112], ex_arg1)].
Proof. vm_compute. reflexivity. Qed.

Lemma ex_domain : no_wild ex_body = true /\ shape_ok ex_body = true /\ shape_ok ex_pat = true
                  /\ is_lst ex_pat = false.
Proof. vm_compute. auto. Qed.

Lemma ex_found :
  find_matches (acc_default []) ex_body (PExpr ex_pat) = [MExpr ex_call [([112], ex_arg1)]].
Proof. vm_compute. reflexivity. Qed.

Lemma ex_visited : In ex_call (nodes ex_body).
Proof. vm_compute. tauto. Qed.

(* the second argument faces the second occurrence of ${p} *)
Lemma ex_occurs : occurs ex_pat ex_call [112] ex_arg2.
Proof.
  eapply (occ_field _ _ _ _ _ _ _ _ _ _ 1%nat); [reflexivity|reflexivity|reflexivity|].
  eapply (occ_item _ _ 1%nat); [reflexivity|reflexivity|]. apply occ_here. reflexivity.
Qed.

Lemma ex_complete_inst :
  let sg := [([112], ex_arg2)] in
  mnode sg /\ accepts (acc_default []) sg ex_pat /\ erase (inst sg ex_pat) = erase ex_call.
Proof.
  cbn zeta. split; [|split].
  - intros w b H. cbn in H. destruct (text_eqb w [112]); [|discriminate]. injection H as <-. reflexivity.
  - intros w b _ H. cbn in H. destruct (text_eqb w [112]) eqn:E; [|discriminate].
    injection H as <-. apply text_eqb_eq in E. subst w. vm_compute. reflexivity.
  - vm_compute. reflexivity.
Qed.

(* statement window: a = 1 / b = 2 inside a longer list *)
Definition st_a (i v : N) : tree :=
  Node i 0 0 103 [Lst [Node 0 0 0 1 [Atom 1 [v]; Ctx 1]]; Node 0 0 0 8 [Atom 2 [49]; Atom 0 []];
                  Atom 0 []].
Lemma ex_window :
  check_stmt_list (acc_default []) [st_a 0 97; st_a 0 98] [st_a 1 99; st_a 2 97; st_a 3 98; st_a 4 99]
  = [MStmts [st_a 2 97; st_a 3 98] []].
Proof. vm_compute. reflexivity. Qed.

(* ---- refutation witness: a module that itself uses a reserved identifier ----
   source  __rope__variable_normal_z + 5     pattern  ${a} + ${a}  *)
Definition bad_t : tree :=
  Node 3 0 29 4 [Node 4 0 25 1 [Atom 1 (rv 122); Ctx 0]; Node 0 0 0 200 [];
                 Node 5 28 29 8 [Atom 2 [53]; Atom 0 [78;111;110;101]]].
Definition bad_pat : tree :=
  Node 0 0 0 4 [Node 0 0 0 1 [Atom 1 (rv 97); Ctx 0]; Node 0 0 0 200 [];
                Node 0 0 0 1 [Atom 1 (rv 97); Ctx 0]].

Lemma reserved_refuted :
  exists t pat m, mn (acc_default []) t pat [] = Some m /\ erase (inst m pat) <> erase t.
Proof.
  exists bad_t, bad_pat, [([97], Node 4 0 25 1 [Atom 1 (rv 122); Ctx 0])].
  split; [vm_compute; reflexivity|]. vm_compute. discriminate.
Qed.

(* ---- text-level restructuring: the statement loop in traversal order ----
   source  "if c:\n    a = 1\na = 1\n"   pattern  a = 1   goal  a = 2 *)
From RopeVerif.C19 Require Import Restructure RestructureProofs.

Definition so_src : text :=
  [105;102;32;99;58;10;32;32;32;32;97;32;61;32;49;10;97;32;61;32;49;10].
Definition so_inner : tree :=
  Node 4 10 15 103 [Lst [Node 5 10 11 1 [Atom 1 [97]; Ctx 1]];
                    Node 6 14 15 8 [Atom 2 [49]; Atom 0 [78;111;110;101]]; Atom 0 [78;111;110;101]].
Definition so_outer : tree :=
  Node 7 16 21 103 [Lst [Node 8 16 17 1 [Atom 1 [97]; Ctx 1]];
                    Node 9 20 21 8 [Atom 2 [49]; Atom 0 [78;111;110;101]]; Atom 0 [78;111;110;101]].
Definition so_body : tree :=
  Node 1 0 22 238 [Lst [Node 2 0 15 115 [Node 3 3 4 1 [Atom 1 [99]; Ctx 0]; Lst [so_inner]; Lst []];
                        so_outer];
                   Lst []].
Definition so_pat : tree :=
  Node 0 0 0 238 [Lst [Node 0 0 0 103 [Lst [Node 0 0 0 1 [Atom 1 [97]; Ctx 1]];
                                       Node 0 0 0 8 [Atom 2 [49]; Atom 0 [78;111;110;101]];
                                       Atom 0 [78;111;110;101]]];
                  Lst []].
Definition so_goal : template := [PLit [97;32;61;32;50]].
Definition so_matches : list amatch :=
  get_matches (acc_default []) so_body (create_pattern so_pat) 0 (tlen so_src) None.

Lemma so_matches_eq : so_matches = [MStmts [so_outer] []; MStmts [so_inner] []].
Proof. vm_compute. reflexivity. Qed.

Lemma so_changes : stmt_changes so_src so_goal so_matches 0 = LOk [(16, 21, [97;32;61;32;50])].
Proof. vm_compute. reflexivity. Qed.

(* the nested instance (10,15) lies before the replaced one and overlaps nothing, yet it is skipped *)
Lemma stmt_order_refuted :
  exists src goal ms cs a,
    stmt_changes src goal ms 0 = LOk cs /\ In a ms /\
    ~ (exists t, In (fst (match_region a), snd (match_region a), t) cs) /\
    ~ (exists s e t, In (s, e, t) cs /\ (s <= fst (match_region a) /\ fst (match_region a) < e)%N).
Proof.
  exists so_src, so_goal, so_matches, [(16, 21, [97;32;61;32;50])], (MStmts [so_inner] []).
  split; [exact so_changes|]. split; [rewrite so_matches_eq; right; left; reflexivity|]. split.
  - intros (t & [H|[]]). discriminate H.
  - intros (s & e & t & [H|[]] & H1 & H2). injection H as <- <- _. cbn in H1. 
    apply N.leb_le in H1. vm_compute in H1. discriminate.
Qed.

Lemma so_result :
  restructure_text (acc_default []) so_src so_goal false true so_body so_pat
  = CText [105;102;32;99;58;10;32;32;32;32;97;32;61;32;49;10;97;32;61;32;50;10].
Proof. vm_compute. reflexivity. Qed.

Lemma so_result_sorted :
  restructure_text (acc_default []) so_src so_goal true true so_body so_pat
  = CText [105;102;32;99;58;10;32;32;32;32;97;32;61;32;50;10;97;32;61;32;50;10].
Proof. vm_compute. reflexivity. Qed.

Lemma so_regions_ok : Forall (region_ok (tlen so_src)) so_matches.
Proof. rewrite so_matches_eq. repeat constructor; vm_compute; discriminate. Qed.

(* ---- restructure.replace with an expression pattern: "x = f(1)\n", f(${a}) -> g(${a}) ---- *)
Definition rp_src : text := [120;32;61;32;102;40;49;41;10].
Definition rp_body : tree :=
  Node 1 0 9 238 [Lst [Node 2 0 8 103 [Lst [Node 3 0 1 1 [Atom 1 [120]; Ctx 1]];
                                       Node 4 4 8 6 [Node 5 4 5 1 [Atom 1 [102]; Ctx 0];
                                                     Lst [Node 6 6 7 8 [Atom 2 [49]; Atom 0 [78;111;110;101]]];
                                                     Lst []];
                                       Atom 0 [78;111;110;101]]];
                  Lst []].
Definition rp_pat : tree :=
  Node 0 0 0 238 [Lst [Node 0 0 0 100 [Node 0 0 0 6 [Node 0 0 0 1 [Atom 1 [102]; Ctx 0];
                                                    Lst [Node 0 0 0 1 [Atom 1 (rv 97); Ctx 0]]; Lst []]]];
                  Lst []].
Definition rp_goal : template := [PLit [103;40]; PVar [97]; PLit [41]].

Lemma rp_repaired :
  restructure_text (acc_default []) rp_src rp_goal true true rp_body rp_pat
  = CText [120;32;61;32;103;40;49;41;10].                                   (* "x = g(1)\n" *)
Proof. vm_compute. reflexivity. Qed.

Lemma rp_legacy : restructure_text (acc_default []) rp_src rp_goal true false rp_body rp_pat = CNone.
Proof. vm_compute. reflexivity. Qed.

(* expression-mode untouched-outside is not vacuous on the replace example *)
Definition rp_matched : list (N * amatch) :=
  keys (get_matches (acc_default []) rp_body (create_pattern rp_pat) 0 (tlen rp_src) None).
Lemma rp_expr_domain :
  find_matched rp_matched rp_body = None /\ node_start rp_body = 0%N /\ node_end rp_body = tlen rp_src /\
  length (nearest rp_matched rp_body) = 1%nat /\
  Forall (fun n => (node_start n <= node_end n /\ node_end n <= tlen rp_src)%N) (nearest rp_matched rp_body) /\
  ForallOrdPairs node_disj (nearest rp_matched rp_body).
Proof.
  vm_compute. repeat split; try discriminate.
  - repeat constructor; discriminate.
  - repeat constructor.
Qed.
