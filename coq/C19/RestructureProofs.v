(* C19 — proofs about the text-level restructuring model. *)
From Coq Require Import List NArith Bool Lia PeanoNat Sorted.
From RopeVerif.Lib Require Import Text.
From RopeVerif.C19 Require Import Tree Matcher MatcherProofs Restructure.
Import ListNotations.

(* ---- restructure.replace with an expression pattern: nothing is ever a key of matched_asts ---- *)
Definition nearest_field (matched : list (N * amatch)) (k : tree) : list tree :=
  match k with
  | Node _ _ _ _ _ => match find_matched matched k with Some _ => [k] | None => nearest matched k end
  | Lst l =>
      flat_map (fun x => match x with
                         | Node _ _ _ _ _ =>
                             match find_matched matched x with Some _ => [x] | None => nearest matched x end
                         | _ => []
                         end) l
  | _ => []
  end.

Lemma nearest_node matched i s e c ks :
  nearest matched (Node i s e c ks) = flat_map (nearest_field matched) ks.
Proof.
  cbn [nearest]. induction ks as [|k r IH]; [reflexivity|]. cbn [flat_map]. rewrite <- IH. f_equal.
Qed.

Lemma nearest_empty' t :
  nearest [] t = [] /\ (forall l, t = Lst l -> Forall (fun x => nearest [] x = []) l).
Proof.
  induction t as [i s e c ks IH|l IH|ty v|k] using tree_ind'.
  - split; [|discriminate]. rewrite nearest_node.
    induction IH as [|k r [Hk Hl] Hr IHr]; [reflexivity|]. cbn [flat_map]. rewrite IHr, app_nil_r.
    destruct k as [| l | |]; cbn [nearest_field find_matched find]; try reflexivity.
    + exact Hk.
    + specialize (Hl l eq_refl). clear Hk. induction Hl as [|x q Hx Hq IHq]; [reflexivity|].
      cbn [flat_map]. rewrite IHq, app_nil_r. destruct x; try reflexivity. exact Hx.
  - split; [reflexivity|]. intros l' [= <-]. eapply Forall_impl; [|exact IH]. intros a [Ha _]. exact Ha.
  - split; [reflexivity|discriminate].
  - split; [reflexivity|discriminate].
Qed.

Lemma nearest_empty t : nearest [] t = [].
Proof. apply nearest_empty'. Qed.

(* whatever the goal and the matches: the result is the text of the module node *)
Theorem replace_expression_noop src goal sorted body t m ms :
  change_computer src goal sorted false body (MExpr t m :: ms) =
  let r := slice src (node_start body) (node_end body) in
  if text_eqb r src then CNone else CText r.
Proof.
  unfold change_computer.
  replace (2 * length (nodes body) + 4)%nat with (Datatypes.S (2 * length (nodes body) + 3)) by lia.
  cbn [node_text]. 
  assert (F : find_matched [] body = None) by (destruct body; reflexivity).
  rewrite F, nearest_empty. cbn [map_tres combine map apply_changes]. reflexivity.
Qed.

(* ---- ChangeCollector: text outside the replaced regions keeps its characters and their order ---- *)
Lemma nth_error_firstn' {A} (l : list A) n k : (k < n)%nat -> nth_error (firstn n l) k = nth_error l k.
Proof.
  revert n k. induction l as [|x r IH]; intros n k H.
  - rewrite firstn_nil. reflexivity.
  - destruct n; [lia|]. destruct k; [reflexivity|]. cbn. apply IH. lia.
Qed.

Lemma nth_error_skipn' {A} (l : list A) a k : nth_error (skipn a l) k = nth_error l (a + k).
Proof.
  revert l. induction a as [|a IH]; intro l; [reflexivity|].
  destruct l as [|x r]; [destruct k; reflexivity|]. cbn. apply IH.
Qed.

Lemma slice_length t a b : (b <= tlen t)%N -> length (slice t a b) = N.to_nat (b - a).
Proof.
  intro H. unfold slice, tlen in *. rewrite firstn_length, skipn_length. lia.
Qed.

Lemma slice_nth t a b k :
  (k < N.to_nat (b - a))%nat -> nth_error (slice t a b) k = nth_error t (N.to_nat a + k).
Proof.
  intro H. unfold slice. rewrite nth_error_firstn' by exact H. apply nth_error_skipn'.
Qed.

Fixpoint wf_changes (last : N) (cs : list change) (len : N) : Prop :=
  match cs with
  | [] => (last <= len)%N
  | (s, e, _) :: r => (last <= s /\ s <= e)%N /\ wf_changes e r len
  end.

Definition outside (cs : list change) (i : N) : Prop :=
  Forall (fun c : change => let '(s, e, _) := c in ~ (s <= i /\ i < e)%N) cs.

(* where the character at offset i of the old text sits in the new text *)
Fixpoint newpos (last : N) (cs : list change) (i : N) : nat :=
  match cs with
  | [] => N.to_nat (i - last)
  | (s, e, new) :: r =>
      if N.ltb i s then N.to_nat (i - last)
      else (N.to_nat (s - last) + length new + newpos e r i)%nat
  end.

Lemma wf_changes_le last cs len : wf_changes last cs len -> (last <= len)%N.
Proof.
  revert last. induction cs as [|[[s e] new] r IH]; intros last H; [exact H|].
  cbn in H. destruct H as [[H1 H2] H3]. apply IH in H3. lia.
Qed.

Lemma build_outside t cs : forall last i,
  wf_changes last cs (tlen t) -> (last <= i /\ i < tlen t)%N -> outside cs i ->
  nth_error (build t last cs) (newpos last cs i) = nth_error t (N.to_nat i).
Proof.
  induction cs as [|[[s e] new] r IH]; intros last i Hwf Hi Ho.
  - cbn [build newpos]. destruct (N.ltb_spec last (tlen t)); [|lia].
    rewrite slice_nth by lia. f_equal. lia.
  - cbn [build newpos]. cbn in Hwf. destruct Hwf as [[H1 H2] H3].
    inversion Ho as [|? ? Hc Hr]; subst. pose proof (wf_changes_le _ _ _ H3) as Hle.
    destruct (N.ltb_spec i s).
    + rewrite nth_error_app1 by (rewrite slice_length by lia; lia).
      rewrite slice_nth by lia. f_equal. lia.
    + rewrite nth_error_app2 by (rewrite slice_length by lia; lia).
      rewrite slice_length by lia.
      replace (N.to_nat (s - last) + length new + newpos e r i - N.to_nat (s - last))%nat
        with (length new + newpos e r i)%nat by lia.
      rewrite nth_error_app2 by lia.
      replace (length new + newpos e r i - length new)%nat with (newpos e r i) by lia.
      apply IH; [exact H3|lia|exact Hr].
Qed.

(* the insertion sort leaves an already sorted list alone *)
Definition ch_leb (a b : change) : Prop := ch_le a b = true.

Lemma insert_end c l : Forall (fun d => ch_leb d c) l -> insert_ch c l = l ++ [c].
Proof.
  induction 1 as [|d r Hd Hr IH]; [reflexivity|]. cbn [insert_ch]. unfold ch_leb in Hd.
  rewrite Hd, IH. reflexivity.
Qed.

Lemma sorted_app_head (R : change -> change -> Prop) a c r :
  StronglySorted R (a ++ c :: r) -> Forall (fun d => R d c) a.
Proof.
  induction a as [|x a IH]; intro H; [constructor|]. cbn in H. inversion H as [|? ? Hs Hf]; subst.
  constructor; [|apply IH; exact Hs]. rewrite Forall_forall in Hf. apply Hf, in_or_app. right; left; reflexivity.
Qed.

Lemma fold_insert_sorted cs : forall acc,
  StronglySorted ch_leb (acc ++ cs) ->
  fold_left (fun acc c => insert_ch c acc) cs acc = acc ++ cs.
Proof.
  induction cs as [|c r IH]; intros acc H; [symmetry; apply app_nil_r|]. cbn [fold_left].
  rewrite (insert_end c acc) by (eapply sorted_app_head; exact H).
  rewrite IH; rewrite <- app_assoc; [reflexivity|exact H].
Qed.

Lemma wf_changes_starts last cs len :
  wf_changes last cs len -> Forall (fun c : change => let '(s, e, _) := c in (last <= s /\ s <= e)%N) cs.
Proof.
  revert last. induction cs as [|[[s e] new] r IH]; intros last H; [constructor|].
  cbn in H. destruct H as [[H1 H2] H3]. constructor; [lia|].
  eapply Forall_impl; [|apply IH; exact H3]. intros [[s' e'] n']. lia.
Qed.

Lemma wf_changes_sorted last cs len : wf_changes last cs len -> StronglySorted ch_leb cs.
Proof.
  revert last. induction cs as [|[[s e] new] r IH]; intros last H; [constructor|].
  cbn in H. destruct H as [[H1 H2] H3]. constructor; [eapply IH; exact H3|].
  eapply Forall_impl; [|apply (wf_changes_starts _ _ _ H3)]. intros [[s' e'] n'] [Ha Hb].
  unfold ch_leb, ch_le. destruct (N.ltb_spec s s'); [reflexivity|]. cbn [orb].
  apply andb_true_iff. split; [apply N.eqb_eq|apply N.leb_le]; lia.
Qed.

Lemma sort_ch_wf last cs len : wf_changes last cs len -> sort_ch cs = cs.
Proof.
  intro H. unfold sort_ch. apply (fold_insert_sorted cs []). cbn. eapply wf_changes_sorted; exact H.
Qed.

(* ---- the statement loop ---- *)
Definition region_ok (len : N) (a : amatch) : Prop :=
  (fst (match_region a) <= snd (match_region a) /\ snd (match_region a) <= len)%N.

Lemma stmt_changes_wf src goal len ms : forall last cs,
  Forall (region_ok len) ms -> (last <= len)%N ->
  stmt_changes src goal ms last = LOk cs ->
  wf_changes last cs len /\
  Forall (fun c : change => exists a, In a ms /\ match_region a = (fst (fst c), snd (fst c))) cs.
Proof.
  induction ms as [|a r IH]; intros last cs Hok Hl H.
  - injection H as <-. split; [exact Hl|constructor].
  - inversion Hok as [|? ? Ha Hr]; subst. cbn [stmt_changes] in H.
    destruct (match_region a) as [s e] eqn:Er. unfold region_ok in Ha. rewrite Er in Ha. cbn in Ha.
    destruct (N.ltb_spec s last).
    + destruct (IH last cs Hr Hl H) as [Hw Hf]. split; [exact Hw|].
      eapply Forall_impl; [|exact Hf]. intros c (a' & Hin & Hreg). exists a'. split; [right; exact Hin|exact Hreg].
    + destruct (matched_text_with src goal false _ a) as [t| |]; try discriminate.
      destruct (stmt_changes src goal r e) as [cs'| |] eqn:E; try discriminate. injection H as <-.
      destruct (IH e cs' Hr ltac:(lia) E) as [Hw Hf]. split.
      * cbn. split; [lia|exact Hw].
      * constructor; [exists a; split; [left; reflexivity|exact Er]|].
        eapply Forall_impl; [|exact Hf]. intros c (a' & Hin & Hreg). exists a'. split; [right; exact Hin|exact Hreg].
Qed.

(* a character that lies in no match region is kept, and kept characters keep their order
   (newpos is the position in the new text) *)
Theorem stmt_untouched_outside src goal ms cs i :
  Forall (region_ok (tlen src)) ms ->
  stmt_changes src goal ms 0 = LOk cs ->
  (i < tlen src)%N ->
  (forall a, In a ms -> ~ (fst (match_region a) <= i /\ i < snd (match_region a))%N) ->
  nth_error (apply_changes src cs) (newpos 0 cs i) = nth_error src (N.to_nat i).
Proof.
  intros Hok H Hi Hout.
  destruct (stmt_changes_wf src goal (tlen src) ms 0 cs Hok ltac:(lia) H) as [Hw Hf].
  assert (Ho : outside cs i).
  { eapply Forall_impl; [|exact Hf]. intros [[s e] n] (a & Hin & Hreg). cbn in Hreg.
    specialize (Hout a Hin). rewrite Hreg in Hout. exact Hout. }
  destruct cs as [|c r].
  - cbn [apply_changes newpos]. f_equal. lia.
  - unfold apply_changes. rewrite (sort_ch_wf _ _ _ Hw). apply build_outside; [exact Hw|lia|exact Ho].
Qed.

Lemma newpos_mono cs : forall last len i j,
  wf_changes last cs len -> (last <= i /\ i < j)%N -> outside cs i -> outside cs j ->
  (newpos last cs i < newpos last cs j)%nat.
Proof.
  induction cs as [|[[s e] new] r IH]; intros last len i j Hwf Hij Hoi Hoj.
  - cbn. lia.
  - cbn [newpos]. cbn in Hwf. destruct Hwf as [[H1 H2] H3].
    inversion Hoi as [|? ? Hci Hri]; subst. inversion Hoj as [|? ? Hcj Hrj]; subst.
    destruct (N.ltb_spec i s); destruct (N.ltb_spec j s); try lia.
    assert (newpos e r i < newpos e r j)%nat by (apply (IH e len); auto; lia). lia.
Qed.

(* ---- which statement matches get replaced ---- *)
Definition region_leb (a b : amatch) : Prop := region_le a b = true.

Lemma region_le_start a b : region_leb a b -> (fst (match_region a) <= fst (match_region b))%N.
Proof.
  unfold region_leb, region_le. destruct (match_region a) as [s1 e1], (match_region b) as [s2 e2]. cbn.
  intro H. apply orb_true_iff in H as [H|H].
  - apply N.ltb_lt in H. lia.
  - apply andb_true_iff in H as [H _]. apply N.eqb_eq in H. lia.
Qed.

(* in a list sorted by region every match is replaced or starts inside a replaced one *)
Lemma stmt_changes_sorted_cover src goal ms : forall last cs,
  StronglySorted region_leb ms -> stmt_changes src goal ms last = LOk cs ->
  forall a, In a ms ->
    (fst (match_region a) < last)%N \/
    (exists t, In (fst (match_region a), snd (match_region a), t) cs) \/
    (exists s e t, In (s, e, t) cs /\ (s <= fst (match_region a) /\ fst (match_region a) < e)%N).
Proof.
  induction ms as [|a0 r IH]; intros last cs Hs H a Hin; [contradiction|].
  inversion Hs as [|? ? Hs' Hf]; subst. cbn [stmt_changes] in H.
  destruct (match_region a0) as [s0 e0] eqn:E0.
  destruct (N.ltb_spec s0 last).
  - destruct Hin as [<-|Hin].
    + left. rewrite E0. exact H0.
    + eapply IH; eauto.
  - destruct (matched_text_with src goal false _ a0) as [t0| |]; try discriminate.
    destruct (stmt_changes src goal r e0) as [cs'| |] eqn:E; try discriminate. injection H as <-.
    destruct Hin as [<-|Hin].
    + right; left. exists t0. rewrite E0. left; reflexivity.
    + destruct (IH e0 cs' Hs' E a Hin) as [Hlt|[(t & Ht)|(s & e & t & Ht & Hr)]].
      * right; right. exists s0, e0, t0. split; [left; reflexivity|].
        rewrite Forall_forall in Hf. specialize (Hf a Hin). apply region_le_start in Hf.
        rewrite E0 in Hf. cbn in Hf. lia.
      * right; left. exists t. right; exact Ht.
      * right; right. exists s, e, t. split; [right; exact Ht|exact Hr].
Qed.

Lemma region_le_total a b : region_le a b = false -> region_leb b a.
Proof.
  unfold region_leb, region_le. destruct (match_region a) as [s1 e1], (match_region b) as [s2 e2].
  intro H. apply orb_false_iff in H as [H1 H2]. apply N.ltb_ge in H1.
  destruct (N.ltb_spec s2 s1); [reflexivity|]. cbn [orb]. assert (s1 = s2) by lia. subst.
  rewrite N.eqb_refl in *. cbn [andb] in *. apply N.leb_gt in H2. apply N.leb_le. lia.
Qed.

Lemma region_le_trans a b c : region_leb a b -> region_leb b c -> region_leb a c.
Proof.
  unfold region_leb, region_le. destruct (match_region a) as [s1 e1], (match_region b) as [s2 e2],
    (match_region c) as [s3 e3].
  rewrite !orb_true_iff, !andb_true_iff, !N.ltb_lt, !N.eqb_eq, !N.leb_le. lia.
Qed.

Lemma insert_m_in x l a : In a (insert_m x l) <-> a = x \/ In a l.
Proof.
  induction l as [|b r IH]; cbn [insert_m]; [cbn; intuition|].
  destruct (region_le b x); cbn [In]; rewrite ?IH; intuition.
Qed.

Lemma insert_m_sorted x l : StronglySorted region_leb l -> StronglySorted region_leb (insert_m x l).
Proof.
  induction 1 as [|b r Hs IH Hf]; cbn [insert_m]; [repeat constructor|].
  destruct (region_le b x) eqn:E.
  - constructor; [exact IH|]. apply Forall_forall. intros a Ha. apply insert_m_in in Ha as [->|Ha].
    + exact E.
    + rewrite Forall_forall in Hf. apply Hf, Ha.
  - apply region_le_total in E. constructor; [constructor; assumption|].
    constructor; [exact E|]. eapply Forall_impl; [|exact Hf]. intros a Ha. eapply region_le_trans; eauto.
Qed.

Lemma sort_matches_spec l :
  StronglySorted region_leb (sort_matches l) /\ forall a, In a (sort_matches l) <-> In a l.
Proof.
  unfold sort_matches.
  assert (G : forall l acc, StronglySorted region_leb acc ->
             StronglySorted region_leb (fold_left (fun acc a => insert_m a acc) l acc) /\
             forall a, In a (fold_left (fun acc a => insert_m a acc) l acc) <-> In a acc \/ In a l).
  { clear l. induction l as [|x r IH]; intros acc Hs; cbn [fold_left].
    - split; [exact Hs|]. cbn. intuition.
    - destruct (IH (insert_m x acc) (insert_m_sorted x acc Hs)) as [H1 H2]. split; [exact H1|].
      intro a. rewrite H2, insert_m_in. cbn [In]. intuition. }
  destruct (G l [] (SSorted_nil _)) as [H1 H2]. split; [exact H1|]. intro a. rewrite H2. cbn. intuition.
Qed.

(* the repaired statement loop (proposed_fixes/C19-stmt-order.diff): every match is replaced or
   starts inside a replaced match *)
Theorem stmt_sorted_each_replaced src goal ms cs :
  stmt_changes src goal (sort_matches ms) 0 = LOk cs ->
  forall a, In a ms ->
    (exists t, In (fst (match_region a), snd (match_region a), t) cs) \/
    (exists s e t, In (s, e, t) cs /\ (s <= fst (match_region a) /\ fst (match_region a) < e)%N).
Proof.
  intros H a Ha. destruct (sort_matches_spec ms) as [Hs Hin].
  destruct (stmt_changes_sorted_cover src goal _ 0 cs Hs H a (proj2 (Hin a) Ha)) as [Hlt|Hr]; [lia|exact Hr].
Qed.

(* ---- make_pattern replaces exactly the visited Name nodes spelled like the variable ---- *)
From RopeVerif.C19 Require Import FindProofs.

Lemma strip_prefix_app p s : strip_prefix p (p ++ s) = Some s.
Proof. induction p as [|c p IH]; [reflexivity|]. cbn. rewrite N.eqb_refl. exact IH. Qed.

Definition plain_name (v : text) : Prop := match v with 63%N :: _ => False | _ => True end.

Lemma wild_base_wild_name v : plain_name v -> wild_base (wild_name v) = Some v.
Proof.
  intro H. unfold wild_base, wild_name. cbn [name_id filter nctx]. rewrite N.eqb_refl.
  unfold var_base, get_var. destruct v as [|c r]; [reflexivity|].
  destruct (N.eqb_spec c 63) as [->|Hc]; [contradiction|].
  assert (E : match c with 63%N => any_prefix ++ r | _ => normal_prefix ++ c :: r end
              = normal_prefix ++ c :: r).
  { destruct c as [|p]; [reflexivity|]. do 6 (destruct p as [p|p|]; try reflexivity). congruence. }
  rewrite E, strip_prefix_app. reflexivity.
Qed.

Lemma mn_wild_name v n :
  plain_name v ->
  mn (acc_default [v]) n (wild_name v) [] =
  match name_id n with
  | Some v' => if text_eqb v' v then Some [(v, n)] else None
  | None => None
  end.
Proof.
  intro H. rewrite mn_unfold. unfold resolve. rewrite (wild_base_wild_name v H). cbn [lookup].
  unfold acc_default. cbn [existsb]. rewrite text_eqb_refl. cbn [orb].
  destruct (name_id n) as [v'|]; [|reflexivity]. destruct (text_eqb v' v); reflexivity.
Qed.

Theorem make_pattern_matches v body len a :
  plain_name v ->
  In a (get_matches (acc_default [v]) body (PExpr (wild_name v)) 0 len None) <->
  exists n, In n (nodes body) /\ name_id n = Some v /\ a = MExpr n [(v, n)] /\ (node_end n <= len)%N.
Proof.
  intro H. rewrite get_matches_iff, find_expr_iff. split.
  - intros [(n & m & Hn & Hm & ->) Hr]. rewrite (mn_wild_name v n H) in Hm.
    destruct (name_id n) as [v'|] eqn:E; [|discriminate].
    destruct (text_eqb v' v) eqn:Ev; [|discriminate]. injection Hm as <-.
    apply text_eqb_eq in Ev. subst v'. exists n. repeat split; auto.
    apply in_region_spec in Hr. cbn in Hr. tauto.
  - intros (n & Hn & Hv & -> & Hl). split.
    + exists n, [(v, n)]. repeat split; auto. rewrite (mn_wild_name v n H), Hv, text_eqb_refl. reflexivity.
    + apply in_region_spec. cbn. split; [split; [apply N.le_0_l|exact Hl]|discriminate].
Qed.

(* ---- the statement loop as it stands (matches sorted by region) ---- *)
Theorem stmt_sorted_untouched_outside src goal ms cs i :
  Forall (region_ok (tlen src)) ms ->
  stmt_changes src goal (sort_matches ms) 0 = LOk cs ->
  (i < tlen src)%N ->
  (forall a, In a ms -> ~ (fst (match_region a) <= i /\ i < snd (match_region a))%N) ->
  nth_error (apply_changes src cs) (newpos 0 cs i) = nth_error src (N.to_nat i).
Proof.
  intros Hok H Hi Hout. destruct (sort_matches_spec ms) as [_ Hin].
  apply (stmt_untouched_outside src goal (sort_matches ms) cs i); auto.
  - apply Forall_forall. intros a Ha. rewrite Forall_forall in Hok. apply Hok, Hin, Ha.
  - intros a Ha. apply Hout, Hin, Ha.
Qed.

(* ---- restructure.replace as it stands (same tree): every matched node is a key of matched_asts and
   its text is the instantiated goal ---- *)
Definition keys (ms : list amatch) : list (N * amatch) := map (fun a => (match_ast_id a, a)) ms.

Lemma find_matched_keys ms : forall t m,
  In (MExpr t m) ms -> is_node t = true ->
  exists a', find_matched (keys ms) t = Some a' /\ In a' ms /\ match_ast_id a' = node_id t.
Proof.
  induction ms as [|a0 r IH]; intros t m Hin Hn; [contradiction|].
  destruct t as [i s e c ks| | |]; try discriminate. cbn [find_matched keys map find fst snd].
  destruct (N.eqb_spec i (match_ast_id a0)) as [E|E].
  - exists a0. repeat split; [left; reflexivity|symmetry; exact E].
  - destruct Hin as [->|Hin]; [cbn in E; congruence|].
    destruct (IH _ m Hin eq_refl) as (a' & F & Ha & Hid). exists a'. repeat split; auto.
    right; exact Ha.
Qed.

Theorem replace_repaired_matched src goal ms t m f :
  In (MExpr t m) ms -> is_node t = true ->
  exists a', In a' ms /\ match_ast_id a' = node_id t /\
    node_text src goal true (keys ms) (Datatypes.S f) t false =
    matched_text_with src goal true (node_text src goal true (keys ms) f) a'.
Proof.
  intros Hin Hn. destruct (find_matched_keys ms t m Hin Hn) as (a' & F & Ha & Hid).
  exists a'. repeat split; auto. cbn [node_text]. rewrite F. reflexivity.
Qed.

(* ---- expression patterns: text outside the outermost replaced nodes is untouched ---- *)
From Coq Require Import Permutation.

Definition ch_start (c : change) : N := fst (fst c).
Definition ch_end (c : change) : N := snd (fst c).
Definition ch_disj (a b : change) : Prop := (ch_end a <= ch_start b \/ ch_end b <= ch_start a)%N.
Definition ch_ok (len : N) (c : change) : Prop := (ch_start c <= ch_end c /\ ch_end c <= len)%N.

Lemma ch_le_total a b : ch_le a b = false -> ch_leb b a.
Proof.
  unfold ch_leb, ch_le. destruct a as [[s1 e1] n1], b as [[s2 e2] n2].
  intro H. apply orb_false_iff in H as [H1 H2]. apply N.ltb_ge in H1.
  destruct (N.ltb_spec s2 s1); [reflexivity|]. cbn [orb]. assert (s1 = s2) by lia. subst.
  rewrite N.eqb_refl in *. cbn [andb] in *. apply N.leb_gt in H2. apply N.leb_le. lia.
Qed.

Lemma ch_le_trans a b c : ch_leb a b -> ch_leb b c -> ch_leb a c.
Proof.
  unfold ch_leb, ch_le. destruct a as [[s1 e1] n1], b as [[s2 e2] n2], c as [[s3 e3] n3].
  rewrite !orb_true_iff, !andb_true_iff, !N.ltb_lt, !N.eqb_eq, !N.leb_le. lia.
Qed.

Lemma insert_ch_perm c l : Permutation (c :: l) (insert_ch c l).
Proof.
  induction l as [|d r IH]; cbn [insert_ch]; [reflexivity|].
  destruct (ch_le d c); [|reflexivity].
  etransitivity; [apply perm_swap|]. apply perm_skip. exact IH.
Qed.

Lemma insert_ch_sorted c l : StronglySorted ch_leb l -> StronglySorted ch_leb (insert_ch c l).
Proof.
  induction 1 as [|d r Hs IH Hf]; cbn [insert_ch]; [repeat constructor|].
  destruct (ch_le d c) eqn:E.
  - constructor; [exact IH|].
    eapply Permutation_Forall; [apply insert_ch_perm|]. constructor; [exact E|exact Hf].
  - apply ch_le_total in E. constructor; [constructor; assumption|].
    constructor; [exact E|]. eapply Forall_impl; [|exact Hf]. intros a Ha. eapply ch_le_trans; eauto.
Qed.

Lemma sort_ch_spec l : StronglySorted ch_leb (sort_ch l) /\ Permutation l (sort_ch l).
Proof.
  unfold sort_ch.
  assert (G : forall l acc, StronglySorted ch_leb acc ->
             StronglySorted ch_leb (fold_left (fun acc c => insert_ch c acc) l acc) /\
             Permutation (acc ++ l) (fold_left (fun acc c => insert_ch c acc) l acc)).
  { clear l. induction l as [|x r IH]; intros acc Hs; cbn [fold_left].
    - split; [exact Hs|]. rewrite app_nil_r. reflexivity.
    - destruct (IH (insert_ch x acc) (insert_ch_sorted x acc Hs)) as [H1 H2]. split; [exact H1|].
      etransitivity; [|exact H2]. etransitivity; [symmetry; apply Permutation_middle|].
      apply (Permutation_app_tail r (insert_ch_perm x acc)). }
  destruct (G l [] (SSorted_nil _)) as [H1 H2]. split; [exact H1|exact H2].
Qed.

Lemma FOP_perm (R : change -> change -> Prop) :
  (forall a b, R a b -> R b a) ->
  forall l l', Permutation l l' -> ForallOrdPairs R l -> ForallOrdPairs R l'.
Proof.
  intros Hsym l l' HP. induction HP as [|x l l' HP IH|x y l|l l' l'' H1 IH1 H2 IH2]; intro H.
  - exact H.
  - inversion H as [|? ? Hx Hl]; subst. constructor; [eapply Permutation_Forall; eauto|auto].
  - inversion H as [|? ? Hy Hl]; subst. inversion Hl as [|? ? Hx Hl']; subst.
    inversion Hy as [|? ? Hyx Hyl]; subst.
    constructor; [constructor; [apply Hsym; exact Hyx|exact Hx]|]. constructor; assumption.
  - auto.
Qed.

Lemma sorted_disjoint_wf len : forall cs last,
  StronglySorted ch_leb cs -> ForallOrdPairs ch_disj cs -> Forall (ch_ok len) cs ->
  Forall (fun c => last <= ch_start c)%N cs -> (last <= len)%N -> wf_changes last cs len.
Proof.
  induction cs as [|[[s e] n] r IH]; intros last Hs Hd Hok Hl Hlen; [exact Hlen|].
  inversion Hs as [|? ? Hs' Hle]; subst. inversion Hd as [|? ? Hdx Hd']; subst.
  inversion Hok as [|? ? Hokx Hok']; subst. inversion Hl as [|? ? Hlx Hl']; subst.
  unfold ch_ok, ch_start, ch_end in Hokx, Hlx. cbn in Hokx, Hlx. cbn [wf_changes].
  split; [lia|]. apply IH; auto; [|lia].
  rewrite Forall_forall in *. intros [[s' e'] n'] Hin.
  specialize (Hle _ Hin). specialize (Hdx _ Hin). specialize (Hok' _ Hin).
  unfold ch_leb, ch_le in Hle. unfold ch_disj, ch_ok, ch_start, ch_end in *. cbn in *.
  apply orb_true_iff in Hle. rewrite andb_true_iff, N.ltb_lt, N.eqb_eq, N.leb_le in Hle. lia.
Qed.

Lemma slice_full t : slice t 0 (tlen t) = t.
Proof. unfold slice, tlen. rewrite N.sub_0_r, Nat2N.id. cbn. apply firstn_all. Qed.

Lemma map_tres_length {A} (f : A -> tres) l ts : map_tres f l = LOk ts -> length ts = length l.
Proof.
  revert ts. induction l as [|x r IH]; intros ts H; cbn in H.
  - injection H as <-. reflexivity.
  - destruct (f x); try discriminate. destruct (map_tres f r) as [ts'| |]; try discriminate.
    injection H as <-. cbn. f_equal. apply IH. reflexivity.
Qed.

Definition node_disj (a b : tree) : Prop := (node_end a <= node_start b \/ node_end b <= node_start a)%N.

(* Expression patterns (Restructure and replace): the module text is rebuilt from the texts of the
   outermost matched nodes [nearest matched body]; every character outside their regions is kept and
   kept characters keep their order ([newpos] with wf_changes, see newpos_mono). *)
Theorem expr_untouched_outside src goal matched f body r :
  find_matched matched body = None ->
  node_start body = 0%N -> node_end body = tlen src ->
  ForallOrdPairs node_disj (nearest matched body) ->
  Forall (fun n => (node_start n <= node_end n /\ node_end n <= tlen src)%N) (nearest matched body) ->
  node_text src goal true matched (Datatypes.S f) body false = TOk r ->
  exists cs,
    map (fun c => (ch_start c, ch_end c)) cs
    = map (fun n => (node_start n, node_end n)) (nearest matched body) /\
    wf_changes 0 (sort_ch cs) (tlen src) /\
    forall i, (i < tlen src)%N ->
      (forall n, In n (nearest matched body) -> ~ (node_start n <= i /\ i < node_end n)%N) ->
      nth_error r (newpos 0 (sort_ch cs) i) = nth_error src (N.to_nat i).
Proof.
  intros Hnm Hs He Hd Hok H. cbn [node_text] in H. rewrite Hnm in H.
  destruct (map_tres _ (nearest matched body)) as [ts| |] eqn:E; try discriminate.
  injection H as <-. pose proof (map_tres_length _ _ _ E) as Hlen.
  rewrite Hs, He, slice_full.
  set (roots := nearest matched body) in *.
  set (cs := map (fun rt : tree * text => ((node_start (fst rt) - 0)%N, (node_end (fst rt) - 0)%N, snd rt))
                 (combine roots ts)).
  assert (Hreg : map (fun c => (ch_start c, ch_end c)) cs = map (fun n => (node_start n, node_end n)) roots).
  { unfold cs. clear -Hlen. revert ts Hlen. induction roots as [|n r IH]; intros [|t ts] Hlen; try discriminate;
      [reflexivity|]. cbn. unfold ch_start, ch_end. cbn. rewrite !N.sub_0_r. f_equal. apply IH. cbn in Hlen. lia. }
  assert (Hcd : ForallOrdPairs ch_disj cs /\ Forall (ch_ok (tlen src)) cs).
  { unfold cs. clear -Hlen Hd Hok. revert ts Hlen. induction roots as [|n r IH]; intros [|t ts] Hlen; try discriminate.
    - split; constructor.
    - inversion Hd as [|? ? Hdn Hd']; subst. inversion Hok as [|? ? Hokn Hok']; subst.
      cbn in Hlen. destruct (IH Hd' Hok' ts ltac:(lia)) as [I1 I2]. cbn [combine map]. split.
      + constructor; [|exact I1]. clear -Hdn. revert ts. induction r as [|m r IHr]; intros [|t' ts]; try constructor.
        * inversion Hdn; subst. unfold ch_disj, ch_start, ch_end, node_disj in *. cbn. rewrite !N.sub_0_r. assumption.
        * inversion Hdn; subst. apply IHr. assumption.
      + constructor; [|exact I2]. unfold ch_ok, ch_start, ch_end. cbn. rewrite !N.sub_0_r. exact Hokn. }
  destruct Hcd as [Hcd Hcok]. destruct (sort_ch_spec cs) as [Hss Hperm].
  assert (Hwf : wf_changes 0 (sort_ch cs) (tlen src)).
  { apply sorted_disjoint_wf; auto.
    - eapply FOP_perm; eauto. intros a b [H1|H1]; [right|left]; exact H1.
    - eapply Permutation_Forall; eauto.
    - apply Forall_forall. intros; apply N.le_0_l.
    - apply N.le_0_l. }
  exists cs. split; [exact Hreg|]. split; [exact Hwf|]. intros i Hi Hout.
  assert (Ho : outside (sort_ch cs) i).
  { eapply Permutation_Forall; [exact Hperm|]. apply Forall_forall. intros [[s e] n] Hin.
    assert (Hin' : In (s, e) (map (fun c => (ch_start c, ch_end c)) cs)).
    { apply in_map_iff. exists (s, e, n). auto. }
    rewrite Hreg in Hin'. apply in_map_iff in Hin' as (nd & Hnd & Hnin). injection Hnd as <- <-.
    apply Hout. exact Hnin. }
  unfold apply_changes. destruct cs as [|c0 cs'] eqn:Ecs.
  - cbn [sort_ch fold_left newpos]. f_equal. lia.
  - rewrite <- Ecs in *. apply build_outside; [exact Hwf|lia|exact Ho].
Qed.
