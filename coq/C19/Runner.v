(* C19 — correspondence runner.  The harness writes, per case, the searched module tree (converted
   from the very ast rope searched, with rope's regions and the harness's node ids), the parsed
   pattern module, the wildcards carrying the `exact` argument, the region / skip region, and what
   rope's get_matches returned: per match the ids of the matched node(s) and the (wildcard, bound node
   id) pairs in dict order.  The comparison with the model is computed here by vm_compute. *)
From Coq Require Import List NArith Bool.
From RopeVerif.Lib Require Import Text.
From RopeVerif.C19 Require Import Tree Matcher Restructure CodeTemplate.
Import ListNotations.

Record obs := {
  o_stmt : bool;                  (* StatementMatch? *)
  o_ids : list N;                 (* matched node id / ids of the statement window *)
  o_map : list (text * N)         (* mapping in insertion order: wildcard base name, bound node id *)
}.

Record case := {
  c_body : tree;
  c_user : text;                  (* the pattern as given to rope, with ${x} *)
  c_model : text;                 (* the text the harness parsed into c_pat *)
  c_pat : tree;                   (* ast.parse of the pattern after ${x} -> reserved names *)
  c_exact : list text;
  c_start : N;
  c_end : N;
  c_skip : option (N * N);
  c_obs : list obs
}.

Definition obs_of (a : amatch) : obs :=
  match a with
  | MExpr t m => {| o_stmt := false; o_ids := [node_id t];
                    o_map := map (fun kv => (fst kv, node_id (snd kv))) (rev m) |}
  | MStmts ws m => {| o_stmt := true; o_ids := map node_id ws;
                      o_map := map (fun kv => (fst kv, node_id (snd kv))) (rev m) |}
  end.

Fixpoint list_eqb {A} (eqb : A -> A -> bool) (a b : list A) : bool :=
  match a, b with
  | [], [] => true
  | x :: a', y :: b' => eqb x y && list_eqb eqb a' b'
  | _, _ => false
  end.

Definition obs_eqb (a b : obs) : bool :=
  Bool.eqb (o_stmt a) (o_stmt b) && list_eqb N.eqb (o_ids a) (o_ids b)
  && list_eqb (fun x y => text_eqb (fst x) (fst y) && N.eqb (snd x) (snd y)) (o_map a) (o_map b).

Definition model_matches (c : case) : list amatch :=
  get_matches (acc_default (c_exact c)) (c_body c) (create_pattern (c_pat c))
              (c_start c) (c_end c) (c_skip c).

(* the statement of C19_match_sound evaluated on one reported match *)
Definition sound_on (c : case) (a : amatch) : bool :=
  match create_pattern (c_pat c), a with
  | PExpr p, MExpr t m => teqb (inst m p) t
  | PStmts ps, MStmts ws m => teqb (Lst (map (inst m) ps)) (Lst ws)
  | _, _ => false
  end.

(* 0 agree; 1 the match lists differ; 3 a model match that is not an instance although the searched
   tree is free of reserved names (cannot happen while C19_match_sound is in force); 4 the model of
   CodeTemplate / _replace_wildcards gives another pattern text than the one that was parsed *)
Definition run_case (c : case) : N :=
  let ms := model_matches c in
  if negb (text_eqb (replace_wildcards (c_user c)) (c_model c)) then 4%N
  else if negb (list_eqb obs_eqb (map obs_of ms) (c_obs c)) then 1%N
  else if no_wild (c_body c) && negb (forallb (sound_on c) ms) then 3%N
  else 0%N.

Fixpoint mismatches_from (i : N) (cs : list case) : list (N * N) :=
  match cs with
  | [] => []
  | c :: r =>
      let code := run_case c in
      if N.eqb code 0 then mismatches_from (N.succ i) r else (i, code) :: mismatches_from (N.succ i) r
  end.
Definition mismatches (cs : list case) : list (N * N) := mismatches_from 0 cs.

(* cases inside the theorems' domain (searched tree free of reserved names, no list directly inside a
   list in tree or pattern) and number of matches *)
Definition count_dom (cs : list case) : N :=
  N.of_nat (length (filter (fun c => no_wild (c_body c) && shape_ok (c_body c) && shape_ok (c_pat c)) cs)).
Definition count_matches (cs : list case) : N :=
  N.of_nat (fold_right (fun c n => (length (model_matches c) + n)%nat) 0%nat cs).

(* ---- restructuring: Restructure(project, pattern, goal, args).get_changes() on a one-module project
   or restructure.replace(code, pattern, goal); both are r_same = true, r_sorted = true (the code as it
   stands); false selects the legacy variants ---- *)
Record rcase := {
  r_src : text;
  r_body : tree;
  r_pat : tree;
  r_goal : text;                  (* the goal as given to rope; cut by the CodeTemplate model *)
  r_exact : list text;
  r_same : bool;
  r_sorted : bool;                (* true: statement matches replaced in source order (220be77) *)
  r_code : N;                     (* rope: 0 no change, 1 new text, 2 BadNameInCheckError *)
  r_text : text
}.

Definition model_restructure (c : rcase) : cres :=
  restructure_text (acc_default (r_exact c)) (r_src c) (cut (r_goal c)) (r_sorted c) (r_same c) (r_body c) (r_pat c).

(* 0 agree; 1 differ; 2 model ran out of fuel *)
Definition run_rcase (c : rcase) : N :=
  match model_restructure c with
  | CNone => if N.eqb (r_code c) 0 then 0 else 1
  | CText t => if N.eqb (r_code c) 1 && text_eqb t (r_text c) then 0 else 1
  | CBad => if N.eqb (r_code c) 2 then 0 else 1
  | CFuel => 2
  end%N.

Fixpoint rmismatches_from (i : N) (cs : list rcase) : list (N * N) :=
  match cs with
  | [] => []
  | c :: r =>
      let code := run_rcase c in
      if N.eqb code 0 then rmismatches_from (N.succ i) r else (i, code) :: rmismatches_from (N.succ i) r
  end.
Definition rmismatches (cs : list rcase) : list (N * N) := rmismatches_from 0 cs.

(* ---- similarfinder.make_pattern ---- *)
Record mcase := {
  m_src : text;
  m_body : tree;
  m_vars : list text;
  m_out : text
}.
Definition run_mcase (c : mcase) : N :=
  if text_eqb (make_pattern (m_src c) (m_body c) (m_vars c)) (m_out c) then 0%N else 1%N.
Fixpoint mmismatches_from (i : N) (cs : list mcase) : list (N * N) :=
  match cs with
  | [] => []
  | c :: r =>
      let code := run_mcase c in
      if N.eqb code 0 then mmismatches_from (N.succ i) r else (i, code) :: mmismatches_from (N.succ i) r
  end.
Definition mmismatches (cs : list mcase) : list (N * N) := mmismatches_from 0 cs.

(* ---- CodeTemplate: placeholder occurrences and substitution ---- *)
Record tcase := {
  t_text : text;
  t_occ : list (text * N * N);            (* rope: (name, start, end) of CodeTemplate.names, by start *)
  t_map : list (text * text);             (* a mapping for every name *)
  t_subst : text                          (* rope: CodeTemplate.substitute(mapping) *)
}.
Definition occ_eqb (a b : text * N * N) : bool :=
  text_eqb (fst (fst a)) (fst (fst b)) && N.eqb (snd (fst a)) (snd (fst b)) && N.eqb (snd a) (snd b).
Definition run_tcase (c : tcase) : N :=
  if negb (list_eqb occ_eqb (find_names (t_text c)) (t_occ c)) then 1%N
  else if negb (text_eqb (substitute (cut (t_text c)) (t_map c)) (t_subst c)) then 2%N
  else 0%N.
Fixpoint tmismatches_from (i : N) (cs : list tcase) : list (N * N) :=
  match cs with
  | [] => []
  | c :: r =>
      let code := run_tcase c in
      if N.eqb code 0 then tmismatches_from (N.succ i) r else (i, code) :: tmismatches_from (N.succ i) r
  end.
Definition tmismatches (cs : list tcase) : list (N * N) := tmismatches_from 0 cs.

(* ---- precedence printer: the model of coq/C19/Precedence.v against CPython's ast.unparse ----
   p_goal / p_sg: a goal expression and the expressions bound to its wildcards, converted by the harness
   with ast.unparse's own level tables; p_fits: CPython's printer gives the same text whether the
   bound code is inserted into the tree or its text into the goal's text; p_tokens: the tokens of
   ast.unparse of the substituted tree. *)
From RopeVerif.C19 Require Import Precedence.
Record pcase := {
  p_goal : pexpr;
  p_sg : list (N * pexpr);
  p_ctx : nat;
  p_fits : bool;
  p_tokens : list text
}.
Definition sg_of (l : list (N * pexpr)) (w : N) : pexpr :=
  match find (fun kv => N.eqb w (fst kv)) l with Some kv => snd kv | None => PHole w end.
Definition flat_tokens (ts : list token) : list text :=
  map (fun t => match t with TTok x => x | TOpen => [40%N] | TClose => [41%N] | THole _ => [36%N] end) ts.
(* 0 agree; 1 [fits] differs from CPython's printer condition; 2 the printed tokens differ *)
Definition run_pcase (c : pcase) : N :=
  let sg := sg_of (p_sg c) in
  if negb (Bool.eqb (fits sg (p_ctx c) (p_goal c)) (p_fits c)) then 1%N
  else if negb (list_eqb text_eqb (flat_tokens (pp (p_ctx c) (psubst sg (p_goal c)))) (p_tokens c)) then 2%N
  else 0%N.
Fixpoint pmismatches_from (i : N) (cs : list pcase) : list (N * N) :=
  match cs with
  | [] => []
  | c :: r =>
      let code := run_pcase c in
      if N.eqb code 0 then pmismatches_from (N.succ i) r else (i, code) :: pmismatches_from (N.succ i) r
  end.
Definition pmismatches (cs : list pcase) : list (N * N) := pmismatches_from 0 cs.

(* restructuring cases inside the domain of C19_untouched_outside_expr: expression matches, the module
   node spans the source and is no match, the outermost matched nodes have sane pairwise disjoint regions *)
Definition roots_okb (len : N) (roots : list tree) : bool :=
  forallb (fun n => N.leb (node_start n) (node_end n) && N.leb (node_end n) len) roots &&
  (fix pw (l : list tree) : bool :=
     match l with
     | [] => true
     | a :: r => forallb (fun b => N.leb (node_end a) (node_start b) || N.leb (node_end b) (node_start a)) r && pw r
     end) roots.
Definition in_expr_domain (c : rcase) : bool :=
  let ms := get_matches (acc_default (r_exact c)) (r_body c) (create_pattern (r_pat c)) 0 (tlen (r_src c)) None in
  match ms with
  | MExpr _ _ :: _ =>
      let matched := map (fun a => (match_ast_id a, a)) ms in
      N.eqb (node_start (r_body c)) 0 && N.eqb (node_end (r_body c)) (tlen (r_src c))
      && match find_matched matched (r_body c) with None => true | Some _ => false end
      && roots_okb (tlen (r_src c)) (nearest matched (r_body c))
  | _ => false
  end.
Definition count_rdom (cs : list rcase) : N := N.of_nat (length (filter in_expr_domain cs)).
Definition count_rexpr (cs : list rcase) : N :=
  N.of_nat (length (filter (fun c => match get_matches (acc_default (r_exact c)) (r_body c) (create_pattern (r_pat c)) 0
                                             (tlen (r_src c)) None with MExpr _ _ :: _ => true | _ => false end) cs)).
