(* C19 — model of rope.refactor.restructure._ChangeComputer (text-level replacement) and of
   codeanalyze.ChangeCollector.  Definitions only.  Offsets are N, texts are lists of code points;
   sources are assumed to use "\n" line ends and ASCII white space only (what the harness generates). *)
From Coq Require Import List NArith Bool.
From RopeVerif.Lib Require Import Text.
From RopeVerif.C19 Require Import Tree Matcher.
Import ListNotations.

(* text[a:b] for 0 <= a, b *)
Definition slice (t : text) (a b : N) : text :=
  firstn (N.to_nat (b - a)) (skipn (N.to_nat a) t).
Definition tlen (t : text) : N := N.of_nat (length t).

(* ---- ChangeCollector ---- *)
Definition change := (N * N * text)%type.
Definition ch_le (a b : change) : bool :=
  let '(s1, e1, _) := a in let '(s2, e2, _) := b in
  N.ltb s1 s2 || (N.eqb s1 s2 && N.leb e1 e2).

(* list.sort(key=lambda x: x[:2]) : stable insertion sort *)
Fixpoint insert_ch (c : change) (l : list change) : list change :=
  match l with
  | [] => [c]
  | d :: r => if ch_le d c then d :: insert_ch c r else c :: l
  end.
Definition sort_ch (l : list change) : list change :=
  fold_left (fun acc c => insert_ch c acc) l [].

Fixpoint build (t : text) (last : N) (cs : list change) : text :=
  match cs with
  | [] => if N.ltb last (tlen t) then slice t last (tlen t) else []
  | (s, e, new) :: r => slice t last s ++ new ++ build t e r
  end.

(* get_changed(), with "None" (no change recorded or text unchanged) read as the unchanged text *)
Definition apply_changes (t : text) (cs : list change) : text :=
  match cs with
  | [] => t
  | _ => build t 0 (sort_ch cs)
  end.

(* ---- CodeTemplate after _find_names: literal pieces and wildcard occurrences ---- *)
Inductive piece := PLit (t : text) | PVar (w : text).
Definition template := list piece.

Fixpoint goal_names (g : template) : list text :=
  match g with
  | [] => []
  | PLit _ :: r => goal_names r
  | PVar w :: r => if existsb (text_eqb w) (goal_names r) then goal_names r else w :: goal_names r
  end.

Fixpoint substitute (g : template) (texts : list (text * text)) : text :=
  match g with
  | [] => []
  | PLit t :: r => t ++ substitute r texts
  | PVar w :: r =>
      (match find (fun kv => text_eqb w (fst kv)) texts with
       | Some kv => snd kv
       | None => []
       end) ++ substitute r texts
  end.

(* ---- _auto_indent ---- *)
Definition is_nl (c : N) : bool := N.eqb c 10.
Definition is_space (c : N) : bool :=
  N.eqb c 32 || N.eqb c 9 || N.eqb c 10 || N.eqb c 13 || N.eqb c 11 || N.eqb c 12.

Fixpoint take_line (t : text) : text :=          (* up to, not including, the next "\n" *)
  match t with
  | [] => []
  | c :: r => if is_nl c then [] else c :: take_line r
  end.

(* the line containing offset [off] (SourceLinesAdapter.get_line(get_line_number(off))) *)
Definition line_at (src : text) (off : N) : text :=
  rev (take_line (rev (firstn (N.to_nat off) src))) ++ take_line (skipn (N.to_nat off) src).

(* codeanalyze.count_line_indents *)
Fixpoint count_indents (line : text) (n : N) : N :=
  match line with
  | [] => 0
  | c :: r => if N.eqb c 32 then count_indents r (n + 1)
              else if N.eqb c 9 then count_indents r (n + 8)
              else n
  end.

(* str.splitlines(True) for "\n" line ends *)
Fixpoint splitlines (t : text) (cur : text) : list text :=
  match t with
  | [] => match cur with [] => [] | _ => [rev cur] end
  | c :: r => if is_nl c then rev (c :: cur) :: splitlines r [] else splitlines r (c :: cur)
  end.

Definition blank (line : text) : bool := forallb is_space line.

Definition auto_indent (src : text) (off : N) (t : text) : text :=
  let ind := repeat 32%N (N.to_nat (count_indents (line_at src off) 0)) in
  match splitlines t [] with
  | [] => []
  | first :: rest =>
      first ++ flat_map (fun ln => if blank ln then ln else ind ++ ln) rest
  end.

(* ---- _ChangeComputer ---- *)
Inductive tres := TOk (t : text) | TBad | TFuel.

Inductive lres {A} := LOk (l : list A) | LBad | LFuel.
Arguments lres : clear implicits.

Fixpoint map_tres {A} (f : A -> tres) (l : list A) : lres text :=
  match l with
  | [] => LOk []
  | x :: r =>
      match f x with
      | TOk t => match map_tres f r with
                 | LOk ts => LOk (t :: ts)
                 | other => other
                 end
      | TBad => LBad
      | TFuel => LFuel
      end
  end.

Section Computer.
  Variable src : text.
  Variable goal : template.
  Variable is_expression : bool.
  (* matched_asts: node id -> match (keys are ids of expression nodes, all >= 1) *)
  Variable matched : list (N * amatch).

  Definition find_matched (t : tree) : option amatch :=
    match t with
    | Node i _ _ _ _ =>
        match find (fun kv => N.eqb i (fst kv)) matched with
        | Some kv => Some (snd kv)
        | None => None
        end
    | _ => None
    end.

  (* _get_nearest_roots *)
  Fixpoint nearest (t : tree) : list tree :=
    match t with
    | Node _ _ _ _ ks =>
        (fix over (ks : list tree) : list tree :=
           match ks with
           | [] => []
           | k :: r =>
               (match k with
                | Node _ _ _ _ _ =>
                    match find_matched k with Some _ => [k] | None => nearest k end
                | Lst l =>
                    (fix items (l : list tree) : list tree :=
                       match l with
                       | [] => []
                       | x :: q =>
                           (match x with
                            | Node _ _ _ _ _ =>
                                match find_matched x with Some _ => [x] | None => nearest x end
                            | _ => []
                            end) ++ items q
                       end) l
                | _ => []
                end) ++ over r
           end) ks
    | _ => []
    end.

  Definition match_mapping (a : amatch) : mapping :=
    match a with MExpr _ m => m | MStmts _ m => m end.
  Definition match_ast_id (a : amatch) : N :=
    match a with MExpr t _ => node_id t | MStmts _ _ => 0%N end.

  (* _get_matched_text, given _get_node_text *)
  Definition matched_text_with (rec : tree -> bool -> tres) (a : amatch) : tres :=
    match
      map_tres (fun w =>
                  match lookup (match_mapping a) w with
                  | None => TBad                          (* BadNameInCheckError *)
                  | Some node =>
                      rec node (is_expression && N.eqb (match_ast_id a) (node_id node))
                  end) (goal_names goal)
    with
    | LOk ts =>
        TOk (auto_indent src (fst (match_region a)) (substitute goal (combine (goal_names goal) ts)))
    | LBad => TBad
    | LFuel => TFuel
    end.

  (* _get_node_text(node, force) *)
  Fixpoint node_text (fuel : nat) (t : tree) (force : bool) : tres :=
    match fuel with
    | O => TFuel
    | Datatypes.S f =>
        match (if force then None else find_matched t) with
        | Some a => matched_text_with (node_text f) a
        | None =>
            let s := node_start t in
            let main := slice src s (node_end t) in
            match map_tres (fun r => node_text f r false) (nearest t) with
            | LOk ts =>
                TOk (apply_changes main
                       (map (fun rt => ((node_start (fst rt) - s)%N, (node_end (fst rt) - s)%N, snd rt))
                            (combine (nearest t) ts)))
            | LBad => TBad
            | LFuel => TFuel
            end
        end
    end.
End Computer.

Inductive cres := CNone | CText (t : text) | CBad | CFuel.

(* the statement loop of get_changed: matches in the order found, overlapping ones skipped *)
Fixpoint stmt_changes (src : text) (goal : template) (ms : list amatch) (last_end : N)
  : lres change :=
  match ms with
  | [] => LOk []
  | a :: r =>
      let '(s, e) := match_region a in
      if N.ltb s last_end then stmt_changes src goal r last_end
      else
        match matched_text_with src goal false
                (fun node _ => TOk (slice src (node_start node) (node_end node))) a with
        | TOk t =>
            match stmt_changes src goal r e with
            | LOk cs => LOk ((s, e, t) :: cs)
            | other => other
            end
        | TBad => LBad
        | TFuel => LFuel
        end
  end.

(* sorted(self.matches, key=lambda match: match.get_region()): stable insertion sort *)
Definition region_le (a b : amatch) : bool :=
  let '(s1, e1) := match_region a in let '(s2, e2) := match_region b in
  N.ltb s1 s2 || (N.eqb s1 s2 && N.leb e1 e2).
Fixpoint insert_m (a : amatch) (l : list amatch) : list amatch :=
  match l with
  | [] => [a]
  | b :: r => if region_le b a then b :: insert_m a r else a :: l
  end.
Definition sort_matches (l : list amatch) : list amatch :=
  fold_left (fun acc a => insert_m a acc) l [].

(* _ChangeComputer(code, ast, lines, goal, matches).get_changed()
   The code as it stands is sorted_stmts = true, same_tree = true (what the correspondence runs).
   The two flags keep the legacy behaviour in the model for the lemmas that document the repaired defects:
   sorted_stmts = false: statement matches taken in the order found (before 220be77);
   same_tree = false: restructure.replace before 52b3ff8, whose matches came from a second parse of the
   code, so that no node of [body] was a key of matched_asts. *)
Definition change_computer (src : text) (goal : template) (sorted_stmts same_tree : bool) (body : tree)
           (ms : list amatch) : cres :=
  match ms with
  | MExpr _ _ :: _ =>
      let matched := if same_tree then map (fun a => (match_ast_id a, a)) ms else [] in
      match node_text src goal true matched (2 * length (nodes body) + 4) body false with
      | TOk r => if text_eqb r src then CNone else CText r
      | TBad => CBad
      | TFuel => CFuel
      end
  | _ =>
      match stmt_changes src goal (if sorted_stmts then sort_matches ms else ms) 0 with
      | LOk [] => CNone
      | LOk cs => let r := apply_changes src cs in if text_eqb r src then CNone else CText r
      | LBad => CBad
      | LFuel => CFuel
      end
  end.

(* Restructure.get_changes for one module / restructure.replace *)
Definition restructure_text (acc : text -> tree -> bool) (src : text) (goal : template)
           (sorted_stmts same_tree : bool) (body pat : tree) : cres :=
  change_computer src goal sorted_stmts same_tree body
    (get_matches acc body (create_pattern pat) 0 (tlen src) None).

(* ---- similarfinder.make_pattern(code, variables): every Name spelled like a variable becomes
   ${variable} (used by extract / use-function to build their patterns) ---- *)
Definition wild_name (v : text) : tree :=
  Node 0 0 0 cls_Name [Atom ty_str (get_var v); Ctx 0].
Definition dollar (v : text) : text := [36; 123]%N ++ v ++ [125]%N.       (* "${v}" *)
Definition make_pattern (src : text) (body : tree) (vars : list text) : text :=
  apply_changes src
    (flat_map (fun v =>
                 map (fun a => (fst (match_region a), snd (match_region a), dollar v))
                     (get_matches (acc_default [v]) body (PExpr (wild_name v)) 0 (tlen src) None))
              vars).
