(* C19 — a precedence-annotated expression printer (the scheme of CPython's ast.unparse: every
   construct has a level, every operand position a required level, an operand whose level is below
   the required one is parenthesised) and textual substitution of goal wildcards.  Definitions only.

   pexpr is generic: a node is its level and a sequence of literal tokens and operand positions, e.g.
   a + b   = PNode 12 [ISub 12 a; ITok "+"; ISub 13 b]      (left associative)
   a ** b  = PNode 15 [ISub 16 a; ITok "**"; ISub 15 b]     (right associative)
   f(a)    = PNode 17 [ISub 17 f; ITok "("; ISub 1 a; ITok ")"]
   An atom is a node of the highest level without operands. *)
From Coq Require Import List NArith Bool PeanoNat.
From RopeVerif.Lib Require Import Text.
Import ListNotations.

Inductive pexpr :=
| PHole (w : N)
| PNode (lvl : nat) (items : list pitem)
with pitem :=
| ITok (t : text)
| ISub (ctx : nat) (e : pexpr).

Inductive token := TTok (t : text) | THole (w : N) | TOpen | TClose.

Definition level (e : pexpr) : option nat :=
  match e with PHole _ => None | PNode l _ => Some l end.

(* pp ctx e: parenthesised iff the level of e is below the required level *)
Fixpoint pp (ctx : nat) (e : pexpr) : list token :=
  match e with
  | PHole w => [THole w]
  | PNode l items =>
      let body :=
        (fix go (items : list pitem) : list token :=
           match items with
           | [] => []
           | ITok t :: r => TTok t :: go r
           | ISub c s :: r => pp c s ++ go r
           end) items in
      if Nat.ltb l ctx then TOpen :: body ++ [TClose] else body
  end.

(* tree-level substitution of the wildcards *)
Fixpoint psubst (sg : N -> pexpr) (e : pexpr) : pexpr :=
  match e with
  | PHole w => sg w
  | PNode l items =>
      PNode l ((fix go (items : list pitem) : list pitem :=
                  match items with
                  | [] => []
                  | ITok t :: r => ITok t :: go r
                  | ISub c s :: r => ISub c (psubst sg s) :: go r
                  end) items)
  end.

(* text-level substitution: what _get_matched_text does with the texts of the bound nodes *)
Definition tsub (tau : N -> list token) (ts : list token) : list token :=
  flat_map (fun t => match t with THole w => tau w | _ => [t] end) ts.

(* the bound expression may stand at an operand position requiring level c without parentheses *)
Definition fits_at (sg : N -> pexpr) (c : nat) (e : pexpr) : bool :=
  match e with
  | PHole w => match sg w with PNode l _ => Nat.leb c l | PHole _ => true end
  | PNode _ _ => true
  end.

(* every wildcard position of the goal (and the goal's own position, required level c) is fit *)
Fixpoint fits (sg : N -> pexpr) (c : nat) (e : pexpr) : bool :=
  fits_at sg c e &&
  match e with
  | PHole _ => true
  | PNode _ items =>
      (fix go (items : list pitem) : bool :=
         match items with
         | [] => true
         | ITok _ :: r => go r
         | ISub c' s :: r => fits sg c' s && go r
         end) items
  end.

Fixpoint no_hole (e : pexpr) : bool :=
  match e with
  | PHole _ => false
  | PNode _ items =>
      (fix go (items : list pitem) : bool :=
         match items with
         | [] => true
         | ITok _ :: r => go r
         | ISub _ s :: r => no_hole s && go r
         end) items
  end.
