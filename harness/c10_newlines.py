"""C10, oracle-only stream: composite changes over files with Windows (CRLF) / old Mac (CR) line ends.

The Coq model of C10 treats contents as opaque texts; the newline translation that
_ResourceOperations.write_file applies (\\n -> the convention the File object remembers) is not in it.
This stream therefore uses the independent snapshot oracle only (c10.judge): a composite that edits the
same file several times - through texts with and without line breaks - and then fails at any primitive
call must leave every file byte-for-byte as it was, line ends included, and the history lists untouched.
It draws from its own PRNG (derived from the seed) so that the main stream is not shifted.
"""
import random

from harness import c10_lib as L

NL_FILES = ["x = 1\r\ny = 2\r\n", "A\r\nB\r\n", "x = 1\ry = 2\r", "x = 1\ny = 2\n", "é = 1\r\n", "pass"]
NL_TEXTS = ["pass", "", "x = 3\ny = 4\n", "z = 0\n", "a\nb\nc", "q"]


def CS(n, *children):
    return ["CS", "set %d" % n, list(children)]


def gen(rng, n):
    names = ["a.py", "b.txt", "c.py"]
    tree = {}
    for nm in names:
        if rng.random() < 0.8 or not tree:
            tree[nm] = rng.choice(NL_FILES)
    files = sorted(tree)
    kids = []
    f = rng.choice(files)
    for _ in range(rng.randint(2, 4)):
        kids.append(["CC", f if rng.random() < 0.75 else rng.choice(files), rng.choice(NL_TEXTS), None])
    tail = rng.random()
    if tail < 0.6:
        kids.append(["CR", "new%d" % n, rng.random() < 0.4, False])
    elif tail < 0.8:
        kids.append(["MV", rng.choice(files), "moved%d" % n, False])
    else:
        kids.append(["CC", rng.choice(files), rng.choice(NL_TEXTS), None])
    setup = []
    if rng.random() < 0.4:
        # the file has been edited (and the edit possibly undone) earlier in the session
        setup.append(["do", CS(1000 + n, ["CC", f, rng.choice(NL_TEXTS), None])])
        if rng.random() < 0.5:
            setup.append(["undo"])
    op = ["do", CS(n, *kids)]
    if setup and setup[-1] == ["undo"] and rng.random() < 0.3:
        op = ["redo"]
    elif setup and rng.random() < 0.25:
        op = ["undo"]
    return {"tree": tree, "limit": 100, "setup": setup, "op": op, "name": "newline stream %d" % n}


def run(ctx, judge, replay_obj):
    rng = random.Random("C10-newlines-%d" % ctx.seed)
    n = ctx.scale(40, 300)
    total = failing = 0
    for i in range(n):
        scn = gen(rng, i)
        clean = L.execute(scn)
        if clean.build_error is not None:
            ctx.count("newline_stream:unbuildable")
            continue
        v, text = judge(clean)
        if v in ("atomicity", "bookkeeping", "swallowed"):
            ctx.violation(replay_obj(scn, clean, v, text, "newline-stream:" + v), "C10 (line ends): " + text)
        for k in range(clean.calls):
            r = L.execute(scn, flt=k)
            total += 1
            v, text = judge(r)
            ctx.count("newline_stream:oracle:%s" % v.split(" ")[0])
            rolled = r.raised and any(fwd and st == "ok" and name != "read" for (name, fwd, st) in r.log)
            ctx.case(("newline", sorted(scn["tree"].items()), scn["setup"], scn["op"], k), nontrivial=bool(rolled))
            ctx.traces += 1
            if v in ("atomicity", "bookkeeping", "swallowed"):
                failing += 1
                ctx.violation(replay_obj(scn, r, v, text, "newline-stream:" + v),
                              "C10 (line ends): " + text)
                break
        if ctx.too_many(9):
            break
    ctx.extra["newline_stream_runs"] = total
    ctx.extra["newline_stream_scenarios"] = n
