"""C08 — translation of CPython's ast into the Gallina type `ast` of coq/C08/Fragment.v, for modules whose nodes all
belong to the transcribed template table.  `template_of` of the translated term must equal the template tree captured
from the running walker (checked in Coq, Runner.template_ok): this is what ties the table -- and with it the
exact-region theorem C08_exact_fragment -- to the `_<NodeType>` methods of rope."""
import ast

OPS = {"And": 1, "Or": 2, "Add": 3, "Sub": 4, "Mult": 5, "Div": 6, "Mod": 7, "Pow": 8, "MatMult": 9, "LShift": 10,
       "RShift": 11, "BitOr": 12, "BitAnd": 13, "BitXor": 14, "FloorDiv": 15, "Invert": 16, "Not": 17, "UAdd": 18,
       "USub": 19, "Eq": 20, "NotEq": 21, "Lt": 22, "LtE": 23, "Gt": 24, "GtE": 25, "Is": 26, "IsNot": 27, "In": 28,
       "NotIn": 29}


class NotInTable(Exception):
    pass


def to_ast(tree, src, off_of, g_txt):
    """Gallina term for `tree` (an ast.Module); off_of(node) -> offset of the node's first character."""

    def lst(items):
        return "[" + "; ".join(items) + "]"

    def opt(x):
        return "None" if x is None else "(Some %s)" % x

    def op(o):
        return "(op_tokens %d)" % OPS[type(o).__name__]

    def is_elif(n):
        o = off_of(n)
        return src[o:o + 4] == "elif"

    def body(stmts):
        return lst([stmt(s) for s in stmts])

    def stmt(n):
        if isinstance(n, ast.Expr):
            return "(AExpr %s)" % expr(n.value)
        if isinstance(n, ast.Assign) and n.type_comment is None:
            return "(AAssign %s %s)" % (lst([expr(t) for t in n.targets]), expr(n.value))
        if isinstance(n, ast.Return):
            return "(AReturn %s)" % opt(None if n.value is None else expr(n.value))
        if isinstance(n, ast.Pass):
            return "APass"
        if isinstance(n, ast.If):
            oe = len(n.orelse) == 1 and isinstance(n.orelse[0], ast.If) and is_elif(n.orelse[0])
            return "(AIf %s %s %s %s %s)" % ("true" if is_elif(n) else "false", expr(n.test), body(n.body),
                                            body(n.orelse), "true" if oe else "false")
        if isinstance(n, ast.While):
            return "(AWhile %s %s %s)" % (expr(n.test), body(n.body), body(n.orelse))
        if isinstance(n, ast.For) and n.type_comment is None:
            return "(AFor %s %s %s %s)" % (expr(n.target), expr(n.iter), body(n.body), body(n.orelse))
        if isinstance(n, ast.FunctionDef):
            a = n.args
            if n.decorator_list or getattr(n, "type_params", None) or n.returns is not None or a.posonlyargs \
                    or a.kwonlyargs or a.kw_defaults or n.type_comment is not None:
                raise NotInTable("FunctionDef shape")
            if any(x.annotation is not None for x in a.args + [y for y in (a.vararg, a.kwarg) if y is not None]):
                raise NotInTable("annotation")
            defaults = [None] * (len(a.args) - len(a.defaults)) + list(a.defaults)
            params = lst(["(%s, %s)" % (g_txt(x.arg), opt(None if d is None else expr(d)))
                          for x, d in zip(a.args, defaults)])
            return "(AFunctionDef %s %s %s %s %s)" % (
                g_txt(n.name), params, opt(None if a.vararg is None else g_txt(a.vararg.arg)),
                opt(None if a.kwarg is None else g_txt(a.kwarg.arg)), body(n.body))
        if isinstance(n, ast.Import):
            return "(AImport %s)" % lst(["(%s, %s)" % (lst([g_txt(p) for p in al.name.split(".")]),
                                                       opt(None if al.asname is None else g_txt(al.asname)))
                                         for al in n.names])
        raise NotInTable(type(n).__name__)

    def expr(n):
        if isinstance(n, ast.Name):
            return "(AName %s)" % g_txt(n.id)
        if isinstance(n, ast.Constant):
            v = n.value
            if isinstance(v, (str, bytes)):
                return "AConstRegex"
            if v is True or v is False or v is None:
                return "(AConstTok %s)" % g_txt(str(v))
            if v is Ellipsis:
                return "(AConstTok %s)" % g_txt("...")
            if isinstance(v, (int, float, complex)):
                return "AConstRegex"
            raise NotInTable("constant")
        if isinstance(n, ast.Attribute):
            return "(AAttr %s %s)" % (expr(n.value), g_txt(n.attr))
        if isinstance(n, ast.Call):
            def key(x):
                y = x.value if isinstance(x, ast.keyword) else x
                return (y.lineno, y.col_offset)
            args = sorted([*n.args, *n.keywords], key=key)
            return "(ACall %s %s)" % (expr(n.func), lst([arg(x) for x in args]))
        if isinstance(n, ast.Starred):
            return "(AStarred %s)" % expr(n.value)
        if isinstance(n, ast.UnaryOp):
            return "(AUnary %s %s)" % (op(n.op), expr(n.operand))
        if isinstance(n, ast.BinOp):
            return "(ABin %s %s %s)" % (expr(n.left), op(n.op), expr(n.right))
        if isinstance(n, ast.BoolOp):
            return "(ABool (op_token1 %d) %s)" % (OPS[type(n.op).__name__], lst([expr(v) for v in n.values]))
        if isinstance(n, ast.Compare):
            return "(ACompare %s %s)" % (expr(n.left), lst(["(%s, %s)" % (op(o), expr(c))
                                                             for o, c in zip(n.ops, n.comparators)]))
        if isinstance(n, ast.Subscript):
            return "(ASubscript %s %s)" % (expr(n.value), expr(n.slice))
        if isinstance(n, ast.Tuple):
            return "(ATuple %s)" % lst([expr(e) for e in n.elts])
        if isinstance(n, ast.List):
            return "(AList %s)" % lst([expr(e) for e in n.elts])
        raise NotInTable(type(n).__name__)

    def arg(x):
        if isinstance(x, ast.keyword):
            return "(AKeyword %s %s)" % (opt(None if x.arg is None else g_txt(x.arg)), expr(x.value))
        return expr(x)

    if not isinstance(tree, ast.Module):
        raise NotInTable("root")
    return "(AModule %s)" % body(tree.body)
