"""C12 part B — history and object-db persistence across close/reopen.

(a) unit level: generated change trees -> real ChangeToData -> pickle (protocol 2) -> DataToChange,
    compared in Coq with coq/C12/Persist.v (to_data / of_data), oracle: the reloaded change equals the
    original (class, paths, resource class File/Folder, contents, description, time).
(b) project level: real histories on a temp project (save_history / save_objectdb on), close, reopen:
    lists compared entry by entry, dependency closures of every entry compared, then every undo and redo
    replayed against tree snapshots recorded before the close; object db compared value by value and
    each ScopeInfo state pushed through the serializer correspondence.
"""
import os
import pickle
import shutil
import struct
import tempfile

from harness.common import g_N, g_bool, g_list, g_text, g_opt, g_nat

PHEADER = ("From Coq Require Import List NArith ZArith Bool.\nImport ListNotations.\n"
           "From RopeVerif.C12 Require Import Serializer Persist PersistRunner.\n")


def fbits(t):
    return struct.unpack(">Q", struct.pack(">d", float(t)))[0]


# ----------------------------------------------------------------------------- abstraction
def abstract(c):
    from rope.base import change as ch
    from rope.base.resources import Folder
    if isinstance(c, ch.ChangeSet):
        return ("set", c.description, [abstract(x) for x in c.changes], None if c.time is None else fbits(c.time))
    if isinstance(c, ch.ChangeContents):
        return ("contents", c.resource.path, c.new_contents, c.old_contents)
    if isinstance(c, ch.MoveResource):
        return ("move", c.resource.path, isinstance(c.resource, Folder), c.new_resource.path)
    if isinstance(c, ch.CreateResource):
        return ("create", c.resource.path, isinstance(c.resource, Folder))
    if isinstance(c, ch.RemoveResource):
        return ("remove", c.resource.path, isinstance(c.resource, Folder))
    raise TypeError(type(c))


def g_change(a):
    k = a[0]
    kind = lambda b: "RFolder" if b else "RFile"
    if k == "set":
        return "(CSet %s %s %s)" % (g_text(a[1]), g_list([g_change(x) for x in a[2]]),
                                    g_opt(None if a[3] is None else g_N(a[3])))
    if k == "contents":
        return "(CContents %s %s %s)" % (g_text(a[1]), g_text(a[2]), g_opt(None if a[3] is None else g_text(a[3])))
    if k == "move":
        return "(CMove %s %s %s)" % (g_text(a[1]), kind(a[2]), g_text(a[3]))
    if k == "create":
        return "(CCreate %s %s)" % (g_text(a[1]), kind(a[2]))
    if k == "remove":
        return "(CRemove %s %s)" % (g_text(a[1]), kind(a[2]))
    raise ValueError(k)


def g_data(d):
    if isinstance(d, bool):
        return "(DBool %s)" % g_bool(d)
    if isinstance(d, str):
        return "(DStr %s)" % g_text(d)
    if d is None:
        return "DNone"
    if isinstance(d, float):
        return "(DFloat %s)" % g_N(fbits(d))
    if isinstance(d, tuple):
        return "(DTuple %s)" % g_list([g_data(x) for x in d])
    if isinstance(d, list):
        return "(DList %s)" % g_list([g_data(x) for x in d])
    raise TypeError(type(d))


# ----------------------------------------------------------------------------- generators
NAMES = ["a.py", "b.py", "pkg", "pkg/m.py", "pkg/sub", "pkg/sub/n.py", "d", "d/x.txt", "é.py"]
TEXTS = ["", "x = 1\n", "x = 2\n", "def f():\n    return 'é'\n", "a\r\nb", "\ud800", "1"]


def gen_change(rng, project, depth=0):
    from rope.base import change as ch
    k = rng.random()
    if depth < 3 and k < 0.25:
        cs = ch.ChangeSet(rng.choice(["", "Renaming <x> to <y>", "multi\nline", "ünï"]),
                          rng.choice([None, 0.0, 1727300000.123456, 1e-300, 2.5]))
        for _ in range(rng.randint(0, 3)):
            cs.add_change(gen_change(rng, project, depth + 1))
        return cs
    path = rng.choice(NAMES)
    as_folder = rng.random() < 0.4
    res = project.get_folder(path) if as_folder else project.get_file(path)
    if k < 0.50:
        f = project.get_file(path)
        return ch.ChangeContents(f, rng.choice(TEXTS), rng.choice([None] + TEXTS))
    if k < 0.70:
        return ch.MoveResource(res, rng.choice(NAMES) + "2", exact=True)
    if k < 0.80:
        return ch.CreateResource(res)
    if k < 0.85:
        parent = project.get_folder(rng.choice(["", "pkg", "d"]))
        return ch.CreateFolder(parent, rng.choice(["nf", "z"]))
    if k < 0.90:
        parent = project.get_folder(rng.choice(["", "pkg", "d"]))
        return ch.CreateFile(parent, rng.choice(["nf.py", "z.txt"]))
    return ch.RemoveResource(res)


def has_folder_move(a):
    if a[0] == "move":
        return a[2]
    if a[0] == "set":
        return any(has_folder_move(x) for x in a[2])
    return False


# ----------------------------------------------------------------------------- (a) unit level
def unit_cases(ctx, project, n):
    from rope.base import change as ch
    cases = []
    for i in range(n):
        c = gen_change(ctx.rng, project)
        a = abstract(c)
        data = ch.ChangeToData()(c)
        data2 = pickle.loads(pickle.dumps(data, 2))
        err = None
        try:
            back = abstract(ch.DataToChange(project)(data2))
        except Exception as e:
            back, err = None, type(e).__name__
        cases.append((a, data2, back, err))
    return cases


def run_unit(ctx, project):
    n = ctx.scale(300, 3000)
    cases = unit_cases(ctx, project, n)
    terms = ["{| pc_change := %s; pc_data := %s; pc_back := %s |}" % (
        g_change(a), g_data(d), g_opt(None if b is None else g_change(b))) for (a, d, b, _) in cases]
    bodies = []
    shard = 300
    for s in range(0, len(terms), shard):
        bodies.append(PHEADER + "Definition cases : list pcase := %s.\n"
                      "Eval vm_compute in (pmismatches true cases).\nEval vm_compute in (pmismatches false cases).\n"
                      % g_list(terms[s:s + shard]).replace("; {|", ";\n {|"))
    outs = ctx.coq_files_parallel(bodies)
    mism_keep, mism_legacy = {}, {}
    for si, out in enumerate(outs):
        pairs = ctx.parse_pairs(out)
        for (i, code) in pairs[0]:
            mism_keep[si * shard + i] = code
        for (i, code) in pairs[1]:
            mism_legacy[si * shard + i] = code
    ctx.extra["persist_unit_cases"] = len(cases)
    legacy_code = bool(mism_keep) and not mism_legacy
    if legacy_code:
        # the code behaves like the model variant for which C12_folder_move_reload_refuted holds:
        # replay that lemma's witness on the implementation; it is the failing input.
        witness = ("move", "d", True, "e")
        if replay(ctx, {"kind": "change-data", "change": list(witness)}):
            ctx.violation({"kind": "change-data", "change": witness, "source": "witness of C12_folder_move_reload_refuted"},
                          "C12 history data: a folder move reloaded from saved history has become a file move "
                          "(selective undo after reopen loses its dependencies)")
            mism_keep = {}
    for idx, (a, d, b, err) in enumerate(cases):
        nontriv = a[0] == "set" and len(a[2]) > 0 or has_folder_move(a)
        ctx.case(("change", repr(a)), nontrivial=nontriv)
        ctx.traces += 1
        ctx.count("change:" + a[0])
        if has_folder_move(a):
            ctx.count("change:has_folder_move")
        rp = {"kind": "change-data", "change": a}
        if b != a:   # oracle: reloaded change differs from the original
            ctx.violation(dict(rp, reloaded=b, error=err),
                          "C12 history data: a change reloaded from its saved data differs from the original: %r -> %r" % (a, b))
        elif idx in mism_keep:
            ctx.violation(dict(rp, mismatch_code=mism_keep[idx], data=repr(d),
                               broken="correspondence RopeVerif.C12.PersistRunner.run_pcase (Persist.to_data/of_data vs ChangeToData/DataToChange); theorem C12_change_data_roundtrip no longer speaks about the code"),
                          "C12 history data: model and ChangeToData/DataToChange disagree on %r" % (a,), no_input=True)
        if ctx.too_many():
            break
    ctx.extra["persist_code_variant"] = "legacy (folder-ness of moves not stored)" if legacy_code else "kind-preserving"


# ----------------------------------------------------------------------------- (b) project level
def snapshot(root):
    snap = {}
    for dp, dns, fns in os.walk(root):
        rel = os.path.relpath(dp, root)
        if rel.split(os.sep)[0] == ".ropeproject":
            continue
        if rel != ".":
            snap[rel] = None
        for fn in fns:
            p = os.path.join(dp, fn)
            with open(p, "rb") as f:
                snap[os.path.normpath(os.path.join(rel, fn))] = f.read()
    return snap


def gen_history_ops(rng, n):
    """Abstract op list, interpreted against the live tree."""
    return [rng.random() for _ in range(n)], rng


def perform_history(rng, project, nops):
    """Perform nops changes through project.do; returns snapshots [S0..Sn] and op descriptions."""
    from rope.base import change as ch
    root = project.address
    snaps = [snapshot(root)]
    descr = []
    counter = [0]

    def fresh(prefix, suffix=""):
        counter[0] += 1
        return "%s%d%s" % (prefix, counter[0], suffix)

    for _ in range(nops):
        files = [r for r in project.get_files() if not r.path.startswith(".ropeproject")]
        folders = [project.root] + [r for r in _all_folders(project)]
        k = rng.random()
        c = None
        if (k < 0.35 and files) or (files and len(files) > 6):
            f = rng.choice(files)
            c = ch.ChangeContents(f, f.read() + rng.choice(["x = 1\n", "# é\n", "y = x\n"]))
            descr.append(("edit", f.path))
        elif k < 0.50:
            parent = rng.choice(folders)
            c = ch.CreateFile(parent, fresh("f", ".py"))
            descr.append(("create_file", parent.path))
        elif k < 0.62:
            parent = rng.choice(folders)
            c = ch.CreateFolder(parent, fresh("d"))
            descr.append(("create_folder", parent.path))
        elif k < 0.75 and files:
            f = rng.choice(files)
            dest = rng.choice(folders)
            newp = (dest.path + "/" if dest.path else "") + fresh("m", ".py")
            c = ch.MoveResource(f, newp, exact=True)
            descr.append(("move_file", f.path, newp))
        elif k < 0.88 and len(folders) > 1:
            d = rng.choice(folders[1:])
            cands = [x for x in folders if not (x.path == d.path or x.path.startswith(d.path + "/"))]
            dest = rng.choice(cands)
            newp = (dest.path + "/" if dest.path else "") + fresh("r")
            c = ch.MoveResource(d, newp, exact=True)
            descr.append(("move_folder", d.path, newp))
        else:
            cs = ch.ChangeSet(fresh("set "))
            parent = rng.choice(folders)
            nm = fresh("p")
            cs.add_change(ch.CreateFolder(parent, nm))
            sub = project.get_folder((parent.path + "/" if parent.path else "") + nm)
            cs.add_change(ch.CreateFile(sub, "__init__.py"))
            cs.add_change(ch.ChangeContents(project.get_file(sub.path + "/__init__.py"), "z = 0\n"))
            c = cs
            descr.append(("set", parent.path))
        project.do(c)
        snaps.append(snapshot(root))
    return snaps, descr


def _all_folders(project):
    res = []

    def walk(f):
        for c in f.get_folders():
            if c.name == ".ropeproject":
                continue
            res.append(c)
            walk(c)
    walk(project.root)
    return res


def dep_indices(history, lst):
    res = []
    for c in lst:
        deps = history._find_dependencies(lst, c)
        res.append(sorted(lst.index(d) for d in deps))
    return res


def one_history(ctx, hseed):
    import random
    from rope.base.project import Project
    from rope.base import change as ch
    rng = random.Random("hist-%d-%d" % (ctx.seed, hseed))
    root = tempfile.mkdtemp(prefix="ropeverif-c12-")
    replay = {"kind": "history", "hseed": hseed, "base_seed": ctx.seed}
    result = {"hcase": None, "objdb_values": [], "objdb_case": None}
    try:
        limit = rng.choice([2, 3, 100, 100])
        project = Project(root, save_history=True, save_objectdb=True, max_history_items=limit)
        nops = rng.randint(3, 9)
        snaps, descr = perform_history(rng, project, nops)
        replay["ops"] = descr
        replay["limit"] = limit
        # some undos to populate the redo list
        avail = len(project.history.undo_list)
        nundo = rng.randint(0, min(3, avail))
        for _ in range(nundo):
            project.history.undo()
        cur = nops - nundo
        if snapshot(root) != snaps[cur]:
            ctx.violation(dict(replay, phase="undo-before-close"), "C12 history: undo before close does not restore the snapshot")
            return result
        # object information from real static analysis
        objdb_before = None
        pyfiles = [f for f in project.get_python_files()]
        src = ("def f(a, b=1):\n    return (a, b)\n\nclass C:\n    def m(self, x):\n        return [x]\n\n"
               "r1 = f(1)\nr2 = f('s', b=C())\nr3 = C().m({1: 2})\n")
        mod = project.root.create_file("objinfo_%d.py" % hseed) if False else None
        if pyfiles:
            target = pyfiles[0]
            project.do(ch.ChangeContents(target, src))
            snaps = snaps[:cur + 1] + [snapshot(root)]
            nops = cur + 1
            cur = nops
            project.pycore.analyze_module(target)
        objdb_before = objdb_plain(project)
        to_data = ch.ChangeToData()
        undo_before = [abstract(c) for c in project.history.undo_list]
        redo_before = [abstract(c) for c in project.history.redo_list]
        data_before = ([to_data(c) for c in project.history.undo_list], [to_data(c) for c in project.history.redo_list])
        deps_before = (dep_indices(project.history, project.history.undo_list),
                       dep_indices(project.history, project.history.redo_list))
        reopen_times = rng.randint(1, 2)
        for ri in range(reopen_times):
            project.close()
            if ri == 0:
                try:
                    import json as _json
                    with open(os.path.join(root, ".ropeproject", "objectdb.json")) as jf:
                        result["objdb_case"] = (objdb_before, _json.load(jf))
                except Exception as e:  # the side file is part of what close() writes
                    ctx.violation(dict(replay, phase="objectdb-json", error=repr(e)),
                                  "C12 object db: the JSON side file written at close cannot be read back")
            project = Project(root, save_history=True, save_objectdb=True, max_history_items=limit)
        undo_after = [abstract(c) for c in project.history.undo_list]
        redo_after = [abstract(c) for c in project.history.redo_list]
        keep = undo_before[max(0, len(undo_before) - limit):]
        result["hcase"] = (limit, undo_before, redo_before, undo_after, redo_after)
        ctx.count("history:reopened_%dx" % reopen_times)
        ctx.count("history:limit=%d" % limit)
        if any(has_folder_move(a) for a in undo_before + redo_before):
            ctx.count("history:has_folder_move")
        if undo_after != keep or redo_after != redo_before:
            ctx.violation(dict(replay, phase="lists", before=[keep, redo_before], after=[undo_after, redo_after]),
                          "C12 history: undo/redo lists differ after close+reopen")
            return result
        ntrim = len(undo_before) - len(keep)
        deps_after = (dep_indices(project.history, project.history.undo_list),
                      dep_indices(project.history, project.history.redo_list))
        exp_undo_deps = [[i - ntrim for i in d] for d in deps_before[0][ntrim:]]
        if deps_after[0] != exp_undo_deps or deps_after[1] != deps_before[1]:
            ctx.violation(dict(replay, phase="dependencies", before=[exp_undo_deps, deps_before[1]], after=list(deps_after)),
                          "C12 history: selective-undo dependency closure of a reloaded change differs after reopen")
            return result
        objdb_after = objdb_plain(project)
        from harness.c12 import strict_eq
        if not strict_eq(objdb_before, objdb_after):
            ctx.violation(dict(replay, phase="objectdb", before=repr(objdb_before)[:1500], after=repr(objdb_after)[:1500]),
                          "C12 object db: stored object information differs after close+reopen")
            return result
        for path, scopes in objdb_before.items():
            for key, val in scopes.items():
                result["objdb_values"].append(val)
        # undo everything still listed, then redo everything, against the recorded snapshots
        pos = cur
        while project.history.undo_list:
            project.history.undo()
            pos -= 1
            if snapshot(root) != snaps[pos]:
                ctx.violation(dict(replay, phase="undo-after-reopen", step=pos),
                              "C12 history: undo after reopen does not restore the earlier tree (step %d)" % pos)
                return result
        while project.history.redo_list:
            project.history.redo()
            pos += 1
            if snapshot(root) != snaps[pos]:
                ctx.violation(dict(replay, phase="redo-after-reopen", step=pos),
                              "C12 history: redo after reopen does not re-create the later tree (step %d)" % pos)
                return result
        project.close()
    finally:
        shutil.rmtree(root, ignore_errors=True)
    return result


# ----------------------------------------------------------------------------- (c) twin projects


def _abs_lists(project):
    return ([abstract(c) for c in project.history.undo_list], [abstract(c) for c in project.history.redo_list])


def twin_history(ctx, hseed):
    """Project A is closed and reopened between sessions (and synced in mid-session); project B receives the
    same operations and is never closed. After every reopen A must have B's lists, dependency closures,
    object information; every later undo/redo/selective undo must produce the same tree in both."""
    import random
    from rope.base.project import Project
    from rope.base import change as ch
    from harness.c12 import strict_eq
    rng = random.Random("twin-%d-%d" % (ctx.seed, hseed))
    ra = tempfile.mkdtemp(prefix="ropeverif-c12a-")
    rb = tempfile.mkdtemp(prefix="ropeverif-c12b-")
    rp = {"kind": "twin", "hseed": hseed, "base_seed": ctx.seed, "ops": []}
    limit = rng.choice([2, 3, 100, 100, 100])
    kw = dict(save_history=True, save_objectdb=True, max_history_items=limit)
    # files with CRLF / CR line ends and a declared Latin-1 encoding exist from the start: edits of them
    # that are undone or redone after a reopen must restore the exact bytes
    for root in (ra, rb):
        with open(os.path.join(root, "w.py"), "wb") as f:
            f.write(b"x = 1\r\ny = 2\r\n")
        with open(os.path.join(root, "c.py"), "wb") as f:
            f.write(b"# -*- coding: latin-1 -*-\rs = '\xe9'\r")
    A = Project(ra, **kw)
    B = Project(rb, **kw)
    counter = [0]

    def fresh(prefix, suffix=""):
        counter[0] += 1
        return "%s%d%s" % (prefix, counter[0], suffix)

    def both(fn):
        ea = eb = None
        try:
            fn(A)
        except Exception as e:  # noqa
            ea = type(e).__name__
        try:
            fn(B)
        except Exception as e:  # noqa
            eb = type(e).__name__
        return ea, eb

    def compare(phase):
        if snapshot(ra) != snapshot(rb):
            ctx.violation(dict(rp, phase=phase, what="tree"), "C12 twin: project that was closed/reopened has a different tree from the never-closed control (%s)" % phase)
            return False
        la, lb = _abs_lists(A), _abs_lists(B)
        if la != lb:
            ctx.violation(dict(rp, phase=phase, what="lists", reopened=la, control=lb),
                          "C12 twin: undo/redo lists of the reopened project differ from the never-closed control (%s)" % phase)
            return False
        da = (dep_indices(A.history, A.history.undo_list), dep_indices(A.history, A.history.redo_list))
        db = (dep_indices(B.history, B.history.undo_list), dep_indices(B.history, B.history.redo_list))
        if da != db:
            ctx.violation(dict(rp, phase=phase, what="dependencies", reopened=da, control=db),
                          "C12 twin: dependency closures differ from the never-closed control (%s)" % phase)
            return False
        return True

    try:
        nsessions = rng.randint(2, 3)
        for sess in range(nsessions):
            nops = rng.randint(2, 7)
            for _ in range(nops):
                files = sorted(r.path for r in A.get_files() if not r.path.startswith(".ropeproject"))
                folders = [""] + sorted(f.path for f in _all_folders(A))
                k = rng.random()
                op = None
                if k < 0.22 and files:
                    path = rng.choice(files)
                    add = rng.choice(["x = 1\n", "# é\n", "y = x\n"])
                    op = ("edit", path, add)
                    fn = lambda P: P.do(ch.ChangeContents(P.get_file(path), P.get_file(path).read() + add))
                elif k < 0.34 or not files:
                    parent, name = rng.choice(folders), fresh("f", ".py")
                    op = ("create_file", parent, name)
                    fn = lambda P: P.do(ch.CreateFile(P.get_folder(parent), name))
                elif k < 0.42:
                    parent, name = rng.choice(folders), fresh("d")
                    op = ("create_folder", parent, name)
                    fn = lambda P: P.do(ch.CreateFolder(P.get_folder(parent), name))
                elif k < 0.50:
                    path, dest = rng.choice(files), rng.choice(folders)
                    newp = (dest + "/" if dest else "") + fresh("m", ".py")
                    op = ("move_file", path, newp)
                    fn = lambda P: P.do(ch.MoveResource(P.get_file(path), newp, exact=True))
                elif k < 0.58 and len(folders) > 1:
                    d = rng.choice(folders[1:])
                    cands = [x for x in folders if not (x == d or x.startswith(d + "/"))]
                    dest = rng.choice(cands)
                    newp = (dest + "/" if dest else "") + fresh("r")
                    op = ("move_folder", d, newp)
                    fn = lambda P: P.do(ch.MoveResource(P.get_folder(d), newp, exact=True))
                elif k < 0.66:
                    op = ("undo",)
                    fn = lambda P: P.history.undo()
                elif k < 0.72:
                    op = ("redo",)
                    fn = lambda P: P.history.redo()
                elif k < 0.77:
                    op = ("undo_drop",)
                    fn = lambda P: P.history.undo(drop=True)
                elif k < 0.80:
                    op = ("drop_all",)

                    def fn(P):
                        while P.history.undo_list:
                            P.history.undo(drop=True)
                elif k < 0.82:
                    op = ("clear",)
                    fn = lambda P: P.history.clear()
                elif k < 0.88 and len(A.history.undo_list) > 1:
                    i = rng.randrange(len(A.history.undo_list))
                    op = ("selective_undo", i)
                    fn = lambda P: P.history.undo(P.history.undo_list[i])
                elif k < 0.93 and files:
                    path = rng.choice(files)
                    src = ("def f(a, b=1):\n    return (a, b)\n\nclass C:\n    def m(self, x):\n        return [x]\n\n"
                           "r1 = f(%d)\nr2 = f('s', b=C())\nr3 = C().m({1: {2: 'x'}})\n" % counter[0])
                    op = ("analyze", path)

                    def fn(P):
                        P.do(ch.ChangeContents(P.get_file(path), src))
                        P.pycore.analyze_module(P.get_file(path))
                elif k < 0.985 and objdb_plain(A):
                    # object information added to an EXISTING (possibly loaded) scope without a new call
                    db = objdb_plain(A)
                    path = rng.choice(sorted(db))
                    if db[path]:
                        key = rng.choice(sorted(db[path]))
                        name = fresh("pn")
                        value = rng.choice([("builtin", "str"), ("builtin", "list", ("builtin", "str")), ("unknown",)])
                        op = ("add_pername", path, key, name, value)
                        fn = lambda P: P.pycore.object_info.objectdb.add_pername(path, key, name, value)
                    else:
                        op = ("sync",)
                        fn = lambda P: P.sync()
                else:
                    op = ("sync",)
                    fn = lambda P: P.sync()
                rp["ops"].append(op)
                ctx.count("twin_op:" + op[0])
                ea, eb = both(fn)
                if ea != eb:
                    ctx.violation(dict(rp, phase="op", errors=[ea, eb]),
                                  "C12 twin: operation %r raises %r in the reopened project but %r in the control" % (op, ea, eb))
                    return
                if not compare("after %r in session %d" % (op, sess)):
                    return
            # session boundary: only A is closed and reopened
            odb_b = objdb_plain(B)
            for _ in range(rng.randint(1, 2)):
                A.close()
                A = Project(ra, **kw)
            rp["ops"].append(("close_reopen",))
            # B's undo list is trimmed only when it is written; mirror History.write's trimming
            B.history._remove_extra_items()
            if not compare("after reopen %d" % sess):
                return
            odb_a = objdb_plain(A)
            if not strict_eq(odb_a, odb_b) and odb_a != odb_b:
                ctx.violation(dict(rp, phase="objectdb", reopened=repr(odb_a)[:1500], control=repr(odb_b)[:1500]),
                              "C12 twin: object information after reopen differs from what the never-closed control holds")
                return
        # wind the whole history back and forth in both
        steps = 0
        while A.history.undo_list and steps < 60:
            both(lambda P: P.history.undo())
            steps += 1
            if not compare("final undo %d" % steps):
                return
        while A.history.redo_list and steps < 120:
            both(lambda P: P.history.redo())
            steps += 1
            if not compare("final redo %d" % steps):
                return
    finally:
        for P in (A, B):
            try:
                P.close()
            except Exception:
                pass
        shutil.rmtree(ra, ignore_errors=True)
        shutil.rmtree(rb, ignore_errors=True)


def run_objdb_cases(ctx, ocases):
    """Model save_db on the live object db vs what close() wrote (the JSON side file holds every
    ScopeInfo.__getstate__); compared inside Coq (PersistRunner.run_ocase)."""
    from harness.c12 import g_pyval, g_jsval, all_strings
    from harness.common import g_pair
    if not ocases:
        return
    terms = []
    for (db, saved) in ocases:
        strs = []
        for path, scopes in db.items():
            for key, (ci, pn) in scopes.items():
                all_strings(ci, strs)
                all_strings(pn, strs)
        all_strings(saved, strs)
        digits = sorted({ord(c) for s in strs for c in s if c.isdigit()})
        g_db = g_list([g_pair(g_text(path), g_list([g_pair(g_text(k), g_pair(g_pyval(ci), g_pyval(pn)))
                                                    for k, (ci, pn) in scopes.items()]))
                       for path, scopes in db.items()])
        g_saved = g_list([g_pair(g_text(path), g_list([
            g_pair(g_text(k), "(%s, %s, %s)" % (g_jsval(st.get("data")), g_list([g_jsval(x) for x in st.get("references", [])]),
                                                g_text(st.get("$", ""))))
            for k, st in scopes.items()])) for path, scopes in saved.items()])
        terms.append("{| oc_digits := %s; oc_db := %s; oc_saved := %s |}" % (g_list([g_N(d) for d in digits]), g_db, g_saved))
    out = ctx.coq_file(PHEADER + "From RopeVerif.C12 Require Import Runner.\nDefinition cases : list ocase := %s.\n"
                       "Eval vm_compute in (omismatches cases).\n" % g_list(terms).replace("; {|", ";\n {|"))
    pairs = ctx.parse_pairs(out)
    for (i, code) in (pairs[0] if pairs else []):
        ctx.violation({"kind": "objectdb-model", "code": code, "db": repr(ocases[i][0])[:2000], "saved": repr(ocases[i][1])[:2000],
                       "broken": "correspondence PersistRunner.run_ocase (Persist.save_db/load_db vs MemoryDB.write / ScopeInfo.__getstate__); theorem C12_objectdb_roundtrip no longer speaks about the code"},
                      "C12 object db: model save_db disagrees with what close() wrote", no_input=True)
    ctx.extra["persist_objdb_cases"] = len(ocases)
    for _ in ocases:
        ctx.traces += 1


def objdb_plain(project):
    db = project.pycore.object_info.objectdb.files
    res = {}
    for path, scopes in db._files.items():
        res[path] = {}
        for key, si in scopes.items():
            res[path][key] = (dict(si.call_info), dict(si.per_name))
    return res


def run(ctx):
    from rope.base.project import Project
    ctx.extra["persist_rule"] = (
        "unit: random change trees (depth<=3, all five change classes, File/Folder resources, None/float times) through "
        "ChangeToData -> pickle protocol 2 -> DataToChange; project: 3-9 changes (edits, file/folder creations, file and "
        "folder moves, composite sets) + 0-3 undos on a temp project with limits {2,3,100}, close and reopen 1-2 times, "
        "lists, dependency closures and object db compared, every undo/redo replayed against snapshots")
    root = tempfile.mkdtemp(prefix="ropeverif-c12u-")
    try:
        project = Project(root, ropefolder=None)
        run_unit(ctx, project)
        project.close()
    finally:
        shutil.rmtree(root, ignore_errors=True)
    nh = ctx.scale(40, 400)
    hcases, objvals, ocases = [], [], []
    for h in range(nh):
        r = one_history(ctx, h)
        if r.get("objdb_case") and r["objdb_case"][0]:
            ocases.append(r["objdb_case"])
        ctx.case(("history", h), nontrivial=r["hcase"] is not None and len(r["hcase"][1]) + len(r["hcase"][2]) >= 2)
        ctx.traces += 1
        if r["hcase"]:
            hcases.append(r["hcase"])
        objvals.extend(r["objdb_values"])
        if ctx.too_many():
            return
    # model close/reopen on the same lists
    terms = ["{| hc_limit := %s; hc_undo := %s; hc_redo := %s; hc_undo_after := %s; hc_redo_after := %s |}" % (
        g_nat(l), g_list([g_change(x) for x in u]), g_list([g_change(x) for x in r]),
        g_list([g_change(x) for x in ua]), g_list([g_change(x) for x in ra])) for (l, u, r, ua, ra) in hcases]
    if terms:
        out = ctx.coq_file(PHEADER + "Definition cases : list hcase := %s.\nEval vm_compute in (hmismatches true cases).\n"
                           % g_list(terms).replace("; {|", ";\n {|"))
        pairs = ctx.parse_pairs(out)
        for (i, code) in (pairs[0] if pairs else []):
            ctx.violation({"kind": "history-model", "hcase": repr(hcases[i])[:3000], "code": code,
                           "broken": "correspondence PersistRunner.run_hcase (Persist.close/reopen vs History.write/_load_history); theorem C12_reopen_lists no longer speaks about the code"},
                          "C12 history: model close/reopen disagrees with the implementation", no_input=True)
    ctx.extra["persist_histories"] = len(hcases)
    run_objdb_cases(ctx, ocases)
    nt = ctx.scale(40, 400)
    for h in range(nt):
        before = len(ctx.violations)
        twin_history(ctx, h)
        ctx.case(("twin", h), nontrivial=True)
        ctx.traces += 1
        if ctx.too_many():
            return
    ctx.extra["persist_twin_histories"] = nt
    # every stored ScopeInfo state goes through the serializer correspondence (version 2, as __getstate__ does)
    if objvals:
        from harness import c12
        seen, uniq = set(), []
        for v in objvals:
            if repr(v) not in seen:
                seen.add(repr(v))
                uniq.append((v, 2))
        c12.check_cases(ctx, uniq[:300])
        ctx.extra["scopeinfo_states_checked"] = len(uniq[:300])
        ctx.sample({"scopeinfo_state": repr(uniq[0][0])[:400]})


def replay(ctx, obj):
    """True iff the property fails on the recorded input."""
    from rope.base.project import Project
    from rope.base import change as ch
    if obj.get("kind") == "change-data":
        root = tempfile.mkdtemp(prefix="ropeverif-c12r-")
        try:
            project = Project(root, ropefolder=None)
            a = _tuplify(obj["change"])
            c = build_change(project, a)
            data = pickle.loads(pickle.dumps(ch.ChangeToData()(c), 2))
            try:
                back = abstract(ch.DataToChange(project)(data))
            except Exception:
                back = None
            project.close()
            return back != a
        finally:
            shutil.rmtree(root, ignore_errors=True)
    if obj.get("kind") == "history-script" and obj.get("script") == "folder-move-selective-undo":
        root = tempfile.mkdtemp(prefix="ropeverif-c12r-")
        try:
            p = Project(root, save_history=True, save_objectdb=True)
            pkg = p.root.create_folder("pkg")
            f = pkg.create_file("m.py")
            f.write("x = 1\n")
            before = snapshot(root)
            p.do(ch.MoveResource(pkg, "pkg2"))
            p.do(ch.ChangeContents(p.get_file("pkg2/m.py"), "x = 2\n"))
            p.close()
            p = Project(root, save_history=True, save_objectdb=True)
            mv = p.history.undo_list[3]
            p.history.undo(mv)
            bad = len(p.history.undo_list) != 3 or snapshot(root) != before
            p.close()
            return bad
        finally:
            shutil.rmtree(root, ignore_errors=True)
    if obj.get("kind") == "twin":
        sub = type(ctx)(ctx.prop, ctx.tier, obj.get("base_seed", 0), replay_only=True)
        sub.findings = []
        twin_history(sub, obj["hseed"])
        return bool(sub.violations)
    if obj.get("kind") == "history":
        sub = type(ctx)(ctx.prop, ctx.tier, obj.get("base_seed", 0), replay_only=True)
        sub.findings = []
        one_history(sub, obj["hseed"])
        return bool(sub.violations)
    return False


def _tuplify(x):
    if isinstance(x, list):
        if x and x[0] == "set":
            return ("set", x[1], [_tuplify(y) for y in x[2]], x[3])
        return tuple(_tuplify(y) for y in x)
    return x


def build_change(project, a):
    from rope.base import change as ch
    k = a[0]
    if k == "set":
        cs = ch.ChangeSet(a[1], None if a[3] is None else struct.unpack(">d", struct.pack(">Q", a[3]))[0])
        for x in a[2]:
            cs.add_change(build_change(project, x))
        return cs
    if k == "contents":
        return ch.ChangeContents(project.get_file(a[1]), a[2], a[3])
    res = lambda p, folder: project.get_folder(p) if folder else project.get_file(p)
    if k == "move":
        return ch.MoveResource(res(a[1], a[2]), a[3], exact=True)
    if k == "create":
        return ch.CreateResource(res(a[1], a[2]))
    if k == "remove":
        return ch.RemoveResource(res(a[1], a[2]))
    raise ValueError(k)
