"""C12 part B — history and object-db persistence across close/reopen.

(a) unit level: generated change trees -> real ChangeToData -> pickle (protocol 2) -> DataToChange,
    compared in Coq with coq/C12/Persist.v (to_data / of_data), oracle: the reloaded change equals the
    original (class, paths, resource class File/Folder, contents, description, time).
(b) project level: real histories on a temp project (save_history / save_objectdb on), close, reopen:
    lists compared entry by entry, dependency closures of every entry compared, then every undo and redo
    replayed against tree snapshots recorded before the close; object db compared value by value and
    each ScopeInfo state pushed through the serializer correspondence. Recorded change sets regularly
    carry children on ignored resources (backups, .pyc, .venv); every History.do step is compared with
    Persist.hist_do in Coq. The object db also receives direct operations (scopes created with nothing
    recorded, facts, removals) and every reloaded scope is queried and extended.
(c) twin projects: see twin_history.
"""
import os
import pickle
import shutil
import struct
import tempfile

from harness.common import g_N, g_bool, g_list, g_text, g_opt, g_nat

PHEADER = ("From Coq Require Import List NArith ZArith Bool.\nImport ListNotations.\n"
           "From RopeVerif.C12 Require Import Serializer Persist PersistRunner.\n")


def fbits(t):
    return struct.unpack(">Q", struct.pack(">d", float(t)))[0]


# ----------------------------------------------------------------------------- abstraction
def abstract(c):
    from rope.base import change as ch
    from rope.base.resources import Folder
    if isinstance(c, ch.ChangeSet):
        return ("set", c.description, [abstract(x) for x in c.changes], None if c.time is None else fbits(c.time))
    if isinstance(c, ch.ChangeContents):
        return ("contents", c.resource.path, c.new_contents, c.old_contents)
    if isinstance(c, ch.MoveResource):
        return ("move", c.resource.path, isinstance(c.resource, Folder), c.new_resource.path)
    if isinstance(c, ch.CreateResource):
        return ("create", c.resource.path, isinstance(c.resource, Folder))
    if isinstance(c, ch.RemoveResource):
        return ("remove", c.resource.path, isinstance(c.resource, Folder))
    raise TypeError(type(c))


def g_change(a):
    k = a[0]
    kind = lambda b: "RFolder" if b else "RFile"
    if k == "set":
        return "(CSet %s %s %s)" % (g_text(a[1]), g_list([g_change(x) for x in a[2]]),
                                    g_opt(None if a[3] is None else g_N(a[3])))
    if k == "contents":
        return "(CContents %s %s %s)" % (g_text(a[1]), g_text(a[2]), g_opt(None if a[3] is None else g_text(a[3])))
    if k == "move":
        return "(CMove %s %s %s)" % (g_text(a[1]), kind(a[2]), g_text(a[3]))
    if k == "create":
        return "(CCreate %s %s)" % (g_text(a[1]), kind(a[2]))
    if k == "remove":
        return "(CRemove %s %s)" % (g_text(a[1]), kind(a[2]))
    raise ValueError(k)


def g_data(d):
    if isinstance(d, bool):
        return "(DBool %s)" % g_bool(d)
    if isinstance(d, str):
        return "(DStr %s)" % g_text(d)
    if d is None:
        return "DNone"
    if isinstance(d, float):
        return "(DFloat %s)" % g_N(fbits(d))
    if isinstance(d, tuple):
        return "(DTuple %s)" % g_list([g_data(x) for x in d])
    if isinstance(d, list):
        return "(DList %s)" % g_list([g_data(x) for x in d])
    raise TypeError(type(d))


# ----------------------------------------------------------------------------- generators
NAMES = ["a.py", "b.py", "pkg", "pkg/m.py", "pkg/sub", "pkg/sub/n.py", "d", "d/x.txt", "é.py"]
# resources matched by rope's default ignored_resources ('*~', '*.pyc', '.venv', 'venv', ...)
IGNORED_NAMES = ["a.py~", "pkg/m.pyc", ".venv/lib.py", "d/x.txt~", "venv", "pkg/sub/n.py~"]
TEXTS = ["", "x = 1\n", "x = 2\n", "def f():\n    return 'é'\n", "a\r\nb", "\ud800", "1"]


def gen_change(rng, project, depth=0):
    from rope.base import change as ch
    k = rng.random()
    if depth < 3 and k < 0.25:
        cs = ch.ChangeSet(rng.choice(["", "Renaming <x> to <y>", "multi\nline", "ünï"]),
                          rng.choice([None, 0.0, 1727300000.123456, 1e-300, 2.5]))
        if rng.random() < 0.3:
            # "save with backup": the old text goes to the ignored twin of a file, the new text to the file
            base = rng.choice([n for n in NAMES if "." in n])
            cs.add_change(ch.ChangeContents(project.get_file(base + "~"), rng.choice(TEXTS), rng.choice([None] + TEXTS)))
            cs.add_change(ch.ChangeContents(project.get_file(base), rng.choice(TEXTS), rng.choice([None] + TEXTS)))
        for _ in range(rng.randint(0, 3)):
            cs.add_change(gen_change(rng, project, depth + 1))
        return cs
    path = rng.choice(NAMES + IGNORED_NAMES) if rng.random() < 0.5 else rng.choice(NAMES)
    as_folder = rng.random() < 0.4
    res = project.get_folder(path) if as_folder else project.get_file(path)
    if k < 0.50:
        f = project.get_file(path)
        return ch.ChangeContents(f, rng.choice(TEXTS), rng.choice([None] + TEXTS))
    if k < 0.70:
        return ch.MoveResource(res, rng.choice(NAMES) + rng.choice(["2", "2", "~", ".pyc"]), exact=True)
    if k < 0.80:
        return ch.CreateResource(res)
    if k < 0.85:
        parent = project.get_folder(rng.choice(["", "pkg", "d"]))
        return ch.CreateFolder(parent, rng.choice(["nf", "z"]))
    if k < 0.90:
        parent = project.get_folder(rng.choice(["", "pkg", "d"]))
        return ch.CreateFile(parent, rng.choice(["nf.py", "z.txt"]))
    return ch.RemoveResource(res)


def abs_paths(a):
    """get_changed_resources() of an abstracted change, as paths"""
    if a[0] == "set":
        return [p for x in a[2] for p in abs_paths(x)]
    if a[0] == "move":
        return [a[1], a[3]]
    return [a[1]]


def abs_leaves(a):
    if a[0] == "set":
        return [l for x in a[2] for l in abs_leaves(x)]
    return [a]


def ignored_paths(project, paths):
    return sorted({p for p in paths if project.is_ignored(project.get_file(p))})


def is_mixed(project, a):
    ps = abs_paths(a)
    ign = set(ignored_paths(project, ps))
    return bool(ign) and any(p not in ign for p in ps)


def has_folder_move(a):
    if a[0] == "move":
        return a[2]
    if a[0] == "set":
        return any(has_folder_move(x) for x in a[2])
    return False


# ----------------------------------------------------------------------------- (a) unit level
def unit_cases(ctx, project, n):
    from rope.base import change as ch
    cases = []
    for i in range(n):
        c = gen_change(ctx.rng, project)
        a = abstract(c)
        data = ch.ChangeToData()(c)
        data2 = pickle.loads(pickle.dumps(data, 2))
        err = None
        try:
            back = abstract(ch.DataToChange(project)(data2))
        except Exception as e:
            back, err = None, type(e).__name__
        cases.append((a, data2, back, err, ignored_paths(project, abs_paths(a)),
                      bool(project.history._is_change_interesting(c))))
    return cases


def run_unit(ctx, project):
    n = ctx.scale(300, 3000)
    cases = unit_cases(ctx, project, n)
    terms = ["{| pc_change := %s; pc_data := %s; pc_back := %s; pc_ignored := %s; pc_interesting := %s |}" % (
        g_change(a), g_data(d), g_opt(None if b is None else g_change(b)), g_list([g_text(p) for p in ign]), g_bool(intr))
        for (a, d, b, _, ign, intr) in cases]
    bodies = []
    shard = 300
    for s in range(0, len(terms), shard):
        bodies.append(PHEADER + "Definition cases : list pcase := %s.\n"
                      "Eval vm_compute in (pmismatches true cases).\nEval vm_compute in (pmismatches false cases).\n"
                      "Eval vm_compute in (count_mixed cases).\n"
                      % g_list(terms[s:s + shard]).replace("; {|", ";\n {|"))
    outs = ctx.coq_files_parallel(bodies)
    mism_keep, mism_legacy = {}, {}
    for si, out in enumerate(outs):
        pairs = ctx.parse_pairs(out)
        for (i, code) in pairs[0]:
            mism_keep[si * shard + i] = code
        for (i, code) in pairs[1]:
            mism_legacy[si * shard + i] = code
        nums = ctx.parse_nums(out)
        ctx.extra["mixed_sets_in_theorem_domain"] = ctx.extra.get("mixed_sets_in_theorem_domain", 0) + (
            nums[-1][0] if nums and nums[-1] else 0)
    ctx.extra["persist_unit_cases"] = len(cases)
    legacy_code = bool(mism_keep) and not mism_legacy
    if legacy_code:
        # the code behaves like the model variant for which C12_folder_move_reload_refuted holds:
        # replay that lemma's witness on the implementation; it is the failing input.
        witness = ("move", "d", True, "e")
        if replay(ctx, {"kind": "change-data", "change": list(witness)}):
            ctx.violation({"kind": "change-data", "change": witness, "source": "witness of C12_folder_move_reload_refuted"},
                          "C12 history data: a folder move reloaded from saved history has become a file move "
                          "(selective undo after reopen loses its dependencies)")
            mism_keep = {}
    for idx, (a, d, b, err, ign, intr) in enumerate(cases):
        mixed = bool(ign) and intr
        nontriv = a[0] == "set" and len(a[2]) > 0 or has_folder_move(a)
        ctx.case(("change", repr(a)), nontrivial=nontriv)
        ctx.traces += 1
        ctx.count("change:" + a[0])
        if has_folder_move(a):
            ctx.count("change:has_folder_move")
        if ign:
            ctx.count("change:touches_ignored_resource")
        if mixed and a[0] == "set":
            ctx.count("change:mixed_set(recorded, with a child on an ignored resource)")
        if not intr:
            ctx.count("change:not_interesting(ignored resources only, or empty)")
        rp = {"kind": "change-data", "change": a}
        if b != a:   # oracle: reloaded change differs from the original
            lost = [l for l in abs_leaves(a) if b is None or l not in abs_leaves(b)]
            ctx.violation(dict(rp, reloaded=b, error=err, ignored=ign),
                          "C12 history data: a change reloaded from its saved data differs from the original: %r -> %r%s"
                          % (a, b, (" (lost: %r; ignored resources: %r)" % (lost, ign)) if lost else ""))
        elif idx in mism_keep and mism_keep[idx] == 4:
            ctx.violation(dict(rp, mismatch_code=4, ignored=ign, interesting=intr,
                               broken="correspondence RopeVerif.C12.PersistRunner.run_pcase code 4 (Persist.interesting vs History._is_change_interesting); theorems C12_recorded_change_reloads_whole / C12_ignored_only_change_not_recorded no longer speak about the code"),
                          "C12 history: model and History._is_change_interesting disagree on %r (ignored: %r, code says %r)" % (a, ign, intr),
                          no_input=True)
        elif idx in mism_keep:
            ctx.violation(dict(rp, mismatch_code=mism_keep[idx], data=repr(d),
                               broken="correspondence RopeVerif.C12.PersistRunner.run_pcase (Persist.to_data/of_data vs ChangeToData/DataToChange); theorems C12_change_data_roundtrip / C12_saved_data_keeps_every_leaf no longer speak about the code"),
                          "C12 history data: model and ChangeToData/DataToChange disagree on %r" % (a,), no_input=True)
        if ctx.too_many():
            break
    ctx.extra["persist_code_variant"] = "legacy (folder-ness of moves not stored)" if legacy_code else "kind-preserving"


# ----------------------------------------------------------------------------- (b) project level
def snapshot(root):
    snap = {}
    for dp, dns, fns in os.walk(root):
        rel = os.path.relpath(dp, root)
        if rel.split(os.sep)[0] == ".ropeproject":
            continue
        if rel != ".":
            snap[rel] = None
        for fn in fns:
            p = os.path.join(dp, fn)
            with open(p, "rb") as f:
                snap[os.path.normpath(os.path.join(rel, fn))] = f.read()
    return snap


def ignored_files_on_disk(project):
    """Paths of the files below the project root that rope ignores ('*~', '*.pyc', below .venv ...);
    Folder.get_children() hides them, so the disk is walked."""
    root = project.address
    res = []
    for dp, dns, fns in os.walk(root):
        dns[:] = sorted(d for d in dns if d != ".ropeproject")
        rel = os.path.relpath(dp, root)
        for fn in sorted(fns):
            path = fn if rel == "." else rel.replace(os.sep, "/") + "/" + fn
            if project.is_ignored(project.get_file(path)):
                res.append(path)
    return res


def _join(folder_path, name):
    return (folder_path + "/" if folder_path else "") + name


def mixed_change(rng, project, files, folders, fresh):
    """A change set History.do records although one of its children works on an ignored resource.
    files / folders: sorted paths of the non-ignored files / folders ("" is the root). Returns
    (description tuple, builder) where builder(project) makes the ChangeSet for that project."""
    ign = ignored_files_on_disk(project)
    k = rng.random()
    add = rng.choice(["x = 1\n", "# é\n", "y = x\n"])
    with_backup = [f for f in files if f + "~" in ign]
    if k < 0.40 and files:
        path = rng.choice(files)
        name, nest = fresh("backup "), rng.random() < 0.3
        extra = fresh("f", ".py")

        def build(P, path=path, name=name, nest=nest, add=add, extra=extra):
            f = P.get_file(path)
            cs = ch_mod().ChangeSet(name)
            if not os.path.exists(os.path.join(P.address, *(path + "~").split("/"))):
                cs.add_change(ch_mod().CreateFile(f.parent, f.name + "~"))
            cs.add_change(ch_mod().ChangeContents(P.get_file(path + "~"), f.read()))
            cs.add_change(ch_mod().ChangeContents(f, f.read() + add))
            if nest:
                outer = ch_mod().ChangeSet(name + " (outer)")
                outer.add_change(cs)
                outer.add_change(ch_mod().CreateFile(P.root, extra))
                return outer
            return cs
        return ("backup_set", path, add, nest), build
    if k < 0.55 and with_backup:
        path = rng.choice(with_backup)
        newp = _join(rng.choice(folders), fresh("m", ".py"))
        name = fresh("move with backup ")

        def build(P, path=path, newp=newp, name=name):
            cs = ch_mod().ChangeSet(name)
            cs.add_change(ch_mod().MoveResource(P.get_file(path), newp, exact=True))
            cs.add_change(ch_mod().MoveResource(P.get_file(path + "~"), newp + "~", exact=True))
            return cs
        return ("move_with_backup", path, newp), build
    if k < 0.80:
        parent, pyc, py = rng.choice(folders), fresh("c", ".pyc"), fresh("f", ".py")
        name = fresh("compiled ")

        def build(P, parent=parent, pyc=pyc, py=py, name=name):
            cs = ch_mod().ChangeSet(name)
            cs.add_change(ch_mod().CreateFile(P.get_folder(parent), py))
            cs.add_change(ch_mod().ChangeContents(P.get_file(_join(parent, py)), "z = 0\n"))
            cs.add_change(ch_mod().CreateFile(P.get_folder(parent), pyc))
            cs.add_change(ch_mod().ChangeContents(P.get_file(_join(parent, pyc)), "pyc of " + py + "\n"))
            return cs
        return ("pyc_set", parent, py, pyc), build
    lib, py = fresh("lib", ".py"), fresh("f", ".py")
    name = fresh("venv ")

    def build(P, lib=lib, py=py, name=name):
        cs = ch_mod().ChangeSet(name)
        if not os.path.isdir(os.path.join(P.address, ".venv")):
            cs.add_change(ch_mod().CreateFolder(P.root, ".venv"))
        cs.add_change(ch_mod().CreateFile(P.get_folder(".venv"), lib))
        cs.add_change(ch_mod().ChangeContents(P.get_file(".venv/" + lib), "import os\n"))
        cs.add_change(ch_mod().CreateFile(P.root, py))
        return cs
    return ("venv_set", lib, py), build


def ch_mod():
    from rope.base import change as ch
    return ch


def do_step_case(project, limit, before, c):
    """The History.do step just performed, for PersistRunner.run_dcase (the change is abstracted after
    do(): ChangeContents has recorded its old contents by then)."""
    a = abstract(c)
    after = _abs_lists(project)
    paths = abs_paths(a)
    for lst in before + after:
        for x in lst:
            paths.extend(abs_paths(x))
    return (limit, ignored_paths(project, paths), before[0], before[1], a, after[0], after[1])


def perform_history(rng, project, nops, limit=None, dcases=None):
    """Perform nops changes through project.do; returns snapshots [S0..Sn] and op descriptions. Every
    change is recorded by the history (those of mixed_change in spite of their ignored children)."""
    from rope.base import change as ch
    root = project.address
    snaps = [snapshot(root)]
    descr = []
    counter = [0]

    def fresh(prefix, suffix=""):
        counter[0] += 1
        return "%s%d%s" % (prefix, counter[0], suffix)

    for _ in range(nops):
        files = sorted((r for r in project.get_files() if not r.path.startswith(".ropeproject")), key=lambda r: r.path)
        folders = [project.root] + sorted(_all_folders(project), key=lambda r: r.path)
        k = rng.random()
        c = None
        if rng.random() < 0.3:
            d, build = mixed_change(rng, project, [f.path for f in files], [f.path for f in folders], fresh)
            c = build(project)
            descr.append(d)
        elif (k < 0.35 and files) or (files and len(files) > 6):
            f = rng.choice(files)
            c = ch.ChangeContents(f, f.read() + rng.choice(["x = 1\n", "# é\n", "y = x\n"]))
            descr.append(("edit", f.path))
        elif k < 0.50:
            parent = rng.choice(folders)
            c = ch.CreateFile(parent, fresh("f", ".py"))
            descr.append(("create_file", parent.path))
        elif k < 0.62:
            parent = rng.choice(folders)
            c = ch.CreateFolder(parent, fresh("d"))
            descr.append(("create_folder", parent.path))
        elif k < 0.75 and files:
            f = rng.choice(files)
            dest = rng.choice(folders)
            newp = (dest.path + "/" if dest.path else "") + fresh("m", ".py")
            c = ch.MoveResource(f, newp, exact=True)
            descr.append(("move_file", f.path, newp))
        elif k < 0.88 and len(folders) > 1:
            d = rng.choice(folders[1:])
            cands = [x for x in folders if not (x.path == d.path or x.path.startswith(d.path + "/"))]
            dest = rng.choice(cands)
            newp = (dest.path + "/" if dest.path else "") + fresh("r")
            c = ch.MoveResource(d, newp, exact=True)
            descr.append(("move_folder", d.path, newp))
        else:
            cs = ch.ChangeSet(fresh("set "))
            parent = rng.choice(folders)
            nm = fresh("p")
            cs.add_change(ch.CreateFolder(parent, nm))
            sub = project.get_folder((parent.path + "/" if parent.path else "") + nm)
            cs.add_change(ch.CreateFile(sub, "__init__.py"))
            cs.add_change(ch.ChangeContents(project.get_file(sub.path + "/__init__.py"), "z = 0\n"))
            c = cs
            descr.append(("set", parent.path))
        before = _abs_lists(project) if dcases is not None else None
        project.do(c)
        if dcases is not None:
            dcases.append(do_step_case(project, limit, before, c))
        snaps.append(snapshot(root))
    return snaps, descr


def _all_folders(project):
    res = []

    def walk(f):
        for c in f.get_folders():
            if c.name == ".ropeproject":
                continue
            res.append(c)
            walk(c)
    walk(project.root)
    return res


def dep_indices(history, lst):
    res = []
    for c in lst:
        deps = history._find_dependencies(lst, c)
        res.append(sorted(lst.index(d) for d in deps))
    return res


def one_history(ctx, hseed):
    import random
    from rope.base.project import Project
    from rope.base import change as ch
    rng = random.Random("hist-%d-%d" % (ctx.seed, hseed))
    root = tempfile.mkdtemp(prefix="ropeverif-c12-")
    replay = {"kind": "history", "hseed": hseed, "base_seed": ctx.seed}
    result = {"hcase": None, "objdb_values": [], "objdb_case": None, "dcases": []}
    try:
        limit = rng.choice([2, 3, 100, 100])
        project = Project(root, save_history=True, save_objectdb=True, max_history_items=limit)
        nops = rng.randint(3, 9)
        snaps, descr = perform_history(rng, project, nops, limit, result["dcases"])
        replay["ops"] = descr
        replay["limit"] = limit
        # some undos to populate the redo list
        avail = len(project.history.undo_list)
        nundo = rng.randint(0, min(3, avail))
        for _ in range(nundo):
            project.history.undo()
        cur = nops - nundo
        if snapshot(root) != snaps[cur]:
            ctx.violation(dict(replay, phase="undo-before-close"), "C12 history: undo before close does not restore the snapshot")
            return result
        # object information from real static analysis
        objdb_before = None
        pyfiles = [f for f in project.get_python_files()]
        src = ("def f(a, b=1):\n    return (a, b)\n\nclass C:\n    def m(self, x):\n        return [x]\n\n"
               "r1 = f(1)\nr2 = f('s', b=C())\nr3 = C().m({1: 2})\n")
        mod = project.root.create_file("objinfo_%d.py" % hseed) if False else None
        if pyfiles:
            target = pyfiles[0]
            project.do(ch.ChangeContents(target, src))
            snaps = snaps[:cur + 1] + [snapshot(root)]
            nops = cur + 1
            cur = nops
            project.pycore.analyze_module(target)
        # object information recorded directly: scopes created with nothing in them, facts, removals
        db_ops = []
        for _ in range(rng.randint(0, 4)):
            op = gen_db_op(rng, objdb_plain(project), [f.path for f in pyfiles])
            if op[0] != "db_query":
                db_ops.append(op)
                apply_db_op(project, op)
        replay["db_ops"] = db_ops
        objdb_before = objdb_plain(project)
        observed_before = objdb_observe(project)
        n_empty = sum(1 for sc in objdb_before.values() for v in sc.values() if v == ({}, {}))
        if n_empty:
            ctx.count("history:closed_with_empty_scope")
        if any(d[0] in ("backup_set", "move_with_backup", "pyc_set", "venv_set") for d in descr):
            ctx.count("history:has_recorded_set_with_ignored_child")
        to_data = ch.ChangeToData()
        undo_before = [abstract(c) for c in project.history.undo_list]
        redo_before = [abstract(c) for c in project.history.redo_list]
        data_before = ([to_data(c) for c in project.history.undo_list], [to_data(c) for c in project.history.redo_list])
        deps_before = (dep_indices(project.history, project.history.undo_list),
                       dep_indices(project.history, project.history.redo_list))
        reopen_times = rng.randint(1, 2)
        for ri in range(reopen_times):
            try:
                project.close()
            except Exception as e:  # noqa
                ctx.violation(dict(replay, phase="close", round=ri, error=repr(e)),
                              "C12: closing the project (close number %d) raises %r" % (ri + 1, e))
                return result
            if ri == 0:
                try:
                    result["objdb_case"] = (objdb_before, read_saved_objectdb(root))
                except Exception as e:  # the side file is part of what close() writes
                    ctx.violation(dict(replay, phase="objectdb-json", error=repr(e)),
                                  "C12 object db: the JSON side file written at close cannot be read back")
            try:
                project = Project(root, save_history=True, save_objectdb=True, max_history_items=limit)
            except Exception as e:  # noqa
                ctx.violation(dict(replay, phase="reopen", round=ri, error=repr(e)),
                              "C12: opening the project again (reopen number %d) raises %r" % (ri + 1, e))
                return result
        undo_after = [abstract(c) for c in project.history.undo_list]
        redo_after = [abstract(c) for c in project.history.redo_list]
        keep = undo_before[max(0, len(undo_before) - limit):]
        result["hcase"] = (limit, undo_before, redo_before, undo_after, redo_after)
        ctx.count("history:reopened_%dx" % reopen_times)
        ctx.count("history:limit=%d" % limit)
        if any(has_folder_move(a) for a in undo_before + redo_before):
            ctx.count("history:has_folder_move")
        if undo_after != keep or redo_after != redo_before:
            ctx.violation(dict(replay, phase="lists", before=[keep, redo_before], after=[undo_after, redo_after]),
                          "C12 history: undo/redo lists differ after close+reopen")
            return result
        ntrim = len(undo_before) - len(keep)
        deps_after = (dep_indices(project.history, project.history.undo_list),
                      dep_indices(project.history, project.history.redo_list))
        exp_undo_deps = [[i - ntrim for i in d] for d in deps_before[0][ntrim:]]
        if deps_after[0] != exp_undo_deps or deps_after[1] != deps_before[1]:
            ctx.violation(dict(replay, phase="dependencies", before=[exp_undo_deps, deps_before[1]], after=list(deps_after)),
                          "C12 history: selective-undo dependency closure of a reloaded change differs after reopen")
            return result
        objdb_after = objdb_plain(project)
        from harness.c12 import strict_eq
        if not strict_eq(objdb_before, objdb_after):
            broken = objdb_broken(objdb_after)
            ctx.violation(dict(replay, phase="objectdb", before=repr(objdb_before)[:1500], after=repr(objdb_after)[:1500]),
                          "C12 object db: stored object information differs after close+reopen"
                          + ("; reloaded scopes without their tables (path, key, error): %r" % broken[:3] if broken else ""))
            return result
        observed_after = objdb_observe(project)
        if observed_after != observed_before:
            ctx.violation(dict(replay, phase="objectdb-queries", before=repr(observed_before)[:1500], after=repr(observed_after)[:1500]),
                          "C12 object db: the reloaded object information answers queries differently")
            return result
        # reloaded scopes keep accepting facts: the same additions on the reloaded db and on a copy of what
        # was stored before the close give the same tables
        for (path, scopes) in sorted(objdb_before.items()):
            for key in sorted(scopes):
                name, value = "fresh_name", rng.choice(DB_TEXTUALS)   # no earlier value: the addition is accepted
                exp = dict(scopes[key][1])
                exp[name] = value
                try:
                    apply_db_op(project, ("db_add_pername", path, key, name, value))
                    got = objdb_plain(project)[path][key]
                except Exception as e:  # noqa
                    got = ("ERROR", type(e).__name__)
                if got != (scopes[key][0], exp):
                    ctx.violation(dict(replay, phase="objectdb-add-after-reopen", path=path, key=key, name=name, value=value,
                                       expected=repr((scopes[key][0], exp))[:600], got=repr(got)[:600]),
                                  "C12 object db: adding a fact to a reloaded scope %r of %r gives %r" % (key, path, got))
                    return result
        for path, scopes in objdb_before.items():
            for key, val in scopes.items():
                result["objdb_values"].append(val)
        # undo everything still listed, then redo everything, against the recorded snapshots
        pos = cur
        while project.history.undo_list:
            project.history.undo()
            pos -= 1
            if snapshot(root) != snaps[pos]:
                ctx.violation(dict(replay, phase="undo-after-reopen", step=pos),
                              "C12 history: undo after reopen does not restore the earlier tree (step %d)" % pos)
                return result
        while project.history.redo_list:
            project.history.redo()
            pos += 1
            if snapshot(root) != snaps[pos]:
                ctx.violation(dict(replay, phase="redo-after-reopen", step=pos),
                              "C12 history: redo after reopen does not re-create the later tree (step %d)" % pos)
                return result
        try:
            project.close()
        except Exception as e:  # noqa
            ctx.violation(dict(replay, phase="final-close", error=repr(e)), "C12: the final close of the reopened project raises %r" % (e,))
    finally:
        shutil.rmtree(root, ignore_errors=True)
    return result


# ----------------------------------------------------------------------------- (c) twin projects


def has_cr(real_path):
    try:
        with open(real_path, "rb") as f:
            return b"\r" in f.read()
    except OSError:
        return False


def _abs_lists(project):
    return ([abstract(c) for c in project.history.undo_list], [abstract(c) for c in project.history.redo_list])


def strip_times(a):
    """The abstracted change without the time stamps of its change sets (ChangeSet.do stamps time.time(),
    so two projects performing the same set differ there and only there)."""
    if isinstance(a, list):
        return [strip_times(x) for x in a]
    if a[0] == "set":
        return ("set", a[1], [strip_times(x) for x in a[2]], None)
    return a


def twin_history(ctx, hseed, out=None):
    """Project A is closed and reopened between sessions (and synced in mid-session); project B receives the
    same operations and is never closed. After every reopen A must have B's lists, dependency closures,
    object information; every later undo/redo/selective undo must produce the same tree in both."""
    import random
    from rope.base.project import Project
    from rope.base import change as ch
    from harness.c12 import strict_eq
    rng = random.Random("twin-%d-%d" % (ctx.seed, hseed))
    ra = tempfile.mkdtemp(prefix="ropeverif-c12a-")
    rb = tempfile.mkdtemp(prefix="ropeverif-c12b-")
    rp = {"kind": "twin", "hseed": hseed, "base_seed": ctx.seed, "ops": []}
    limit = rng.choice([2, 3, 100, 100, 100])
    kw = dict(save_history=True, save_objectdb=True, max_history_items=limit)
    # files with CRLF / CR line ends and a declared Latin-1 encoding exist from the start: edits of them
    # that are undone or redone after a reopen must restore the exact bytes
    for root in (ra, rb):
        with open(os.path.join(root, "w.py"), "wb") as f:
            f.write(b"x = 1\r\ny = 2\r\n")
        with open(os.path.join(root, "c.py"), "wb") as f:
            f.write(b"# -*- coding: latin-1 -*-\rs = '\xe9'\r")
    A = Project(ra, **kw)
    B = Project(rb, **kw)
    counter = [0]

    def fresh(prefix, suffix=""):
        counter[0] += 1
        return "%s%d%s" % (prefix, counter[0], suffix)

    out = out if out is not None else {}
    out.setdefault("ocases", [])
    out.setdefault("dcases", [])

    def both(fn, build=None, kind=None):
        """fn(P) on both projects (or P.do(build(P)) when a change builder is given: the History.do step of
        the control is then kept as a case for PersistRunner.run_dcase). Returns errors and results."""
        ea = eb = va = vb = None
        try:
            va = A.do(build(A)) if build else fn(A)
        except Exception as e:  # noqa
            ea = type(e).__name__
        try:
            if build:
                before = _abs_lists(B)
                c = build(B)
                B.do(c)
                out["dcases"].append(do_step_case(B, limit, before, c))
            elif kind in NAV_KINDS:
                # the History.undo() / redo() / undo(drop=True) / clear() step of the control, for
                # SessionsRunner.run_ncase (a HistoryError on an empty list must leave both lists as they were)
                before = _abs_lists(B)
                try:
                    vb = fn(B)
                finally:
                    after = _abs_lists(B)
                    out.setdefault("ncases", []).append((NAV_KINDS[kind], before[0], before[1], after[0], after[1]))
            else:
                vb = fn(B)
        except Exception as e:  # noqa
            eb = type(e).__name__
        return ea, eb, va, vb

    def compare(phase):
        if snapshot(ra) != snapshot(rb):
            ctx.violation(dict(rp, phase=phase, what="tree"), "C12 twin: project that was closed/reopened has a different tree from the never-closed control (%s)" % phase)
            return False
        la, lb = _abs_lists(A), _abs_lists(B)
        la, lb = ([strip_times(x) for x in la[0]], [strip_times(x) for x in la[1]]), ([strip_times(x) for x in lb[0]], [strip_times(x) for x in lb[1]])
        if la != lb:
            ctx.violation(dict(rp, phase=phase, what="lists", reopened=la, control=lb),
                          "C12 twin: undo/redo lists of the reopened project differ from the never-closed control (%s)" % phase)
            return False
        da = (dep_indices(A.history, A.history.undo_list), dep_indices(A.history, A.history.redo_list))
        db = (dep_indices(B.history, B.history.undo_list), dep_indices(B.history, B.history.redo_list))
        if da != db:
            ctx.violation(dict(rp, phase=phase, what="dependencies", reopened=da, control=db),
                          "C12 twin: dependency closures differ from the never-closed control (%s)" % phase)
            return False
        oa, ob = objdb_observe(A), objdb_observe(B)
        if oa != ob:
            bad = [(p, k, v) for p, sc in oa.items() for k, v in sc.items() if ob.get(p, {}).get(k) != v][:3]
            ctx.violation(dict(rp, phase=phase, what="objectdb-queries", reopened=repr(oa)[:1500], control=repr(ob)[:1500]),
                          "C12 twin: stored object information of the reopened project answers differently from the "
                          "never-closed control (%s): %r" % (phase, bad))
            return False
        return True

    try:
        nsessions = rng.randint(2, 3)
        stale = [0]     # number of entries at the bottom of the redo list that a drop has orphaned
        for sess in range(nsessions):
            nops = rng.randint(2, 7)
            # a session that only navigates the history it found (undo / redo / selective undo / dropping /
            # queries, no new change): what it leaves behind must be what the next session finds
            navigate = bool(A.history.undo_list or A.history.redo_list) and rng.random() < 0.3
            if navigate:
                nops = rng.randint(1, 4)
                ctx.count("twin:navigation_only_session")
            for _ in range(nops):
                files = sorted(r.path for r in A.get_files() if not r.path.startswith(".ropeproject"))
                folders = [""] + sorted(f.path for f in _all_folders(A))
                k = rng.random()
                j = rng.random()
                op = build = None

                def pick_file():
                    """half of the time one of the files with CR / CRLF line ends, wherever they are by now"""
                    cr = [f for f in files if has_cr(os.path.join(ra, *f.split("/")))]
                    return rng.choice(cr) if cr and rng.random() < 0.5 else rng.choice(files)
                if navigate:
                    nav = rng.choice(["undo", "undo", "undo", "redo", "redo", "undo_drop", "selective_undo", "sync", "query",
                                      "drop_all", "clear"])
                    if nav == "selective_undo" and len(A.history.undo_list) > 1:
                        i = rng.randrange(len(A.history.undo_list))
                        op = ("selective_undo", i)
                        fn = lambda P: P.history.undo(P.history.undo_list[i])
                    elif nav == "query" and any(objdb_plain(A).values()):
                        db = objdb_plain(A)
                        path = rng.choice(sorted(p for p in db if db[p]))
                        op = ("db_query", path, rng.choice(sorted(db[path])), rng.choice(DB_NAMES), rng.choice(DB_ARGS))
                        fn = lambda P: apply_db_op(P, op)
                    elif nav == "undo_drop":
                        op = ("undo_drop",)
                        fn = lambda P: P.history.undo(drop=True)
                    elif nav == "drop_all":      # what contrib.changestack.ChangeStack.pop_all does
                        op = ("drop_all",)

                        def fn(P):
                            while P.history.undo_list:
                                P.history.undo(drop=True)
                    elif nav == "clear":
                        op = ("clear",)
                        fn = lambda P: P.history.clear()
                    elif nav == "sync":
                        op = ("sync",)
                        fn = lambda P: P.sync()
                    elif nav == "redo":
                        op = ("redo",)
                        fn = lambda P: P.history.redo()
                    else:
                        op = ("undo",)
                        fn = lambda P: P.history.undo()
                elif j < 0.14:
                    # recorded change set with a child on an ignored resource (backup, .pyc, below .venv)
                    op, build = mixed_change(rng, A, files, folders, fresh)
                    fn = None
                elif j < 0.20:
                    # a change to ignored resources only: performed, not recorded
                    ign = ignored_files_on_disk(A)
                    if ign and rng.random() < 0.6:
                        path, add = rng.choice(ign), rng.choice(["# touched\n", "x = 1\n"])
                        op = ("ignored_only_edit", path, add)
                        build = lambda P: ch.ChangeContents(P.get_file(path), P.get_file(path).read() + add)
                    else:
                        parent, name = rng.choice(folders), fresh("o", rng.choice([".pyc", ".py~"]))
                        op = ("ignored_only_create", parent, name)
                        build = lambda P: ch.CreateFile(P.get_folder(parent), name)
                    fn = None
                elif j < (0.34 if sess == 0 else 0.42):
                    op = gen_db_op(rng, objdb_plain(A), [f for f in files if f.endswith(".py")])
                    fn = lambda P: apply_db_op(P, op)
                elif j < (0.40 if sess == 0 else 0.48) and files:
                    # an edit followed by a move of the edited file (or of its folder): the reloaded edit names a
                    # path that does not exist at load time and exists again when it is undone
                    path = pick_file()
                    add = rng.choice(["x = 1\n", "# é\n", "y = x\n"])
                    parent = path.rsplit("/", 1)[0] if "/" in path else ""
                    if parent and rng.random() < 0.4:
                        top = parent.split("/")[0]
                        src, newp, folder = top, fresh("r"), True
                    else:
                        src, newp, folder = path, _join(rng.choice(folders), fresh("m", ".py")), False
                    op = ("edit_then_move", path, add, src, newp)

                    def fn(P):
                        P.do(ch.ChangeContents(P.get_file(path), P.get_file(path).read() + add))
                        P.do(ch.MoveResource(P.get_folder(src) if folder else P.get_file(src), newp, exact=True))
                elif k < 0.22 and files:
                    path = pick_file()
                    add = rng.choice(["x = 1\n", "# é\n", "y = x\n"])
                    op = ("edit", path, add)
                    fn = lambda P: P.do(ch.ChangeContents(P.get_file(path), P.get_file(path).read() + add))
                elif k < 0.34 or not files:
                    parent, name = rng.choice(folders), fresh("f", ".py")
                    op = ("create_file", parent, name)
                    fn = lambda P: P.do(ch.CreateFile(P.get_folder(parent), name))
                elif k < 0.42:
                    parent, name = rng.choice(folders), fresh("d")
                    op = ("create_folder", parent, name)
                    fn = lambda P: P.do(ch.CreateFolder(P.get_folder(parent), name))
                elif k < 0.50:
                    path, dest = pick_file(), rng.choice(folders)
                    newp = (dest + "/" if dest else "") + fresh("m", ".py")
                    op = ("move_file", path, newp)
                    fn = lambda P: P.do(ch.MoveResource(P.get_file(path), newp, exact=True))
                elif k < 0.58 and len(folders) > 1:
                    d = rng.choice(folders[1:])
                    cands = [x for x in folders if not (x == d or x.startswith(d + "/"))]
                    dest = rng.choice(cands)
                    newp = (dest + "/" if dest else "") + fresh("r")
                    op = ("move_folder", d, newp)
                    fn = lambda P: P.do(ch.MoveResource(P.get_folder(d), newp, exact=True))
                elif k < 0.66:
                    op = ("undo",)
                    fn = lambda P: P.history.undo()
                elif k < 0.72:
                    op = ("redo",)
                    fn = lambda P: P.history.redo()
                elif k < 0.77:
                    op = ("undo_drop",)
                    fn = lambda P: P.history.undo(drop=True)
                elif k < 0.80:
                    op = ("drop_all",)

                    def fn(P):
                        while P.history.undo_list:
                            P.history.undo(drop=True)
                elif k < 0.82:
                    op = ("clear",)
                    fn = lambda P: P.history.clear()
                elif k < 0.88 and len(A.history.undo_list) > 1:
                    i = rng.randrange(len(A.history.undo_list))
                    op = ("selective_undo", i)
                    fn = lambda P: P.history.undo(P.history.undo_list[i])
                elif k < 0.93 and files:
                    path = rng.choice(files)
                    src = ("def f(a, b=1):\n    return (a, b)\n\nclass C:\n    def m(self, x):\n        return [x]\n\n"
                           "r1 = f(%d)\nr2 = f('s', b=C())\nr3 = C().m({1: {2: 'x'}})\n" % counter[0])
                    op = ("analyze", path)

                    def fn(P):
                        P.do(ch.ChangeContents(P.get_file(path), src))
                        P.pycore.analyze_module(P.get_file(path))
                elif k < 0.985 and objdb_plain(A):
                    # object information added to an EXISTING (possibly loaded) scope without a new call
                    db = objdb_plain(A)
                    path = rng.choice(sorted(db))
                    if db[path]:
                        key = rng.choice(sorted(db[path]))
                        name = fresh("pn")
                        value = rng.choice([("builtin", "str"), ("builtin", "list", ("builtin", "str")), ("unknown",)])
                        op = ("add_pername", path, key, name, value)
                        fn = lambda P: P.pycore.object_info.objectdb.add_pername(path, key, name, value)
                    else:
                        op = ("sync",)
                        fn = lambda P: P.sync()
                else:
                    op = ("sync",)
                    fn = lambda P: P.sync()
                if op[0] == "redo" and len(A.history.redo_list) <= stale[0]:
                    # the remaining redo entries were undone BEFORE a later undo(drop=True) removed a change below
                    # them: redoing them is not a return to any earlier tree (rope keeps them listed, the
                    # property does not speak about them); navigate the other way instead
                    op = ("undo",)
                    fn = lambda P: P.history.undo()
                    ctx.count("twin:redo_of_entries_orphaned_by_a_drop_not_generated")
                if op[0] in ("undo_drop", "drop_all") and A.history.undo_list:
                    stale[0] = max(stale[0], len(A.history.redo_list))
                rp["ops"].append(op)
                ctx.count("twin_op:" + op[0])
                if sess > 0 and op[0].startswith("db_") and len(op) > 2 and objdb_plain(A).get(op[1], {}).get(op[2]) == ({}, {}):
                    ctx.count("twin:op_on_scope_that_is_empty_after_reopen")
                ea, eb, va, vb = both(fn, build, op[0] if len(op) == 1 else None)
                stale[0] = min(stale[0], len(A.history.redo_list))
                if ea != eb:
                    ctx.violation(dict(rp, phase="op", errors=[ea, eb]),
                                  "C12 twin: operation %r raises %r in the reopened project but %r in the control" % (op, ea, eb))
                    return
                if op[0].startswith("db_") and va != vb:
                    ctx.violation(dict(rp, phase="op", results=[repr(va)[:600], repr(vb)[:600]]),
                                  "C12 twin: operation %r answers %r in the reopened project but %r in the control" % (op, va, vb))
                    return
                if not compare("after %r in session %d" % (op, sess)):
                    return
            # session boundary: only A is closed and reopened
            odb_b = objdb_plain(B)
            if any(v == ({}, {}) for sc in odb_b.values() for v in sc.values()):
                ctx.count("twin:closed_with_empty_scope")
            if any(is_mixed(B, x) for x in _abs_lists(B)[0] + _abs_lists(B)[1]):
                ctx.count("twin:closed_with_recorded_set_with_ignored_child")
            own = _abs_lists(A)
            own = (own[0][max(0, len(own[0]) - limit):], own[1])
            for ci in range(rng.randint(1, 2)):
                live = objdb_plain(A)
                try:
                    A.close()
                except Exception as e:  # noqa
                    ctx.violation(dict(rp, phase="close %d.%d" % (sess, ci), error=repr(e)),
                                  "C12 twin: closing the project raises %r (session %d, close %d)" % (e, sess, ci + 1))
                    return
                if ci == 0 and live and not objdb_broken(live):
                    try:
                        out["ocases"].append((live, read_saved_objectdb(ra)))
                    except Exception as e:  # noqa
                        ctx.violation(dict(rp, phase="objectdb-json", error=repr(e)),
                                      "C12 object db: the JSON side file written at close cannot be read back")
                        return
                try:
                    A = Project(ra, **kw)
                except Exception as e:  # noqa
                    ctx.violation(dict(rp, phase="reopen %d.%d" % (sess, ci), error=repr(e)),
                                  "C12 twin: opening the project again raises %r (session %d)" % (e, sess))
                    return
            rp["ops"].append(("close_reopen",))
            if _abs_lists(A) != own:
                ctx.violation(dict(rp, phase="after reopen %d" % sess, what="own-lists", before=own, after=_abs_lists(A)),
                              "C12 twin: undo/redo lists (time stamps included) differ from the project's own lists before the close")
                return
            # B's undo list is trimmed only when it is written; mirror History.write's trimming
            B.history._remove_extra_items()
            if not compare("after reopen %d" % sess):
                return
            odb_a = objdb_plain(A)
            if not strict_eq(odb_a, odb_b) and odb_a != odb_b:
                broken = objdb_broken(odb_a)
                ctx.violation(dict(rp, phase="objectdb", reopened=repr(odb_a)[:1500], control=repr(odb_b)[:1500]),
                              "C12 twin: object information after reopen differs from what the never-closed control holds"
                              + ("; reloaded scopes without their tables (path, key, error): %r" % broken[:3] if broken else ""))
                return
        # wind the whole history back and forth in both
        steps = 0
        while A.history.undo_list and steps < 60:
            both(lambda P: P.history.undo(), None, "undo")
            steps += 1
            if not compare("final undo %d" % steps):
                return
        while len(A.history.redo_list) > stale[0] and steps < 120:
            both(lambda P: P.history.redo(), None, "redo")
            steps += 1
            if not compare("final redo %d" % steps):
                return
    finally:
        for P in (A, B):
            try:
                P.close()
            except Exception:
                pass
        shutil.rmtree(ra, ignore_errors=True)
        shutil.rmtree(rb, ignore_errors=True)


def run_objdb_cases(ctx, ocases):
    """Model save_db on the live object db vs what close() wrote (the JSON side file holds every
    ScopeInfo.__getstate__); compared inside Coq (PersistRunner.run_ocase)."""
    from harness.c12 import g_pyval, g_jsval, all_strings
    from harness.common import g_pair
    if not ocases:
        return
    terms = []
    for (db, saved) in ocases:
        strs = []
        for path, scopes in db.items():
            for key, (ci, pn) in scopes.items():
                all_strings(ci, strs)
                all_strings(pn, strs)
        all_strings(saved, strs)
        digits = sorted({ord(c) for s in strs for c in s if c.isdigit()})
        g_db = g_list([g_pair(g_text(path), g_list([g_pair(g_text(k), g_pair(g_pyval(ci), g_pyval(pn)))
                                                    for k, (ci, pn) in scopes.items()]))
                       for path, scopes in db.items()])
        def g_state(st):
            if not isinstance(st, dict):     # not a ScopeInfo state at all (e.g. null)
                return "(%s, [], %s)" % (g_jsval(st), g_text(""))
            return "(%s, %s, %s)" % (g_jsval(st.get("data")), g_list([g_jsval(x) for x in st.get("references", [])]),
                                     g_text(st.get("$", "")))
        g_saved = g_list([g_pair(g_text(path), g_list([g_pair(g_text(k), g_state(st)) for k, st in scopes.items()]))
                          for path, scopes in saved.items()])
        terms.append("{| oc_digits := %s; oc_db := %s; oc_saved := %s |}" % (g_list([g_N(d) for d in digits]), g_db, g_saved))
    out = ctx.coq_file(PHEADER + "From RopeVerif.C12 Require Import Runner.\nDefinition cases : list ocase := %s.\n"
                       "Eval vm_compute in (omismatches cases).\nEval vm_compute in (count_empty_scopes cases).\n"
                       % g_list(terms).replace("; {|", ";\n {|"))
    nums = ctx.parse_nums(out)
    ctx.extra["empty_scopes_in_compared_object_dbs"] = nums[-1][0] if nums and nums[-1] else 0
    pairs = ctx.parse_pairs(out)
    for (i, code) in (pairs[0] if pairs else []):
        ctx.violation({"kind": "objectdb-model", "code": code, "db": repr(ocases[i][0])[:2000], "saved": repr(ocases[i][1])[:2000],
                       "broken": "correspondence PersistRunner.run_ocase (Persist.save_db/load_db vs MemoryDB.write / ScopeInfo.__getstate__); theorem C12_objectdb_roundtrip no longer speaks about the code"},
                      "C12 object db: model save_db disagrees with what close() wrote", no_input=True)
    ctx.extra["persist_objdb_cases"] = len(ocases)
    for _ in ocases:
        ctx.traces += 1


NAV_KINDS = {"undo": 0, "redo": 1, "undo_drop": 2, "clear": 3}
NAV_NAMES = {v: k for k, v in NAV_KINDS.items()}


def run_nav_cases(ctx, ncases):
    """Every History.undo() / redo() step observed on the never-closed control vs Sessions.hist_undo / hist_redo,
    inside Coq (the steps the theorems C12_sessions_* quantify over besides History.do)."""
    if not ncases:
        return
    terms = ["{| nc_kind := %s; nc_undo := %s; nc_redo := %s; nc_undo_after := %s; nc_redo_after := %s |}" % (
                 g_N(k), g_list([g_change(x) for x in u]), g_list([g_change(x) for x in r]),
                 g_list([g_change(x) for x in ua]), g_list([g_change(x) for x in ra]))
             for (k, u, r, ua, ra) in ncases]
    shard = 150
    header = PHEADER + "From RopeVerif.C12 Require Import Sessions SessionsRunner.\n"
    bodies = [header + "Definition cases : list ncase := %s.\nEval vm_compute in (nmismatches cases).\n"
              "Eval vm_compute in (count_empty_steps cases).\n" % g_list(terms[s:s + shard]).replace("; {|", ";\n {|")
              for s in range(0, len(terms), shard)]
    outs = ctx.coq_files_parallel(bodies)
    empty = 0
    for si, out in enumerate(outs):
        pairs = ctx.parse_pairs(out)
        nums = ctx.parse_nums(out)
        if not nums:
            raise RuntimeError("C12 SessionsRunner produced no output: %r" % out[:500])
        empty += nums[-1][0] if nums[-1] else 0
        for (i, code) in (pairs[0] if pairs else []):
            nc = ncases[si * shard + i]
            ctx.violation({"kind": "nav-model", "ncase": repr(nc)[:3000], "code": code,
                           "broken": "correspondence SessionsRunner.run_ncase (Sessions.hist_undo / hist_redo / hist_undo_drop / hist_clear vs History.undo() / redo() / undo(drop=True) / clear()); theorems C12_sessions_lose_nothing / C12_sessions_reopen no longer speak about the code"},
                          "C12 history: model of History %s disagrees with the implementation" % NAV_NAMES[nc[0]], no_input=True)
    for nc in ncases:
        ctx.traces += 1
        ctx.case(("nav-step", repr(nc)), nontrivial=(nc[1], nc[2]) != (nc[3], nc[4]))
        ctx.count("nav_step:" + NAV_NAMES[nc[0]] + (":empty_list" if (nc[1], nc[2]) == (nc[3], nc[4]) else ""))
    ctx.extra["persist_undo_redo_steps"] = len(ncases)
    ctx.extra["undo_redo_steps_on_an_empty_list"] = empty


def run_do_cases(ctx, dcases):
    """Every History.do step observed on the live projects vs Persist.hist_do, inside Coq."""
    if not dcases:
        return
    terms = ["{| dc_limit := %s; dc_ignored := %s; dc_undo := %s; dc_redo := %s; dc_change := %s; "
             "dc_undo_after := %s; dc_redo_after := %s |}" % (
                 g_nat(l), g_list([g_text(p) for p in ign]), g_list([g_change(x) for x in u]), g_list([g_change(x) for x in r]),
                 g_change(c), g_list([g_change(x) for x in ua]), g_list([g_change(x) for x in ra]))
             for (l, ign, u, r, c, ua, ra) in dcases]
    shard = 150
    bodies = [PHEADER + "Definition cases : list dcase := %s.\nEval vm_compute in (dmismatches cases).\n"
              "Eval vm_compute in (count_mixed_do cases).\n" % g_list(terms[s:s + shard]).replace("; {|", ";\n {|")
              for s in range(0, len(terms), shard)]
    outs = ctx.coq_files_parallel(bodies)
    mixed = 0
    for si, out in enumerate(outs):
        pairs = ctx.parse_pairs(out)
        nums = ctx.parse_nums(out)
        mixed += nums[-1][0] if nums and nums[-1] else 0
        for (i, code) in (pairs[0] if pairs else []):
            dc = dcases[si * shard + i]
            ctx.violation({"kind": "do-model", "dcase": repr(dc)[:3000], "code": code,
                           "broken": "correspondence PersistRunner.run_dcase (Persist.hist_do / interesting vs History.do); theorems C12_recorded_change_reloads_whole / C12_ignored_only_change_not_recorded no longer speak about the code"},
                          "C12 history: model of History.do disagrees with the implementation on %r" % (dc[4],), no_input=True)
    for dc in dcases:
        ctx.traces += 1
        ctx.case(("do-step", repr(dc)), nontrivial=bool(set(dc[1]) & set(abs_paths(dc[4]))))
        ctx.count("do_step:" + ("not_recorded(ignored only)" if dc[5] == dc[2] else "recorded"))
    ctx.extra["persist_do_steps"] = len(dcases)
    ctx.extra["do_steps_recording_a_set_with_ignored_child"] = mixed


def objdb_plain(project):
    """{path: {scope key: (call_info, per_name)}} read from the live containers. A scope object whose
    tables cannot be read (it lost its attributes) is reported as ("ERROR", exception name)."""
    db = project.pycore.object_info.objectdb.files
    res = {}
    for path, scopes in db._files.items():
        res[path] = {}
        for key, si in scopes.items():
            try:
                res[path][key] = (dict(si.call_info), dict(si.per_name))
            except Exception as e:  # noqa
                res[path][key] = ("ERROR", type(e).__name__)
    return res


def objdb_broken(plain):
    return [(p, k, v[1]) for p, sc in plain.items() for k, v in sc.items() if v and v[0] == "ERROR"]


def objdb_observe(project):
    """What the stored object information answers through its query interface: for every stored scope
    the call infos, and per-name / returned lookups for the names and argument tuples of the pools."""
    odb = project.pycore.object_info.objectdb
    res = {}
    for path in sorted(odb.files.keys()):
        res[path] = {}
        info = odb.files[path]
        for key in sorted(info.keys()):
            try:
                scope = info[key]
                calls = sorted((repr(ci.get_parameters()), repr(ci.get_returned())) for ci in scope.get_call_infos())
                names = [(n, scope.get_per_name(n)) for n in DB_NAMES]
                rets = [(repr(a), scope.get_returned(a)) for a in DB_ARGS]
                res[path][key] = (calls, names, rets)
            except Exception as e:  # noqa
                res[path][key] = "ERROR %s" % type(e).__name__
    return res


# object-db sessions through the public containers (MemoryDB / FileInfo / ScopeInfo) and ObjectDB
DB_KEYS = ["f", "g", "C.m", "C", ""]
DB_NAMES = ["x", "self", "pn"]
DB_TEXTUALS = [("builtin", "str"), ("builtin", "list", ("builtin", "str")), ("unknown",), ("none",),
               ("builtin", "dict", ("builtin", "str"), ("unknown",)), ("defined", "w.py", "C"),
               ("instance", ("defined", "w.py", "C")), ("builtin", "tuple", ("builtin", "str"), ("none",))]
DB_ARGS = [(), (("builtin", "str"),), (("unknown",), ("builtin", "str")), (("instance", ("defined", "w.py", "C")),)]


def gen_db_op(rng, plain, pyfiles):
    """One operation on the object db. plain: objdb_plain of the project; pyfiles: paths of its modules.
    Existing scopes (the empty ones first) are preferred, so that reloaded scopes are queried and extended."""
    paths = sorted(set(plain) | set(pyfiles) | {"ghost.py"})
    existing = [(p, k) for p in sorted(plain) for k in sorted(plain[p])]
    empty = [(p, k) for (p, k) in existing if plain[p][k] == ({}, {})]
    k = rng.random()
    if k < 0.25 or not existing:
        absent = [(p, key) for p in paths for key in DB_KEYS if key not in plain.get(p, {})]
        path, key = rng.choice(absent) if absent else (rng.choice(paths), rng.choice(DB_KEYS))
        return ("db_create_scope", path, key)
    if k < 0.31:
        return ("db_create_file", rng.choice(paths))
    if empty and rng.random() < 0.6:
        path, key = rng.choice(empty)
    elif rng.random() < 0.8:
        path, key = rng.choice(existing)
    else:
        path, key = rng.choice(paths), rng.choice(DB_KEYS)
    if k < 0.48:
        return ("db_add_call", path, key, rng.choice(DB_ARGS), rng.choice(DB_TEXTUALS))
    if k < 0.65:
        return ("db_add_pername", path, key, rng.choice(DB_NAMES), rng.choice(DB_TEXTUALS))
    if k < 0.92:
        return ("db_query", path, key, rng.choice(DB_NAMES), rng.choice(DB_ARGS))
    return ("db_del_scope", path, key)


def apply_db_op(P, op):
    odb = P.pycore.object_info.objectdb
    kind = op[0]
    if kind == "db_create_scope":       # a scope that exists with nothing recorded (yet)
        _, path, key = op
        if path not in odb.files:
            odb.files.create(path)
        if key not in odb.files[path]:
            odb.files[path].create_scope(key)
        return None
    if kind == "db_create_file":
        if op[1] not in odb.files:
            odb.files.create(op[1])
        return None
    if kind == "db_add_call":
        _, path, key, args, returned = op
        odb.add_callinfo(path, key, args, returned)
        return None
    if kind == "db_add_pername":
        _, path, key, name, value = op
        odb.add_pername(path, key, name, value)
        return None
    if kind == "db_query":
        _, path, key, name, args = op
        return (odb.get_pername(path, key, name), odb.get_returned(path, key, args),
                sorted((repr(ci.get_parameters()), repr(ci.get_returned())) for ci in odb.get_callinfos(path, key)))
    if kind == "db_del_scope":
        _, path, key = op
        if path in odb.files and key in odb.files[path]:
            del odb.files[path][key]
        return None
    raise ValueError(kind)


def read_saved_objectdb(root):
    import json as _json
    with open(os.path.join(root, ".ropeproject", "objectdb.json")) as jf:
        return _json.load(jf)


def run(ctx):
    from rope.base.project import Project
    ctx.extra["persist_rule"] = (
        "unit: random change trees (depth<=3, all five change classes, File/Folder resources, None/float times; half of "
        "the leaves draw their resource from a pool that contains ignored resources: '*~' backups, '*.pyc', below .venv, "
        "'venv'; 30% of the sets start with a save-with-backup pair) through ChangeToData -> pickle protocol 2 -> "
        "DataToChange, with project.is_ignored of every changed path and History._is_change_interesting; "
        "project: 3-9 changes (edits, file/folder creations, file and folder moves, composite sets, 30% recorded sets with "
        "children on ignored resources: backup sets (also nested), moves of a file with its backup, .pyc and .venv "
        "creations) + 0-3 undos on a temp project with limits {2,3,100}, static analysis of one module plus 0-4 direct "
        "object-db operations (scopes created with nothing recorded, call/per-name facts, removals, bare file entries), "
        "close and reopen 1-2 times; lists, dependency closures, object db (tables and query answers) compared, one fact "
        "added to every reloaded scope, every undo/redo replayed against snapshots (ignored files included); every "
        "History.do step is a Coq case (hist_do). twin: the same operations on a project that is closed/reopened between "
        "sessions and on a never-closed control, incl. recorded sets with ignored children, changes to ignored resources "
        "only (not recorded), object-db operations that prefer scopes that are empty, queries; lists modulo ChangeSet time "
        "stamps vs the control and with time stamps vs the project's own lists before the close")
    root = tempfile.mkdtemp(prefix="ropeverif-c12u-")
    try:
        project = Project(root, ropefolder=None)
        run_unit(ctx, project)
        project.close()
    finally:
        shutil.rmtree(root, ignore_errors=True)
    nh = ctx.scale(40, 400)
    hcases, objvals, ocases, dcases = [], [], [], []
    for h in range(nh):
        r = one_history(ctx, h)
        if r.get("objdb_case") and r["objdb_case"][0]:
            ocases.append(r["objdb_case"])
        dcases.extend(r.get("dcases", []))
        ctx.case(("history", h), nontrivial=r["hcase"] is not None and len(r["hcase"][1]) + len(r["hcase"][2]) >= 2)
        ctx.traces += 1
        if r["hcase"]:
            hcases.append(r["hcase"])
        objvals.extend(r["objdb_values"])
        if ctx.too_many():
            return
    # model close/reopen on the same lists
    terms = ["{| hc_limit := %s; hc_undo := %s; hc_redo := %s; hc_undo_after := %s; hc_redo_after := %s |}" % (
        g_nat(l), g_list([g_change(x) for x in u]), g_list([g_change(x) for x in r]),
        g_list([g_change(x) for x in ua]), g_list([g_change(x) for x in ra])) for (l, u, r, ua, ra) in hcases]
    if terms:
        out = ctx.coq_file(PHEADER + "Definition cases : list hcase := %s.\nEval vm_compute in (hmismatches true cases).\n"
                           % g_list(terms).replace("; {|", ";\n {|"))
        pairs = ctx.parse_pairs(out)
        for (i, code) in (pairs[0] if pairs else []):
            ctx.violation({"kind": "history-model", "hcase": repr(hcases[i])[:3000], "code": code,
                           "broken": "correspondence PersistRunner.run_hcase (Persist.close/reopen vs History.write/_load_history); theorem C12_reopen_lists no longer speaks about the code"},
                          "C12 history: model close/reopen disagrees with the implementation", no_input=True)
    ctx.extra["persist_histories"] = len(hcases)
    nt = ctx.scale(40, 400)
    tout = {"ocases": [], "dcases": []}
    for h in range(nt):
        twin_history(ctx, h, tout)
        ctx.case(("twin", h), nontrivial=True)
        ctx.traces += 1
        if ctx.too_many():
            return
    ctx.extra["persist_twin_histories"] = nt
    # at most ~300 object-db cases per file; the twin sessions contribute the dbs with directly created scopes
    seen_o, uniq_o = set(), []
    for oc in ocases + tout["ocases"]:
        if repr(oc) not in seen_o:
            seen_o.add(repr(oc))
            uniq_o.append(oc)
    run_objdb_cases(ctx, uniq_o[:300])
    run_do_cases(ctx, dcases + tout["dcases"])
    run_nav_cases(ctx, tout.get("ncases", []))
    # every stored ScopeInfo state goes through the serializer correspondence (version 2, as __getstate__ does)
    if objvals:
        from harness import c12
        seen, uniq = set(), []
        for v in objvals:
            if repr(v) not in seen:
                seen.add(repr(v))
                uniq.append((v, 2))
        c12.check_cases(ctx, uniq[:300])
        ctx.extra["scopeinfo_states_checked"] = len(uniq[:300])
        ctx.sample({"scopeinfo_state": repr(uniq[0][0])[:400]})


def replay(ctx, obj):
    """True iff the property fails on the recorded input."""
    from rope.base.project import Project
    from rope.base import change as ch
    if obj.get("kind") == "change-data":
        root = tempfile.mkdtemp(prefix="ropeverif-c12r-")
        try:
            project = Project(root, ropefolder=None)
            a = _tuplify(obj["change"])
            c = build_change(project, a)
            data = pickle.loads(pickle.dumps(ch.ChangeToData()(c), 2))
            try:
                back = abstract(ch.DataToChange(project)(data))
            except Exception:
                back = None
            project.close()
            return back != a
        finally:
            shutil.rmtree(root, ignore_errors=True)
    if obj.get("kind") == "history-script" and obj.get("script") == "folder-move-selective-undo":
        root = tempfile.mkdtemp(prefix="ropeverif-c12r-")
        try:
            p = Project(root, save_history=True, save_objectdb=True)
            pkg = p.root.create_folder("pkg")
            f = pkg.create_file("m.py")
            f.write("x = 1\n")
            before = snapshot(root)
            p.do(ch.MoveResource(pkg, "pkg2"))
            p.do(ch.ChangeContents(p.get_file("pkg2/m.py"), "x = 2\n"))
            p.close()
            p = Project(root, save_history=True, save_objectdb=True)
            mv = p.history.undo_list[3]
            p.history.undo(mv)
            bad = len(p.history.undo_list) != 3 or snapshot(root) != before
            p.close()
            return bad
        finally:
            shutil.rmtree(root, ignore_errors=True)
    if obj.get("kind") == "history-script" and obj.get("script") == "backup-set-undo-after-reopen":
        # a recorded set that also writes an ignored backup file: same set after reopen, undo/redo restore both files
        root = tempfile.mkdtemp(prefix="ropeverif-c12r-")
        try:
            p = Project(root, save_history=True, save_objectdb=True)
            p.root.create_file("app.py").write("v = 1\n")
            with open(os.path.join(root, "app.py~"), "w") as f:
                f.write("# older backup\n")
            before = snapshot(root)
            cs = ch.ChangeSet("save with backup")
            cs.add_change(ch.ChangeContents(p.get_file("app.py~"), "v = 1\n"))
            cs.add_change(ch.ChangeContents(p.get_file("app.py"), "v = 2\n"))
            p.do(cs)
            after = snapshot(root)
            lists = _abs_lists(p)
            for _ in range(2):
                p.close()
                p = Project(root, save_history=True, save_objectdb=True)
            bad = _abs_lists(p) != lists
            p.history.undo()
            bad = bad or snapshot(root) != before
            p.history.redo()
            bad = bad or snapshot(root) != after
            p.close()
            return bad
        except Exception:  # noqa
            return True
        finally:
            shutil.rmtree(root, ignore_errors=True)
    if obj.get("kind") == "objdb-script":
        # object-db operations, close/reopen twice: same tables, same answers, every scope still accepts a fact
        root = tempfile.mkdtemp(prefix="ropeverif-c12r-")
        try:
            p = Project(root, save_history=True, save_objectdb=True)
            p.root.create_file("mod.py").write("def f(a):\n    return a\n\ndef g():\n    pass\n")
            for op in obj["ops"]:
                apply_db_op(p, _tuplify(op))
            plain, observed = objdb_plain(p), objdb_observe(p)
            for _ in range(2):
                p.close()
                p = Project(root, save_history=True, save_objectdb=True)
                if objdb_plain(p) != plain or objdb_observe(p) != observed:
                    return True
            for path in sorted(plain):
                for key in sorted(plain[path]):
                    apply_db_op(p, ("db_add_pername", path, key, "fresh_name", ("builtin", "str")))
                    exp = dict(plain[path][key][1], fresh_name=("builtin", "str"))
                    if objdb_plain(p)[path][key] != (plain[path][key][0], exp):
                        return True
            p.close()
            return False
        except Exception:  # noqa
            return True
        finally:
            shutil.rmtree(root, ignore_errors=True)
    if obj.get("kind") == "twin":
        sub = type(ctx)(ctx.prop, ctx.tier, obj.get("base_seed", 0), replay_only=True)
        sub.findings = []
        twin_history(sub, obj["hseed"])
        return bool(sub.violations)
    if obj.get("kind") == "history":
        sub = type(ctx)(ctx.prop, ctx.tier, obj.get("base_seed", 0), replay_only=True)
        sub.findings = []
        one_history(sub, obj["hseed"])
        return bool(sub.violations)
    return False


def _tuplify(x):
    if isinstance(x, list):
        if x and x[0] == "set":
            return ("set", x[1], [_tuplify(y) for y in x[2]], x[3])
        return tuple(_tuplify(y) for y in x)
    return x


def build_change(project, a):
    from rope.base import change as ch
    k = a[0]
    if k == "set":
        cs = ch.ChangeSet(a[1], None if a[3] is None else struct.unpack(">d", struct.pack(">Q", a[3]))[0])
        for x in a[2]:
            cs.add_change(build_change(project, x))
        return cs
    if k == "contents":
        return ch.ChangeContents(project.get_file(a[1]), a[2], a[3])
    res = lambda p, folder: project.get_folder(p) if folder else project.get_file(p)
    if k == "move":
        return ch.MoveResource(res(a[1], a[2]), a[3], exact=True)
    if k == "create":
        return ch.CreateResource(res(a[1], a[2]))
    if k == "remove":
        return ch.RemoveResource(res(a[1], a[2]))
    raise ValueError(k)
