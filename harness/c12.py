"""C12 — closing and reopening a project loses nothing it promised to keep.

Part A (serializer): generated values -> real python_to_json -> json.dumps -> json.loads ->
json_to_python, compared inside Coq with the model of coq/C12/Serializer.v (encoder output and decoder
output), plus the independent oracle `decoded == original with equal types` and `encoded == decoded JSON`.
Part B (history / object db persistence) lives in c12_persist.py and is called from run().
"""
import json

from harness.common import g_N, g_Z, g_bool, g_list, g_text, g_opt, g_pair

PROPERTY = "C12"

DIGITS_ASCII = "0123456789"
DIGITS_OTHER = "٣२²①௧５"   # arabic-indic 3, devanagari 2, superscript 2, circled 1, tamil 1, fullwidth 5
LETTERS = "abxyZ_ $é中\U0001f600\ud800"


# ----------------------------------------------------------------------------- generator
def gen_str(rng):
    k = rng.random()
    if k < 0.15:
        return ""
    if k < 0.40:
        return "".join(rng.choice(DIGITS_ASCII) for _ in range(rng.randint(1, 3)))
    if k < 0.50:
        return "".join(rng.choice(DIGITS_ASCII + DIGITS_OTHER) for _ in range(rng.randint(1, 3)))
    if k < 0.55:
        return rng.choice(["$x", "x$", "items", "t", "l", "v", "data", "references", "-1", "1.0", " 1", "0x1"])
    return "".join(rng.choice(LETTERS + DIGITS_ASCII) for _ in range(rng.randint(1, 4)))


def gen_int(rng):
    k = rng.random()
    if k < 0.6:
        return rng.randint(-3, 5)
    if k < 0.8:
        return rng.choice([2 ** 31, -2 ** 63, 2 ** 64 + 1, 10 ** 30, -10 ** 25])
    return rng.randint(-10 ** 6, 10 ** 6)


def gen_key(rng, depth):
    k = rng.random()
    if k < 0.45:
        return gen_str(rng)
    if k < 0.65:
        return gen_int(rng)
    if k < 0.72:
        return rng.choice([True, False])
    if k < 0.78:
        return None
    n = rng.randint(0, 3)
    return tuple(gen_key(rng, depth + 1) if depth < 2 else gen_int(rng) for _ in range(n))


def gen_val(rng, depth, allow_dollar=False):
    k = rng.random()
    if depth >= 5 or k < 0.30:
        j = rng.random()
        if j < 0.35:
            return gen_str(rng)
        if j < 0.70:
            return gen_int(rng)
        if j < 0.85:
            return rng.choice([True, False])
        return None
    if k < 0.45:
        return tuple(gen_val(rng, depth + 1, allow_dollar) for _ in range(rng.randint(0, 3)))
    if k < 0.60:
        return [gen_val(rng, depth + 1, allow_dollar) for _ in range(rng.randint(0, 3))]
    d = {}
    for _ in range(rng.randint(0, 4)):
        d[gen_key(rng, 0)] = gen_val(rng, depth + 1, allow_dollar)
    if allow_dollar and rng.random() < 0.3:
        d["$"] = gen_val(rng, depth + 1, False)
    return d


# ----------------------------------------------------------------------------- Gallina encoders
def g_pyval(v):
    if isinstance(v, bool):
        return "(PBool %s)" % g_bool(v)
    if isinstance(v, int):
        return "(PInt %s)" % g_Z(v)
    if isinstance(v, str):
        return "(PStr %s)" % g_text(v)
    if v is None:
        return "PNone"
    if isinstance(v, tuple):
        return "(PTuple %s)" % g_list([g_pyval(x) for x in v])
    if isinstance(v, list):
        return "(PList %s)" % g_list([g_pyval(x) for x in v])
    if isinstance(v, dict):
        return "(PDict %s)" % g_list([g_pair(g_pyval(k), g_pyval(x)) for k, x in v.items()])
    raise TypeError(type(v))


def g_jsval(v):
    if isinstance(v, bool):
        return "(JBool %s)" % g_bool(v)
    if isinstance(v, int):
        return "(JInt %s)" % g_Z(v)
    if isinstance(v, str):
        return "(JStr %s)" % g_text(v)
    if v is None:
        return "JNull"
    if isinstance(v, list):
        return "(JArr %s)" % g_list([g_jsval(x) for x in v])
    if isinstance(v, dict):
        return "(JObj %s)" % g_list([g_pair(g_text(k), g_jsval(x)) for k, x in v.items()])
    raise TypeError(type(v))


def strict_eq(a, b):
    if type(a) is not type(b):
        return False
    if isinstance(a, (tuple, list)):
        return len(a) == len(b) and all(strict_eq(x, y) for x, y in zip(a, b))
    if isinstance(a, dict):
        if len(a) != len(b):
            return False
        for (k1, v1), (k2, v2) in zip(a.items(), b.items()):   # insertion order is part of the model
            if not strict_eq(k1, k2) or not strict_eq(v1, v2):
                return False
        return True
    return a == b


def all_strings(v, acc):
    if isinstance(v, str):
        acc.append(v)
    elif isinstance(v, (tuple, list)):
        for x in v:
            all_strings(x, acc)
    elif isinstance(v, dict):
        for k, x in v.items():
            all_strings(k, acc)
            all_strings(x, acc)


def uses_ref_table(v):
    if isinstance(v, dict):
        for k, x in v.items():
            if not (isinstance(k, str) and not k.isdigit()):
                return True
            if uses_ref_table(x):
                return True
    elif isinstance(v, (tuple, list)):
        return any(uses_ref_table(x) for x in v)
    return False


# ----------------------------------------------------------------------------- implementation run
def run_impl(v, version):
    """Returns dict(enc=(data, refs)|None, dec=value|None, oracle_fail=str|None)."""
    from rope.base import serializer
    res = {"enc": None, "dec": None, "oracle": None, "enc_error": None, "dec_error": None}
    try:
        enc = serializer.python_to_json(v, version)
    except (ValueError, TypeError, AssertionError) as e:
        res["enc_error"] = type(e).__name__
        return res
    text = json.dumps(enc)
    back = json.loads(text)
    if not strict_eq(enc, back):
        res["oracle"] = "encoded value changes through json.dumps/json.loads"
    if back.get("v") != version:
        res["oracle"] = "version field lost"
    res["enc"] = (back["data"], back.get("references", []))
    try:
        dec = serializer.json_to_python(back)
    except Exception as e:  # any exception on the encoder's own output is a failure of the round trip
        res["dec_error"] = type(e).__name__
        res["oracle"] = "json_to_python raised %s on python_to_json's output" % type(e).__name__
        return res
    res["dec"] = dec
    if not strict_eq(dec, v):
        res["oracle"] = "decoded value differs from the original (value or type)"
    return res


def case_term(v, version, r):
    strs = []
    all_strings(v, strs)
    if r["enc"] is not None:
        all_strings(r["enc"][0], strs)
        all_strings(r["enc"][1], strs)
    digits = sorted({ord(c) for s in strs for c in s if c.isdigit()})
    enc = None if r["enc"] is None else g_pair(g_jsval(r["enc"][0]), g_list([g_jsval(x) for x in r["enc"][1]]))
    dec = None if (r["enc"] is None or r["dec_error"]) else g_pyval(r["dec"])
    return ("{| c_ver := %s; c_digits := %s; c_val := %s; c_enc := %s; c_dec := %s |}" % (
        g_N(version), g_list([g_N(d) for d in digits]), g_pyval(v), g_opt(enc), g_opt(dec)))


HEADER = ("From Coq Require Import List NArith ZArith Bool.\nImport ListNotations.\n"
          "From RopeVerif.C12 Require Import Serializer Runner.\n")


def check_cases(ctx, cases):
    """cases: list of (value, version). Runs impl, model (in Coq), oracle. Reports violations."""
    results = [run_impl(v, ver) for v, ver in cases]
    bodies = []
    shard = 300
    for s in range(0, len(cases), shard):
        terms = [case_term(v, ver, r) for (v, ver), r in zip(cases[s:s + shard], results[s:s + shard])]
        bodies.append(HEADER + "Definition cases : list case := %s.\nEval vm_compute in (mismatches cases).\n"
                      "Eval vm_compute in (count_wf cases).\n" % g_list(terms).replace("; {|", ";\n {|"))
    outs = ctx.coq_files_parallel(bodies)
    mism = {}
    wf = 0
    for si, out in enumerate(outs):
        pairs = ctx.parse_pairs(out)
        for (i, code) in (pairs[0] if pairs else []):
            mism[si * shard + i] = code
        nums = ctx.parse_nums(out)
        wf += nums[-1][0] if nums and nums[-1] else 0
    ctx.extra["wf_cases_in_theorem_domain"] = ctx.extra.get("wf_cases_in_theorem_domain", 0) + wf
    for idx, ((v, ver), r) in enumerate(zip(cases, results)):
        nontriv = uses_ref_table(v)
        ctx.case(("ser", ver, repr(v)), nontrivial=nontriv)
        ctx.traces += 1
        ctx.count("ser:version=%d" % ver)
        ctx.count("ser:" + ("refused:" + r["enc_error"] if r["enc_error"] else "encoded"))
        if nontriv:
            ctx.count("ser:uses_reference_table")
        replay = {"kind": "serializer", "value": repr(v), "version": ver}
        if r["oracle"]:
            ctx.violation(dict(replay, observed=r["oracle"]), "C12 serializer: " + r["oracle"] + " for " + repr(v)[:200])
        elif idx in mism:
            what = {1: "encoder output differs from model", 2: "decoder output differs from model",
                    3: "model round trip differs from value"}.get(mism[idx], "code %d" % mism[idx])
            # the oracle passed on this input: search its neighbourhood for a failing input
            found = neighbourhood_search(ctx, v, ver)
            if found is None:
                ctx.violation(dict(replay, mismatch=what,
                                   broken="correspondence RopeVerif.C12.Runner.run_case (model Serializer.python_to_json / json_to_python vs rope/base/serializer.py); theorem C12_serializer_roundtrip no longer speaks about the code"),
                              "C12 serializer: %s on %s" % (what, repr(v)[:200]), no_input=True)
            else:
                ctx.violation(dict(found), "C12 serializer: round trip fails on " + found["value"][:200])
        if ctx.too_many():
            break
    return results


def neighbourhood_search(ctx, v, ver, budget=3000):
    """Random search around a mismatching case for an input on which the oracle fails."""
    import random
    rng = random.Random("nb-%s-%d" % (repr(v), ver))
    cands = [v]
    subs = []
    collect_subvalues(v, subs)
    cands.extend(subs)
    for c in cands[:200]:
        for version in (1, 2):
            r = run_impl(c, version)
            if r["oracle"]:
                return {"kind": "serializer", "value": repr(c), "version": version, "observed": r["oracle"]}
    for _ in range(budget):
        c = gen_val(rng, 0)
        for version in (1, 2):
            r = run_impl(c, version)
            if r["oracle"]:
                return {"kind": "serializer", "value": repr(c), "version": version, "observed": r["oracle"]}
    return None


def collect_subvalues(v, acc):
    if isinstance(v, (tuple, list)):
        for x in v:
            acc.append(x)
            collect_subvalues(x, acc)
    elif isinstance(v, dict):
        for k, x in v.items():
            acc.append({k: x})
            acc.append(x)
            collect_subvalues(x, acc)


FIXED_CASES = [
    ({}, 1), ({}, 2), ((), 1), ([], 2), ({"1": 1, 1: "1", True: None} if False else {"1": 1, 1: "1"}, 2),
    ({(1, ("a", None)): {2: [3, (4,)]}, "٣": {"x": ()}}, 1),
    ({(1, ("a", None)): {2: [3, (4,)]}, "٣": {"x": ()}}, 2),
    ({"": 0, "0": {"00": {"000": []}}, None: None, False: True}, 2),
    ({"a": {"$": 1}}, 1), ({"$": 1}, 2), ([{"x": ({"y": [({1: 2},)]},)}], 1),
    ((1, [2, (3, [4, {"5": 6}])]), 2), ({"²": 1, "①": 2, "５": 3}, 2),
]


def run(ctx):
    ctx.rule = ("serializer: values generated from one PRNG (nested tuples/lists/dicts to depth 5, keys: digit "
                "strings ASCII and non-ASCII, ints, bools, None, tuples; lone surrogates, big ints), both versions; "
                "a case is non-trivial when some dict key goes through the reference table; distinct by repr. "
                "persistence: see coverage.persist_rule")
    n = ctx.scale(600, 6000)
    cases = list(FIXED_CASES)
    for i in range(n):
        v = gen_val(ctx.rng, 0, allow_dollar=(i % 10 == 0))
        cases.append((v, 1 + (i % 2)))
    for v, ver in cases[:3]:
        pass
    results = check_cases(ctx, cases)
    for (v, ver), r in list(zip(cases, results))[5:8]:
        ctx.sample({"value": repr(v), "version": ver, "encoded": repr(r["enc"])[:300]})
    # invalid version is refused by both sides
    try:
        from rope.base import serializer
        serializer.python_to_json({}, 3)
        ctx.violation({"kind": "serializer", "value": "{}", "version": 3}, "version 3 accepted")
    except ValueError:
        pass
    try:
        from harness import c12_persist
    except ImportError:
        c12_persist = None
    if c12_persist is not None:
        c12_persist.run(ctx)


def replay(ctx, obj):
    if obj.get("kind") == "serializer":
        v = eval(obj["value"], {"__builtins__": {}}, {})
        r = run_impl(v, obj["version"])
        return bool(r["oracle"])
    from harness import c12_persist
    return c12_persist.replay(ctx, obj)
