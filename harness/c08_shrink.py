"""C08 — input minimisation: delta debugging on lines, then on characters, keeping the text a valid module on
which the same oracle clause (same structural signature) still fails."""
import time
import warnings

from harness import c08_gen


def shrink(src, still_fails, budget_s=6.0):
    """still_fails(text) -> bool (must include validity).  Returns a (locally) minimal text."""
    t_end = time.time() + budget_s

    def ok(t):
        if time.time() > t_end:
            return False
        with warnings.catch_warnings():
            warnings.simplefilter("ignore")
            return c08_gen.valid(t) and still_fails(t)

    def ddmin(units, joiner):
        n = 2
        while len(units) >= 2 and time.time() < t_end:
            chunk = max(1, len(units) // n)
            reduced = False
            i = 0
            while i < len(units):
                cand = units[:i] + units[i + chunk:]
                if cand and ok(joiner(cand)):
                    units = cand
                    n = max(n - 1, 2)
                    reduced = True
                else:
                    i += chunk
            if not reduced:
                if chunk == 1:
                    break
                n = min(len(units), n * 2)
        return units

    lines = src.split("\n")
    lines = ddmin(lines, "\n".join)
    cur = "\n".join(lines)
    chars = list(cur)
    chars = ddmin(chars, "".join)
    return "".join(chars)
