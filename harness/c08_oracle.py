"""C08 — independent oracle: CPython's own node positions, tokenize, re-parsing.

Clauses (numbering of DESIGN.md):
 (i)   get_patched_ast succeeds without exception and without warning
 (ii)  write_ast(root) == source
 (iii) region == span computed from lineno/col_offset/end_lineno/end_col_offset (UTF-8 columns converted
       to code points), under the conventions listed in `expected_region`
 (iv)  the region text of expressions / statements re-parses to an ast.dump-equal node
 (v)   child region inside parent region, siblings ordered
 (vi)  every node of the tree that stands for a construct of the source got a region (completeness)

Each failure is returned as a dict with a structural `sig` used for known-finding matching.
"""
import ast
import io
import re
import tokenize

CONTEXT_CLASSES = (ast.expr_context, ast.operator, ast.boolop, ast.cmpop, ast.unaryop)


class SrcMap:
    def __init__(self, src):
        self.src = src
        self.lines = src.split("\n")
        self.starts = []
        o = 0
        for ln in self.lines:
            self.starts.append(o)
            o += len(ln) + 1
        self._bytes = {}
        self._tokens = None

    def off(self, lineno, col):
        """(1-based line, UTF-8 byte column) -> code point offset"""
        i = lineno - 1
        if i >= len(self.lines):
            return len(self.src)
        line = self.lines[i]
        if line.isascii():
            return self.starts[i] + col
        b = self._bytes.get(i)
        if b is None:
            b = self._bytes[i] = line.encode("utf-8")
        return self.starts[i] + len(b[:col].decode("utf-8", "replace"))

    def span(self, node):
        if getattr(node, "lineno", None) is None or getattr(node, "end_lineno", None) is None:
            return None
        return (self.off(node.lineno, node.col_offset), self.off(node.end_lineno, node.end_col_offset))

    def tokens(self):
        """significant tokens as (string, start, end, type), by tokenize (character columns)"""
        if self._tokens is None:
            toks = []
            try:
                for t in tokenize.generate_tokens(io.StringIO(self.src).readline):
                    if t.type in (tokenize.NL, tokenize.NEWLINE, tokenize.COMMENT, tokenize.INDENT,
                                  tokenize.DEDENT, tokenize.ENDMARKER):
                        continue
                    s = self.starts[t.start[0] - 1] + t.start[1] if t.start[0] - 1 < len(self.starts) else len(self.src)
                    e = s + len(t.string)     # (3.12 reports byte columns for the end of multi-line tokens)
                    toks.append((t.string, s, e, t.type))
            except (tokenize.TokenError, IndentationError, SyntaxError):
                toks = None
            self._tokens = toks if toks is not None else False
        return self._tokens or []

    def first_token_at_or_after(self, pos):
        for t in self.tokens():
            if t[1] >= pos:
                return t
        return None

    def last_token_ending_at_or_before(self, pos):
        best = None
        for t in self.tokens():
            if t[2] <= pos:
                best = t
            else:
                break
        return best

    def last_token_before(self, pos, string):
        best = None
        for t in self.tokens():
            if t[1] >= pos:
                break
            if t[0] == string:
                best = t
        return best


def parents_of(tree):
    par = {}
    for n in ast.walk(tree):
        for f, v in ast.iter_fields(n):
            if isinstance(v, ast.AST):
                par[id(v)] = (n, f)
            elif isinstance(v, list):
                for x in v:
                    if isinstance(x, ast.AST):
                        par[id(x)] = (n, f)
    return par


def is_construct(node, parent, field):
    """nodes for which clause (vi) demands a region"""
    if isinstance(node, CONTEXT_CLASSES):
        return False
    if isinstance(node, ast.withitem):
        return False      # purely structural, no positions in CPython either; its children are visited
    if isinstance(node, ast.Constant) and isinstance(parent, ast.JoinedStr):
        return False      # literal segments of an f-string
    if isinstance(node, ast.JoinedStr) and isinstance(parent, ast.FormattedValue) and field == "format_spec":
        return False      # the format spec is a pseudo f-string
    return True


TRIVIA = r"(?:[ \t\f]|\\\n|\n|#[^\n]*)*"
RE_SEMI = re.compile(r"[\s\\]*;")
RE_STAR = re.compile(r"\*\*?" + TRIVIA)
RE_COMMA = re.compile(TRIVIA + ",")
RE_COLON = re.compile(TRIVIA + ":")
RE_OPENS = re.compile(r"(?:\(" + TRIVIA + ")+")
RE_CLOSES = re.compile(r"(?:" + TRIVIA + r"\))+")
RE_STAR_OPENS = re.compile(r"\*\*?" + TRIVIA + r"(?:\(" + TRIVIA + ")*")
RE_CLOSES_COMMA = re.compile(r"(?:" + TRIVIA + r"[),])+")
RE_OPENS_STAR = re.compile(r"(?:[(*]" + TRIVIA + ")+")
BLOCK_FIELDS = ("body", "handlers", "orelse", "finalbody", "cases")


def _last_stmt(node):
    last = None
    for f in BLOCK_FIELDS:
        v = getattr(node, f, None)
        if isinstance(v, list) and v and isinstance(v[-1], ast.AST):
            last = v[-1]
    return last


class Expect:
    """CPython's span of every node under the documented conventions (None = no expectation).

    Conventions -- places where rope's *intended* attribution of text differs from the raw
    lineno/col_offset of CPython; none of them is counted as a defect:
      C1 Module: the whole text.
      C3 decorated def/class: starts at the '@' of the first decorator (CPython >= 3.8 starts at 'def').
      C4 generator expression that is the sole argument of a call and shares the call's parentheses: the
         parentheses belong to the call.
      C5 nodes without positions in CPython (comprehension, arguments, match_case, withitem): no span
         expectation; only nesting/order and, for comprehension, re-parsing.
      C6 compound statements (and except handlers) end where their last statement ends (CPython extends
         them over a ';' that follows the last simple statement).
    """

    def __init__(self, sm, par):
        self.sm = sm
        self.par = par
        self.memo = {}

    def of(self, node):
        k = id(node)
        if k not in self.memo:
            self.memo[k] = self._compute(node)
        return self.memo[k]

    def _compute(self, node):
        sm = self.sm
        parent, field = self.par.get(id(node), (None, None))
        if isinstance(node, ast.Module):
            return (0, len(sm.src))
        sp = sm.span(node)
        if sp is None:
            return None
        s, e = sp
        if isinstance(node, (ast.FunctionDef, ast.AsyncFunctionDef, ast.ClassDef)) and node.decorator_list:
            d0 = sm.span(node.decorator_list[0])
            t = sm.last_token_before(d0[0], "@") if d0 else None
            if t is not None:
                s = t[1]
        if isinstance(node, ast.GeneratorExp) and isinstance(parent, ast.Call) and field == "args" \
                and len(parent.args) == 1 and not parent.keywords:
            ps = sm.span(parent)
            if ps and e == ps[1] and sm.src[s:s + 1] == "(":
                a = sm.first_token_at_or_after(s + 1)
                b = sm.last_token_ending_at_or_before(e - 1)
                if a and b:
                    s, e = a[1], b[2]
        if isinstance(node, (ast.stmt, ast.ExceptHandler)):
            last = _last_stmt(node)
            while last is not None and isinstance(last, ast.match_case):
                last = _last_stmt(last)
            if last is not None:
                le = self.of(last)
                if le is not None and le[1] < e and RE_SEMI.fullmatch(sm.src, le[1], e):
                    e = le[1]
        return (s, e)




def deviation(node, got, exp, inner, src, ex_start, ex_end):
    """Decompose the difference between rope's region `got` and the interpreter's span `exp` into recorded
    deviations.  `inner` = (smallest expected start, largest expected end) over the node's own children (or
    None).  A side may be explained by the node's own rule on the text between the interpreter's boundary
    and the inner boundary, plus a deviation already explained at the child that owns that boundary
    (ex_start/ex_end map (rope offset, interpreter offset) -> explained).  Returns a list of signatures;
    "?" marks an unexplained side."""
    gs, ge = got
    es, ee = exp
    sigs = []
    tokenless = isinstance(node, (ast.Starred, ast.Expr)) or (isinstance(node, ast.keyword) and node.arg is None)
    single = isinstance(node, ast.Tuple) and len(node.elts) == 1
    if gs != es:
        i_s = inner[0] if inner else gs
        own = None
        if single and es < gs and (RE_OPENS_STAR if isinstance(node.elts[0], ast.Starred) else RE_OPENS
                                      ).fullmatch(src, es, gs):
            own, i_s = "tuple-single-parenthesised-element", gs     # rope took the innermost pair only
        elif es < i_s:
            if isinstance(node, (ast.Starred, ast.keyword)) and tokenless and RE_STAR_OPENS.fullmatch(src, es, i_s):
                own = "star-excluded"
            elif isinstance(node, ast.Expr) and RE_OPENS.fullmatch(src, es, i_s):
                own = "expr-stmt-parens"
        if own:
            sigs.append(own)
            if gs != i_s and (gs, i_s) not in ex_start:
                sigs.append("?")
        elif (gs, es) not in ex_start:
            sigs.append("?")
    if ge != ee:
        i_e = inner[1] if inner else ge
        own = None
        if isinstance(node, ast.Slice) and ge < ee and RE_COLON.fullmatch(src, ge, ee):
            own, i_e = "slice-empty-step", ge
        elif isinstance(node, ast.arg) and node.annotation is not None and ge - gs == len(node.arg):
            own, i_e = "signature-syntax", ge
        elif i_e < ee:
            if tokenless and RE_CLOSES.fullmatch(src, i_e, ee):
                own = "expr-stmt-parens" if isinstance(node, ast.Expr) else "star-excluded"
            elif single and "tuple-single-parenthesised-element" in sigs and ge < ee \
                    and RE_CLOSES_COMMA.fullmatch(src, ge, ee):
                own, i_e = "tuple-single-parenthesised-element", ge
            elif isinstance(node, ast.Tuple) and RE_COMMA.fullmatch(src, max(ge, i_e), ee):
                own, i_e = "tuple-trailing-comma", max(ge, i_e)
        if own:
            sigs.append(own)
            if ge != i_e and (ge, i_e) not in ex_end:
                sigs.append("?")
        elif (ge, ee) not in ex_end:
            sigs.append("?")
    return sigs


def _strip_positions(d):
    return d


def dump(node):
    return ast.dump(node, annotate_fields=True, include_attributes=False)


def reparse_ok(node, text, prefix=""):
    """(iv): does `text` re-parse to a node equal to `node`?  Returns True/False/None (not applicable)."""
    try:
        if isinstance(node, ast.expr):
            if isinstance(node, ast.Starred):
                t = ast.parse("[" + text + "\n]")
                got = t.body[0].value.elts[0] if len(t.body[0].value.elts) == 1 else None
            elif isinstance(node, ast.Slice):
                t = ast.parse("_[" + text + "\n]")
                got = t.body[0].value.slice
            elif isinstance(node, ast.Tuple) and any(isinstance(x, (ast.Slice, ast.Starred)) for x in node.elts):
                t = ast.parse("_[" + text + "\n]")
                got = t.body[0].value.slice
            elif isinstance(node, (ast.Yield, ast.YieldFrom, ast.Await)):
                t = ast.parse("async def _():\n (" + text + "\n)")
                got = t.body[0].body[0].value
            else:
                t = ast.parse("(" + text + "\n)")
                got = t.body[0].value if len(t.body) == 1 and isinstance(t.body[0], ast.Expr) else None
            if got is None:
                return False
            return _same(got, node)
        if isinstance(node, ast.stmt):
            if isinstance(node, ast.Expr):
                return None
            if isinstance(node, ast.If) and text.startswith("elif"):
                text = "if" + text[4:]
            if prefix == "":
                t = ast.parse(text + "\n")
                body = t.body
            else:
                # keep the statement at its original indentation: continuation lines and nested blocks
                # (and the contents of multi-line strings) stay untouched
                t = ast.parse("if _:\n" + prefix + text + "\n")
                body = t.body[0].body
            if len(body) != 1:
                return False
            return _same(body[0], node)
    except (SyntaxError, ValueError, IndexError, AttributeError, RecursionError, MemoryError):
        return False
    return None


def _same(a, b):
    da, db = dump(a), dump(b)
    if da == db:
        return True
    # contexts differ when a target is re-parsed as an expression
    norm = lambda s: s.replace("ctx=Store()", "ctx=Load()").replace("ctx=Del()", "ctx=Load()")  # noqa: E731
    return norm(da) == norm(db)


NORM_CLS = {"AsyncFunctionDef": "FunctionDef", "AsyncFor": "For", "AsyncWith": "With", "TryStar": "Try"}

# unvisited (parent class, field) pairs that belong to recorded findings
UNVISITED_KNOWN = {
    ("arguments", "vararg"): "signature-syntax", ("arguments", "kwarg"): "signature-syntax",
    ("arguments", "posonlyargs"): "signature-syntax", ("arguments", "kwonlyargs"): "signature-syntax",
    ("arguments", "kw_defaults"): "signature-syntax", ("arg", "annotation"): "signature-syntax",
    ("FunctionDef", "returns"): "signature-syntax",
    ("ClassDef", "keywords"): "class-keywords-type-params", ("ClassDef", "type_params"): "class-keywords-type-params",
    ("TypeAlias", "type_params"): "class-keywords-type-params",
}


def postorder(tree):
    out = []
    stack = [(tree, False)]
    while stack:
        node, done = stack.pop()
        if done:
            out.append(node)
            continue
        stack.append((node, True))
        for c in reversed(list(ast.iter_child_nodes(node))):
            stack.append((c, False))
    return out


def features(src, tree, sm):
    """structural features of the input that recorded findings are about: cause -> list of (start, end) sites.
    A failure is attributed to a recorded cause only when it is located at such a site."""
    f = {}

    def site(cause, span):
        if span is not None:
            f.setdefault(cause, []).append(span)

    for n in ast.walk(tree):
        if isinstance(n, ast.ClassDef) and (n.keywords or getattr(n, "type_params", None)):
            site("class-keywords-type-params", sm.span(n))
        elif isinstance(n, getattr(ast, "TypeAlias", ())):
            site("class-keywords-type-params", sm.span(n))
        elif isinstance(n, (ast.FunctionDef, ast.AsyncFunctionDef, ast.Lambda)):
            a = n.args
            if a.posonlyargs or a.kwonlyargs or getattr(n, "returns", None) is not None or any(
                    x.annotation is not None for x in a.args + [y for y in (a.vararg, a.kwarg) if y is not None]):
                sp = sm.span(n)
                body = n.body[0] if isinstance(n.body, list) else n.body
                bs = sm.span(body)
                site("signature-syntax", (sp[0], bs[0]) if sp and bs else sp)
        elif isinstance(n, ast.Tuple) and n.elts and sm.span(n) and sm.span(n.elts[-1]) \
                and src[sm.span(n)[0]:sm.span(n)[0] + 1] != "(" \
                and "," in src[sm.span(n.elts[-1])[1]:sm.span(n)[1]] and False:
            site("tuple-trailing-comma", sm.span(n))
        elif isinstance(n, ast.Tuple) and n.elts and sm.span(n) and src[sm.span(n)[1] - 1:sm.span(n)[1]] == ",":
            site("tuple-trailing-comma", sm.span(n))
        elif isinstance(n, getattr(ast, "MatchSequence", ())):
            sp = sm.span(n)
            if sp and src[sp[0]:sp[0] + 1] != "[":
                site("match-sequence-parens", sp)
        elif isinstance(n, ast.JoinedStr):
            sp = sm.span(n)
            if sp is None:
                continue
            if any(isinstance(v, ast.Constant) and isinstance(v.value, str) and ("{" in v.value or "}" in v.value)
                   for v in n.values):
                site("fstring-escaped-brace", sp)
            for v in n.values:
                if isinstance(v, ast.FormattedValue) and v.format_spec is not None and any(
                        isinstance(x, ast.FormattedValue) for x in v.format_spec.values):
                    site("fstring-nested-spec", sp)
    toks = sm.tokens()
    fdepth = []
    for i, t in enumerate(toks):
        if t[3] == tokenize.STRING and i > 0 and toks[i - 1][3] == tokenize.NAME and toks[i - 1][2] == t[1] \
                and toks[i - 1][0][-1] in "fF":
            site("string-after-f-word", (toks[i - 1][1], t[2]))
        if t[3] == tokenize.NAME and not t[0].isascii():
            import unicodedata
            if unicodedata.normalize("NFKC", t[0]) != t[0]:
                site("non-nfkc-identifier", (t[1], t[2]))
        # f-strings: implicit concatenation with other literals, and reuse of the enclosing quote inside a field
        if t[3] == getattr(tokenize, "FSTRING_START", -1):
            fdepth.append((t[0].lstrip("rRfF"), t[1]))
            if i > 0 and toks[i - 1][3] in (tokenize.STRING, getattr(tokenize, "FSTRING_END", -1)):
                site("fstring-concat", (toks[i - 1][1], t[2]))
        elif t[3] == getattr(tokenize, "FSTRING_END", -1):
            if fdepth:
                fdepth.pop()
            if i + 1 < len(toks) and toks[i + 1][3] in (tokenize.STRING, getattr(tokenize, "FSTRING_START", -1)):
                site("fstring-concat", (t[1], toks[i + 1][2]))
    return f


# attribution of failures that no node-local rule explains: first cause (in this order) with a site there
CAUSES = ["string-after-f-word", "non-nfkc-identifier",
          "class-keywords-type-params", "signature-syntax", "match-sequence-parens",
          "fstring-concat", "fstring-escaped-brace", "fstring-nested-spec",
          "tuple-trailing-comma"]


def _touches(a, b):
    return a[0] <= b[1] and b[0] <= a[1]


def item_gaps(fr):
    """offsets of the texts between consecutive items of one _handle call, from the consumption log of the frame
    (works for frames that were aborted by an exception too: the items consumed so far)"""
    n = len([it for it in fr.items if it is not None])
    out, prev = [], None
    for ev in fr.events[:n]:
        if ev[0] == "sub":
            reg = getattr(ev[1], "region", None)
            if reg is None or reg[0] is None:
                break
            s, e = reg
        else:
            s, e = ev[1], ev[2]
        if prev is not None and s >= prev:
            out.append((prev, s))
        prev = e
    return out


RE_LAYOUT = re.compile(r"#[^\n]*|\\\n|[\s();,]")


def item_gaps(fr):
    """offsets of the texts between consecutive items of one _handle call, from the consumption log of the frame
    (works for frames that were aborted by an exception too: the items consumed so far)"""
    n = len([it for it in fr.items if it is not None])
    out, prev = [], None
    for ev in fr.events[:n]:
        if ev[0] == "sub":
            reg = getattr(ev[1], "region", None)
            if reg is None or reg[0] is None:
                break
            s, e = reg
        else:
            s, e = ev[1], ev[2]
        if prev is not None and s >= prev:
            out.append((prev, s))
        prev = e
    return out


RE_LAYOUT = re.compile(r"#[^\n]*|\\\n|[\s();,]")


def format_spans(fr, src):
    """offsets of the inter-item texts of one _handle call, recovered from sorted_children and the region"""
    node = fr.node
    ch = getattr(node, "sorted_children", None)
    reg = getattr(node, "region", None)
    if ch is None or reg is None or reg[0] is None:
        return []
    items = [it for it in fr.items if it is not None]
    n = len(items)
    if n < 2:
        return []
    ch = list(ch)
    # offsets of the children, valid when they tile the region
    pos, o = [], reg[0]
    for c in ch:
        pos.append(o)
        if isinstance(c, ast.AST):
            r = getattr(c, "region", None)
            if r is None or r[0] != o:
                return []
            o = r[1]
        elif isinstance(c, str):
            if src[o:o + len(c)] != c:
                return []
            o += len(c)
        else:
            return []
    if o != reg[1]:
        return []
    extra = len(ch) - (2 * n - 1)
    if extra < 0:
        return []

    def matches(c, it):
        return (c is it) if isinstance(it, ast.AST) else (isinstance(c, str) and (not isinstance(it, str) or c == it))
    for p in range(extra + 1):
        if matches(ch[p], items[0]) and matches(ch[p + 2 * (n - 1)], items[-1]) and all(
                matches(ch[p + 2 * k], items[k]) for k in range(n)):
            out = []
            for k in range(n - 1):
                i = p + 2 * k + 1
                if not isinstance(ch[i], str):
                    return []
                out.append((pos[i], pos[i] + len(ch[i])))
            return out
    return []


def escapes(res):
    """nodes whose region starts before the cursor the walker had when it entered them"""
    out = []
    if res.rec is None:
        return out
    for fr in res.rec.frames:
        reg = getattr(fr.node, "region", None)
        if reg is not None and not fr.skipped and (reg[0] is None or reg[0] < fr.entry):
            out.append(fr)
    return out


def check(src, res):
    """res: c08_rope.Result.  Returns a list of failure dicts {clause, sig, detail}."""
    fails = []
    if res.error is not None and res.error.startswith("parse:"):
        return fails
    tree = res.tree
    sm = SrcMap(src)
    feats = features(src, tree, sm)

    anomalies = []      # spans of everything no node-local rule explains; the leftmost one is the onset
    pending = []        # failures that are consequences (crash, text written back differs, derailed cursor)

    def local_sig(raw, span):
        """a failure located at `span` is attributed to the first recorded cause that has a site there"""
        if span is None:
            return raw
        anomalies.append(span)
        for c in CAUSES:
            if any(_touches(span, st) for st in feats.get(c, ())):
                return c
        return raw

    def later(clause, raw, detail, span=None):
        """a failure that is a consequence of something that went wrong earlier in the walk: it is attributed
        to a recorded cause only if the ONSET of the trouble -- the leftmost anomaly of the run -- lies at a
        site of that cause (a derailed cursor only has effects further down); resolved at the end"""
        if span is not None:
            anomalies.append(span)
        f = {"clause": clause, "sig": raw, "detail": detail}
        pending.append(f)
        fails.append(f)

    def resolve_pending():
        if not pending or not anomalies:
            return
        onset = min(anomalies, key=lambda sp: (sp[0], sp[1]))
        cause = next((c for c in CAUSES if any(_touches(onset, st) for st in feats.get(c, ()))), None)
        if cause is not None:
            for f in pending:
                f["sig"] = cause

    def node_span(node):
        """the text a failure at `node` is about: interpreter span united with rope's region"""
        sp = sm.span(node)
        reg = getattr(node, "region", None)
        if reg is not None and reg[0] is not None:
            sp = tuple(reg) if sp is None else (min(sp[0], reg[0]), max(sp[1], reg[1]))
        return sp

    crashed = res.error is not None
    if crashed:
        crash = res.rec.crash[-1].node if res.rec is not None and res.rec.crash else None
        sp = None
        if res.rec is not None and res.rec.crash:      # the text between the entry of the innermost frame and the cursor
            ent, cur = res.rec.crash[-1].entry, res.rec.crash_offset
            sp = (min(ent, cur), max(ent, cur))
            ns = None if isinstance(crash, ast.Module) else sm.span(crash)
            if ns is not None:
                sp = (min(sp[0], ns[0]), max(sp[1], ns[1]))
        later("i", "raises:" + res.error, "%s (inside %s)" % (res.error_msg, type(crash).__name__), sp)
    for w in res.warnings:
        fails.append({"clause": "i", "sig": "warns:" + w.split(";")[0][:60], "detail": w})
    esc = escapes(res)
    if esc:
        fr = esc[0]
        fails.append({"clause": "v", "sig": local_sig("left-escape", node_span(fr.node)),
                      "detail": "%s node entered at offset %d got region %r: its text starts before the cursor"
                                % (fr.cls, fr.entry, fr.node.region)})
    if crashed:
        pass
    elif res.write_error is not None:
        fails.append({"clause": "ii", "sig": "write_ast raises", "detail": res.write_error})
    elif res.written != src:
        if esc:
            fails.append({"clause": "ii", "sig": "left-escape", "detail": _first_diff(src, res.written)})
        else:
            later("ii", "lossless", _first_diff(src, res.written))
    par = parents_of(tree)
    expect = Expect(sm, par)
    n = len(src)
    seen = set()
    ex_start, ex_end = {}, {}

    def add(clause, sig, detail, **kw):
        if sig not in seen:
            seen.add(sig)
            d = {"clause": clause, "sig": sig, "detail": detail}
            d.update(kw)
            fails.append(d)

    def construct_parent(node):
        p, f = par.get(id(node), (None, None))
        while p is not None and not is_construct(p, *par.get(id(p), (None, None))):
            p, f = par.get(id(p), (None, None))
        return p, f

    for node in postorder(tree):
        parent, field = par.get(id(node), (None, None))
        cls = type(node).__name__
        reg = getattr(node, "region", None)
        if reg is None:
            if is_construct(node, parent, field):
                cp, _ = construct_parent(node)
                if cp is None or hasattr(cp, "region"):      # topmost node of an unvisited subtree
                    pc = NORM_CLS.get(type(parent).__name__, type(parent).__name__)
                    known = UNVISITED_KNOWN.get((pc, field))
                    if pc == "arguments" and field == "defaults" and parent.posonlyargs:
                        known = "signature-syntax"     # defaults are aligned with `args` only
                    if isinstance(parent, ast.JoinedStr) and isinstance(par.get(id(parent), (None,))[0], ast.FormattedValue):
                        known = "fstring-nested-spec"
                    add("vi", known or "unvisited:%s.%s" % (pc, field),
                        "%s node under %s.%s has no region" % (cls, pc, field))
            continue
        s, e = reg
        if not (isinstance(s, int) and isinstance(e, int) and 0 <= s <= e <= n):
            add("iii", "left-escape" if esc else local_sig("region-invalid:" + cls, sm.span(node)),
                "%s region %r" % (cls, reg))
            continue
        # (v) nesting
        if parent is not None and getattr(parent, "region", None) is not None and parent.region[0] is not None:
            ps, pe = parent.region
            if not (ps <= s and e <= pe):
                add("v", "left-escape" if esc else local_sig("not-nested:%s-in-%s" % (cls, type(parent).__name__),
                                                             sm.span(parent) or node_span(node)),
                    "%s %r not inside %s %r" % (cls, reg, type(parent).__name__, parent.region))
        # (iii) region against the interpreter
        exp = expect.of(node)
        ok3 = True
        if exp is not None and tuple(exp) != (s, e):
            ok3 = False
            kids = [expect.of(c) for c in ast.iter_child_nodes(node) if getattr(c, "region", None) is not None]
            kids = [k for k in kids if k is not None]
            inner = (min(k[0] for k in kids), max(k[1] for k in kids)) if kids else None
            sigs = deviation(node, (s, e), exp, inner, src, ex_start, ex_end)
            detail = "%s region %r = %r, interpreter span %r = %r" % (
                cls, (s, e), src[s:e][:60], tuple(exp), src[exp[0]:exp[1]][:60])
            if "?" in sigs:
                add("iii", "left-escape" if esc else local_sig("region:" + NORM_CLS.get(cls, cls), node_span(node)), detail)
            else:
                if s != exp[0]:
                    ex_start[(s, exp[0])] = True
                if e != exp[1]:
                    ex_end[(e, exp[1])] = True
                for sg in sigs:
                    add("iii", sg, detail)
        # (iv) re-parse
        if ok3 and isinstance(node, (ast.expr, ast.stmt)) and not _inside_fstring(node, par):
            r = reparse_ok(node, src[s:e], _line_prefix(src, s))
            if r is False:
                add("iv", "left-escape" if esc else local_sig("reparse:" + NORM_CLS.get(cls, cls), node_span(node)),
                    "%s region text %r does not re-parse to the node" % (cls, src[s:e][:80]))
    # (v) sibling order, on sorted_children
    for node in ast.walk(tree):
        ch = getattr(node, "sorted_children", None)
        if ch is None or not hasattr(node, "region"):
            continue
        last = None
        for c in ch:
            if isinstance(c, ast.AST) and getattr(c, "region", None) is not None and c.region[0] is not None:
                if last is not None and c.region[0] < last:
                    add("v", "left-escape" if esc else local_sig("overlap:%s" % type(node).__name__, node_span(node)),
                        "child %s region %r starts before the previous sibling's end %d" % (
                            type(c).__name__, c.region, last))
                last = c.region[1]
    # (vii) template completeness: the text rope keeps between two items of a template ("format" text) may
    # only hold layout (blanks, comments, continuation lines), parentheses, statement separators ';' and
    # optional trailing commas; anything else is a token the template forgot
    if res.rec is not None and not esc:
        for fr in res.rec.frames:
            if fr.joined or fr.skipped:
                continue
            for (a, b) in item_gaps(fr):
                left = RE_LAYOUT.sub("", src[a:b])
                if fr.cls in ("ImportFrom", "alias"):
                    left = left.replace(".", "")       # dotted names: the template lists the name parts only
                if left and not left.strip("*"):
                    add("vii", "star-excluded", "format text %r of a %s node holds the star of a starred child" % (
                        src[a:b][:40], fr.cls))
                elif left and not left.strip(":") and fr.cls in ("Subscript", "Tuple"):
                    add("vii", "slice-empty-step", "format text %r of a %s node holds the second colon of a slice" % (
                        src[a:b][:40], fr.cls))
                elif left:
                    raw = "format-holds-token:%s" % NORM_CLS.get(fr.cls, fr.cls)
                    if raw not in seen:
                        seen.add(raw)
                        later("vii", raw, "format text %r of a %s node holds %r, which no template item accounts for" % (
                            src[a:b][:60], fr.cls, left[:20]), (a, b))
                    else:
                        anomalies.append((a, b))
    resolve_pending()
    if crashed:
        # the run was aborted: everything else seen on the partially annotated tree only serves to find the onset
        return [f for f in fails if f in pending and f["clause"] == "i"]
    # the left-escape entries all describe one event: keep one
    out, got_escape = [], False
    for f in fails:
        if f["sig"] == "left-escape":
            if got_escape:
                continue
            got_escape = True
        out.append(f)
    return out


def _line_prefix(src, s):
    """the text before offset s on its line, non-blank characters replaced by spaces"""
    ls = src.rfind("\n", 0, s) + 1
    return "".join(c if c in " \t\f" else " " for c in src[ls:s])


def _inside_fstring(node, par):
    p = par.get(id(node), (None, None))[0]
    while p is not None:
        if isinstance(p, (ast.JoinedStr, ast.FormattedValue)):
            return True
        p = par.get(id(p), (None, None))[0]
    return False


def _first_diff(a, b):
    if b is None:
        return "no output"
    i = 0
    while i < min(len(a), len(b)) and a[i] == b[i]:
        i += 1
    return "first difference at offset %d: source %r, written %r" % (i, a[i:i + 30], b[i:i + 30])


# ------------------------------------------------------------------------------------------------
# recorded findings: signature -> (id, title, minimal reproduction)
FINDINGS = {
    "star-excluded": (
        "C08-star-excluded",
        "Starred nodes and **-keyword arguments have the region of their operand: the '*' / '**' (and parentheses "
        "around the operand) are left to the parent's format text",
        "f(*a, **k)\n"),
    "expr-stmt-parens": (
        "C08-expr-stmt-parens",
        "a parenthesised expression statement gets the region of the inner expression; a block that ends with one "
        "ends before the closing parenthesis (region text is unbalanced)",
        "if x:\n    (a +\n     b)\n"),
    "tuple-trailing-comma": (
        "C08-tuple-trailing-comma",
        "an unparenthesised tuple with a trailing comma gets a region without the comma ('1' for '1,'), the comma is "
        "left in front of the cursor (a following 'with' statement then starts at that comma)",
        "x = 1,\n"),
    "tuple-single-parenthesised-element": (
        "C08-tuple-single-parenthesised-element",
        "a one-element tuple whose element is parenthesised: _eat_surrounding_parens takes the element's parentheses "
        "for the tuple's",
        "x = ((a), )\n"),
    "slice-empty-step": (
        "C08-slice-empty-step",
        "a slice with a second colon but no step (a[1::]) gets a region without the second colon",
        "x[1::]\n"),
    "signature-syntax": (
        "C08-signature-syntax",
        "the arguments template predates Python 3 signatures: annotations, return annotations, keyword-only and "
        "positional-only parameters, and the arg nodes of *args/**kwargs are never visited (no region; with "
        "positional-only parameters defaults are attached to the wrong parameters); text such as a '#' in a "
        "keyword-only default then derails the cursor",
        "def f(a: int, *args, b=1, **kw) -> str: pass\n"),
    "class-keywords-type-params": (
        "C08-class-keywords-type-params",
        "class keywords (metaclass=...) and the type parameters of classes and type aliases are never visited",
        "class A(B, metaclass=M): pass\n"),
    "string-after-f-word": (
        "C08-string-after-f-word",
        "a plain string literal written directly after a word ending in f (if'..', elif\"..\"): the (?<![fF]) "
        "look-behind meant to keep f-strings out of the plain-string pattern rejects it, the literal is matched one "
        "character late or not at all",
        'x = 1 if"a"else 2\n'),
    "non-nfkc-identifier": (
        "C08-non-nfkc-identifier",
        "identifiers that are not in NFKC normal form: the ast holds the normalised spelling, which is not in the text",
        "\ufb01 = 1\n"),
    "match-sequence-parens": (
        "C08-match-sequence-parens",
        "sequence patterns written with parentheses or without brackets: the template always expects '[' ... ']'",
        "match x:\n    case (a, b):\n        pass\n"),
    "fstring-escaped-brace": (
        "C08-fstring-escaped-brace",
        "f-string with escaped braces: the '{' of a replacement field is searched by plain index and found in '{{'",
        'x = f"{{{a}"\n'),
    "fstring-nested-spec": (
        "C08-fstring-nested-spec",
        "f-string with a replacement field inside a format spec: the inner FormattedValue is never annotated and "
        "the outer one ends at the inner '}'",
        'x = f"{a:{w}}"\n'),
    "fstring-concat": (
        "C08-fstring-concat",
        "f-string implicitly concatenated with other literals: only the f-string part is consumed (region too "
        "short; a '{' or '#' in the other literal derails the walker)",
        'x = f"{a}" "{" \n'),
}
