"""C01 generator: small multi-module projects that RUN (deterministic, terminating, printing) over a tiny identifier
pool, so that the same spelling is a global in one module, a local / parameter / class attribute / instance
attribute / method / comprehension variable / import alias in another place.

    gen_project(rng, features=()) -> {"files": {path: source}, "entry": "main.py"}

Every value that flows through a name of the int pool is an int, functions return ints, so generated programs
mostly run to completion; the harness keeps a project only if its entry module runs (exit status 0, some output) -
a small share of projects that stop with an exception is kept on purpose (the comparison before / after is then on
the output up to the exception and the exit status).

features (PyF+ : shapes on which rope's scoping is known to depart from CPython, off in the main stream):
    "kwonly"      keyword-only parameters
    "nonlocal"    nonlocal declarations
    "header"      a default value that names a global which is also a local of the function
    "classbody"   a class body that reads a global homonymous with an inherited / instance attribute
    "lambda"      lambda expressions
    "builtin"     builtins used as plain names more often (rename of a builtin)
    "package"     one library module lives in a package (pk/__init__.py + pk/<m>.py)
    "compiter"    the first iterable of a comprehension may read the comprehension's own variable name
    "fstring"     f-strings although a function may be called f
    "reimport"    a name bound by an import may be imported again from another module
    "genexp"      generator expressions as the sole argument of a call, element not parenthesised
    "sameline"    a comprehension variable may be spelled like the name the statement assigns
    "unvisited"   comprehensions in return values and in augmented / annotated assignments
    "redef"       a class may define the same method twice
    "misattached" comprehensions in the values assigned inside methods
    "shadowattr"  a method of a subclass may assign self.a where a is a class attribute of a base class
"""
INTS = ["x", "y", "z"]
FUNS = ["f", "g"]
CLSS = ["A", "B"]
OBJS = ["o"]
MODS = ["ma", "mb"]


class Info:
    def __init__(self, typ, **kw):
        self.typ = typ          # int | fun | cls | obj | mod
        self.__dict__.update(kw)


class Scope:
    def __init__(self, kind, parent=None):
        self.kind = kind        # module | function | class
        self.parent = parent
        self.names = {}

    def lookup(self, name):
        s = self
        first = True
        while s is not None:
            if (first or s.kind != "class") and name in s.names:
                return s.names[name]
            first = False
            s = s.parent
        return None

    def visible(self, typ):
        out = []
        seen = set()
        s = self
        first = True
        while s is not None:
            if first or s.kind != "class":
                for n, i in s.names.items():
                    if n not in seen:
                        seen.add(n)
                        if i.typ == typ:
                            out.append(n)
            first = False
            s = s.parent
        return sorted(out)


class Gen:
    def __init__(self, rng, features=()):
        self.rng = rng
        self.features = set(features)
        self.lines = []
        self.exports = {}       # module name -> {name: Info}
        self.line_targets = ()
        self.nocomp = 0
        self.in_method = False
        self.globs = ()
        # f"..." literals are generated; a function called f would make every project an instance of the
        # string-prefix finding, so the pool avoids that spelling unless asked for
        self.funs = ["f", "g"] if "fstring" in self.features else ["g", "h"]

    # ------------------------------------------------------------------ helpers
    def pick(self, xs):
        return xs[self.rng.randrange(len(xs))]

    def chance(self, p):
        return self.rng.random() < p

    def emit(self, ind, text):
        self.lines.append("    " * ind + text)

    def noise(self, ind):
        if self.chance(0.12):
            self.emit(ind, "# " + self.pick(["%s = %s" % (self.pick(INTS), self.pick(INTS)),
                                            "def %s(%s): pass" % (self.pick(self.funs), self.pick(INTS)),
                                            "import %s" % self.pick(MODS), self.pick(CLSS) + "." + self.pick(INTS)]))
        if self.chance(0.05):
            self.emit(ind, "")

    # ------------------------------------------------------------------ expressions (all int valued)
    def atom(self, sc, avoid=()):
        r = self.rng.random()
        ints = [n for n in sc.visible("int") if n not in avoid]
        if ints and r < 0.55:
            return self.pick(ints)
        if r < 0.62:
            mods = sc.visible("mod")
            cands = []
            for m in mods:
                mi = sc.lookup(m)
                for n, i in sorted(self.exports.get(mi.target, {}).items()):
                    if i.typ == "int":
                        cands.append("%s.%s" % (m, n))
            if cands:
                return self.pick(cands)
        if r < 0.70:
            cands = []
            for c in sc.visible("cls"):
                ci = sc.lookup(c)
                cands += ["%s.%s" % (c, a) for a in sorted(ci.cattrs)]
            for o in sc.visible("obj"):
                oi = sc.lookup(o)
                cands += ["%s.%s" % (o, a) for a in sorted(oi.cls.cattrs | oi.cls.iattrs)]
            if cands:
                return self.pick(cands)
        return str(self.rng.randrange(1, 9))

    def call(self, sc, depth, avoid=()):
        """a call of a visible function / method / class-free callable returning int, or None"""
        cands = []
        for f in sc.visible("fun"):
            if f not in avoid:
                cands.append((f, sc.lookup(f)))
        for m in sc.visible("mod"):
            mi = sc.lookup(m)
            for n, i in sorted(self.exports.get(mi.target, {}).items()):
                if i.typ == "fun":
                    cands.append(("%s.%s" % (m, n), i))
        for o in sc.visible("obj"):
            oi = sc.lookup(o)
            for n, i in sorted(oi.cls.methods.items()):
                cands.append(("%s.%s" % (o, n), i))
            if getattr(oi.cls, "call", None) is not None:
                cands.append((o, Info("fun", params=oi.cls.call)))
                cands.append((o, Info("fun", params=oi.cls.call)))
        if not cands:
            return None
        name, fi = self.pick(cands)
        return "%s(%s)" % (name, self.args(sc, fi.params, depth, avoid))

    def args(self, sc, params, depth, avoid):
        out = []
        kw = False
        for (p, kind, has_default) in params:
            if kind == "var":
                if self.chance(0.5) and not kw:
                    out.append(self.expr(sc, depth + 1, avoid))
                continue
            if kind == "kwvar":
                # keywords the callee does not declare (swallowed by **kw), spelled like variables
                if self.chance(0.6):
                    declared = {q for (q, _, _) in params}
                    for v in self.rng.sample(INTS, self.rng.randrange(1, 3)):
                        if v not in declared:
                            out.append("%s=%s" % (v, self.atom(sc, avoid)))
                continue
            if has_default and self.chance(0.4):
                kw = True       # later ones must be keywords
                continue
            e = self.expr(sc, depth + 1, avoid)
            ints = [n0 for n0 in sc.visible("int") if n0 not in avoid]
            if ints and not kw and kind != "kwonly" and self.chance(0.12):
                out.append("%s == %d" % (self.pick(ints), self.rng.randrange(0, 9)))      # positional, a comparison
                continue
            if kind == "kwonly" or kw or self.chance(0.35):
                kw = True
                out.append("%s=%s" % (p, e))
            else:
                out.append(e)
        return ", ".join(out)

    def expr(self, sc, depth=0, avoid=()):
        r = self.rng.random()
        if depth >= 2 or r < 0.35:
            return self.atom(sc, avoid)
        if r < 0.60:
            return "%s %s %s" % (self.expr(sc, depth + 1, avoid), self.pick(["+", "-", "*"]), self.atom(sc, avoid))
        if r < 0.80:
            c = self.call(sc, depth, avoid)
            if c is not None:
                return c
        if r < 0.88 and not self.nocomp:
            return self.comp(sc, depth, avoid)
        if r < 0.92:
            return "%s(%s, %s)" % (self.pick(["max", "min"]), self.atom(sc, avoid), self.atom(sc, avoid))
        if r < 0.95:
            return "(%s if %s > %s else %s)" % (self.atom(sc, avoid), self.atom(sc, avoid), self.atom(sc, avoid),
                                                self.atom(sc, avoid))
        if "lambda" in self.features and r < 0.98:
            v = self.pick(INTS)
            return "(lambda %s: %s + 1)(%s)" % (v, v, self.atom(sc, avoid))
        return "abs(%s)" % self.atom(sc, avoid)

    def comp(self, sc, depth, avoid):
        # main stream: the variable is not a name bound by the statement the comprehension is part of (finding
        # same-line-import-conflation) and, in a class body, not an attribute of the class
        pool = INTS if "sameline" in self.features else [v for v in INTS if v not in self.line_targets] or INTS
        v = self.pick(pool)
        inner = Scope("function", sc)
        inner.names[v] = Info("int")
        # the first iterable is evaluated outside the comprehension: it must not name the variable unless that
        # name is an int outside as well
        av = tuple(avoid) if "compiter" in self.features else tuple(avoid) + (v,)
        it = "range(%s %% 3)" % self.atom(sc, av) if self.chance(0.7) else "[%s, %s]" % (self.atom(sc, av), self.atom(sc, av))
        elt = self.expr(inner, depth + 1, avoid)
        cond = " if %s > %s" % (v, self.atom(inner, avoid)) if self.chance(0.3) else ""
        # a generator expression that is the sole argument of a call has no parentheses of its own: its element is
        # parenthesised unless the feature asks for the bare form (finding genexp-first-token)
        gen = "sum(%s for %s in %s%s)" if "genexp" in self.features else "sum((%s) for %s in %s%s)"
        form = self.pick(["sum([%s for %s in %s%s])", gen, "len({%s for %s in %s%s})",
                          "len({%s: 0 for %s in %s%s})"])
        return form % (elt, v, it, cond)

    # ------------------------------------------------------------------ statements
    def simple(self, sc, ind, definite=True, glob=()):
        """one simple statement in scope sc; definite = executed unconditionally (bindings may be relied on)"""
        r = self.rng.random()
        self.noise(ind)
        self.globs = tuple(glob)
        if r < 0.45:
            v = self.target(sc, glob)
            if v is None:
                return
            cur = sc.names.get(v)
            self.line_targets = (v,)
            e = self.expr_stmt(sc, v, cur)
            self.line_targets = ()
            if e is None:
                return
            if cur is not None and e[0] == "aug":
                self.emit(ind, "%s %s= %s" % (v, self.pick(["+", "-", "*"]), e[1]))
                sc.names[v] = Info("int")
                return
            if e[0] == "ann":
                self.emit(ind, "%s: int = %s" % (v, e[1]))
                if definite or cur is not None:
                    sc.names[v] = Info("int")
                return
            e = e[1]
            if False:
                self.emit(ind, "%s %s= %s" % (v, self.pick(["+", "-", "*"]), e))
            else:
                self.emit(ind, "%s = %s" % (v, e))
            if definite or cur is not None:
                sc.names[v] = Info("int")
            elif v not in sc.names and v not in glob:
                # conditionally bound: later code of this scope must not rely on it; make it definite first
                self.lines.pop()
                self.emit(ind, "pass")
        elif r < 0.55:
            a, b = self.target(sc, glob), self.target(sc, glob)
            if a is None or b is None or a == b or a in glob or b in glob:
                return
            if not definite and (a not in sc.names or b not in sc.names):
                return
            self.line_targets = (a, b)
            self.emit(ind, "%s, %s = %s, %s" % (a, b, self.assigned_value(sc, 1), self.assigned_value(sc, 1)))
            self.line_targets = ()
            sc.names[a] = Info("int")
            sc.names[b] = Info("int")
        elif r < 0.80:
            self.print_stmt(sc, ind)
        elif r < 0.88 and sc.visible("cls") and definite and sc.kind != "class":
            o = self.pick(OBJS)
            c = self.pick(sc.visible("cls"))
            ci = sc.lookup(c)
            self.emit(ind, "%s = %s(%s)" % (o, c, self.args(sc, ci.init, 1, ())))
            sc.names[o] = Info("obj", cls=ci)
        else:
            objs = [(o, sc.lookup(o)) for o in sc.visible("obj")]
            objs = [(o, i) for (o, i) in objs if i.cls.iattrs or i.cls.cattrs]
            if objs:
                o, oi = self.pick(objs)
                a = self.pick(sorted(oi.cls.iattrs | oi.cls.cattrs))
                self.emit(ind, "%s.%s = %s" % (o, a, self.assigned_value(sc, 1)))
            else:
                self.print_stmt(sc, ind)

    def target(self, sc, glob=()):
        """a name of the int pool that may be assigned here without turning an earlier read into an unbound local"""
        if sc.kind == "function":
            cands = [v for v in INTS if (v in sc.names and sc.names[v].typ == "int") or v in glob]
        else:
            cands = [v for v in INTS if v not in sc.names or sc.names[v].typ == "int"]
        return self.pick(cands) if cands else None

    def block(self, sc, ind, n, glob=()):
        k = len(self.lines)
        for _ in range(n):
            self.simple(sc, ind, definite=False, glob=glob)
        if not any(l.strip() and not l.strip().startswith("#") for l in self.lines[k:]):
            self.emit(ind, "pass")

    def expr_stmt(self, sc, v, cur):
        """the right-hand side of an assignment to v: ("plain" | "aug" | "ann", text).  Augmented and annotated
        assignments are not visited by rope's scope visitors: their value holds no comprehension unless the
        feature "unvisited" is on"""
        r = self.rng.random()
        kind = "plain"
        if cur is not None and r < 0.25:
            kind = "aug"
        elif r < 0.31 and v not in self.globs:
            kind = "ann"
        if kind != "plain" and "unvisited" not in self.features:
            self.nocomp += 1
            try:
                return (kind, self.expr(sc))
            finally:
                self.nocomp -= 1
        return (kind, self.assigned_value(sc))

    def print_stmt(self, sc, ind):
        r = self.rng.random()
        if r < 0.12:
            ints = sc.visible("int")
            if ints:
                v = self.pick(ints)
                self.emit(ind, "print(f\"%s={%s} {%s}\")" % (self.pick(INTS), v, self.expr(sc, 1)))
                return
        if r < 0.22:
            self.emit(ind, "print(%s, '%s', \"%s %s\")  # %s" % (self.expr(sc), self.pick(INTS + self.funs), self.pick(INTS),
                                                            self.pick(MODS), self.pick(INTS)))
            return
        if r < 0.34:
            # a name as the left operand of == directly after ( or , inside the parentheses of a call
            ints = sc.visible("int")
            if ints:
                parts = ["%s == %d" % (self.pick(ints), self.rng.randrange(0, 9))]
                if self.chance(0.5):
                    parts.insert(0, self.expr(sc, 1))
                if self.chance(0.3):
                    parts.append("%s == %s" % (self.pick(ints), self.atom(sc)))
                self.emit(ind, "print(%s)" % ", ".join(parts))
                return
        self.emit(ind, "print(%s)" % ", ".join(self.expr(sc) for _ in range(self.rng.randrange(1, 3))))

    def compound(self, sc, ind, glob=()):
        r = self.rng.random()
        if r < 0.45:
            self.emit(ind, "if %s > %s:" % (self.atom(sc), self.atom(sc)))
            self.block(sc, ind + 1, self.rng.randrange(1, 3), glob)
            if self.chance(0.5):
                self.emit(ind, "else:")
                self.block(sc, ind + 1, self.rng.randrange(1, 3), glob)
        elif r < 0.80:
            v = self.target(sc)
            if v is None:
                return
            self.emit(ind, "for %s in range(%d):" % (v, self.rng.randrange(1, 3)))
            sc.names[v] = Info("int")
            self.block(sc, ind + 1, self.rng.randrange(1, 3), glob)
        elif r < 0.90:
            self.emit(ind, "try:")
            self.block(sc, ind + 1, 1, glob)
            e = self.pick(["e"] + INTS)
            if e in sc.names or e in glob or sc.lookup(e) is not None:
                e = "e"
            self.emit(ind, "except ZeroDivisionError as %s:" % e)
            self.emit(ind + 1, "print(%s)" % e)
        else:
            v = self.target(sc, glob)
            if v is None or sc.lookup(v) is None or sc.lookup(v).typ != "int":
                return
            self.emit(ind, "while %s < 0:" % v)
            self.emit(ind + 1, "%s += 1" % v)

    # ------------------------------------------------------------------ definitions
    def params(self, sc, outer, method=False):
        """parameter list text, [(name, kind, has_default)], and binds the parameters in sc"""
        names = list(INTS)
        self.rng.shuffle(names)
        n = self.rng.randrange(0, 3)
        ps, text = [], []
        if method:
            text.append("self")
            sc.names["self"] = Info("self")
        seen_default = False
        for v in names[:n]:
            if seen_default or self.chance(0.35):
                seen_default = True
                if "header" in self.features and self.chance(0.6) and outer.visible("int"):
                    d = self.pick(outer.visible("int"))
                else:
                    gl = [g for g in outer.visible("int") if g not in names]
                    d = self.pick(gl) if gl and self.chance(0.4) else str(self.rng.randrange(0, 5))
                text.append("%s=%s" % (v, d))
                ps.append((v, "pos", True))
            else:
                text.append(v)
                ps.append((v, "pos", False))
            sc.names[v] = Info("int")
        rest = [v for v in names[n:]]
        if "kwonly" in self.features and rest and self.chance(0.6):
            v = rest.pop()
            text.append("*")
            text.append("%s=%d" % (v, self.rng.randrange(0, 5)))
            ps.append((v, "kwonly", True))
            sc.names[v] = Info("int")
        elif self.chance(0.1):
            text.append("*args")
            ps.append(("args", "var", False))
            sc.names["args"] = Info("tuple")
        if self.chance(0.15):
            text.append("**kw")
            ps.append(("kw", "kwvar", False))
            sc.names["kw"] = Info("dict")
        return ", ".join(text), ps

    def gen_def(self, sc, ind, name, method_of=None, depth=0):
        was = self.in_method
        self.in_method = method_of is not None
        try:
            return self.gen_def_(sc, ind, name, method_of, depth)
        finally:
            self.in_method = was

    def assigned_value(self, sc, depth=0, avoid=()):
        """the value of an assignment statement: in a method it holds no comprehension (the class visitor would
        attach the comprehension's scope to the class as well: finding C15-misattached) unless asked for"""
        if self.in_method and "misattached" not in self.features:
            self.nocomp += 1
            try:
                return self.expr(sc, depth, avoid)
            finally:
                self.nocomp -= 1
        return self.expr(sc, depth, avoid)

    def gen_def_(self, sc, ind, name, method_of=None, depth=0):
        fs = Scope("function", sc)
        if method_of is None:
            sc.names[name] = Info("pending")
        ptext, ps = self.params(fs, sc, method=method_of is not None)
        if self.chance(0.08) and method_of is None and sc.kind == "module":
            self.nocomp += 1
            self.emit(ind, "def %s(%s): return %s" % (name, ptext, self.expr(fs, 1)))
            self.nocomp -= 1
            sc.names[name] = Info("fun", params=ps)
            return sc.names[name]
        self.emit(ind, "def %s(%s):" % (name, ptext))
        glob = []
        mod = sc
        while mod.parent is not None:
            mod = mod.parent
        if self.chance(0.22):
            cands = [g for g in mod.visible("int") if g not in fs.names and g in mod.names]
            if cands:
                g = self.pick(cands)
                self.emit(ind + 1, "global %s" % g)
                glob.append(g)
        if "nonlocal" in self.features and sc.kind == "function" and self.chance(0.6):
            cands = [v for v in sc.names if sc.names[v].typ == "int" and v not in fs.names and v not in glob]
            if cands:
                v = self.pick(sorted(cands))
                self.emit(ind + 1, "nonlocal %s" % v)
                glob.append(v)
        body_sc = fs
        if "kw" in fs.names:
            self.emit(ind + 1, "print(sorted(kw.items()))")
        # nested definitions and the first assignment of every local come first: a later binding would turn the
        # reads generated before it into reads of an unbound local
        if depth < 2 and self.chance(0.3):
            self.gen_def(body_sc, ind + 1, self.pick(self.funs), depth=depth + 1)
        locs = [v for v in INTS if v not in fs.names and v not in glob and self.chance(0.4)]
        for i, v in enumerate(locs):
            self.emit(ind + 1, "%s = %s" % (v, self.assigned_value(body_sc, 1, avoid=tuple(locs[i:]))))
            body_sc.names[v] = Info("int")
        if method_of is not None:
            for _ in range(self.rng.randrange(0, 3)):
                a = self.pick(INTS)
                if name == "__init__":
                    if a in method_of.inherited and "shadowattr" not in self.features:
                        continue        # finding instance-attribute-hides-inherited
                    self.emit(ind + 1, "self.%s = %s" % (a, self.assigned_value(fs, 1)))
                    method_of.iattrs.add(a)
                elif (a in method_of.iattrs or a in method_of.cattrs) and (
                        a not in method_of.inherited or "shadowattr" in self.features):
                    self.emit(ind + 1, "self.%s = %s" % (a, self.assigned_value(fs, 1)))
        n = self.rng.randrange(1, 4)
        for _ in range(n):
            r = self.rng.random()
            if r < 0.6:
                if glob and self.chance(0.5):
                    g = self.pick(glob)
                    self.emit(ind + 1, "%s = %s" % (g, self.assigned_value(body_sc, 1)))
                else:
                    self.simple(body_sc, ind + 1, glob=glob)
                    # a binding made through `global` belongs to the module
                    for g in glob:
                        body_sc.names.pop(g, None)
            elif r < 0.8:
                self.compound(body_sc, ind + 1, glob=glob)
                for g in glob:
                    body_sc.names.pop(g, None)
            else:
                self.print_stmt(body_sc, ind + 1)
        if "unvisited" not in self.features:
            self.nocomp += 1
        if method_of is not None and (method_of.iattrs or method_of.cattrs) and self.chance(0.7):
            a = self.pick(sorted(method_of.iattrs | method_of.cattrs))
            ret = "self.%s + %s" % (a, self.expr(body_sc, 1))
        else:
            ret = self.expr(body_sc)
        if "unvisited" not in self.features:
            self.nocomp -= 1
        if name != "__init__":
            self.emit(ind + 1, "return %s" % ret)
        elif not self.lines[-1].startswith("    " * (ind + 1)) or self.lines[-1].lstrip().startswith(("global", "nonlocal", "#")):
            self.emit(ind + 1, "pass")
        info = Info("fun", params=ps)
        if method_of is None:
            sc.names[name] = info
        return info

    def gen_class(self, sc, ind, name):
        bases = [c for c in sc.visible("cls") if c != name]
        base = self.pick(bases) if bases and self.chance(0.4) else None
        bi = sc.lookup(base) if base else None
        info = Info("cls", cattrs=set(bi.cattrs) if bi else set(), iattrs=set(bi.iattrs) if bi else set(),
                    methods=dict(bi.methods) if bi else {}, init=list(bi.init) if bi else [],
                    inherited=set(bi.cattrs) if bi else set(), call=getattr(bi, "call", None) if bi else None)
        self.emit(ind, "class %s%s:" % (name, "(%s)" % base if base else self.pick(["", "", "(object)"])))
        cs = Scope("class", sc)
        n = 0
        for _ in range(self.rng.randrange(0, 3)):
            a = self.pick(INTS)
            if "classbody" in self.features and (a in info.cattrs or a in info.iattrs) and sc.lookup(a) is not None \
                    and sc.lookup(a).typ == "int" and a not in cs.names:
                b = self.pick([v for v in INTS if v != a])
                self.emit(ind + 1, "%s = %s + 1" % (b, a))
                cs.names[b] = Info("int")
                info.cattrs.add(b)
            else:
                av = () if "classbody" in self.features else tuple(INTS)
                self.line_targets = (a,)
                # no call in the main stream: the callee could be spelled like a method the class defines below
                self.emit(ind + 1, "%s = %s" % (a, self.expr(cs, 1 if "classbody" in self.features else 2, avoid=av)))
                self.line_targets = ()
                cs.names[a] = Info("int")
                info.cattrs.add(a)
            n += 1
        own_attrs = sorted(a for a in cs.names if cs.names[a].typ == "int")
        if own_attrs and self.chance(0.7):
            # written directly in the class body: the outermost iterable is evaluated in the class scope (it reads the
            # attribute), the element only sees the comprehension's own variable
            a = self.pick(own_attrs)
            b = self.pick([v for v in INTS if v != a])
            v = self.pick([w for w in INTS if w != a and w != b] or ["s"])
            it = self.pick(["range(%s %% 3)" % a, "[%s, 1]" % a, "(%s, %s)" % (a, a)])
            form = self.pick(["sum([%s * 2 for %s in %s])", "len({%s for %s in %s})", "sum((%s) for %s in %s)",
                              "len({%s: 0 for %s in %s})"])
            self.emit(ind + 1, "%s = %s" % (b, form % (v, v, it)))
            cs.names[b] = Info("int")
            info.cattrs.add(b)
            n += 1
        if self.chance(0.6):
            init = self.gen_def(cs, ind + 1, "__init__", method_of=info)
            info.init = init.params
            n += 1
        own = set()
        for _ in range(self.rng.randrange(0, 3)):
            m = self.pick(self.funs)
            if m in own and "redef" not in self.features:
                continue
            own.add(m)
            info.methods[m] = self.gen_def(cs, ind + 1, m, method_of=info)
            n += 1
        if self.chance(0.35):
            # a callable instance; with __init__ as well the class has both (get_enclosing_function must take
            # __init__ for the constructor call and __call__ for a call of the instance)
            info.call = self.gen_def(cs, ind + 1, "__call__", method_of=info).params
            n += 1
        if n == 0:
            self.emit(ind + 1, "pass")
        sc.names[name] = info
        return info

    def gen_import(self, sc, ind, avail):
        m = self.pick(avail)
        ex = self.exports[m]
        r = self.rng.random()
        if r < 0.35 or not ex:
            if self.chance(0.4):
                alias = self.pick(MODS + ["mz", "m", "m"])       # "m" is a prefix of ma / mb / mc
                if alias in sc.names:
                    return
                if "." in m and self.chance(0.5):
                    self.emit(ind, "from %s import %s as %s" % (m.rsplit(".", 1)[0], m.rsplit(".", 1)[1], alias))
                else:
                    self.emit(ind, "import %s as %s" % (m, alias))
                sc.names[alias] = Info("mod", target=m)
            else:
                cur = sc.names.get(m.split(".")[0])
                if cur is not None and (cur.typ != "mod" or getattr(cur, "target", None) != m
                                        or "reimport" not in self.features):
                    if not (cur.typ == "mod" and getattr(cur, "target", None) == m):
                        return
                self.emit(ind, "import %s" % m)
                if "." not in m:
                    sc.names[m] = Info("mod", target=m)
                    if "m" not in sc.names and self.chance(0.15):
                        self.emit(ind, "m = %s" % m)           # a variable that is bound to the module
                        sc.names["m"] = Info("mod", target=m)
                else:
                    # reached through its dotted path: pk.sb.mc.f()
                    sc.names[m.split(".")[0]] = Info("pkg")
                    sc.names[m] = Info("mod", target=m)
        else:
            names = sorted(ex)
            k = self.rng.randrange(1, min(3, len(names)) + 1)
            chosen = self.rng.sample(names, k)
            parts = []
            for n in chosen:
                i = ex[n]
                pool = {"int": INTS, "fun": self.funs, "cls": CLSS}.get(i.typ)
                if pool is None:
                    continue
                rebind = "reimport" in self.features
                if self.chance(0.3):
                    alias = self.pick([a for a in pool if a != n] or pool)
                    cur = sc.names.get(alias)
                    if cur is not None and (cur.typ != i.typ or not rebind):
                        continue
                    parts.append("%s as %s" % (n, alias))
                    sc.names[alias] = i
                else:
                    cur = sc.names.get(n)
                    if cur is not None and (cur.typ != i.typ or not rebind):
                        continue
                    parts.append(n)
                    sc.names[n] = i
            if parts:
                if len(parts) > 1 and self.chance(0.2):
                    self.emit(ind, "from %s import (%s)" % (m, ",\n    ".join(parts)))
                else:
                    self.emit(ind, "from %s import %s" % (m, ", ".join(parts)))

    # ------------------------------------------------------------------ modules
    def module(self, name, avail, is_main):
        self.lines = []
        sc = Scope("module")
        homonym = None
        if not is_main and "." not in name and self.chance(0.3):
            # the FIRST line binds a name spelled like the module: an ImportedModule's definition location is
            # (module, 1), the same as that name's
            homonym = name
            if self.chance(0.6):
                self.emit(0, "def %s(x): return x + %d" % (name, self.rng.randrange(1, 5)))
                sc.names[name] = Info("fun", params=[("x", "pos", False)])
            else:
                self.emit(0, "%s = %d" % (name, self.rng.randrange(1, 9)))
                sc.names[name] = Info("int")
        elif self.chance(0.3):
            self.emit(0, '"""%s %s"""' % (self.pick(INTS), self.pick(self.funs)))
        n = self.rng.randrange(5, 10) if not is_main else self.rng.randrange(6, 12)
        deep = getattr(self, "deep", None) if is_main else None
        if deep:
            self.emit(0, "import %s" % deep)
            sc.names[deep.split(".")[0]] = Info("pkg")
            sc.names[deep] = Info("mod", target=deep)
        for k in range(n):
            r = self.rng.random()
            self.noise(0)
            if avail and r < 0.08:
                # the optional-import idiom: the name is bound by the import and by the fallback assignment
                m = self.pick(avail)
                ints = [n0 for n0, i0 in sorted(self.exports[m].items()) if i0.typ == "int" and n0 not in sc.names
                        and n0 not in MODS]
                if ints:
                    v = self.pick(ints)
                    self.emit(0, "try:")
                    self.emit(1, "from %s import %s" % (m, v))
                    self.emit(0, "except ImportError:")
                    self.emit(1, "%s = %d" % (v, self.rng.randrange(0, 3)))
                    sc.names[v] = Info("int")
            elif avail and (r < 0.18 or (is_main and k == 0)):
                self.gen_import(sc, 0, avail)
            elif r < 0.40:
                f = self.pick(self.funs)
                if f in sc.names:
                    continue
                self.gen_def(sc, 0, f)
            elif r < 0.55:
                c = self.pick(CLSS)
                if c in sc.names:
                    continue
                self.gen_class(sc, 0, c)
            elif r < 0.85:
                self.simple(sc, 0)
            else:
                self.compound(sc, 0)
        for _ in range(self.rng.randrange(1, 4) if is_main else self.rng.randrange(0, 2)):
            self.print_stmt(sc, 0)
        if deep:
            for nme, i0 in sorted(self.exports.get(deep, {}).items()):
                if i0.typ == "int":
                    self.emit(0, "print(%s.%s)" % (deep, nme))
                elif i0.typ == "fun":
                    self.emit(0, "print(%s.%s(%s))" % (deep, nme, self.args(sc, i0.params, 1, ())))
        # a module imported under its own name that defines a homonym on its first line: make sure it is used
        for mn, mi in sorted(sc.names.items()):
            if mi.typ == "mod" and mn == mi.target and mn in self.exports.get(mn, {}):
                hi = self.exports[mn][mn]
                self.emit(0, "print(%s.%s%s)" % (mn, mn, "(%s)" % self.atom(sc) if hi.typ == "fun" else ""))
        if "builtin" in self.features:
            self.emit(0, "print(len([%s]), abs(%s))" % (self.atom(sc), self.atom(sc)))
        self.exports[name] = {n: i for n, i in sc.names.items() if i.typ in ("int", "fun", "cls")}
        return "\n".join(self.lines) + "\n"

    def project(self):
        files = {}
        mods = list(MODS)
        k = self.rng.randrange(0, 3)
        libs = mods[:k]
        avail = []
        for m in libs:
            if "package" in self.features and m == libs[-1]:
                files["pk/__init__.py"] = ""
                src = self.module("pk." + m, avail, False)
                files["pk/%s.py" % m] = src
                avail = avail + ["pk." + m]
            else:
                files[m + ".py"] = self.module(m, avail, False)
                avail = avail + [m]
        self.deep = None
        if self.chance(0.4):
            # a module two packages deep, reached through its dotted path
            files["pk/__init__.py"] = files.get("pk/__init__.py", "")
            files["pk/sb/__init__.py"] = ""
            files["pk/sb/mc.py"] = self.module("pk.sb.mc", [a for a in avail if "." not in a], False)
            self.deep = "pk.sb.mc"
            avail = avail + ["pk.sb.mc"]
        files["main.py"] = self.module("main", avail, True)
        return {"files": files, "entry": "main.py"}


def gen_project(rng, features=()):
    return Gen(rng, features).project()
