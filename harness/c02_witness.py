"""Witness modules of the C02 refutation / non-vacuity lemmas.  coq/C02/Witnesses.v is GENERATED from this table
(python -m harness.c02_witness) and the same sources are the replay inputs of the open findings
(findings/C02-*.json), so the Coq witness and the program replayed on rope are the same text."""
import json
import os

from harness import c02_lib as L

VERIF = os.path.dirname(os.path.dirname(os.path.abspath(__file__)))

WITNESSES = {
    # finding id -> (source, title)
    "header-expression": (
        "x = 1\ndef f(a=x):\n    x = 2\n    return x + a\nprint(x)\n",
        "a name in a def / class header (default value, annotation, decorator, base class) is looked up in the scope "
        "being defined: the global x in `def f(a=x)` is grouped with the local x of f"),
    "header-class-attribute": (
        "x = 0\nclass A:\n    x = 1\n    def m(self, a=x):\n        return a\nprint(x)\n",
        "a name in the header of a method is looked up from the method's scope, which skips the class body: the "
        "class attribute x in `def m(self, a=x)` is grouped with the global x"),
    "comprehension-first-iterable": (
        "x = [1]\ny = [x for x in x]\nprint(x, y)\n",
        "the first iterable of a comprehension is looked up inside the comprehension: in `[x for x in x]` the "
        "enclosing x is grouped with the iteration variable"),
    "class-name-own-attribute": (
        "class C:\n    C = 1\n    def m(self):\n        return C\nprint(C, C.C)\n",
        "the name of a class in its own header is looked up in the class scope: `class C: C = 1` groups the class "
        "name with the attribute C.C and separates it from the uses of the class"),
    "kwarg-unresolved-callee": (
        "class K:\n    pass\ny = 1\nK(y=y)\nprint(y)\n",
        "the name of a keyword argument whose callee has no known signature (a class without __init__, a "
        "parameter, an unresolved import) is evaluated as a variable: in `K(y=y)` the keyword is grouped with the "
        "global y"),
    "unresolved-import-conflation": (
        "def f():\n    from foo import x\n    return x\ndef g():\n    from bar import x\n    return x\n",
        "two names imported from modules rope cannot resolve are the same PyName for same_pyname (definition "
        "location (None, None), unknown object): `from foo import x` in f and `from bar import x` in g are one group"),
    "param-default-of-rebound-def": (
        "def f(a=1):\n    return a\ndef f():\n    pass\n",
        "a parameter written with a default value is resolved through the def name (it looks like a keyword "
        "argument of `f(`): when the name f is rebound later the parameter has no PyName and is missing from the "
        "occurrences of its own uses"),
}

# departures that live in the text (no PyF-level witness): replayed on rope and judged by the oracle only
TEXTUAL = {
    "inherited-import-attribute-hint-crash": (
        "class A(object):\n    import zzz\nclass B(A):\n    y = zzz = (zzz.zzz, 's')\n",
        "find_occurrences raises AttributeError ('ImportedModule' / 'DefinedName' object has no attribute 'assignments') for a "
        "name that a class assigns (value of unknown type) while a superclass binds it by an import, a def or a class: the "
        "inheritance-based assignment hint (oi/type_hinting/providers/inheritance.py) passes the superclass's PyName to "
        "the type-comment provider, which expects an AssignedName"),
    'instance-attribute-assigned-in-for-or-with': (
        'class K:\n    def run(self, ys):\n        for y in ys:\n            self.x = y\n        return self.x\n',
        'an instance attribute that is only assigned inside a for / with statement (or a nested function) of a method is unknown to the class (_ClassInitVisitor skips these statements): self.x has no PyName, a query on it finds nothing, and in a subclass it is reported with the attribute of the same name inherited from the base'),
    'global-in-class-body-as-attribute': (
        'y = 0\nclass K:\n    global y\n    def m(self):\n        self.y = 1\n        return self.y\nprint(y)\n',
        "a `global y` statement in a class body makes y an attribute of the class for rope (the module's PyName is stored in the class names): self.y is reported as an occurrence of the global y"),
}

# repaired in /repo (commit): the replay lives in corpus/C02/ and a returning defect is a VIOLATION
FIXED = {
    'tuple-target-as-keyword': (
        'def g(y=0):\n    return y\nf = g\nx, y = 1, 2\nprint(y, g(y=3))\n',
        'the last name of an unparenthesised tuple target (`x, y = ...`) looks like a keyword argument (preceded by a comma, followed by `=`); the word before the start of the line is taken for the callee: after a line ending in `g` the target y is reported as the parameter y of g and is missing from the occurrences of the variable y',
        '9405717'),
    'genexp-first-token': (
        'x = [1]\nk = sum(x + 1 for x in [3])\nprint(x)\n',
        'a generator expression that is the sole argument of a call has no parentheses of its own, its region starts at its first token and Scope.in_region is strict: a name that is the first token of the element is looked up in the enclosing scope (`sum(x + 1 for x in ...)`: the first x is grouped with the global x)',
        '61b2b10'),
    'string-prefix-as-occurrence': (
        "def f(y):\n    return y\ns = f'{f(1)} f'\nb = 2\nt = b'b' + bytes(b)\n",
        "the prefix of a string literal is reported as an occurrence of a variable or function spelled like it (f'..', b'..', r'..', u'..'): the occurrence alternative of the search pattern is tried before the string alternatives (a rename of f would rewrite f'...' into g'...')",
        '417bae9'),
    'indented-import-module-as-variable': (
        'def f(c):\n    import c as y\n    return c, y\n',
        'in an indented `import c as y` the module name is not recognised as part of an import statement (Worder.is_import_statement compares the statement start with column 0) and is evaluated as a variable: it is reported as an occurrence of a visible variable c (a rename of the variable would rewrite the import)',
        '49ab4fe'),
    'from-import-at-eof': (
        'def c():\n    pass\nfrom ext import c',
        'find_occurrences raises IndexError for a name that is the last word of a file ending, without a newline, in `from m import name` (Worder.is_from_aliased looks one character past the end of the text)',
        'b5db6ac'),
}

EXAMPLE = (
    "import os\nlimit = 10\ndef scale(v, factor=limit):\n    return v * factor\nclass Box:\n    size = 1\n"
    "    def __init__(self, size):\n        self.size = size\n"
    "    def grow(self, limit):\n        self.size = scale(self.size, factor=limit)\n        return Box(size=self.size)\n"
    "def use(limit):\n    global size\n    size = limit\n    return scale(factor=size, v=limit)\nsize = 3\n"
    "table = [limit for limit in range(size)]\nprint(limit, table)\n"
)


EXAMPLE_PROJECT = {
    "lib.py": ("x = 1\ndef f(p, q=2):\n    return p + q\nclass K:\n    a = 1\n    def __init__(self, v):\n"
               "        self.v = v\n"),
    "mod_under_test.py": ("import lib\nfrom lib import f as g, K\nx = 5\ndef h(p):\n    return g(p=p, q=lib.x) + x\n"
                          "print(lib.f(1), K(v=2).a, K.a, lib.K)\n"),
}


def project_witness_def(name, files):
    obs = {p: L.observe(src, with_rope=False, resolvable=("lib",)) for p, src in files.items()}
    lib_prog, main_prog, intern = L.project_programs(obs)
    import builtins as _b
    names = sorted({t.name for o in obs.values() for t in o.tokens} | {"len", "__init__", "__call__", "staticmethod",
                                                                        "classmethod", "property", "lib"})
    gi = lambda xs: "[" + "; ".join("%d%%N" % intern(x) for x in xs) + "]"
    nl = lambda xs: "[" + "; ".join("%d%%N" % i for i in sorted(xs)) + "]"
    main = obs[[p for p in obs if p != L.LIBNAME][0]]
    lib = obs[L.LIBNAME]
    out = ["(* lib.py:\n   %s\n   mod_under_test.py:\n   %s *)" % (
        files["lib.py"].replace("\n", "\n   "), files["mod_under_test.py"].replace("\n", "\n   "))]
    out.append("Definition w2_lib_%s : program := %s." % (name, lib_prog))
    out.append("Definition w2_main_%s : program := %s." % (name, main_prog))
    out.append("Definition w2_bi_%s : list ident := %s." % (name, gi([x for x in names if x in set(dir(_b))])))
    out.append("Definition w2_ids_%s : list ident := %s." % (name, gi(names)))
    out.append("Definition w2_init_%s : ident := %d%%N." % (name, intern("__init__")))
    out.append("Definition w2_call_%s : ident := %d%%N." % (name, intern("__call__")))
    out.append("Definition w2_odd_%s : list ident := %s." % (name, gi(["staticmethod", "classmethod"])))
    out.append("Definition w2_prop_%s : ident := %d%%N." % (name, intern("property")))
    out.append("Definition w2_libname_%s : ident := %d%%N." % (name, intern("lib")))
    out.append("Definition w2_kwl_lib_%s : list N := %s." % (name, nl(lib.kwlike)))
    out.append("Definition w2_kwl_main_%s : list N := %s." % (name, nl(main.kwlike)))
    out.append("(* lib tokens: %s *)" % ", ".join("%s#%d" % (t.name, t.id) for t in lib.tokens))
    out.append("(* main tokens: %s *)" % ", ".join("%s#%d" % (t.name, t.id) for t in main.tokens))
    return "\n".join(out) + "\n"


def witness_def(name, src):
    o = L.observe(src, with_rope=False)
    tr = o.tr
    idents = sorted({t.name for t in o.tokens} | {"len", "__init__", "__call__", "staticmethod", "classmethod", "property"})
    import builtins as _b
    bi = [x for x in idents if x in set(dir(_b))]
    init, call, odd = tr.g_ident("__init__"), tr.g_ident("__call__"), tr.g_idents(["staticmethod", "classmethod"])
    out = []
    out.append("(* %s *)" % src.replace("(*", "( *").replace("*)", "* )").replace("\n", "\n   "))
    out.append("Definition w_%s : program := %s." % (name, tr.prog))
    out.append("Definition nl_%s : N := %d%%N." % (name, tr.nlines))
    out.append("Definition bi_%s : list ident := %s." % (name, tr.g_idents(bi)))
    out.append("Definition ids_%s : list ident := %s." % (name, tr.g_idents(idents)))
    out.append("Definition init_%s : ident := %s." % (name, init))
    out.append("Definition call_%s : ident := %s." % (name, call))
    out.append("Definition odd_%s : list ident := %s." % (name, odd))
    out.append("Definition prop_%s : ident := %s." % (name, tr.g_ident("property")))
    out.append("Definition kwl_%s : list N := [%s]." % (name, "; ".join("%d%%N" % i for i in sorted(o.kwlike))))
    out.append("(* tokens: %s *)" % ", ".join("%s#%d" % (t.name, t.id) for t in o.tokens))
    return "\n".join(out) + "\n"


def write_witnesses(path=None):
    path = path or os.path.join(VERIF, "coq", "C02", "Witnesses.v")
    parts = ["(* GENERATED by harness/c02_witness.py - do not edit.  The sources are the replay inputs of the open\n"
             "   findings of C02 and the non-vacuity example. *)\n"
             "From Coq Require Import List NArith.\nFrom RopeVerif.C15 Require Import Syntax.\nImport ListNotations.\n"]
    for fid, (src, _title) in WITNESSES.items():
        parts.append(witness_def(fid.replace("-", "_"), src))
    parts.append(witness_def("example", EXAMPLE))
    parts.append(project_witness_def("example", EXAMPLE_PROJECT))
    with open(path, "w") as f:
        f.write("\n".join(parts))


HISTORY = {
    "answer-depends-on-query-history": (
        {"kind": "history", "src": "class K:\n    a = 1\n    def m(self):\n        return self.a\nx = 0\nb = K.m(x)\nprint(b.real)\n",
         "first": ["self.a", 5], "other": ["real", 0]},
        "the occurrences of an attribute reached through self depend on the queries asked before: inferring the value "
        "of a call of the method (K.m(x), forced by a query on b.real) overwrites the inferred objects of its parameters "
        "(_infer_returned: 'Setting parameter objects manually'), after which self.a has no PyName and a query on it "
        "finds nothing"),
}


PROJECT = {
    "imported-name-same-line-homonym": (
        {"kind": "project", "focus": "imported-name-same-line-homonym",
         "files": {"lib.py": "def g(): pass\nc = g()\nb = max(b for b in c)\nprint(b)\n",
                   "mod_under_test.py": "from lib import b\nprint(b)\n"}},
        "same_pyname compares the definition location of an imported name by (module, line): `from lib import b` is "
        "reported with the module-level b of lib AND with the variable b of a generator expression written on the same "
        "line (`b = max(b for b in c)`, both of unknown type); asked from lib's module-level b the generator's b is not "
        "reported, so the answer also depends on the occurrence used to ask"),
}


SEQUENCE = {
    "stale-attribute-after-edit": (
        {"kind": "sequence", "focus": "stale-attribute-after-edit", "files": {'lib.py': 'x = 7\nb = 4\na = 0\ny = 1\nif y and y + [a]:\n    {y + a for y in x}\n    (x, b) = ((b, y), x)\nclass B:\n    n = 7\n    def __init__(self, x=5, y=a, *b):\n        # y = h(a=x)\n        import ext\n        self.x = a < y < (f\'{b:{y}} y\', \'(y\')\n        self.n = ext\n        return y\n    def m(self, x, y):\n        b = f\'{y:{y}} x\' * 5\n        self.y = [f"{f\'{a}\'} {x:>{a}.2f}"] and f"{f\'{a}\'} {b:>{a}.2f}" + b\nclass K(B):\n    def n(this, a):\n        if b + f\'{y:{x}} x\' * x:\n            import other\n        else:\n            B(3, y=(y, this), b=f\'{x} b\')\n        if 9 < a < other:\n            this.x = a\n            c = B(x=x, b=0)\n    n = 3\nx = [c + f\'{x!r:>{x}}\' for c in x]\n(b, b) = (K(x, y=0), a < b)\n', 'mod_under_test.py': 'from lib import *\ny = 1\nc = 2\nb = 1\ndef g():\n    return y\n    x = (y * b, c)\ndef h():\n    # a = h(a=x)\n    print(\'(a\')\n    print(y)\nclass B(object):\n    n = 9\n    def __init__(self, y, b=c):\n        global c\n        """B.x"""\n        try:\n            pass\n        except Exception as b:\n            b = self.n\n        b = y < (y, self)\n        for c in h():\n            \'y\'\n            b = self\n            print(c)\n    n = 5\n    y = 2\n@h\ndef f(y: h, c=3, *x):\n    global b\n    B()\n    return 7\n    "def f(c): return x"\n    (x, y) = (c, \'a\')\ntry:\n    (x, b) = (c, (f\'{B(7, y)} y\', c))\nexcept Exception as x:\n    a = g()\nfor y in x < b:\n    (y, c) = (2 + [7], a * h())\n    if f\'{g()} b\':\n        b = x\n        (b, b) = ([\'(x\'] and c < c, 8)\n    else:\n        for y in b:\n            print(g())\ndef run_new(path):\n    return fresh\nprint(fresh)\nprint(B)\n'}, "lib2": 'fresh = 7\nx = 7\nb = 4\na = 0\ny = 1\nif y and y + [a]:\n    {y + a for y in x}\n    (x, b) = ((b, y), x)\nclass B:\n    n = 7\n    def __init__(self, x=5, y=a, *b):\n        # y = h(a=x)\n        import ext\n        self.x = a < y < (f\'{b:{y}} y\', \'(y\')\n        self.n = ext\n        return y\n    def m(self, x, y):\n        b = f\'{y:{y}} x\' * 5\n        self.y = [f"{f\'{a}\'} {x:>{a}.2f}"] and f"{f\'{a}\'} {b:>{a}.2f}" + b\nclass K(B):\n    def n(this, a):\n        if b + f\'{y:{x}} x\' * x:\n            import other\n        else:\n            B(3, y=(y, this), b=f\'{x} b\')\n        if 9 < a < other:\n            this.x = a\n            c = B(x=x, b=0)\n    n = 3\nx = [c + f\'{x!r:>{x}}\' for c in x]\n(b, b) = (K(x, y=0), a < b)\n'},
        "in a live project, after lib.py was rewritten through the rope API (a line added at the top), the occurrences of "
        "instance attributes reached through self are wrong where a freshly opened project - and a project that only "
        "answered the same queries on the final text - are right: self.x of class B is reported with this.x of its "
        "subclass K, self.n with K's own n (generated input; the attributes of K no longer shadow the inherited ones; "
        "call information recorded by rope's object inference before the edit is the suspected cause, not confirmed)"),
}


def write_findings():
    for fid, (obj, title) in SEQUENCE.items():
        with open(os.path.join(VERIF, "findings", "C02-%s.json" % fid), "w") as f:
            json.dump(dict(obj, property="C02", title=title), f, indent=1)
    for fid, (obj, title) in PROJECT.items():
        with open(os.path.join(VERIF, "findings", "C02-%s.json" % fid), "w") as f:
            json.dump(dict(obj, property="C02", title=title), f, indent=1)
    for fid, (obj, title) in HISTORY.items():
        with open(os.path.join(VERIF, "findings", "C02-%s.json" % fid), "w") as f:
            json.dump(dict(obj, property="C02", title=title), f, indent=1)
    for fid, (src, title) in list(WITNESSES.items()) + list(TEXTUAL.items()):
        with open(os.path.join(VERIF, "findings", "C02-%s.json" % fid), "w") as f:
            json.dump({"property": "C02", "kind": "module", "focus": fid, "src": src, "title": title}, f, indent=1)
    os.makedirs(os.path.join(VERIF, "corpus", "C02"), exist_ok=True)
    for fid, (src, title, commit) in FIXED.items():
        # replayed first on every run; it fails again when the oracle has any verdict rope cannot account for
        with open(os.path.join(VERIF, "corpus", "C02", "%s.json" % fid), "w") as f:
            json.dump({"property": "C02", "kind": "module", "focus": "unexplained", "was": fid, "fixed_by": commit,
                       "src": src, "title": title}, f, indent=1)
        stale = os.path.join(VERIF, "findings", "C02-%s.json" % fid)
        if os.path.exists(stale):
            os.remove(stale)


def write_findings_index():
    entries = []
    for fid, (src, title) in list(WITNESSES.items()) + list(TEXTUAL.items()) + list(HISTORY.items()) + list(PROJECT.items()) + list(SEQUENCE.items()):
        entries.append({"property": "C02", "id": "C02-" + fid, "title": title,
                        "signature": fid, "replay": "findings/C02-%s.json" % fid})
    fixed = ["fixed: property=C02 %s %s; replay corpus/C02/%s.json" % (commit, title, fid)
             for fid, (src, title, commit) in FIXED.items()]
    with open(os.path.join(VERIF, "findings.d", "C02.json"), "w") as f:
        json.dump({"open": entries, "fixed": fixed}, f, indent=1)


if __name__ == "__main__":
    write_witnesses()
    write_findings()
    write_findings_index()
