"""C20 module generator: harness/c15_gen.gen_module with the one-letter identifier pool respelled so that the
identifiers of a module are prefixes of each other, of builtins and of keywords (completion is about
spellings): a->al b->alp (builtin all), c->isa (keyword is: `x.is|` is a position of its own), x->xa y->xab, f->fo (keyword for, builtin format),
k->ka v->va g->go, C->Cl D->Cla (keyword class).  The respelling is done on NAME tokens only (strings and
comments keep their text), so the program structure, the line structure and validity are unchanged."""
import io
import token as _token
import tokenize

from harness import c15_gen

RENAME = {"a": "al", "b": "alp", "c": "isa", "x": "xa", "y": "xab", "f": "fo", "k": "ka", "v": "va",
          "g": "go", "C": "Cl", "D": "Cla"}


def respell(src, table=RENAME):
    lines = src.split("\n")
    edits = {}
    try:
        for t in tokenize.generate_tokens(io.StringIO(src).readline):
            if t.type == _token.NAME and t.string in table and t.start[0] == t.end[0]:
                edits.setdefault(t.start[0], []).append((t.start[1], t.end[1], table[t.string]))
    except (tokenize.TokenError, IndentationError, SyntaxError):
        return None
    for ln, es in edits.items():
        line = lines[ln - 1]
        for (a, b, new) in sorted(es, reverse=True):
            line = line[:a] + new + line[b:]
        lines[ln - 1] = line
    out = "\n".join(lines)
    try:
        compile(out, "m.py", "exec")
    except (SyntaxError, ValueError):
        return None
    return out


def gen_source(rng, features=(), size=10):
    for _ in range(20):
        src = c15_gen.gen_module(rng, features, size)
        if src is None or not src.isascii():
            continue
        out = respell(src)
        if out is not None:
            return out
    return None
