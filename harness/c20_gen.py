"""C20 module generator: harness/c15_gen.gen_module with the one-letter identifier pool respelled so that the
identifiers of a module are prefixes of each other, of builtins and of keywords (completion is about
spellings): a->al b->alp (builtin all), c->isa (keyword is: `x.is|` is a position of its own), x->xa y->xab, f->fo (keyword for, builtin format),
k->ka v->va g->go, C->Cl D->Cla (keyword class).  The respelling is done on NAME tokens only (strings and
comments keep their text), so the program structure, the line structure and validity are unchanged."""
import io
import token as _token
import tokenize

from harness import c15_gen

RENAME = {"a": "al", "b": "alp", "c": "isa", "x": "xa", "y": "xab", "f": "fo", "k": "ka", "v": "va",
          "g": "go", "C": "Cl", "D": "Cla"}


def respell(src, table=RENAME):
    lines = src.split("\n")
    edits = {}
    try:
        for t in tokenize.generate_tokens(io.StringIO(src).readline):
            if t.type == _token.NAME and t.string in table and t.start[0] == t.end[0]:
                edits.setdefault(t.start[0], []).append((t.start[1], t.end[1], table[t.string]))
    except (tokenize.TokenError, IndentationError, SyntaxError):
        return None
    for ln, es in edits.items():
        line = lines[ln - 1]
        for (a, b, new) in sorted(es, reverse=True):
            line = line[:a] + new + line[b:]
        lines[ln - 1] = line
    out = "\n".join(lines)
    try:
        compile(out, "m.py", "exec")
    except (SyntaxError, ValueError):
        return None
    return out


def gen_source(rng, features=(), size=10):
    for _ in range(20):
        src = c15_gen.gen_module(rng, features, size)
        if src is None or not src.isascii():
            continue
        out = respell(src)
        if out is not None:
            return out
    return None


# ============================================================================ scenario modules
# Shapes harness/c15_gen does not produce (each is a position class of its own for completion / go-to-definition):
#   * names imported from a module that EXISTS in the project (`from hlp import ...`, star import), whose
#     definitions sit on assorted lines of that module;
#   * a bracketed expression inside a method that continues on a line indented less than the def (valid Python);
#   * a comparison `name == e` / `name >= e` as a call argument where the callee has a parameter spelled `name`
#     and `name` is a local of the caller;
#   * a function whose last body statement is a compound statement with a dedented comment line inside its block;
#   * attribute access with blanks around the dot (`box . size`) and a chain continued on the next line inside
#     parentheses, on a receiver whose class is statically evident.
HELPER_MODULE = "hlp"
HELPER_SOURCE = (
    '"""helper module of the C20 scenario stream"""\n'      # 1
    "alto = 1\n"                                              # 2
    "\n"
    "\n"
    "def alfa(items):\n"                                      # 5
    "    return sum(items)\n"
    "\n"
    "\n"
    "class Xanadu:\n"                                         # 9
    "    depth = 2\n"
    "\n"
    "    def dive(self):\n"
    "        return self.depth\n"
    "\n"
    "\n"
    "def fold(al, xa=0):\n"                                   # 16
    "    return al + xa\n"
    "\n"
    "# spacer\n"
    "\n"
    "\n"
    "def isay(text):\n"                                       # 22
    "    return text\n"
    "\n"
    "\n"
    "\n"
    "\n"
    "def xact(fo):\n"                                         # 28
    "    return fo\n"
    "_hidden = 0\n"
)
HELPER_NAMES = ["alto", "alfa", "Xanadu", "fold", "isay", "xact"]
_S_POOL = ["al", "alp", "xa", "xab", "isa", "fo", "ka", "va"]
_S_CLASSES = ["Cl", "Cla", "Kit"]
_S_ATTRS = ["size", "sift", "grow", "go", "isle"]


def gen_scenario(rng, star=None):
    """Returns (source, uses_star_import)."""
    for _ in range(30):
        star = (rng.random() < 0.3) if star is None else star
        L = []

        def noise():
            r = rng.random()
            if r < 0.25:
                L.append("")
            elif r < 0.35:
                L.append("# note " + rng.choice(_S_POOL))

        imported = []
        if star:
            L.append("from %s import *" % HELPER_MODULE)
            imported = list(HELPER_NAMES)
        else:
            picks = rng.sample(HELPER_NAMES, rng.randint(2, 4))
            L.append("from %s import %s" % (HELPER_MODULE, ", ".join(picks)))
            imported = picks
        noise()
        g1, g2, p1, p2, loc, q, v, fl = rng.sample(_S_POOL, 8)
        cls = rng.choice(_S_CLASSES)
        a1, a2, m1, m2 = rng.sample(_S_ATTRS, 4)
        inst, t1, t2, callee, caller = "box", "first", "chain", "check", "run"
        L.append("%s = %s(%d)" % (g1, rng.choice([x for x in imported if x[0].islower() and x != "alto"] or ["len"]),
                                 rng.randint(0, 9)))
        noise()
        sections = []
        dedent = rng.choice([0, 2, 4, 6])
        sections.append([
            "class %s:" % cls,
            "    %s = 1" % a1,
            "",
            "    def %s(self, %s, %s):" % (m1, p1, p2),
            "        %s = %s + 1" % (loc, p1),
            "        return max(",
            " " * dedent + "%s, len(%s)," % (loc, p2),
            " " * rng.choice([0, 4, 8]) + "%s" % p1,
            "        )",
            "",
            "    def %s(self, %s):" % (m2, p1),
            "        self.%s = %s" % (a2, p1),
            "        return self",
        ])
        op = rng.choice(["==", ">=", "!=", "<="])
        sections.append([
            "def %s(%s, %s):" % (callee, fl, q),
            "    return %s" % fl,
            "",
            "def %s(%s):" % (caller, v),
            "    %s = len(%s)" % (q, v),
            "    %s = %s(%s %s 10, %s)" % (g2, callee, q, op, q),
            "    return %s(True, %s %s 10)" % (callee, q, op),
        ])
        # uses before bindings: a function reading a global assigned further down and calling a helper defined later;
        # a try body with a comment in column 0 and a blank line (the repair looks for the end of the body)
        late, early, aux = "late", "early", "aux"
        sections.append([
            "def %s():" % early,
            "    return %s + %s(%s)" % (late, aux, g1),
        ])
        tail = [
            "%s = %d" % (late, rng.randint(0, 9)),
            "def %s(%s):" % (aux, p1),
            "    try:",
            "        %s = %s" % (loc, p1),
            "# %s = 0" % loc,
            "",
            "        %s = %s + %s" % (p2, loc, late),
            "    except %s:" % rng.choice(["Exception", "ValueError"]),
            "        %s = %s" % (p2, p1),
            "    return %s" % p2,
        ]
        # a function whose LAST body statement is compound and holds, inside its block, a comment indented less than
        # the function body (commented-out code): the lines below the comment still belong to the function
        kindc = rng.choice(["for", "if", "while", "with", "try"])
        head = {"for": "for %s in %s:" % (v, p2), "if": "if %s:" % p1, "while": "while %s:" % p1,
                "with": "with %s as %s:" % (p1, v), "try": "try:"}[kindc]
        sec9 = [
            "def tally(%s, %s):" % (p1, p2),
            "    %s = %s" % (loc, p1),
            "    " + head,
            "        %s = %s" % (fl, loc),
            " " * rng.choice([0, 0, 2]) + "# %s = 0" % fl,
            "        %s = %s + %s" % (loc, fl, p1),
        ]
        if rng.random() < 0.5:
            sec9.append("")
        sec9.append("        %s = %s" % (p2, loc))
        if kindc == "try":
            sec9 += ["    finally:", "        %s = %s" % (loc, p2)]
        sections.append(sec9)
        rng.shuffle(sections)
        for sec in sections:
            L.extend(sec)
            noise()
            if rng.random() < 0.6 and imported:
                L.append("%s = %s" % (rng.choice([t1, t2, g2]), rng.choice(imported)))
        L.extend(tail)
        # the class itself as receiver (the dotted-completion model covers receivers that are class statements)
        L.append("%s = %s.%s" % (g2, cls, a1))
        L.append("%s = %s . %s(%s, 0)" % (t1, cls, m1, g1))
        L.append("def %s():" % "peek")
        L.append("    return %s.%s, %s.%s" % (cls, a2, cls, m2))
        L.append("%s = %s()" % (inst, cls))
        L.append("%s = %s %s %s" % (t1, inst, rng.choice([". ", " .", " . ", " .  "]), a1))
        L.append("%s = (%s." % (t2, inst))
        L.append(" " * rng.choice([4, 9, 0]) + "%s(1)." % m2)
        L.append(" " * rng.choice([4, 9]) + "%s(2, 3))" % m1)
        if rng.random() < 0.5:
            L.append("%s(%s)" % (caller, rng.choice(imported)))
        src = "\n".join(L) + "\n"
        try:
            compile(src, "m.py", "exec")
        except (SyntaxError, ValueError):
            continue
        return src, star
    return None, False
