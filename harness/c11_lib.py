"""C11 driver: runs a whole SESSION of history operations on one real rope project in a temporary
directory (Project(root, ropefolder=None)) and records, after every operation, everything observable:
exception chain, tree snapshot, undo/redo lists (object identities and abstracted contents) and the list
of changes the call returned.  Change templates (the alphabet) are resolved against the tree at the
moment they are performed; the recorded session is concrete (plain change specs), so replays do not
depend on the templates.

Change specs are those of harness.c10_lib:  ["CC", path, new, old|None] ["MV", src, dst, is_folder]
["CR", path, is_folder] ["RM", path, is_folder] ["CS", "cs<tag>", [specs]].
Script ops:  ["do", letter | spec]   ["undo", sel|None, drop]   ["redo", sel|None]
(sel = position in history.undo_list / redo_list at the time of the call).
"""
import os
import shutil
import tempfile

from harness import c10_lib as L10
from harness.common import g_N, g_nat, g_bool, g_list, g_opt, g_pair

SEGMENTS = ["a.txt", "b.txt", "c.txt", "d", "e", "p", "q.txt", "x.txt", "m.py", "n.py", "k.py", "z.pyc", "y.txt",
            "d.txt", "b.txt2", "d2"]
SEG_ID = {s: i + 1 for i, s in enumerate(SEGMENTS)}

# Names are chosen so that DIFFERENT, NOT nested resources share leading characters: the file d.txt and the
# folder d (and e / e.txt never meet), the files b.txt and b.txt2 in one folder, the folders d and d2 (with
# d2/q.txt): a dependency test working on characters instead of path segments confuses them.
AFILE = "d.txt"        # the top-level text file (edited, moved into / out of the folder)
XFILE = "b.txt2"       # the file created next to b.txt
NFOLDER = "d2"         # the folder created by the nested set

# Line ends: d.txt is a CRLF file, d/b.txt a CR file, n.py a CRLF python module, m.py an LF one.  rope reads text
# with universal newlines and writes it back with the convention of the File object (File.newlines): undo and redo
# must restore the BYTES.  TREE_LF is the same tree with LF everywhere.
TREE_LF = {
    AFILE: "A\nB\n",
    "d": None,
    "d/b.txt": "B\nC\n",
    "m.py": "def f():\n    return 1\n",
    "n.py": "import m\nprint(m.f())\n",
    "z.pyc": "Z",
}

TREE0 = {
    AFILE: "A\r\nB\r\n",
    "d": None,
    "d/b.txt": "B\rC\r",
    "m.py": "def f():\n    return 1\n",
    "n.py": "import m\r\nprint(m.f())\r\n",
    "z.pyc": "Z",                      # matches the default ignored_resources pattern *.pyc
}

LETTERS = ["EA", "EB", "CF", "MF", "MD", "NS", "RN"]          # the 7-letter alphabet of the exhaustive part
EXTRA_LETTERS = ["CD", "IG", "EMPTY", "MIX", "RMX", "OVW", "ALIAS", "LEAF"]   # random stream only


# ------------------------------------------------------------------------------------- templates
def _first(snap, candidates, default):
    for c in candidates:
        if c in snap:
            return c
    return default


def preview(change):
    """what a client showing a change to the user asks of it"""
    change.get_changed_resources()
    try:
        change.get_description()
    except Exception:
        pass


def look_at_files(change):
    """a client showing the current text of the files a listed change edits: reads them through the very File
    objects the change holds"""
    from rope.base import change as ch
    for leaf in leaf_changes(change):
        if isinstance(leaf, ch.ChangeContents):
            try:
                if leaf.resource.exists() and not leaf.resource.is_folder():
                    leaf.resource.read()
            except Exception:
                pass


def conv(data):
    """(text, newline convention) of file bytes as a File object that has not seen the file before reads them:
    universal newlines; CR wins over CRLF wins over LF (rope.base.fscommands.file_data_to_unicode)"""
    try:
        text = data.decode("utf-8")
    except UnicodeDecodeError:
        text = data.decode("latin1")
    nl = "\n"
    if "\r\n" in text:
        text = text.replace("\r\n", "\n")
        nl = "\r\n"
    if "\r" in text:
        text = text.replace("\r", "\n")
        nl = "\r"
    return text, nl


def enc(text, nl):
    if text is None:
        return None
    return text.replace("\n", nl).encode("utf-8") if nl != "\n" else text.encode("utf-8")


def abstract(c, nlmap=None):
    """real Change object -> spec; a ChangeContents carries as 5th element the newline convention its File object
    writes with (the convention of the file when the change was first performed; LF for a File object that has
    never read the file, e.g. a change reloaded from a saved history)"""
    from rope.base import change as ch
    if isinstance(c, ch.ChangeSet):
        return ["CS", c.description, [abstract(x, nlmap) for x in c.changes]]
    sp = L10.abstract_change(c)
    if sp[0] == "CC":
        sp = sp + [getattr(c, "_verif_nl", "\n")]
    return sp


def note_newlines(built, snap, nlmap):
    """before a do: the convention each not yet performed ChangeContents leaf will write with"""
    from rope.base import change as ch
    cur = {}
    for leaf in leaf_changes(built):
        if isinstance(leaf, ch.ChangeContents):
            path = leaf.resource.path
            if leaf.old_contents is None and not hasattr(leaf, "_verif_nl"):
                data = cur.get(path, snap.get(path))
                nl = conv(data)[1] if isinstance(data, bytes) else "\n"
                prev = getattr(leaf.resource, "_verif_nl", None)
                text = conv(data)[0] if isinstance(data, bytes) else ""
                if prev is not None and "\n" not in text:
                    nl = prev                     # the same File object has seen the file before: it keeps its convention
                leaf.resource._verif_nl = nl
                leaf._verif_nl = nl
            cur[path] = enc(leaf.new_contents, getattr(leaf, "_verif_nl", "\n"))


def mkset(desc, children):
    """a ChangeSet built incrementally, looked at (resources, description) after every added child, as a
    client that previews while it builds does"""
    from rope.base import change as ch
    cs = ch.ChangeSet(desc)
    preview(cs)
    for c in children:
        cs.add_change(c)
        preview(cs)
    return cs


def leaf_changes(change):
    from rope.base import change as ch
    if isinstance(change, ch.ChangeSet):
        return [l for c in change.changes for l in leaf_changes(c)]
    return [change]


def leaf_resources(change):
    """the resources of a change, collected from its leaves (never from a ChangeSet's own answer)"""
    return [r for l in leaf_changes(change) for r in l.get_changed_resources() if r is not None]


def resolve(letter, snap, tag, project):
    """letter -> (built rope Change, how).  Deterministic in (letter, tree, tag)."""
    from rope.base import change as ch
    desc = "cs%d" % tag
    folder = _first(snap, ["d", "e"], "d")
    afile = _first(snap, [AFILE, "d/" + AFILE, "e/" + AFILE], AFILE)

    def CS(*children):
        return mkset(desc, children)

    if letter == "EA":
        # every other edit leaves a text without any line break
        return CS(ch.ChangeContents(project.get_file(afile), ("a%d" if tag % 2 else "a%d\nq\n") % tag))
    if letter == "EB":
        return CS(ch.ChangeContents(project.get_file(folder + "/b.txt"), ("b%d\nr\n" if tag % 2 else "b%d") % tag))
    if letter == "CF":
        if tag % 2:
            return CS(ch.CreateFile(project.get_folder(folder), XFILE))
        return CS(ch.CreateResource(project.get_file(folder + "/" + XFILE)))
    if letter == "MF":
        if afile == AFILE:
            return CS(ch.MoveResource(project.get_file(AFILE), folder))       # rope computes folder/d.txt
        return CS(ch.MoveResource(project.get_file(afile), AFILE))
    if letter == "MD":
        src, dst = ("d", "e") if folder == "d" else ("e", "d")
        return CS(ch.MoveResource(project.get_folder(src), dst))
    if letter == "NS":
        inner = mkset("cs%d" % (tag * 100 + 1),
                      [ch.CreateResource(project.get_file(NFOLDER + "/q.txt")),
                       ch.ChangeContents(project.get_file(NFOLDER + "/q.txt"), "Q%d\n" % tag)])
        mid = mkset("cs%d" % (tag * 100 + 2), [ch.CreateFolder(project.root, NFOLDER), inner])
        return CS(ch.ChangeContents(project.get_file(afile), "n%d\n" % tag), mid,
                  ch.ChangeContents(project.get_file(folder + "/b.txt"), "N%d\n" % tag))
    if letter == "RN":
        from rope.refactor.rename import Rename
        src, new = ("m.py", "k") if "m.py" in snap else ("k.py", "m")
        changes = Rename(project, project.get_resource(src)).get_changes(new)
        changes.description = desc           # the identity tag seen by the model
        preview(changes)
        return changes
    if letter == "CD":
        return CS(ch.CreateFolder(project.root, "e" if folder == "d" else "d"))
    if letter == "IG":
        return CS(ch.ChangeContents(project.get_file("z.pyc"), "z%d" % tag))
    if letter == "EMPTY":
        return CS()
    if letter == "MIX":
        # one set touching an ignored and an ordinary file (the ordinary one added last)
        return CS(ch.ChangeContents(project.get_file("z.pyc"), "y%d" % tag),
                  ch.ChangeContents(project.get_file(afile), "m%d\n" % tag))
    if letter == "RMX":
        target = _first(snap, [folder + "/" + XFILE, "c.txt", afile], afile)
        return CS(ch.ChangeContents(project.get_file(folder + "/b.txt"), "r%d\n" % tag),
                  ch.RemoveResource(project.get_file(target)))
    if letter == "OVW":
        # a move whose destination file exists (exact destination: os.rename overwrites it)
        return CS(ch.MoveResource(project.get_file(afile), folder + "/b.txt", exact=True))
    if letter == "ALIAS":
        # a folder created where a file has been moved away from (or the other way round)
        if AFILE in snap:
            return CS(ch.CreateResource(project.get_file("y.txt")))
        return CS(ch.CreateResource(project.get_folder(AFILE)))
    if letter == "LEAF":
        return ch.ChangeContents(project.get_file(afile), "l%d\n" % tag)     # top-level leaf change
    raise ValueError(letter)


# ------------------------------------------------------------------------------------ recording
class NewlineAwareFS(L10.FaultyFS):
    """C10's observed file-system commands; the reversibility verdict of a write compares TEXTS (the file read with
    universal newlines against the recorded old / new contents), as rope records texts, not bytes"""

    def write(self, path, data):
        def reversible(c, m):
            if not os.path.isfile(path):
                return False
            with open(path, "rb") as f:
                cur = f.read()
            expect = c.old_contents if m == "do" else c.new_contents
            if expect is None:
                return False
            if isinstance(expect, bytes):
                return cur == expect
            return conv(cur)[0] == expect
        return self._counted("write", reversible, lambda: self.real.write(path, data))


def mkdtemp():
    """scratch project directory: on the memory file system when there is one (the disk-backed /tmp of the
    sandbox costs milliseconds per unlink), never inside /repo or /verif"""
    base = "/dev/shm"
    if os.path.isdir(base) and os.access(base, os.W_OK):
        return tempfile.mkdtemp(prefix="ropeverif-", dir=base)
    return tempfile.mkdtemp(prefix="ropeverif-")


class Step:
    pass


class Session:
    pass


def exc_codes(exc):
    if isinstance(exc, ValueError) and exc.__context__ is None:
        return [50]
    return L10.exc_codes(exc)


def run_session(tree, limit, script, keep_objects=False, reread_all=False):
    """Runs the script; returns a Session with one Step per op."""
    from rope.base.project import Project
    from rope.base import taskhandle
    root = mkdtemp()
    ses = Session()
    ses.tree = dict(tree)
    ses.limit = limit
    ses.steps = []
    ses.ignored = set()
    ses.paths = set()
    ses.patterns = []
    ses.reread_all = reread_all
    nlmap = {}
    ses.nlmap = nlmap
    try:
        L10.populate(root, tree)
        fsc = NewlineAwareFS()
        # sessions with a "reopen" step keep the project's data files (the saved history) in .ropeproject
        persist = any(op and op[0] == "reopen" for op in script)

        def open_project(lim):
            if persist:
                return Project(root, fscommands=fsc, ropefolder=".ropeproject", save_history=True, max_history_items=lim)
            return Project(root, fscommands=fsc, ropefolder=None, max_history_items=lim)

        def snapshot():
            sn = L10.snapshot(root)
            return {p: v for p, v in sn.items() if not (p == ".ropeproject" or p.startswith(".ropeproject/"))}

        ses.persist = persist
        project = open_project(limit)
        hist = project.history
        ses.max_undos = hist.max_undos
        ses.patterns = list(project.prefs.get("ignored_resources") or [])
        tag = 0
        snap = snapshot()
        for op in script:
            st = Step()
            st.pre_tree = snap
            st.pre_undo_objs = list(hist.undo_list)
            st.pre_redo_objs = list(hist.redo_list)
            st.pre_undo = [abstract(c, nlmap) for c in st.pre_undo_objs]
            st.pre_redo = [abstract(c, nlmap) for c in st.pre_redo_objs]
            st.kind = op[0]
            st.built = None
            st.change = None
            st.build_error = None
            st.letter = None
            st.sel = None
            st.drop = False
            st.target = None
            exc = None
            returned = None
            fsc.reset(armed=None, op=op[0])
            handle = taskhandle.TaskHandle("C11")
            # optional last element {"stop": j}: handle.stop() is called during the j-th observer notification
            st.stop = None
            if op and isinstance(op[-1], dict):
                st.stop = op[-1].get("stop")
                op = op[:-1]
            stopper = L10.Stopper(handle, st.stop)
            handle.add_observer(stopper)
            for c in list(hist.undo_list) + list(hist.redo_list):
                preview(c)
                if reread_all:
                    look_at_files(c)
            if op[0] == "do":
                tag += 1
                try:
                    if isinstance(op[1], str):
                        st.letter = op[1]
                        built = resolve(op[1], snap, tag, project)
                    else:
                        built = L10.build_change(project, op[1])
                    st.built = built
                    note_newlines(built, snap, nlmap)
                    st.change = abstract(built, nlmap)
                except Exception as e:          # rope refuses to construct it: not an operation
                    st.build_error = repr(e)[:200]
                fsc.reset(armed=None, op="do")
                if st.build_error is None:
                    preview(built)
                    for res in leaf_resources(built):
                        ses.paths.add(res.path)
                        if project.is_ignored(res):
                            ses.ignored.add(res.path)
                    try:
                        project.do(built, task_handle=handle)
                        # the client shows the edited files: reads them through the File objects of the change
                        look_at_files(built)
                    except Exception as e:
                        exc = e
            elif op[0] == "undo":
                lst = hist.undo_list
                st.sel, st.drop = _sel(op[1], lst), bool(op[2])
                try:
                    if st.sel is None:
                        returned = hist.undo(drop=st.drop, task_handle=handle)
                    elif 0 <= st.sel < len(lst):
                        st.target = lst[st.sel]
                        returned = hist.undo(lst[st.sel], drop=st.drop, task_handle=handle)
                    else:
                        returned = hist.undo(_foreign_change(project), drop=st.drop, task_handle=handle)
                except Exception as e:
                    exc = e
            elif op[0] == "redo":
                lst = hist.redo_list
                st.sel = _sel(op[1], lst)
                try:
                    if st.sel is None:
                        returned = hist.redo(task_handle=handle)
                    elif 0 <= st.sel < len(lst):
                        st.target = lst[st.sel]
                        returned = hist.redo(lst[st.sel], task_handle=handle)
                    else:
                        returned = hist.redo(_foreign_change(project), task_handle=handle)
                except Exception as e:
                    exc = e
            elif op[0] == "reopen":
                # close the project (History.write saves the lists) and open it again (History._load_history)
                cur = hist.max_undos
                old_u, old_r = list(hist.undo_list), list(hist.redo_list)
                project.close()
                project = open_project(cur)
                hist = project.history
                # the byte-level model keeps for a reloaded change the convention it had (what an exact undo needs)
                new_u, new_r = list(hist.undo_list), list(hist.redo_list)
                pairs = list(zip(old_u[len(old_u) - len(new_u):], new_u)) + list(zip(old_r, new_r))
                for a, b in pairs:
                    for la, lb in zip(leaf_changes(a), leaf_changes(b)):
                        if hasattr(la, "_verif_nl"):
                            lb._verif_nl = la._verif_nl
            elif op[0] == "limit":
                # the preference is lowered / raised between two operations; History.max_undos reads it each time
                st.sel = int(op[1])
                project.prefs.set("max_history_items", st.sel)
            else:
                raise ValueError(op)
            st.limit_now = hist.max_undos
            st.notifications = stopper.n
            st.stopped_at = stopper.stopped_at
            st.raised = exc is not None
            st.codes = exc_codes(exc) if exc is not None else []
            st.exc_repr = repr(exc)[:200] if exc is not None else None
            st.observer_raised = L10.observer_raised(exc) if exc is not None else False
            exc = None
            st.py_irrev = fsc.irrev
            st.removed = fsc.removed
            st.unmodelled = fsc.unmodelled
            st.unknown_phase = fsc.unknown_phase
            fsc.reset()
            snap = snapshot()
            st.post_tree = snap
            st.post_undo_objs = list(hist.undo_list)
            st.post_redo_objs = list(hist.redo_list)
            st.post_undo = [abstract(c, nlmap) for c in st.post_undo_objs]
            st.post_redo = [abstract(c, nlmap) for c in st.post_redo_objs]
            st.current_change_cleared = hist.current_change is None
            st.returned_objs = list(returned) if returned is not None else None
            # positions, in the list before the call, of the returned changes (by identity)
            st.deps = None
            if returned is not None:
                src = st.pre_undo_objs if op[0] == "undo" else st.pre_redo_objs
                st.deps = [_index_is(src, c) for c in returned]
            # the concrete op, replayable without templates
            if op[0] == "do":
                st.op = ["do", st.change] if st.change is not None else ["do", None]
            elif op[0] == "undo":
                st.op = ["undo", st.sel, st.drop]
            elif op[0] == "limit":
                st.op = ["limit", st.sel]
            elif op[0] == "reopen":
                st.op = ["reopen"]
            else:
                st.op = ["redo", st.sel]
            if st.stop is not None:
                st.op = st.op + [{"stop": st.stop}]
            ses.steps.append(st)
        if not keep_objects:
            for st in ses.steps:
                st.target = None
        project.close()
    finally:
        shutil.rmtree(root, ignore_errors=True)
    return ses


def _sel(sel, lst):
    """("mod", k): position k modulo the current length (None on an empty list)"""
    if isinstance(sel, (tuple, list)):
        return (sel[1] % len(lst)) if lst else None
    return sel


def _foreign_change(project):
    from rope.base import change as ch
    return ch.ChangeSet("cs0")


def _index_is(lst, obj):
    for i, x in enumerate(lst):
        if x is obj:
            return i
    return -1


def strip(ses):
    """drop the rope objects so that the session can be pickled / kept cheaply"""
    for st in ses.steps:
        st.built = None
        st.target = None
        st.pre_undo_objs = st.pre_redo_objs = st.post_undo_objs = st.post_redo_objs = None
        st.returned_objs = None
    return ses


def concrete_script(ses):
    return [st.op for st in ses.steps]


# ------------------------------------------------------------------------- replay of change lists
def replay_tree(tree, specs):
    """Independent re-execution: performs the given change specs (fresh objects, old contents not
    recorded) one after the other with Change.do() on a copy of the tree in a fresh project, without any
    History.  Returns (snapshot, None) or (None, 'position k: <exception>')."""
    from rope.base.project import Project
    root = mkdtemp()
    try:
        L10.populate(root, tree)
        project = Project(root, ropefolder=None)
        try:
            for k, spec in enumerate(specs):
                try:
                    c = L10.build_change(project, strip_old(spec))
                    c.do()
                except Exception as e:
                    return None, "position %d: %r" % (k, e)
            return L10.snapshot(root), None
        finally:
            project.close()
    finally:
        shutil.rmtree(root, ignore_errors=True)


def strip_nl(spec):
    if spec[0] == "CC":
        return list(spec[:4])
    if spec[0] == "CS":
        return ["CS", spec[1], [strip_nl(c) for c in spec[2]]]
    return list(spec)


def strip_old(spec):
    if spec[0] == "CC":
        return ["CC", spec[1], spec[2], None] + list(spec[4:5])
    if spec[0] == "CS":
        return ["CS", spec[1], [strip_old(c) for c in spec[2]]]
    return list(spec)


# ------------------------------------------------------------------- path-level dependency closure
def spec_paths(spec):
    """paths touched by a change spec (classes ignored)"""
    k = spec[0]
    if k == "CS":
        return [p for c in spec[2] for p in spec_paths(c)]
    if k == "MV":
        return [spec[1], spec[2]]
    return [spec[1]]


def spec_resources(spec):
    """(is_folder_class, path) of every resource, as rope's get_changed_resources sees them"""
    k = spec[0]
    if k == "CS":
        return [r for c in spec[2] for r in spec_resources(c)]
    if k == "CC":
        return [(False, spec[1])]
    if k == "MV":
        return [(bool(spec[3]), spec[1]), (bool(spec[3]), spec[2])]
    return [(bool(spec[2]), spec[1])]


def nested_paths(p, q):
    a, b = p.split("/") if p else [], q.split("/") if q else []
    n = min(len(a), len(b))
    return a[:n] == b[:n]


def path_closure(specs, i):
    """positions j >= i of the changes that must go when specs[i] goes: a later change joins when one of
    its paths equals, lies below or lies above a path of the closure so far"""
    acc = list(spec_paths(specs[i]))
    res = [i]
    for j in range(i + 1, len(specs)):
        ps = spec_paths(specs[j])
        if any(nested_paths(p, q) for p in ps for q in acc):
            res.append(j)
            acc.extend(ps)
    return res


def classes_coherent(specs):
    rs = [r for s in specs for r in spec_resources(s)]
    for (f1, p1) in rs:
        for (f2, p2) in rs:
            if p1 == p2 and f1 != f2:
                return False
            if p1 != p2 and nested_paths(p1, p2) and len(p1.split("/")) < len(p2.split("/")) and not f1:
                return False
    return True


def has_remove(spec):
    if spec[0] == "CS":
        return any(has_remove(c) for c in spec[2])
    return spec[0] == "RM"


# ---------------------------------------------------------------------------------- Gallina terms
def g_path(p):
    if p == "":
        return "[]"
    return g_list([g_N(SEG_ID[s]) for s in p.split("/")])


def _bytes(b):
    if isinstance(b, str):
        b = b.encode("utf-8")
    return bytes(b)


class Printer:
    """Prints the cases of one Coq file.  File contents, changes and trees are hash-consed into named
    definitions (sessions of the exhaustive family share most of them), the cases refer to the names."""

    def __init__(self):
        self.ignored = set()
        self.defs = []
        self.names = {}

    def _name(self, prefix, typ, text):
        key = (prefix, text)
        n = self.names.get(key)
        if n is None:
            n = "%s%d" % (prefix, len(self.names))
            self.names[key] = n
            self.defs.append("Definition %s : %s := %s." % (n, typ, text))
        return n

    def g_bytes(self, b):
        b = _bytes(b)
        if len(b) <= 2:
            return g_list([g_N(x) for x in b])
        return self._name("b", "list N", g_list([g_N(x) for x in b]))

    def g_change_raw(self, spec):
        k = spec[0]
        if k == "CC":
            nl = spec[4] if len(spec) > 4 else "\n"
            return "(CC %s %s %s)" % (g_path(spec[1]), self.g_bytes(enc(spec[2], nl)),
                                      g_opt(None if spec[3] is None else self.g_bytes(enc(spec[3], nl))))
        if k == "MV":
            return "(MV %s %s %s)" % (g_path(spec[1]), g_path(spec[2]), g_bool(spec[3]))
        if k == "CR":
            return "(CR %s %s)" % (g_path(spec[1]), g_bool(spec[2]))
        if k == "RM":
            return "(RM %s %s)" % (g_path(spec[1]), g_bool(spec[2]))
        if k == "CS":
            return "(CS %s %s)" % (g_N(L10.desc_id(spec[1])), g_list([self.g_change_raw(c) for c in spec[2]]))
        raise ValueError(k)

    def g_change(self, spec):
        return self._name("ch", "change", self.g_change_raw(spec))

    def g_changes(self, specs):
        if not specs:
            return "[]"
        return self._name("cl", "list change", g_list([self.g_change(c) for c in specs]))

    def g_tree(self, snap):
        items = []
        for p in sorted(snap):
            v = snap[p]
            if v is None:
                items.append(g_pair(g_path(p), "Dir"))
            elif isinstance(v, (bytes, str)):
                items.append(g_pair(g_path(p), "(File %s)" % self.g_bytes(v)))
            else:
                raise ValueError("unrepresentable node %r at %s" % (v, p))
        return self._name("tr", "list (list N * node)", g_list(items))

    def g_op(self, st):
        if st.kind in ("limit", "reopen"):
            return "(ORedo None)"
        if st.kind == "do":
            return "(ODo %s)" % self.g_change(st.change)
        sel = g_opt(None if st.sel is None else g_nat(min(max(st.sel, 0), 4000)))
        if st.kind == "undo":
            return "(OUndo %s %s)" % (sel, g_bool(st.drop))
        return "(ORedo %s)" % sel

    def g_step(self, st):
        deps = [d for d in (st.deps or [])]
        # writes to ignored resources go through rope's direct file-system commands, not through the observed ones
        blind = bool(self.ignored) and (st.kind != "do" or any(p in self.ignored for p in spec_paths(st.change)))
        irrev = (g_opt(g_bool(st.py_irrev))
                 if (st.kind not in ("limit", "reopen") and st.unknown_phase == 0 and not st.raised and not blind) else "None")
        setlim = g_opt(g_nat(min(st.sel, 4000))) if st.kind == "limit" else "None"
        stop = g_opt(None if getattr(st, "stop", None) is None else g_nat(min(st.stop, 4000)))
        return ("{| t_reopen := " + g_bool(st.kind == "reopen") + "; t_setlim := " + setlim + "; t_stop := " + stop + "; t_op := %s; o_raised := %s; o_err := %s; o_tree := %s; o_undo := %s; o_redo := %s; o_deps := %s; "
                "o_irrev := %s |}" % (
                    self.g_op(st), g_bool(st.raised), g_list([g_N(c) for c in st.codes]), self.g_tree(st.post_tree),
                    self.g_changes(st.post_undo), self.g_changes(st.post_redo),
                    g_list([g_nat(d if d >= 0 else 4999) for d in deps]), irrev))

    def g_case(self, ses):
        self.ignored = set(ses.ignored)
        steps = [st for st in ses.steps if st.build_error is None]
        segs = sorted(set(x for p in ses.paths for x in p.split("/") if x))
        spell = g_list([g_pair(g_N(SEG_ID[x]), self.g_bytes(x) if len(x) > 2 else g_list([g_N(ord(ch)) for ch in x]))
                        for x in segs])
        pats = g_list([self._name("b", "list N", g_list([g_N(ord(ch)) for ch in pat])) for pat in ses.patterns])
        return ("{| c_tree := %s; c_limit := %s; c_spell := %s; c_pats := %s; c_paths := %s; c_ign := %s; c_steps := %s |}" % (
            self.g_tree(ses.tree), g_nat(min(ses.max_undos, 4000)), spell, pats,
            g_list([g_path(p) for p in sorted(ses.paths)]), g_list([g_path(p) for p in sorted(ses.ignored)]),
            g_list([self.g_step(st) for st in steps])))

    def file_body(self, sessions, evals):
        cases = [self.g_case(s) for s in sessions]
        return (HEADER + "\n".join(self.defs) + "\nDefinition cases : list case := [\n %s].\n" % ";\n ".join(cases)
                + "".join("Eval vm_compute in (%s).\n" % e for e in evals))


def representable(ses):
    try:
        Printer().g_case(ses)
        return True
    except (KeyError, ValueError, TypeError):
        return False


HEADER = ("From Coq Require Import List NArith Bool.\nImport ListNotations.\n"
          "From RopeVerif.C10 Require Import FsModel Change.\n"
          "From RopeVerif.C11 Require Import History Runner.\n")
