"""C16 — files survive rope byte-for-byte apart from the intended edit.

Correspondence: real File.read() / File.write() / project.do(ChangeContents) on a temporary project, compared
inside Coq with the model of coq/C16 (FileModel.from_bytes / to_bytes / file_write / change_do, Cookie.cookie_bytes).
Oracle (independent of rope and of the model): CPython's own PEP 263 implementation (tokenize.detect_encoding,
tokenize.cookie_re) and str.encode/bytes.decode decide whether a file is inside the property (declared codec
known, bytes canonical, one newline convention) and what the bytes after an edit have to be.
"""
import codecs
import io
import os
import re
import shutil
import tempfile
import tokenize
import warnings

from harness.common import g_N, g_list, g_text, g_opt, g_pair, ensure_repo_on_path

PROPERTY = "C16"
NLS = {"LF": "\n", "CRLF": "\r\n", "CR": "\r"}
NL_CODE = {"\n": 0, "\r\n": 1, "\r": 2}
BOM = b"\xef\xbb\xbf"
UNDEF = 1114112

_READY = []


def rope_ready():
    """import rope from the tree under test once per process (re-importing costs 0.2 s)"""
    if not _READY:
        ensure_repo_on_path()
        _READY.append(True)


# --------------------------------------------------------------------------------------------- codecs
STD = {"utf-8": 0, "iso8859-1": 1, "ascii": 2}           # codecs.lookup(name).name of the codecs the model implements
CHARMAP_NAMES = ["cp1252", "koi8-r", "iso-8859-15", "cp1251", "iso-8859-2", "cp437", "mac-roman", "iso-8859-7"]
ORACLE_ONLY = ["euc-jp", "gbk", "shift_jis", "big5", "euc-kr",   # multi-byte codecs: oracle only
               "utf-7", "hz"]       # not ASCII supersets ('+' is '+-', '~' is '~~'): all-ASCII text still needs the declared codec
_TABLES = {}


def charmap_table(name):
    """256-entry decoding table of a single-byte codec, or None if the codec is not of that kind."""
    key = codecs.lookup(name).name
    if key in _TABLES:
        return _TABLES[key]
    tbl = []
    ok = True
    for i in range(256):
        try:
            s = bytes([i]).decode(name)
        except UnicodeDecodeError:
            tbl.append(UNDEF)
            continue
        if len(s) != 1:
            ok = False
            break
        tbl.append(ord(s))
    if ok:
        # must be a stateless one-byte-per-character codec in the other direction as well
        for i, cp in enumerate(tbl):
            if cp != UNDEF:
                try:
                    if chr(cp).encode(name) != bytes([tbl.index(cp)]):
                        ok = False
                except UnicodeEncodeError:
                    ok = False
        try:
            "ab".encode(name)
            if "ab".encode(name) != b"ab":
                ok = False
        except Exception:
            ok = False
    _TABLES[key] = tbl if ok else None
    return _TABLES[key]


def classify_name(name):
    """How the model can treat a codec name the scanner may come up with:
    ("std", id) | ("tbl", table) | ("unknown",) | ("unmodelled",)"""
    if any(ord(c) >= 128 for c in name):
        return ("unmodelled",)
    try:
        info = codecs.lookup(name)
    except LookupError:
        return ("unknown",)
    if info.name in STD:
        return ("std", STD[info.name])
    if info.name in [codecs.lookup(n).name for n in CHARMAP_NAMES]:
        tbl = charmap_table(name)
        if tbl is not None:
            return ("tbl", tbl)
    return ("unmodelled",)


# --------------------------------------------------------------------------------------------- oracle side
def newline_style(text):
    """'\n' | '\r\n' | '\r' | None (mixed) | '' (no line break at all)"""
    if "\r" not in text and "\n" not in text:
        return ""
    if "\r" not in text:
        return "\n"
    if "\n" not in text:
        return "\r"
    rest = text.replace("\r\n", "")
    if "\r" in rest or "\n" in rest:
        return None
    return "\r\n"


def py_cookie_name(first_two_lines):
    """CPython's cookie regular expression (tokenize.cookie_re) on the given lines (bytes)."""
    for line in first_two_lines:
        m = tokenize.cookie_re.match(line.decode("latin-1"))
        if m:
            return m.group(1)
    return None


def spec_of_bytes(data):
    """None when the file is outside the property; else (python codec name, text with '\n' line breaks,
    newline string or '' when the file has no line break)."""
    norm = data.replace(b"\r\n", b"\n").replace(b"\r", b"\n")
    try:
        enc_name, _ = tokenize.detect_encoding(io.BytesIO(norm).readline)
    except SyntaxError:
        return None
    if enc_name == "utf-8-sig":
        enc_name = "utf-8"          # rope keeps the BOM as U+FEFF in the text; bytes are what matters
    raw = py_cookie_name(norm.split(b"\n", 2)[:2])
    if raw is not None:
        try:
            if codecs.lookup(raw).name != codecs.lookup(enc_name).name:
                return None         # e.g. "latin-1-unix": accepted by the tokenizer, not a codec of the interpreter
        except LookupError:
            return None
    if codecs.lookup(enc_name).name in ("utf-16", "utf-32"):
        return None
    try:
        text = data.decode(enc_name)
        if text.encode(enc_name) != data:
            return None
    except (UnicodeError, LookupError):
        return None
    style = newline_style(text)
    if style is None:
        return None
    norm_text = text.replace(style, "\n") if style not in ("", "\n") else text
    return enc_name, norm_text, style


# --------------------------------------------------------------------------------------------- rope driver
class Impl:
    def __init__(self):
        rope_ready()
        from rope.base.project import Project
        self.Project = Project
        self.root = tempfile.mkdtemp(prefix="ropeverif-")
        self.project = None
        self.n = 0
        self._open()

    def _open(self):
        if self.project is not None:
            self.project.close()
        self.project = self.Project(self.root, ropefolder=None)
        self.writes = 0
        fsc = self.project.fscommands
        orig = fsc.write

        def counting_write(path, data, _orig=orig):
            self.writes += 1
            return _orig(path, data)
        fsc.write = counting_write

    def close(self):
        try:
            if self.project is not None:
                self.project.close()
        finally:
            shutil.rmtree(self.root, ignore_errors=True)

    def run(self, data, op, new):
        with warnings.catch_warnings():
            warnings.simplefilter("ignore")       # rope analyses the (arbitrary) module after a write
            return self._run(data, op, new)

    def _run(self, data, op, new):
        from rope.base import fscommands
        from rope.base.change import ChangeContents, ChangeSet
        self.n += 1
        if self.n % 400 == 0:
            self._open()                       # keeps the in-memory history short
        path = os.path.join(self.root, "m.py")
        with open(path, "wb") as f:
            f.write(data)
        res = {}
        f1 = self.project.get_file("m.py")
        text = f1.read()
        res["read"] = (text, f1.newlines)
        res["cookie"] = fscommands.read_str_coding(data)
        before = self.writes
        try:
            if op == 0:
                f1.write(new)
            else:
                fresh = self.project.get_file("m.py")
                cs = ChangeSet("edit")
                cs.add_change(ChangeContents(fresh, new) if op == 1 else ChangeContents(fresh, new, old_contents=text))
                self.project.do(cs)
            res["res"] = 0 if self.writes > before else 1
        except LookupError:
            res["res"] = 2
        except UnicodeEncodeError:
            res["res"] = 3
        except Exception as e:                  # nothing else is foreseen by the model
            res["res"] = 9
            res["exc"] = repr(e)
        with open(path, "rb") as f:
            res["after"] = f.read()
        f3 = self.project.get_file("m.py")
        res["reread"] = (f3.read(), f3.newlines)
        return res


# --------------------------------------------------------------------------------------------- Gallina
def g_bytes(b):
    return "[" + "; ".join("%d%%N" % x for x in b) + "]"


def g_read(r):
    return g_pair(g_text(r[0]), g_N(NL_CODE[r[1]]))


def candidate_names(data, new, r):
    """codec names the scanners may extract in this case (rope's own extraction on every string involved,
    CPython's group, and the generator's intent); only used to build the lookup tables of the case."""
    from rope.base import fscommands
    names = set()
    srcs = [data, r["after"]]
    for nl in ("\n", "\r\n", "\r"):
        srcs.append(new.replace("\n", nl))
    for s in srcs:
        try:
            n = fscommands.read_str_coding(s)
        except Exception:
            n = None
        if n is not None:
            names.add(n)
        try:
            sb = s if isinstance(s, bytes) else s.encode("utf-8", "replace")
            for variant in (sb, sb.replace(b"\r\n", b"\n").replace(b"\r", b"\n")):
                n2 = py_cookie_name(variant.split(b"\n", 2)[:2])
                if n2 is not None:
                    names.add(n2)
        except Exception:
            pass
    return names


def case_term(data, op, new, r):
    tbls, unknown, unmodelled = [], [], False
    for name in sorted(candidate_names(data, new, r)):
        k = classify_name(name)
        if k[0] == "tbl":
            tbls.append(g_pair(g_text(name), g_list([g_N(x) for x in k[1]])))
        elif k[0] == "unknown":
            unknown.append(g_text(name))
        elif k[0] == "unmodelled":
            unmodelled = True
    norm = data.replace(b"\r\n", b"\n").replace(b"\r", b"\n")
    pep = py_cookie_name(norm.split(b"\n", 2)[:2])        # CPython's regex, universal newlines
    term = ("{| c_bytes := %s; c_tbls := %s; c_unknown := %s; c_op := %s; c_new := %s; c_read := %s; "
            "c_cookie := %s; c_pep := %s; c_res := %s; c_after := %s; c_reread := %s |}" % (
                g_bytes(data), g_list(tbls), g_list(unknown), g_N(op), g_text(new), g_read(r["read"]),
                g_opt(None if r["cookie"] is None else g_text(r["cookie"])),
                g_opt(None if pep is None else g_text(pep)),
                g_N(r["res"]), g_bytes(r["after"]), g_read(r["reread"])))
    return term, unmodelled


HEADER = ("From Coq Require Import List NArith Bool.\nImport ListNotations.\n"
          "From RopeVerif.C16 Require Import Newlines Codec Cookie FileModel Runner.\n")

CODES = {1: "File.read()/File.newlines differ from FileModel.from_bytes",
         2: "read_str_coding(bytes) differs from Cookie.cookie_of",
         3: "outcome of the write (written/skipped/LookupError/UnicodeEncodeError) differs from the model",
         4: "bytes on disk after the write differ from FileModel.to_bytes",
         5: "File.read() after the write differs from FileModel.from_bytes",
         6: "Cookie.pep263_universal differs from CPython's tokenize.cookie_re on the first two lines",
         7: "model violates C16_bytes_roundtrip inside its domain",
         9: "a single-byte decoding table of the case is not ASCII-transparent (C16_charmap_laws does not apply)",
         100: "the model does not implement a codec the harness expected it to implement"}


# --------------------------------------------------------------------------------------------- oracle
def oracle(data, op, new, r):
    """Returns (domain_tag, failure or None).  Everything is judged from bytes on disk and CPython."""
    spec = spec_of_bytes(data)
    if spec is not None:
        enc_name, text, style = spec
        if r["read"][0] != text:
            return "inside", "File.read() returns %r, the file declares %s and holds %r" % (
                r["read"][0][:60], enc_name, text[:60])
        if style and r["read"][1] != style:
            return "inside", "File.newlines is %r for a file that consistently uses %r" % (r["read"][1], style)
    return edit_oracle(data, new, op == 0, r["res"], r["after"], r["reread"][0], exc=r.get("exc", ""))


def edit_oracle(data, new, is_file_write, res, after, reread, lenient_no_break=False, exc=""):
    """One edit of the file holding [data]: [new] is written (File.write when is_file_write, else ChangeContents).
    res: 0 written, 1 skipped, 2 LookupError, 3 UnicodeEncodeError; after: bytes on disk; reread: text a fresh File
    reads afterwards.  lenient_no_break: when the file has no line break at all it carries no convention, and any
    single convention is accepted for the text written (sessions: the File object may remember an earlier one)."""
    spec = spec_of_bytes(data)
    if spec is None:
        # outside the property; the only promise left: a refused write leaves the file alone
        if res in (1, 2, 3, 5) and after != data:
            return "outside", "write was refused/skipped but the bytes on disk changed"
        return "outside", None
    enc_name, text, style = spec
    if is_file_write and new == text:
        if after != data:
            return "inside", "File.write(File.read()) changed the bytes on disk"
        return "inside", None
    if "\r" in new:
        return "inside-newcr", None           # callers pass "\n"-normalised text; anything else is unspecified
    nls = [style] if style else (["\n", "\r\n", "\r"] if lenient_no_break else ["\n"])
    try:
        expected = [new.replace("\n", nl).encode(enc_name) for nl in nls]
    except UnicodeEncodeError:
        if res == 0 or after != data:
            # the new text cannot be written in the declared encoding: it must be refused, not half-written
            spec_after = spec_of_bytes(after)
            if spec_after is None or spec_after[1] != new:
                return "inside-unencodable", "unencodable text was written and does not read back"
        return "inside-unencodable", None
    spec_exp = spec_of_bytes(expected[0])
    same_decl = (spec_exp is not None and codecs.lookup(spec_exp[0]).name == codecs.lookup(enc_name).name
                 and spec_exp[1] == new)
    if not same_decl:
        # the edit changed the declaration itself: the file has to become the new text under its NEW declaration
        # (what CPython reads from the new text's first two lines, UTF-8 without one), in the old convention
        norm_new = new.encode("utf-8", "replace")
        raw = py_cookie_name(norm_new.split(b"\n", 2)[:2])
        try:
            enc2 = codecs.lookup(raw).name if raw is not None else "utf-8"
            expected2 = [new.replace("\n", nl).encode(enc2) for nl in nls]
            spec2 = spec_of_bytes(expected2[0])
        except (LookupError, UnicodeError):
            spec2 = None
        if spec2 is not None and spec2[1] == new and codecs.lookup(spec2[0]).name == enc2:
            if res != 0:
                return "inside-redeclared", "write of a text encodable under its own declaration was not performed (outcome %s %s)" % (res, exc)
            if after not in expected2:
                return "inside-redeclared", "bytes after an edit that changes the declaration are not the new text in the NEW declared encoding %s" % enc2
            if reread != new:
                return "inside-redeclared", "text written through rope does not read back equal"
            return "inside-redeclared", None
        if res == 0:
            spec_after = spec_of_bytes(after)
            if spec_after is not None and reread != new:
                return "inside-redeclared", "text written through rope does not read back equal"
        return "inside-redeclared", None
    if res != 0:
        return "inside", "write of an encodable text was not performed (outcome %s %s)" % (res, exc)
    if after not in expected:
        return "inside", "bytes after the edit differ from the text encoded as %s with %r newlines" % (enc_name, nls[0] if len(nls) == 1 else "any")
    if reread != new:
        return "inside", "text written through rope does not read back equal"
    return "inside", None


# --------------------------------------------------------------------------------------------- generator
ASCII_LINES = ["x = 1", "def f(a, b):", "    return a + b", "", "class C(object):", "    pass", "y = f(x, 2)  # sum",
               "s = 'text'", "# a comment", "import os", "\tz = [1, 2]", "print(s)", "if x:", "    y = -x",
               "# decoding is fun", "name = 'encoding'", "    # the coding style", "z = ~x + 1", "w += 1  # a+b~c"]
POOL = {
    "utf-8": "é\xa0ª\x85ÿλЖ€中文 ﻿😀𝒳\x0c\x1c",
    "iso8859-1": "éàü\xa0ª\x85ÿ×²",
    "ascii": "~\x0c\x0b\x1c",
    "cp1252": "é€œ™ÿ",
    "koi8-r": "Жяю─",
    "iso8859-15": "é€Šœ",
    "cp1251": "ЖяЁ№",
    "iso8859-2": "łŁčř",
    "cp437": "éñ░╬",
    "mac-roman": "é∞π",
    "iso8859-7": "λΩά",
    "euc_jp": "あ漢字ｱ",
    "gbk": "中文汉",
    "shift_jis": "あ漢ｱ",
    "big5": "中文",
    "euc_kr": "한글",
    "utf-7": "+~é中&",
    "hz": "~中文{}",
}
NAME_SPELLINGS = {
    "utf-8": ["utf-8", "UTF-8", "utf8", "utf_8", "U8", "Utf-8", "utf"],
    "iso8859-1": ["latin-1", "Latin-1", "latin1", "iso-8859-1", "ISO-8859-1", "iso8859-1", "L1", "latin_1", "cp819", "latin"],
    "ascii": ["ascii", "us-ascii", "ASCII", "646"],
}
COOKIE_FORMS = ["# -*- coding: %s -*-", "# vim: set fileencoding=%s :", "# coding=%s", "#coding:%s", "# coding: %s",
                "\t # This Python file uses the following encoding: %s", "#!/usr/bin/python  -*- coding:\t%s -*-",
                "# -*- mode: python; coding: %s; -*-"]


def codec_key(name):
    return codecs.lookup(name).name


def gen_line(rng, pool):
    k = rng.random()
    if k < 0.55:
        return rng.choice(ASCII_LINES)
    base = rng.choice(ASCII_LINES)
    ch = "".join(rng.choice(pool) for _ in range(rng.randint(1, 3)))
    if k < 0.8:
        return "s = '%s'" % ch
    if k < 0.9:
        return base + "  # " + ch
    return ch


def gen_body(rng, pool, lo=0, hi=6):
    return [gen_line(rng, pool) for _ in range(rng.randint(lo, hi))]


def gen_valid(rng):
    """A file inside the property + an edit.  Returns a case dict."""
    k = rng.random()
    if k < 0.30:
        enc_name, names = "utf-8", NAME_SPELLINGS["utf-8"]
        declare = rng.random() < 0.4
    elif k < 0.55:
        enc_name, names, declare = "iso8859-1", NAME_SPELLINGS["iso8859-1"], True
    elif k < 0.62:
        enc_name, names, declare = "ascii", NAME_SPELLINGS["ascii"], True
    elif k < 0.85:
        n = rng.choice(CHARMAP_NAMES)
        enc_name, names, declare = codec_key(n), [n, n.upper()], True
    else:
        n = rng.choice(ORACLE_ONLY)
        enc_name, names, declare = codec_key(n), [n], True
    pool = POOL[enc_name]
    header = []
    bom = False
    if declare:
        cookie = rng.choice(COOKIE_FORMS) % rng.choice(names)
        pos = rng.random()
        if pos < 0.5:
            header = [cookie]
        elif pos < 0.75:
            header = ["#!/usr/bin/env python", cookie]
        elif pos < 0.85:
            header = ["", cookie]
        else:
            header = [rng.choice(["# note", "# x", "# an é"]), cookie]
            if enc_name != "utf-8":
                header[0] = "# note"      # CPython rejects a non-UTF-8 line before the declaration
    else:
        r2 = rng.random()
        if r2 < 0.15:
            bom = True
        elif r2 < 0.3:
            header = ["#!/usr/bin/env python"]
    if rng.random() < 0.12 and not bom:
        # a long first line (banner / shebang): the declaration on line 2 lies beyond, or straddles, character 256
        n = rng.choice([200, 230, rng.randint(236, 262), 256, 300, 400])
        first = rng.choice(["#" + "-" * n, "#!/usr/bin/env python" + " " * n + "# banner", "# " + "=*" * (n // 2)])
        if declare:
            header = [first, cookie]
        else:
            header = [first]
        if rng.random() < 0.25 and declare:
            header = [" " * rng.randint(225, 255) + cookie.lstrip()]     # the declaration itself straddles 256
    body = gen_body(rng, pool)
    shape = rng.random()
    lines = header + body
    if shape < 0.06:
        lines, final_nl = header, False
    elif shape < 0.10:
        lines, final_nl = header + [""] * rng.randint(1, 3), True       # only newlines after the header
    else:
        final_nl = rng.random() < 0.7
    text = "\n".join(lines) + ("\n" if final_nl and lines else "")
    if bom:
        text = "﻿" + text
    style = rng.choice(["LF", "LF", "CRLF", "CRLF", "CR"])
    data = text.replace("\n", NLS[style]).encode(enc_name)
    # the edit: replace a region after the header by generated text
    start_min = len("\n".join(header)) + (1 if header and len(lines) > len(header) else 0) if header else (1 if bom else 0)
    start_min = min(start_min, len(text))
    e = rng.random()
    if e < 0.12:
        new = text                                                    # same text back
    else:
        i = rng.randint(start_min, len(text))
        j = min(len(text), i + rng.choice([0, 0, 1, 3, 8, 40]))
        ins_lines = gen_body(rng, pool, 0, 3)
        ins = "\n".join(ins_lines)
        if rng.random() < 0.5 and ins_lines:
            ins += "\n"
        if rng.random() < 0.15:
            ins = rng.choice(["", "\n", "\n\n", "q"])
        new = text[:i] + ins + text[j:]
    op = 0 if rng.random() < 0.5 else 1
    if rng.random() < 0.04:
        op = 2
    return {"stream": "valid", "data": data, "op": op, "new": new,
            "intent": {"encoding": enc_name, "newline": style, "declared": declare}}


HOSTILE_COOKIES = [
    "# encoding coding: latin-1", "# decoding/coding: latin-1", "# coding coding=latin-1", "# -*- coding : latin-1 -*-",
    "# coding: latin-1é", "# coding: latin-1ª", "# coding:\x0clatin-1", "# coding:\xa0latin-1", "# coding:\x0c coding: latin-1",
    "# coding: foo", "# coding: utf-9", "# coding: .x", "# coding: utf-8-unix", "# coding: latin-1-dos", "# coding: latin.1",
    "# coding:", "# coding", "# coding=", "#coding", "# coding: ", "x = 1  # coding: latin-1", "# codin: latin-1",
    "# coding: utf-8-sig", "# coding: utf-16", "# coding: cp1252", "# coding: koi8-r", "# Coding: latin-1",
    "# coding: ascii", "# coding: latin-1", "# coding: utf-8", "\x0c# coding: latin-1", "# ècoding: latin-1",
    "# coding: lat\xadin-1", "# coding=latin-1 coding", "# coding:latin-1:coding:utf-8", "# codingcoding: latin-1",
    "# encoding: latin-1", "# fileencoding = latin-1", "#  coding=latin-1.", "# coding: utf-8.", "# coding: ansi_x3.4-1968",
]


def gen_hostile(rng):
    """Files and edits around the edges of the property: mostly outside it, some inside."""
    kind = rng.choice(["cookie", "cookie", "cookie", "mixed", "late", "bom", "badbytes", "random", "newtext", "redeclare"])
    pool = POOL["iso8859-1"]
    body = gen_body(rng, pool, 0, 4)
    style = NLS[rng.choice(["LF", "CRLF", "CR"])]
    enc_name = rng.choice(["latin-1", "utf-8"])
    op = rng.choice([0, 1, 1])
    if kind == "cookie":
        c = rng.choice(HOSTILE_COOKIES)
        lines = ([c] if rng.random() < 0.6 else [rng.choice(["#!/bin/sh", "", "x = 1", "# first"]), c]) + body
        text = "\n".join(lines) + rng.choice(["", "\n"])
    elif kind == "mixed":
        lines = ["# coding: " + enc_name] * rng.randint(0, 1) + body + ["end"]
        text = "".join(l + rng.choice(["\n", "\r\n", "\r", "\n\r", "\r\r\n"]) for l in lines)
        style = "\n"
    elif kind == "late":
        lines = ["# one", "# two", "# coding: latin-1"] + body
        text = "\n".join(lines) + "\n"
    elif kind == "bom":
        lines = [rng.choice(["# coding: utf-8", "# coding: latin-1", "x = 1", ""])] + rng.sample(
            ["# coding: utf-8", "# coding: latin-1"], 1) * rng.randint(0, 1) + body
        text = "﻿" + "\n".join(lines) + "\n"
        enc_name = "utf-8"
    elif kind == "badbytes":
        lines = rng.choice([[], ["# coding: utf-8"], ["# coding: ascii"], ["# coding: cp1252"]]) + body + ["s = 'é\x81'"]
        text = "\n".join(lines) + "\n"
        enc_name = "latin-1"
    elif kind == "random":
        n = rng.randint(0, 30)
        alphabet = [10, 13, 13, 10, 35, 32, 99, 111, 100, 105, 110, 103, 58, 61, 108, 49, 45, 0xe9, 0xc3, 0xa9, 0x80, 0xff, 0]
        data = bytes(rng.choice(alphabet) for _ in range(n))
        if rng.random() < 0.4:
            data = b"# coding" + data
        new = data.decode("latin-1").replace("\r", "") + rng.choice(["", "x\n", "é"])
        return {"stream": "hostile", "data": data, "op": op, "new": new, "intent": {"kind": kind}}
    else:
        lines = ["# coding: " + enc_name] * rng.randint(0, 1) + body
        text = "\n".join(lines) + "\n"
    try:
        data = text.replace("\n", style).encode(enc_name)
    except UnicodeEncodeError:
        data = text.replace("\n", style).encode("utf-8")
    base = text
    e = rng.random()
    if kind == "newtext":
        extra = rng.choice(["s = '€'", "t = '\ud800'", "u = 'a\rb'", "v = '中'", "w = '\U0001f600'", "# coding: ascii"])
        new = base + extra + "\n"
    elif kind == "redeclare":
        newdecl = rng.choice(["# coding: utf-8", "# coding: latin-1", "# coding: cp1252", "# coding: foo", ""])
        new = newdecl + "\n" + "\n".join(body) + "\n"
    elif e < 0.3:
        new = base
    elif e < 0.8:
        new = base + "added = 'é'\n"
    else:
        i = rng.randint(0, len(base))
        new = base[:i] + rng.choice(["", "z", "\n", "# coding: utf-8\n"]) + base[min(len(base), i + rng.randint(0, 5)):]
    if "\r" in new and kind != "newtext":
        new = new.replace("\r\n", "\n").replace("\r", "\n")
    return {"stream": "hostile", "data": data, "op": op, "new": new, "intent": {"kind": kind}}


FIXED = [
    {"data": b"", "op": 0, "new": ""},
    {"data": b"", "op": 1, "new": "x = 1\n"},
    {"data": b"\n\n\n", "op": 1, "new": "\n\n"},
    {"data": b"\r\n\r\n", "op": 1, "new": "\n\n\n"},
    {"data": b"\r\r", "op": 0, "new": "\n"},
    {"data": b"x = 1", "op": 0, "new": "x = 1\ny = 2"},
    {"data": b"x = 1\r\ny = 2", "op": 0, "new": "x = 1\ny = 3"},
    {"data": "# -*- coding: latin-1 -*-\r\ns = '\xe9'\r\n".encode("latin-1"), "op": 1, "new": "# -*- coding: latin-1 -*-\ns = '\xe9\xe8'\n"},
    {"data": "#!/bin/sh\r# vim: set fileencoding=iso-8859-1 :\rs = '\xe9'".encode("latin-1"), "op": 0,
     "new": "#!/bin/sh\n# vim: set fileencoding=iso-8859-1 :\ns = '\xe9'\nt = 2"},
    {"data": "s = '\U0001f600中'\n".encode("utf-8"), "op": 1, "new": "s = '\U0001f600中'\nq = 'λ'\n"},
    {"data": BOM + b"# coding: utf-8\nx = 1\n", "op": 1, "new": "﻿# coding: utf-8\nx = 2\n"},
    {"data": b"a\r\nb\rc\n", "op": 1, "new": "a\nb\nc\n"},
]
for _n in (200, 238, 250, 256, 300, 400):
    _t = "#" + "-" * _n + "\n# -*- coding: latin-1 -*-\ns = 'é'\n"
    FIXED.append({"data": _t.replace("\n", "\r\n").encode("latin-1"), "op": 1, "new": _t + "y = 1\n", "stream": "fixed-long-header"})
    _t = " " * (_n - 10) + "# coding: iso-8859-15\ns = '€'\n"
    FIXED.append({"data": _t.encode("iso-8859-15"), "op": 0, "new": _t + "y = 1\n", "stream": "fixed-long-header"})
for _enc, _body in (("utf-7", "x = a + b\ny = '+-'\n"), ("hz", "x = ~a\ny = '~{'\n"), ("utf-7", "s = 'é'\nx = 1 + 2\n")):
    for _nl in ("\n", "\r\n"):
        _t = "# coding: %s\n%s" % (_enc, _body)
        FIXED.append({"data": _t.replace("\n", _nl).encode(_enc), "op": 1, "new": _t, "stream": "fixed-non-ascii-superset"})
        FIXED.append({"data": _t.replace("\n", _nl).encode(_enc), "op": 0, "new": _t + "z = 3\n", "stream": "fixed-non-ascii-superset"})
# PEP 263 allows a dot in the declared name and the codec registry resolves it (iso-8859.15 -> iso8859_15): a
# dotted name of a codec that is NOT rope's latin-1 fallback, so a truncated name shows in what is read
for _name, _enc, _lit in (("iso-8859.15", "iso-8859-15", "€"), ("windows.1251", "cp1251", "жук")):
    for _nl in ("\n", "\r\n"):
        _t = "# coding: %s\ns = '%s'\n" % (_name, _lit)
        FIXED.append({"data": _t.replace("\n", _nl).encode(_enc), "op": 1, "new": _t + "y = 1\n", "stream": "fixed-dotted-codec"})
        FIXED.append({"data": _t.replace("\n", _nl).encode(_enc), "op": 0, "new": _t + "z = '%s'\n" % _lit, "stream": "fixed-dotted-codec"})
for _ck in HOSTILE_COOKIES:
    for _enc, _nl in (("latin-1", "\n"), ("utf-8", "\r\n")):
        _t = _ck + "\ns = 'é'\n"
        FIXED.append({"data": _t.replace("\n", _nl).encode(_enc), "op": 1, "new": _t + "y = 1\n", "stream": "fixed-cookie"})
for _c in FIXED:
    _c.setdefault("stream", "fixed")
    _c.setdefault("intent", {})


# --------------------------------------------------------------------------------------------- signature / replay
_NAME_GATE = b"-_.abcdefghijklmnopqrstuvwxyzABCDEFGHIJKLMNOPQRSTUVWXYZ0123456789"
_NAME_FIND = b"-_abcdefghijklmnopqrstuvwxyzABCDEFGHIJKLMNOPQRSTUVWXYZ0123456789"


def first_coding_is_cookie(line):
    """Mirror of Cookie.first_coding_is_cookie: the first occurrence of "coding" on the line is followed by ':' or
    '=', blanks, a name character, and the run of [-_a-zA-Z0-9] ends at the end of the line or before an ASCII
    character other than '.' (then re-scanning from the first occurrence yields the regular expression's group)."""
    i = line.find(b"coding")
    if i < 0 or i + 6 >= len(line):
        return True
    i += 6
    if line[i:i + 1] not in (b":", b"="):
        return False
    i += 1
    while i < len(line) and line[i:i + 1] in (b" ", b"\t"):
        i += 1
    if i >= len(line) or line[i] not in _NAME_GATE:
        return False
    while i < len(line) and line[i] in _NAME_FIND:
        i += 1
    return i >= len(line) or (line[i] < 128 and line[i:i + 1] != b".")


def first_coding_not_declaration(data):
    """Some line among the first two carries a PEP 263 declaration (CPython's regex) and re-scanning that line from
    the first occurrence of "coding" (what _find_coding does) does not yield the declared name."""
    for line in data.split(b"\n", 2)[:2]:
        m = tokenize.cookie_re.match(line.decode("latin-1"))
        if m:
            return not first_coding_is_cookie(line)
    return False


def cr_only_hidden_declaration(data):
    """CR-only file in which the first two LF-separated pieces (all rope looks at: the whole file) and the first
    two lines as CPython sees them (universal newlines) give different PEP 263 declarations."""
    if b"\r" not in data or b"\n" in data:
        return False
    norm = data.replace(b"\r", b"\n")
    return py_cookie_name(data.split(b"\n", 2)[:2]) != py_cookie_name(norm.split(b"\n", 2)[:2])


def signature(obj):
    """Structural class of a failing input.  No finding of C16 is open (the three classes below were fixed by
    f64a998, c286168, 2fa467c and are replayed from corpus/C16), so no signature is matched any more; the classes
    are kept because they name the defect in the replay file if it ever comes back."""
    kind = obj.get("kind")
    if kind == "session":
        from harness import c16_sessions
        return c16_sessions.signature(obj)
    if kind == "refactor-file":
        from harness import c16_refactor
        return c16_refactor.signature(obj)
    if kind == "reopen-undo":
        return "stale-newlines:File.newlines unset when old_contents is supplied"
    if kind == "refactor":
        return "refactor:%s" % obj.get("refactoring")
    if kind != "file":
        return "other:%s" % kind
    data = bytes.fromhex(obj["data_hex"])
    # the same scanners run on the text that is written (with the file's newline convention applied)
    style = newline_style(data.decode("latin-1")) or "\n"
    written = "".join(chr(c) for c in obj["new"]).replace("\n", style).encode("utf-8", "replace")
    if cr_only_hidden_declaration(data) or cr_only_hidden_declaration(written):
        return "cr-only:read_str_coding splits on LF only, declaration seen differently from CPython"
    if first_coding_not_declaration(data) or first_coding_not_declaration(written):
        return "cookie:re-scan from the first 'coding' differs from the PEP 263 regex group"
    if obj["op"] == 2 and newline_style(data.decode("latin-1")) in ("\r\n", "\r"):
        return "stale-newlines:File.newlines unset when old_contents is supplied"
    return "other:file"


def replay_obj(case):
    return {"kind": "file", "data_hex": case["data"].hex(), "op": case["op"], "new": [ord(c) for c in case["new"]],
            "stream": case.get("stream"), "intent": case.get("intent")}


def run_reopen_undo(data, new):
    """Edit a file, close the project, reopen it, undo.  Returns the bytes after the edit and after the undo."""
    rope_ready()
    from rope.base.project import Project
    root = tempfile.mkdtemp(prefix="ropeverif-")
    try:
        path = os.path.join(root, "m.py")
        with open(path, "wb") as f:
            f.write(data)
        p = Project(root)
        p.get_file("m.py").write(new)
        with open(path, "rb") as f:
            edited = f.read()
        p.close()
        p = Project(root)
        p.history.undo()
        with open(path, "rb") as f:
            undone = f.read()
        p.history.redo()
        with open(path, "rb") as f:
            redone = f.read()
        p.close()
        return edited, undone, redone
    finally:
        shutil.rmtree(root, ignore_errors=True)


REFACTOR_SRC = ("%(header)simport os\n\n\ndef oldname(a, b):\n    s = '%(ch)s'  # %(ch)s\n    return a + b\n\n\n"
                "x = oldname(1, 2)\nprint(oldname, '%(ch)s')%(final)s")


def run_refactoring(which, data):
    """A real refactoring as the edit.  Returns bytes on disk afterwards."""
    rope_ready()
    from rope.base.project import Project
    from rope.refactor.rename import Rename
    from rope.refactor.extract import ExtractVariable
    root = tempfile.mkdtemp(prefix="ropeverif-")
    try:
        path = os.path.join(root, "m.py")
        with open(path, "wb") as f:
            f.write(data)
        with warnings.catch_warnings():
            warnings.simplefilter("ignore")
            p = Project(root, ropefolder=None)
            try:
                res = p.get_file("m.py")
                text = res.read()
                if which == "rename":
                    changes = Rename(p, res, text.index("oldname") + 1).get_changes("newname")
                else:
                    start = text.index("a + b")
                    changes = ExtractVariable(p, res, start, start + 5).get_changes("v")
                p.do(changes)
            finally:
                p.close()
        with open(path, "rb") as f:
            return f.read()
    finally:
        shutil.rmtree(root, ignore_errors=True)


def refactoring_expected(which, text):
    if which == "rename":
        return text.replace("oldname", "newname")
    return text.replace("    return a + b\n", "    v = a + b\n    return v\n")


def refactoring_cases():
    for enc_name, cookie, ch in (("utf-8", "", "é中😀"), ("latin-1", "# -*- coding: latin-1 -*-\n", "éÿ\xa0"),
                                 ("cp1252", "#!/usr/bin/env python\n# vim: set fileencoding=cp1252 :\n", "€é"),
                                 ("euc-jp", "# coding: euc-jp\n", "漢字")):
        for nl in ("\n", "\r\n", "\r"):
            for final in ("\n", ""):
                text = REFACTOR_SRC % {"header": cookie, "ch": ch, "final": final}
                yield enc_name, nl, text


def check_refactoring(which, enc_name, nl, text):
    data = text.replace("\n", nl).encode(enc_name)
    after = run_refactoring(which, data)
    expected = refactoring_expected(which, text).replace("\n", nl).encode(enc_name)
    return data, after, expected


MULTI = [("a.py", "latin-1", "\r\n", "# -*- coding: latin-1 -*-\ndef oldname():\n    return 'é'\n"),
         ("b.py", "utf-8", "\n", "from a import oldname\nprint(oldname(), '中😀')\n"),
         ("c.py", "cp1252", "\r", "# vim: set fileencoding=cp1252 :\nimport a\nx = a.oldname()  # €"),
         ("d.py", "utf-8", "\r\n", "import os\n\n\ndef other():\n    return 'é'\n")]


def run_multi_rename():
    """One Rename whose change set edits three files with three encodings and newline conventions (and leaves a
    fourth alone).  Returns [(name, before, after, expected)]."""
    rope_ready()
    from rope.base.project import Project
    from rope.refactor.rename import Rename
    root = tempfile.mkdtemp(prefix="ropeverif-")
    try:
        for name, enc_name, nl, text in MULTI:
            with open(os.path.join(root, name), "wb") as f:
                f.write(text.replace("\n", nl).encode(enc_name))
        with warnings.catch_warnings():
            warnings.simplefilter("ignore")
            p = Project(root, ropefolder=None)
            try:
                res = p.get_file("a.py")
                changes = Rename(p, res, res.read().index("oldname") + 1).get_changes("newname")
                p.do(changes)
                mid = [open(os.path.join(root, name), "rb").read() for name, _, _, _ in MULTI]
                p.history.undo()
            finally:
                p.close()
        out = []
        for (name, enc_name, nl, text), after in zip(MULTI, mid):
            before = text.replace("\n", nl).encode(enc_name)
            expected = text.replace("oldname", "newname").replace("\n", nl).encode(enc_name)
            undone = open(os.path.join(root, name), "rb").read()
            out.append((name, before, after, expected, undone))
        return out
    finally:
        shutil.rmtree(root, ignore_errors=True)


def replay(ctx, obj):
    kind = obj.get("kind")
    if kind == "multi-rename":
        return any(after != expected or undone != before for _, before, after, expected, undone in run_multi_rename())
    if kind == "session":
        from harness import c16_sessions
        return c16_sessions.replay(ctx, obj)
    if kind == "refactor-file":
        from harness import c16_refactor
        return c16_refactor.replay(ctx, obj)
    if kind == "refactor":
        text = "".join(chr(c) for c in obj["text"])
        data, after, expected = check_refactoring(obj["refactoring"], obj["encoding"], obj["newline"], text)
        return after != expected
    if kind == "reopen-undo":
        data = bytes.fromhex(obj["data_hex"])
        new = "".join(chr(c) for c in obj["new"])
        edited, undone, redone = run_reopen_undo(data, new)
        return undone != data or redone != edited
    if kind == "file":
        data = bytes.fromhex(obj["data_hex"])
        new = "".join(chr(c) for c in obj["new"])
        impl = Impl()
        try:
            r = impl.run(data, obj["op"], new)
        finally:
            impl.close()
        return oracle(data, obj["op"], new, r)[1] is not None
    return False


# --------------------------------------------------------------------------------------------- run
def evaluate(ctx, cases, impl, results=None):
    """Runs rope (unless the results are supplied), the model (in Coq) on the cases; returns (results, mismatch codes
    by index, whether the harness expected the model not to implement a codec of the case)."""
    if results is None:
        results = [impl.run(c["data"], c["op"], c["new"]) for c in cases]
    shard = 250
    bodies, expected_unmodelled = [], []
    for s in range(0, len(cases), shard):
        terms = []
        for c, r in zip(cases[s:s + shard], results[s:s + shard]):
            term, unmod = case_term(c["data"], c["op"], c["new"], r)
            terms.append(term)
            expected_unmodelled.append(unmod)
        bodies.append(HEADER + "Definition cases : list case := %s.\nEval vm_compute in (mismatches cases).\n"
                      "Eval vm_compute in (count_in_domain cases).\n" % g_list(terms).replace("; {|", ";\n {|"))
    outs = ctx.coq_files_parallel(bodies)
    mism = {}
    indom = 0
    for si, out in enumerate(outs):
        pairs = ctx.parse_pairs(out)
        for (i, code) in (pairs[0] if pairs else []):
            mism[si * shard + i] = code
        nums = ctx.parse_nums(out)
        indom += nums[-1][0] if nums and nums[-1] else 0
    ctx.extra["cases_in_domain_of_C16_bytes_roundtrip"] = ctx.extra.get("cases_in_domain_of_C16_bytes_roundtrip", 0) + indom
    return results, mism, expected_unmodelled


def neighbourhood(case, impl, rng):
    """A model/implementation disagreement on which the oracle passes: look for an input near it on which the
    oracle fails (other operations, other newline conventions, other edits of the same file)."""
    data, new = case["data"], case["new"]
    spec = spec_of_bytes(data)
    variants = []
    texts = [new, new + "x = 'é'\n", "y = 1\n" + new, new[: len(new) // 2]]
    if spec is not None:
        texts += [spec[1], spec[1] + "added = 1\n", spec[1] + "s = 'é'\n", spec[1][:-1]]
    datas = [data]
    try:
        t = data.decode("latin-1")
        for a, b in (("\r\n", "\n"), ("\n", "\r\n"), ("\r", "\n")):
            datas.append(t.replace("\r\n", "\n").replace("\n", b).encode("latin-1") if a == "\n" else t.replace(a, b).encode("latin-1"))
    except Exception:
        pass
    for d in datas:
        for tx in texts:
            for op in (1, 0):
                variants.append({"data": d, "op": op, "new": tx, "stream": "neighbourhood", "intent": case.get("intent")})
    for v in variants:
        r = impl.run(v["data"], v["op"], v["new"])
        tag, fail = oracle(v["data"], v["op"], v["new"], r)
        if fail:
            return v, fail
    return None, None


def check_cases(ctx, cases, impl):
    results, mism, expected_unmodelled = evaluate(ctx, cases, impl)
    for idx, (c, r) in enumerate(zip(cases, results)):
        tag, fail = oracle(c["data"], c["op"], c["new"], r)
        code = mism.get(idx, 0)
        modelled = not (code == 100 and expected_unmodelled[idx])
        spec = spec_of_bytes(c["data"])
        nontrivial = tag.startswith("inside") and r["res"] == 0 and (
            any(b >= 128 for b in c["data"]) or b"\r" in c["data"] or r["cookie"] is not None)
        ctx.case(("file", c["data"].hex(), c["op"], c["new"]), nontrivial=nontrivial)
        ctx.count("stream:" + c["stream"])
        ctx.count("oracle:" + tag)
        ctx.count("op:%d" % c["op"])
        ctx.count("outcome:" + {0: "written", 1: "skipped", 2: "LookupError", 3: "UnicodeEncodeError"}.get(r["res"], "other"))
        ctx.count("newline_detected:%r" % r["read"][1])
        if spec is not None:
            ctx.count("inside:encoding=" + codecs.lookup(spec[0]).name)
        if modelled:
            ctx.traces += 1
            ctx.count("model:evaluated")
        else:
            ctx.count("model:codec-not-modelled(oracle only)")
        if c["stream"] == "valid" and spec is None:
            ctx.count("generator:valid-stream-case-outside-property")
        if c["stream"] == "valid" and spec is not None and codecs.lookup(spec[0]).name != c["intent"]["encoding"]:
            ctx.count("generator:intent-disagrees-with-cpython")
        rp = replay_obj(c)
        reported = False
        if fail:
            reported = ctx.violation(dict(rp, observed=fail), "C16: %s (file %r, op %d)" % (fail, c["data"][:80], c["op"]))
        if code != 0 and modelled and not reported:
            # model and implementation disagree (also reported when the oracle's failure is a known finding:
            # the theorems then no longer describe what the code does on this input)
            what = CODES.get(code, "code %d" % code)
            v, vfail = (None, None) if fail else neighbourhood(c, impl, ctx.rng)
            if v is not None:
                reported = ctx.violation(dict(replay_obj(v), observed=vfail, found_near=rp),
                                         "C16: %s (file %r, op %d)" % (vfail, v["data"][:80], v["op"]))
            if not reported:
                ctx.violation(dict(rp, mismatch=what, impl={k: repr(x)[:200] for k, x in r.items()},
                                   broken="correspondence RopeVerif.C16.Runner.run_case (%s): theorems C16_bytes_roundtrip / C16_text_roundtrip / "
                                          "C16_cookie_agree / C16_cookie_pep263 / C16_change_preserves_rest no longer speak about "
                                          "rope/base/fscommands.py, change.py" % what),
                              "C16: %s on file %r op %d new %r" % (what, c["data"][:80], c["op"], c["new"][:60]), no_input=True)
        if ctx.too_many():
            break
    return results


def run(ctx):
    ctx.rule = ("files generated from one PRNG: text (ASCII / Latin-1 / BMP / astral / U+0085 U+00A0 U+2028 U+FEFF, with "
                "and without final newline, empty, only newlines) x newline convention (LF, CRLF, CR) x encoding (utf-8 "
                "default or declared, latin-1, ascii, 8 single-byte charmap codecs given to the model as tables, 5 multi-byte "
                "codecs oracle-only) x cookie form and position x operation (File.write, ChangeContents on a fresh File, "
                "ChangeContents with explicit old_contents) x edit (region replaced after the header); plus a hostile "
                "stream (mixed newlines, malformed / repeated / unknown cookies, BOM, invalid bytes, random bytes, "
                "unencodable or redeclaring new text). Non-trivial: inside the property, a write was performed, and the "
                "file has a non-ASCII byte, a CR, or a cookie; distinct by (bytes, op, new text).")
    ctx.assumptions += [
        "codecs other than utf-8/latin-1/ascii satisfy codec_ok (dec(enc t)=t, ASCII-transparent): proved for the single-byte "
        "tables of the cases (checked in Coq per case), assumed for the multi-byte codecs, which the oracle covers",
        "the property's domain is decided by CPython (tokenize.detect_encoding, codecs.lookup, bytes.decode/str.encode): declared "
        "codec known, bytes canonical in it, one newline convention",
        "texts handed to rope for writing use '\\n' line breaks (what rope's own read() returns)",
    ]
    impl = Impl()
    try:
        cases = [dict(c) for c in FIXED]
        n_valid = ctx.scale(900, 9000)
        n_hostile = ctx.scale(500, 5000)
        for _ in range(n_valid):
            cases.append(gen_valid(ctx.rng))
        for _ in range(n_hostile):
            cases.append(gen_hostile(ctx.rng))
        results = check_cases(ctx, cases, impl)
        for c, r in list(zip(cases, results))[14:17]:
            ctx.sample({"bytes": repr(c["data"])[:200], "op": c["op"], "new": c["new"][:120], "read": repr(r["read"])[:160],
                        "outcome": r["res"], "after": repr(r["after"])[:200]})
    finally:
        impl.close()
    from harness import c16_sessions, c16_refactor
    c16_sessions.run(ctx)
    c16_refactor.run(ctx)
    # real refactorings as the edit (oracle only: bytes on disk = original bytes with the intended edit)
    for which in ("rename", "extract_variable"):
        for enc_name, nl, text in refactoring_cases():
            data, after, expected = check_refactoring(which, enc_name, nl, text)
            ctx.case(("refactor", which, enc_name, nl, text), nontrivial=True)
            ctx.count("stream:refactoring:" + which)
            if after != expected:
                ctx.violation({"kind": "refactor", "refactoring": which, "encoding": enc_name, "newline": nl,
                               "text": [ord(c) for c in text], "observed": repr(after)[:400], "expected": repr(expected)[:400]},
                              "C16: %s on a %s file with %r line ends: bytes differ from the original with the intended edit" % (
                                  which, enc_name, nl))
    for name, before, after, expected, undone in run_multi_rename():
        ctx.case(("multi-rename", name), nontrivial=True)
        ctx.count("stream:refactoring:multi-file-rename")
        if after != expected or undone != before:
            ctx.violation({"kind": "multi-rename", "file": name, "observed": repr(after)[:300], "expected": repr(expected)[:300],
                           "after_undo": repr(undone)[:300]},
                          "C16: multi-file Rename: %s differs from the original with the intended edit (or undo does not restore it)" % name)
    # close / reopen / undo keeps the newline convention (History reloads ChangeContents with old_contents)
    for data, new in [(b"x = 1\ny = 2\n", "x = 1\ny = 2\nz = 3\n"),
                      (b"x = 1\r\ny = 2\r\n", "x = 1\ny = 2\nz = 3\n"),
                      (b"x = 1\ry = 2\r", "x = 1\ny = 2\nz = 3\n")]:
        edited, undone, redone = run_reopen_undo(data, new)
        ctx.case(("reopen-undo", data.hex(), new), nontrivial=b"\r" in data)
        ctx.count("stream:reopen-undo")
        if undone != data or redone != edited:
            ctx.violation({"kind": "reopen-undo", "data_hex": data.hex(), "new": [ord(c) for c in new],
                           "observed": "after close/reopen, undo wrote %r (file was %r), redo wrote %r (edit had written %r)" % (
                               undone, data, redone, edited)},
                          "C16: undo after reopening the project rewrites the newline convention of %r" % data)
